(* Diagnostics domain (C17): compare the implementation's results with the model, run the C17
   oracles on the implementation's outputs. *)
open Model
open Zu

exception Bad of string

let dtype_name = function
  | DtBit -> "Bit" | DtBit2 -> "Bit2" | DtBit4 -> "Bit4" | DtByte -> "Byte"
  | DtWord -> "Word" | DtDWord -> "DWord" | DtInvalid -> "Invalid"
let all_dtypes = [DtBit; DtBit2; DtBit4; DtByte; DtWord; DtDWord; DtInvalid]
let dtype_of_name s =
  try List.find (fun d -> dtype_name d = s) all_dtypes with Not_found -> raise (Bad ("dtype " ^ s))

let error_name = function
  | CeShortCircuit -> "ShortCircuit" | CeUnderVoltage -> "UnderVoltage" | CeOverVoltage -> "OverVoltage"
  | CeOverLoad -> "OverLoad" | CeOverTemperature -> "OverTemperature" | CeLineBreak -> "LineBreak"
  | CeUpperLimitOvershoot -> "UpperLimitOvershoot" | CeLowerLimitUndershoot -> "LowerLimitUndershoot"
  | CeError -> "Error"
  | CeReserved v -> Printf.sprintf "Reserved%d" (int_of_z v)
  | CeVendor v -> Printf.sprintf "Vendor%d" (int_of_z v)
let plain_errors = [CeShortCircuit; CeUnderVoltage; CeOverVoltage; CeOverLoad; CeOverTemperature; CeLineBreak;
                    CeUpperLimitOvershoot; CeLowerLimitUndershoot; CeError]
let error_of_name s =
  let num pre = z_of_int (int_of_string (String.sub s (String.length pre) (String.length s - String.length pre))) in
  if starts_with "Reserved" s then CeReserved (num "Reserved")
  else if starts_with "Vendor" s then CeVendor (num "Vendor")
  else try List.find (fun e -> error_name e = s) plain_errors with Not_found -> raise (Bad ("error " ^ s))

let ones_str (l : nat list) : string =
  if l = [] then "-" else String.concat "." (List.map (fun n -> string_of_int (int_of_nat n)) l)

let block_str (b : lblock) : string =
  let data_off = int_of_nat b.l_off + 1 in
  match b.l_blk with
  | BDevice d -> Printf.sprintf "D@%d:%s" data_off (hex d)
  | BIdent d ->
      Printf.sprintf "I@%s:%s:%s" (if d = [] then "-" else string_of_int data_off) (hex d) (ones_str (ident_ones d))
  | BChannel c ->
      Printf.sprintf "C:%d:%d:%d:%d:%s:%s" (int_of_z c.c_module) (int_of_z c.c_channel)
        (if c.c_input then 1 else 0) (if c.c_output then 1 else 0) (dtype_name c.c_dtype) (error_name c.c_error)

let blocks_str (r : lblock list res) : string =
  match r with
  | Ok [] -> "-"
  | Ok bs -> String.concat "|" (List.map block_str bs)
  | Panic _ -> "PANIC"
  | OutOfFuel -> "OUTOFFUEL"

let raw_str (r : z list option res) : string =
  match r with
  | Ok None -> "none"
  | Ok (Some l) -> hex l
  | Panic _ -> "PANIC"
  | OutOfFuel -> "OUTOFFUEL"

let unit_str (r : unit res) : string =
  match r with Ok () -> "ok" | Panic _ -> "PANIC" | OutOfFuel -> "OUTOFFUEL"

let ext_str (e : ext_diag) : string =
  Printf.sprintf "raw=%s blk=%s" (raw_str (ext_raw e)) (blocks_str (ext_blocks e))

(* ---- parsing the implementation's output ---- *)

let field (pre : string) (toks : string list) : string =
  match List.filter (starts_with pre) toks with
  | [t] -> String.sub t (String.length pre) (String.length t - String.length pre)
  | _ -> raise (Bad ("field " ^ pre))

(* implementation block -> (block, reported ones for identifier blocks) *)
let parse_block (s : string) : block * nat list option =
  match String.split_on_char ':' s with
  | [d; h] when starts_with "D@" d -> (BDevice (unhex h), None)
  | [i; h; ones] when starts_with "I@" i ->
      let o = if ones = "-" then [] else List.map (fun x -> nat_of_int (int_of_string x)) (String.split_on_char '.' ones) in
      (BIdent (unhex h), Some o)
  | ["C"; m; c; i; o; dt; er] ->
      (BChannel { c_module = z_of_int (int_of_string m); c_channel = z_of_int (int_of_string c);
                  c_input = (i = "1"); c_output = (o = "1"); c_dtype = dtype_of_name dt; c_error = error_of_name er }, None)
  | _ -> raise (Bad ("block " ^ s))

let parse_raw (s : string) : z list option = if s = "none" then None else Some (unhex s)

(* oracles on one observed (raw, blk, dbg) triple of the implementation *)
let check_ext (case : string) (out : string) (raw : string) (blk : string) (dbg : string) : unit =
  if dbg <> "ok" then report_fail "C17" "debug_total" case out;
  match parse_raw raw with
  | None ->
      (* no buffer: iter_diag_blocks().next() unwraps raw_diag_buffer() = None (documented in the model,
         no byte string is iterated: outside the property, counted as an observation) *)
      if blk = "PANIC" then count "obs:iter-without-buffer-panics" else if blk <> "-" then report_fail "C17" "blocks_tile" case out
  | Some r ->
      if blk = "PANIC" || blk = "OUTOFFUEL" then report_fail "C17" "iter_total" case out
      else begin
        let items = if blk = "-" then [] else String.split_on_char '|' blk in
        (try
           let bs = List.map parse_block items in
           if not (c17_tiles_ok r (List.map fst bs)) then report_fail "C17" "blocks_tile" case out;
           List.iter (fun (b, o) ->
               match b, o with
               | BIdent d, Some ones -> if not (c17_ones_ok d ones) then report_fail "C17" "ident_ones" case out
               | _ -> ()) bs;
           List.iter (fun (b, _) ->
               match b with
               | BDevice _ -> count "blk:device" | BIdent _ -> count "blk:ident" | BChannel _ -> count "blk:channel") bs;
           let n = List.length bs in
           count (if n = 0 then "iter:0-blocks" else if n = 1 then "iter:1-block" else "iter:2+blocks");
           let used = List.fold_left (fun a (b, _) -> a + (match b with BDevice d | BIdent d -> 1 + List.length d | BChannel _ -> 3)) 0 bs in
           if used < List.length r then count "iter:stopped-at-malformed" else count "iter:consumed-all"
         with Bad _ | Failure _ -> report_fail "C17" "blocks_tile" case out)
      end

let parse_cap (s : string) : int option = if s = "none" then None else Some (int_of_string s)
let buffer_of (cap : int option) : z list =
  match cap with None -> [] | Some n -> List.init n (fun _ -> z_of_int 0xEE)

let split_items (s : string) : string list = String.split_on_char ',' s
let split_semi (s : string) : string list =
  List.map String.trim (String.split_on_char ';' s)

let diag_str (d : diag_info option) : string =
  match d with
  | None -> "diag=none"
  | Some d -> Printf.sprintf "diag=%04x:%d:%s" (int_of_z d.d_flags) (int_of_z d.d_ident) (string_of_opt d.d_master)

let parse_diag_field (s : string) : diag_info option =
  if s = "none" then None else
  match String.split_on_char ':' s with
  | [f; i; m] -> Some { d_flags = z_of_int (int_of_string ("0x" ^ f)); d_ident = z_of_int (int_of_string i); d_master = opt_of_string m }
  | _ -> raise (Bad ("diag " ^ s))

let reply_of_item (it : string) : reply =
  if it = "sc" then RShortConf
  else if starts_with "a:" it then RData (Some (z_of_int 61), Some (z_of_int 60), unhex (String.sub it 2 (String.length it - 2)))
  else if starts_with "b:" it then RData (Some (z_of_int 62), Some (z_of_int 61), unhex (String.sub it 2 (String.length it - 2)))
  else RData (Some (z_of_int 62), Some (z_of_int 60), unhex it)

let canon_panic (s : string) : string = if starts_with "PANIC" s then "PANIC" else s

(* remove the `ev=..` token (the bring-up state machine is not modelled here) *)
let strip_ev (s : string) : string =
  String.concat " " (List.filter (fun t -> not (starts_with "ev=" t)) (split_ws s))

let handle (case : string) (out : string) : unit =
  incr n_cases;
  match split_ws case with
  | ["ED"; cap; items] ->
      let cap = parse_cap cap in
      let capn = (match cap with None -> 0 | Some n -> n) in
      let e0 = (match cap with None -> ext_default | Some _ -> ext_from_buffer (buffer_of cap)) in
      let exts = List.map unhex (split_items items) in
      (* model *)
      let (_, strs) = List.fold_left (fun (e, acc) ext ->
          match ext_fill e ext with
          | Ok (e', ok) ->
              (e', Printf.sprintf "f=%d %s dbg=%s" (if ok then 1 else 0) (ext_str e') (unit_str (ext_debug e')) :: acc)
          | _ -> (e, "f=PANIC" :: acc)) (e0, []) exts in
      let model = String.concat " ; " (List.rev strs) in
      count (match cap with None -> "ed:cap-none" | Some 0 -> "ed:cap-0" | Some _ -> "ed:cap-pos");
      if model <> out then report_diverge "C17" case out model;
      (* oracles on the implementation's output *)
      (try
         let outs = split_semi out in
         if List.length outs <> List.length exts then raise (Bad "items");
         let prev = ref (if capn > 0 then Some [] else None) in
         List.iter2 (fun ext o ->
             let toks = split_ws o in
             let f = field "f=" toks and raw = field "raw=" toks and blk = field "blk=" toks and dbg = field "dbg=" toks in
             let now = parse_raw raw in
             let ok = (f = "1") in
             if (f <> "0" && f <> "1") || not (c17_fill_ok (nat_of_int capn) !prev ext ok now) then report_fail "C17" "fill" case out;
             count (if ok then "fill:stored" else if capn = 0 then "fill:no-buffer" else "fill:too-large");
             (match !prev with Some p when p <> [] -> count (if ok then "fill:overwrites-previous" else "fill:keeps-previous") | _ -> ());
             prev := now;
             check_ext case out raw blk dbg) exts outs
       with Bad _ | Failure _ | Invalid_argument _ -> report_fail "C17" "fill" case out)
  | ["DP"; cap; items] ->
      let cap = parse_cap cap in
      let capn = (match cap with None -> 0 | Some n -> n) in
      let replies = List.map reply_of_item (split_items items) in
      let rec run s rs acc =
        match rs with
        | [] -> String.concat " ; " (List.rev acc)
        | r :: rs' ->
            (match diag_reply s r with
             | Ok (s', _) ->
                 let str = (match s'.p_diag with
                            | None -> "diag=none"
                            | Some _ -> Printf.sprintf "%s %s dbg=%s" (diag_str s'.p_diag) (ext_str s'.p_ext) (unit_str (ext_debug s'.p_ext))) in
                 run s' rs' (str :: acc)
             | Panic _ -> "PANIC"
             | OutOfFuel -> "OUTOFFUEL") in
      let model = run (pstate_init (buffer_of cap)) replies [] in
      let impl = if starts_with "PANIC" out then "PANIC" else String.concat " ; " (List.map strip_ev (split_semi out)) in
      count (match cap with None -> "dp:cap-none" | Some 0 -> "dp:cap-0" | Some _ -> "dp:cap-pos");
      if model <> impl then report_diverge "C17" case out model;
      if starts_with "PANIC" out then report_fail "C17" "via_dp_total" case out
      else
        (try
           let outs = split_semi out in
           if List.length outs <> List.length replies then raise (Bad "items");
           let prev_diag = ref None and prev_raw = ref (if capn > 0 then Some [] else None) in
           List.iter2 (fun r o ->
               let toks = split_ws o in
               let now_diag = parse_diag_field (field "diag=" toks) in
               count ("dp:ev:" ^ field "ev=" toks);
               let now_raw = (match now_diag with None -> !prev_raw | Some _ -> parse_raw (field "raw=" toks)) in
               if not (c17_reply_ok (nat_of_int capn) !prev_diag !prev_raw r now_diag now_raw) then report_fail "C17" "via_dp" case out;
               count (if reply_accepted r then "dp:accepted" else "dp:rejected");
               (match r with
                | RData (_, _, pdu) when reply_accepted r ->
                    let ext_flag = (int_of_z (List.nth pdu 0)) land 8 <> 0 in
                    count (if not ext_flag then "dp:no-ext-flag"
                           else if capn = 0 then "dp:ext-no-buffer"
                           else if List.length pdu - 6 > capn then "dp:ext-too-large" else "dp:ext-stored")
                | _ -> ());
               (match now_diag with
                | Some _ -> check_ext case out (field "raw=" toks) (field "blk=" toks) (field "dbg=" toks)
                | None -> ());
               prev_diag := now_diag; prev_raw := now_raw) replies outs
         with Bad _ | Failure _ | Invalid_argument _ -> report_fail "C17" "via_dp" case out)
  | ["SCAN"; addr; pdu] ->
      let pdu = unhex pdu in
      let m = scan_reply (RData (Some (z_of_int 62), Some (z_of_int 60), pdu)) in
      let model = (match m with
                   | Ok None -> "none"
                   | Ok (Some (ident, master)) -> Printf.sprintf "found %s %d %s" addr (int_of_z ident) (string_of_opt master)
                   | Panic _ -> "PANIC" | OutOfFuel -> "OUTOFFUEL") in
      count (if model = "none" then "scan:rejected" else "scan:found");
      if model <> canon_panic out then report_diverge "C17" case out model;
      let r = (match split_ws out with
               | ["none"] -> Some None
               | ["found"; _; ident; master] -> Some (Some (z_of_int (int_of_string ident), opt_of_string master))
               | _ -> None) in
      (match r with
       | Some r when c17_scan_ok pdu r -> ()
       | _ -> report_fail "C17" "scan_header" case out)
  | _ -> Printf.printf "BADLINE %s\n" case
