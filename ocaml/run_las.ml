(* LAS domain (C02, data-structure half): replay every operation sequence on the extracted model of
   token_ring.rs, compare the observation after every step, and run the C02 oracles on the
   implementation's observations. *)
open Model
open Zu

exception Bad of string

let zi s = z_of_int (int_of_string s)

let parse_op (s : string) : op =
  match split_ws s with
  | ["W"; a; b] -> OpW (zi a, zi b)
  | ["C"] -> OpC
  | ["N"; a] -> OpN (zi a)
  | ["R"; a] -> OpR (zi a)
  | _ -> raise (Bad ("op " ^ s))

let state_char = function
  | Some LasUninitialized -> 'U' | Some LasDiscovery -> 'D' | Some LasVerification -> 'V'
  | Some LasValid -> 'L' | None -> 'P'

let string_of_list (l : z list) : string =
  if l = [] then "-" else String.concat "," (List.map (fun a -> string_of_int (int_of_z a)) l)

let string_of_obs (o : obs) : string =
  Printf.sprintf "%c%d:%d:%d:%s" (state_char o.o_state) (if o.o_ready then 1 else 0)
    (int_of_z o.o_ns) (int_of_z o.o_ps) (string_of_list o.o_las)

let list_of_string (s : string) : z list =
  if s = "-" || s = "" then [] else List.map zi (String.split_on_char ',' s)

(* implementation observation; None for PANIC or anything unparsable *)
let obs_of_string (s : string) : obs option =
  if String.length s < 2 then None else
  let st = (match s.[0] with
            | 'U' -> Some (Some LasUninitialized) | 'D' -> Some (Some LasDiscovery)
            | 'V' -> Some (Some LasVerification) | 'L' -> Some (Some LasValid) | 'P' -> Some None
            | _ -> None) in
  match st, String.split_on_char ':' (String.sub s 1 (String.length s - 1)) with
  | Some st, [rd; ns; ps; las] when rd = "0" || rd = "1" ->
      (try Some { o_state = st; o_ready = (rd = "1"); o_ns = zi ns; o_ps = zi ps; o_las = list_of_string las }
       with _ -> None)
  | _ -> None

let canon (s : string) : string = if starts_with "PANIC" s then "PANIC" else s

(* the model's whole observation string *)
let model_trace (ts : z) (ops : op list) : string list =
  match ring_new ts with
  | Ok r ->
      let rec go r ops acc =
        match ops with
        | [] -> List.rev acc
        | o :: t ->
            (match step r o with
             | Ok r' -> go r' t (string_of_obs (observe r') :: acc)
             | Panic _ -> List.rev ("PANIC" :: acc)
             | OutOfFuel -> List.rev ("OUTOFFUEL" :: acc)) in
      go r ops [string_of_obs (observe r)]
  | Panic _ -> ["PANIC"]
  | OutOfFuel -> ["OUTOFFUEL"]

let handle (case : string) (out : string) : unit =
  incr n_cases;
  let (tag, ts, opss) =
    (match String.index_opt case ' ' with
     | None -> raise (Bad "case")
     | Some i ->
         let rest = String.sub case (i + 1) (String.length case - i - 1) in
         (match String.index_opt rest ' ' with
          | None -> raise (Bad "case")
          | Some j -> (String.sub case 0 i, String.sub rest 0 j, String.sub rest (j + 1) (String.length rest - j - 1)))) in
  let tsz = zi ts in
  let ops = if String.trim opss = "-" then [] else List.map parse_op (String.split_on_char ';' opss) in
  let impl = List.map canon (String.split_on_char ';' out) in
  let model = model_trace tsz ops in
  if impl <> model then report_diverge "C02" case out (String.concat ";" model);
  if tag = "A" then
    count (if List.exists (fun s -> String.length s > 1 && s.[0] = 'L') impl then "api:reached-valid" else "api:not-valid");
  (* ---- oracles on the implementation's output only ---- *)
  let iobs = List.map obs_of_string impl in
  let panicked = List.exists (fun s -> starts_with "PANIC" s) impl in
  let malformed = List.exists2 (fun s o -> o = None && not (starts_with "PANIC" s)) impl iobs in
  if malformed then report_fail "C02" "observation_wellformed" case out;
  if c02_nopanic_dom tsz ops then begin
    count "nopanic:in-domain";
    if panicked || List.length impl <> List.length ops + 1 then report_fail "C02" "no_panic" case out
  end else count (if panicked then "panic:outside-domain" else "nopanic:outside-domain-ok");
  let good = List.filter_map (fun x -> x) iobs in
  (* NS / PS are the cyclic neighbours of TS in the LAS, in every observed state *)
  if not (List.for_all (fun o -> c02_nsps_ok tsz o) good) then report_fail "C02" "ns_ps_neighbours" case out;
  (* step-wise declarative statements and the two-identical-rotations monitor *)
  (match good with
   | o0 :: rest ->
       let rec pairs os ops acc = (match os, ops with
         | o :: os', op :: ops' -> pairs os' ops' ((op, o) :: acc)
         | _, _ -> List.rev acc) in
       let tr = pairs rest ops [] in
       let rec steps o tr = (match tr with
         | [] -> true
         | (op, o') :: t ->
             (match op, o.o_state with
              | OpW (sa, da), Some st ->
                  let bad = int_of_z sa > 125 || int_of_z da > 125 in
                  count (if bad then "step:W:bad-address" else
                           "step:W:" ^ String.make 1 (state_char (Some st)) ^
                           (if o'.o_las = o.o_las then ":same" else ":changed"))
              | OpC, _ -> count "step:C" | OpN _, _ -> count "step:N" | OpR _, _ -> count "step:R"
              | _, None -> count "step:debug-panic");
             c02_step_ok tsz o op o' && steps o' t) in
       if not (steps o0 tr) then report_fail "C02" "step_spec" case out;
       if not (c02_monitor None o0 tr) then report_fail "C02" "two_identical_rotations" case out;
       if List.exists (fun (o : obs) -> o.o_state = None) good then count "debug:panic-128-stations"
   | [] -> ());
  (* discovery: k ignored passes, a wrap-around, two rotations of R  =>  Valid, LAS = R, neighbours *)
  if starts_with "D:" tag then begin
    match String.split_on_char ':' tag with
    | [_; k; r] ->
        let rl = list_of_string r in
        if c02_disc_shape rl (nat_of_int (int_of_string k)) ops && int_of_z tsz <= 125 then begin
          let n = List.length rl in
          count (Printf.sprintf "disc:n%s:%s" (if n = 1 then "1" else if n = 2 then "2" else if n <= 8 then "3-8" else if n <= 32 then "9-32" else "33+")
                   (if List.mem tsz rl then "ts-in-R" else "ts-not-in-R"));
          match List.rev iobs with
          | Some last :: _ when List.length impl = List.length ops + 1 ->
              if not (c02_discovery_ok rl tsz last) then report_fail "C02" "las_discovery" case out
          | _ -> report_fail "C02" "las_discovery" case out
        end else begin
          count "disc:bad-shape";
          report_fail "C02" "discovery_case_shape" case out
        end
    | _ -> raise (Bad "tag")
  end
