(* model_run <domain>: reads `<case> => <impl result>` lines on stdin. *)
let () =
  let domain = if Array.length Sys.argv > 1 then Sys.argv.(1) else "" in
  let handle = (match domain with
    | "codec" -> Run_codec.handle
    | _ -> prerr_endline ("unknown domain " ^ domain); exit 2) in
  (try
     while true do
       let line = input_line stdin in
       if line <> "" && line.[0] <> '#' then begin
         let (case, out) = Zu.split_arrow line in
         try handle case out
         with e -> Printf.printf "DRIVER-ERROR %s | %s\n" (Printexc.to_string e) line
       end
     done
   with End_of_file -> ());
  Zu.finish ()
