(* model_run <domain>: reads `<case> => <impl result>` lines on stdin; Run is the domain's
   driver (ocaml/run_<domain>.ml copied to run.ml at build time). *)
let () =
  (try
     while true do
       let line = input_line stdin in
       if line <> "" && line.[0] <> '#' then begin
         let (case, out) = Zu.split_arrow line in
         try Run.handle case out
         with e -> Printf.printf "DRIVER-ERROR %s | %s\n" (Printexc.to_string e) line
       end
     done
   with End_of_file -> ());
  Zu.finish ()
