(* BUS domain (bus-level halves of C01 / C02 / C06 / C13): parse the bus trace that N real stations
   produced on the harness medium and run the extracted Coq monitors of Model/BusOracle.v on it.
   There is no model side to compare with here (the single-station model is the `fdl` domain); every
   line this driver reports is a monitor verdict on the IMPLEMENTATION's trace:
     ORACLE-FAIL C01 no_overlap | idle_times | who_may_transmit | no_panic
     ORACLE-FAIL C02 rotation | views | token_circulates
     ORACLE-FAIL C06 rotation | views | token_circulates | no_panic
     ORACLE-FAIL C13 hold_rule | rotation_bound | starved
   Only scenarios inside the property's class fail (poll periods <= Tslot/4; C01/C02/C13: empty fault
   plan); everything else is counted (STAT). *)
open Model
open Zu

exception Bad of string

let zi s = z_of_int (int_of_string s)
let zo i = z_of_int i

type sample = { s_t : int; s_addr : int; s_online : bool; s_ring : bool; s_las : int list; s_ns : int; s_ps : int; s_state : string }

let verbose = (try Sys.getenv "BUS_VERBOSE" <> "" with Not_found -> false)
let nth_baud i = List.nth all_baudrates i

(* split on the substring " | " *)
let split_sections (s : string) : string list =
  let n = String.length s in
  let rec go start i acc =
    if i + 3 > n then List.rev (String.sub s start (n - start) :: acc)
    else if String.sub s i 3 = " | " then go (i + 3) (i + 3) (String.sub s start (i - start) :: acc)
    else go start (i + 1) acc in
  go 0 0 []

let bucket_ratio num den =
  if den <= 0 then "na" else
  let r = num * 100 / den in
  if r <= 1 then "<=1%" else if r <= 5 then "<=5%" else if r <= 20 then "<=20%" else if r <= 50 then "<=50%"
  else if r <= 100 then "<=100%" else ">100%"

let handle (case : string) (out : string) : unit =
  incr n_cases;
  (* ---------------------------------------------------------------- the case *)
  let secs = split_sections case in
  let (hdr, sts, rsp, _evs) = (match secs with [a; b; c; d] -> (a, b, c, d) | _ -> raise (Bad "sections")) in
  let h = Array.of_list (split_ws hdr) in
  let label = h.(0) in
  let baud_idx = int_of_string h.(1) in
  let slot = int_of_string h.(2) and hsa = int_of_string h.(3) and gap = int_of_string h.(4) in
  let ttr = int_of_string h.(5) and dur = int_of_string h.(6) in
  let baud = nth_baud baud_idx in
  let stations = List.map (fun s -> Array.of_list (String.split_on_char ',' s)) (String.split_on_char ';' (String.trim sts)) in
  let nst = List.length stations in
  let resp = if String.trim rsp = "-" then None else
      (match String.split_on_char ',' (String.trim rsp) with
       | [a; d; l] -> Some (int_of_string a, int_of_string d, int_of_string l) | _ -> raise (Bad "resp")) in
  (* applications: longest request, hungry stations *)
  let maxreq = ref 0 and any_app = ref false and hungry = ref [] and any_q = ref false in
  List.iter (fun st ->
      let app = st.(5) in
      if app <> "n" then begin
        any_app := true;
        (match String.split_on_char ':' app with
         | [kinds; frac; _da; len; hp] ->
             let len = int_of_string len in
             if String.contains kinds 'q' then any_q := true;
             maxreq := max !maxreq (len + 9);
             (match String.split_on_char '/' frac with
              | [n; d] when n = d && hp = "0" -> hungry := zi st.(0) :: !hungry
              | _ -> ())
         | _ -> raise (Bad "app"))
      end) stations;
  let maxrep = (match resp with Some (_, _, l) -> if l = 0 then 6 else l + 9 | None -> 6) in
  ignore !any_q;
  let cfg = { c_baud = baud; c_slot = zo slot; c_hsa = zo hsa; c_gap = zo gap; c_ttr = zo ttr; c_n = zo nst;
              c_msg = (if !any_app then zo (11 * (!maxreq + maxrep)) else zo 0); c_apps = !any_app } in
  let ratei = int_of_z (rate cfg) in
  let in_class = List.for_all (fun st -> int_of_string st.(4) * 4 * ratei <= slot * 1000000) stations in
  (* a reply that starts later than Tslot - 11 bit after the request is "late": outside the fault-free class *)
  let resp_in_class = (match resp with Some (_, d, _) -> (d + 0) * ratei + 11 * 1000000 + 2 * ratei <= slot * 1000000 | None -> true) in
  (* ---------------------------------------------------------------- the trace *)
  let online_at : (int, int) Hashtbl.t = Hashtbl.create 8 in
  let txs = ref [] and faulted = ref false and panicked = ref None in
  let changes = ref [] (* (t, addr, up) *) and xs = ref [] and samples = ref [] in
  if out <> "-" then
    List.iter (fun r ->
        if r <> "" then
          let body = String.sub r 1 (String.length r - 1) in
          match r.[0] with
          | 'T' | 't' ->
              if r.[0] = 't' then faulted := true;
              (match split_ws body with
               | [a; t; hx] ->
                   let a = int_of_string a in
                   let on = (try Hashtbl.find online_at a with Not_found -> 0) in
                   txs := { tx_sender = zo a; tx_start = zi t; tx_online = zo on; tx_bytes = unhex hx } :: !txs
               | _ -> raise (Bad ("T " ^ r)))
          | 'E' ->
              (match split_ws body with
               | [a; t; u] ->
                   let a = int_of_string a and t = int_of_string t in
                   if u = "1" then Hashtbl.replace online_at a t;
                   changes := (t, a, u = "1") :: !changes
               | _ -> raise (Bad ("E " ^ r)))
          | 'X' -> xs := int_of_string body :: !xs; count "fault:disturbances"
          | 'U' -> faulted := true; count "fault:station-stopped-mid-transmission"
          | 'S' ->
              (match split_ws body with
               | [a; t; fl; ns; ps; las; st] ->
                   let lasl = if las = "-" then [] else List.map int_of_string (String.split_on_char ',' las) in
                   samples := { s_t = int_of_string t; s_addr = int_of_string a; s_online = fl.[0] = '1'; s_ring = fl.[1] = '1';
                                s_las = lasl; s_ns = int_of_string ns; s_ps = int_of_string ps; s_state = st } :: !samples
               | _ -> raise (Bad ("S " ^ r)))
          | '!' -> panicked := Some body
          | _ -> raise (Bad ("record " ^ r)))
      (String.split_on_char ';' out);
  let tr_us = List.rev !txs in
  let tr = scale cfg tr_us in
  let samples = List.rev !samples in
  let changes = List.rev !changes in
  let fault_free = !xs = [] && not !faulted in
  count ("case:" ^ label ^ (if in_class then "" else ":outside-class"));
  count (Printf.sprintf "case:n%d" nst);
  List.iter (fun s -> count ("state:" ^ s.s_state)) samples;
  let pmax = List.fold_left (fun acc st -> max acc (int_of_string st.(4))) 0 stations in
  (* the former known class of finding F20 (3 Pmax + 44 bit + 4 us >= Tslot): repaired in the crate (a station with
     nothing to send passes the token in the poll that finds that out), so these scenarios are no longer excused -
     they are only counted, to show that the class is still exercised *)
  let former_f20 = slot * 1000000 <= 3 * pmax * ratei + 44 * 1000000 + 4 * ratei in
  if in_class && former_f20 then count "case:in-former-class-F20";
  let fail prop oracle =
    if in_class && resp_in_class then report_fail prop oracle case (Printf.sprintf "%d transmissions" (List.length tr))
    else count ("outside-class-violation:" ^ prop ^ ":" ^ oracle) in
  (match !panicked with
   | Some loc -> report_fail (if fault_free then "C01" else "C06") ("no_panic " ^ loc) case ""
   | None -> ());
  (* ---------------------------------------------------------------- C01 *)
  let raced = ref false in
  if fault_free then begin
    let (pre, r) = c01_cut cfg tr in
    raced := r;
    if r then count "c01:excused-claim-race" else count "c01:no-race";
    if in_class then count "c01:in-class-traces";
    let classes = who_classes cfg w0 pre in
    List.iter (fun k -> count ("c01:class:" ^ (match int_of_nat k with 0 -> "holder" | 1 -> "pass" | 2 -> "retry" | 3 -> "reply" | _ -> "claim"))) classes;
    if not (c01_no_overlap_b pre) then fail "C01" "no_overlap";
    if not (c01_idle_b cfg pre) then fail "C01" "idle_times";
    if not (c01_who_b cfg pre) then begin
      (match who_first_bad cfg w0 pre O with
       | Some (k, st) ->
           let k = int_of_nat k in
           let y = List.nth pre k in
           count (Printf.sprintf "c01:unjustified:%s" (match tel_of y with Some (TToken _) -> "token" | Some (TData _) -> "data" | Some TShortConf -> "sc" | None -> "garbage"));
           if in_class && resp_in_class then
             Printf.printf "INFO C01 unjustified transmission #%d sender=%d start=%d bytes=%s holder=%s | %s\n" k (int_of_z y.tx_sender)
               (int_of_z y.tx_start / ratei) (hex y.tx_bytes) (string_of_opt st.w_holder) (String.sub case 0 (min 200 (String.length case)))
       | None -> ());
      fail "C01" "who_may_transmit"
    end
  end;
  (* ---------------------------------------------------------------- populations and windows *)
  let sc_us t = zo (t * ratei) in
  let end_of_run = dur in
  let population_at t =
    let m = Hashtbl.create 8 in
    List.iter (fun (tc, a, up) -> if tc <= t then (if up then Hashtbl.replace m a () else Hashtbl.remove m a)) changes;
    List.sort compare (Hashtbl.fold (fun a () acc -> a :: acc) m []) in
  let t_conv_us = int_of_z (t_conv_bits cfg) * 1000000 / ratei + 1 in
  let t_rot_us = (nst * (3 * slot + 400) + (if !any_app then ttr + nst * (int_of_z (c13_C_bits cfg) + 33) else 0)) * 1000000 / ratei + 1 in
  let coll = List.map (fun z -> int_of_z z / ratei) (collisions None tr) in
  if coll <> [] then count "bus:collisions-seen";
  (* check one stable window [from, upto] (us) for population pop, tagged prop *)
  let check_window prop from upto pop =
    let s = List.map zo pop in
    let w = window (sc_us from) (sc_us upto) tr in
    let ps = passes w in
    let np = List.length ps in
    let n = List.length pop in
    if upto - from < 4 * t_rot_us then count (prop ^ ":window-too-short")
    else begin
      count (prop ^ ":windows-checked");
      let f13 = prop = "C06" && two_self_holders_b ps in
      let fail prop oracle = if f13 && in_class then report_known prop "F21" (oracle ^ " | " ^ case) else fail prop oracle in
      if np < 2 * n then fail prop "token_circulates"
      else if not (c02_rot_b s ps) then fail prop "rotation";
      let bad = List.filter (fun sm -> sm.s_t > from && sm.s_t <= upto && List.mem sm.s_addr pop &&
                                       not (view_okb s { v_addr = zo sm.s_addr; v_in_ring = sm.s_ring; v_las = List.map zo sm.s_las;
                                                         v_ns = zo sm.s_ns; v_ps = zo sm.s_ps })) samples in
      List.iter (fun sm -> if sm.s_t > from && sm.s_t <= upto && List.mem sm.s_addr pop then count (prop ^ ":views-checked")) samples;
      if bad <> [] then fail prop "views"
    end in
  (* measured convergence: start of the clean suffix after the last change, relative to the bound *)
  let last_change = List.fold_left (fun acc (t, _, _) -> max acc t) 0 changes in
  (* the claim race itself is the disturbance; the collisions that follow it are its consequences *)
  let race_time = if !raced then (match coll with t :: _ -> [t] | [] -> []) else [] in
  let last_dist = List.fold_left max last_change (!xs @ race_time) in
  let final_pop = population_at end_of_run in
  let after = List.filter (fun x -> int_of_z x.tx_start >= last_dist * ratei) tr in
  let clean = clean_suffix (List.map zo final_pop) after in
  (match clean with
   | x :: _ when List.length (passes clean) >= 2 * List.length final_pop ->
       let b = bucket_ratio (int_of_z x.tx_start / ratei - last_dist) t_conv_us in
       count ((if fault_free && not !raced then "c02" else "c06") ^ ":converged-in:" ^ b);
       if verbose && b = ">100%" then Printf.printf "INFO late-convergence former_f20=%b in_class=%b | %s\n" former_f20 in_class case
   | _ -> count ((if fault_free && not !raced then "c02" else "c06") ^ ":not-clean-at-end");
       if verbose then Printf.printf "INFO not-clean-at-end former_f20=%b in_class=%b | %s\n" former_f20 in_class case);
  if fault_free && not !raced then begin
    (* C02: every stable interval between population changes that is longer than the bound *)
    let times = List.sort_uniq compare (List.map (fun (t, _, _) -> t) changes) in
    let rec go = function
      | [] -> ()
      | t :: rest ->
          let upto = (match rest with t2 :: _ -> t2 - 1 | [] -> end_of_run) in
          let pop = population_at t in
          if pop <> [] && upto > t + t_conv_us then check_window "C02" (t + t_conv_us) upto pop;
          go rest in
    go times
  end else begin
    (* C06: after the last disturbance (fault plan, stop / restart, collision incl. the claim race) *)
    count (if fault_free then "c06:claim-race-only" else "c06:fault-plan");
    if final_pop <> [] then check_window "C06" (last_dist + t_conv_us) end_of_run final_pop
  end;
  (* ---------------------------------------------------------------- C13 *)
  if fault_free && not !raced && resp_in_class then begin
    let n = List.length final_pop in
    let vs = visits clean in
    let nv = List.length vs in
    if n >= 1 && nv >= 3 * n then begin
      count (if !any_app then "c13:traffic-windows" else "c13:idle-windows");
      count (Printf.sprintf "c13:visits:%s" (if nv < 100 then "<100" else if nv < 1000 then "<1000" else ">=1000"));
      let ttr_sc = sc_bits cfg.c_ttr and c_sc = sc_bits (c13_C_bits cfg) and o_sc = sc_bits c13_O_bits in
      if not (c13_hold_b (nat_of_int n) ttr_sc c_sc o_sc vs) then fail "C13" "hold_rule";
      if not (c13_bound_b (nat_of_int n) (c13_bound_sc cfg (nat_of_int n)) vs) then fail "C13" "rotation_bound";
      if !hungry <> [] then begin
        count "c13:hungry-windows";
        if not (c13_served_b !hungry clean) then fail "C13" "starved"
      end
    end else count "c13:window-too-short"
  end
