(* Conversions between OCaml values and the extracted Coq number types; line helpers. *)
open Model

let rec pos_of_int (i : int) : positive =
  if i = 1 then XH else if i land 1 = 0 then XO (pos_of_int (i lsr 1)) else XI (pos_of_int (i lsr 1))

let z_of_int (i : int) : z = if i = 0 then Z0 else if i > 0 then Zpos (pos_of_int i) else Zneg (pos_of_int (-i))

let rec int_of_pos (p : positive) : int =
  match p with XH -> 1 | XO q -> 2 * int_of_pos q | XI q -> 2 * int_of_pos q + 1

let int_of_z (x : z) : int = match x with Z0 -> 0 | Zpos p -> int_of_pos p | Zneg p -> - (int_of_pos p)

let rec nat_of_int (i : int) : nat = if i <= 0 then O else S (nat_of_int (i - 1))
let int_of_nat (n : nat) : int =
  let rec go acc = function O -> acc | S m -> go (acc + 1) m in go 0 n

let unhex (s : string) : z list =
  if s = "-" then [] else
  List.init (String.length s / 2) (fun i -> z_of_int (int_of_string ("0x" ^ String.sub s (2 * i) 2)))

let hex (l : z list) : string =
  if l = [] then "-" else String.concat "" (List.map (fun b -> Printf.sprintf "%02x" ((int_of_z b) land 255)) l)

let opt_of_string (s : string) : z option = if s = "-" then None else Some (z_of_int (int_of_string s))
let string_of_opt (o : z option) : string = match o with None -> "-" | Some v -> string_of_int (int_of_z v)

let split_ws (s : string) : string list =
  List.filter (fun x -> x <> "") (String.split_on_char ' ' s)

(* split "<case> => <result>" *)
let split_arrow (line : string) : string * string =
  let n = String.length line in
  let rec find i = if i + 4 > n then None else if String.sub line i 4 = " => " then Some i else find (i + 1) in
  match find 0 with
  | None -> (line, "")
  | Some i -> (String.sub line 0 i, String.sub line (i + 4) (n - i - 4))

let starts_with pre s = String.length s >= String.length pre && String.sub s 0 (String.length pre) = pre

(* statistics shared by all domains *)
let n_cases = ref 0
let n_diverge = ref 0
let n_oracle_fail = ref 0
let n_known = ref 0
let tbl : (string, int) Hashtbl.t = Hashtbl.create 64
let count (k : string) = Hashtbl.replace tbl k (1 + (try Hashtbl.find tbl k with Not_found -> 0))
let report_diverge prop case impl model =
  incr n_diverge;
  if !n_diverge <= 200 then Printf.printf "DIVERGE %s | %s | impl: %s | model: %s\n" prop case impl model
let report_fail prop oracle case impl =
  incr n_oracle_fail;
  if !n_oracle_fail <= 200 then Printf.printf "ORACLE-FAIL %s %s | %s | impl: %s\n" prop oracle case impl
let report_known prop kid case =
  incr n_known;
  count ("known:" ^ prop ^ ":" ^ kid);
  if !n_known <= 50 then Printf.printf "KNOWN %s %s | %s\n" prop kid case
let finish () =
  Printf.printf "SUMMARY cases=%d diverge=%d oracle_fail=%d known=%d\n" !n_cases !n_diverge !n_oracle_fail !n_known;
  let ks = List.sort compare (Hashtbl.fold (fun k v acc -> (k, v) :: acc) tbl []) in
  List.iter (fun (k, v) -> Printf.printf "STAT %s %d\n" k v) ks
