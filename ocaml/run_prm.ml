(* Parameter-block domain (C20): replay every case on the extracted model, compare with the
   crate's output, and run the C20 oracles (overlay / exact-bits / rejects-unchanged / no panic)
   on the crate's output.  Oracle failures inside the known class F9 (BitArea written into a byte
   with a bit set outside the area) are reported as KNOWN, every other one as ORACLE-FAIL. *)
open Model
open Zu

exception Bad of string

(* i64 decimal -> z (OCaml's int has 63 bits only) *)
let z_of_i64 (n : int64) : z =
  let rec pos (m : int64) : positive =     (* m <> 0, read as unsigned *)
    let rest = Int64.shift_right_logical m 1 in
    let odd = Int64.logand m 1L = 1L in
    if rest = 0L then XH else if odd then XI (pos rest) else XO (pos rest) in
  if n = 0L then Z0 else if Int64.compare n 0L > 0 then Zpos (pos n) else Zneg (pos (Int64.neg n))

let z_of_string (s : string) : z =
  try z_of_i64 (Int64.of_string s) with _ -> raise (Bad ("number " ^ s))

let nat_of_string s = nat_of_int (int_of_string s)

let split_once (c : char) (s : string) : string * string =
  match String.index_opt s c with
  | Some i -> (String.sub s 0 i, String.sub s (i + 1) (String.length s - i - 1))
  | None -> raise (Bad ("split " ^ s))

let tail s = String.sub s 1 (String.length s - 1)

let dt_of_string (s : string) : prm_dtype =
  match s with
  | "u8" -> DtUnsigned8 | "u16" -> DtUnsigned16 | "u32" -> DtUnsigned32
  | "s8" -> DtSigned8 | "s16" -> DtSigned16 | "s32" -> DtSigned32
  | _ when s.[0] = 'b' -> DtBit (z_of_string (tail s))
  | _ when s.[0] = 'a' -> let (f, l) = split_once '-' (tail s) in DtBitArea (z_of_string f, z_of_string l)
  | _ -> raise (Bad ("dt " ^ s))

let dt_kind = function
  | DtUnsigned8 -> "u8" | DtUnsigned16 -> "u16" | DtUnsigned32 -> "u32"
  | DtSigned8 -> "s8" | DtSigned16 -> "s16" | DtSigned32 -> "s32"
  | DtBit _ -> "bit" | DtBitArea _ -> "bitarea"

let list_of (s : string) : string list = List.filter (fun x -> x <> "") (String.split_on_char ',' s)

let cons_of_string (s : string) : vconstraint =
  match s.[0] with
  | 'n' -> CUnconstrained
  | 'm' -> let (a, b) = split_once ',' (tail s) in CMinMax (z_of_string a, z_of_string b)
  | 'e' -> CEnum (List.map z_of_string (list_of (tail s)))
  | _ -> raise (Bad ("cons " ^ s))

let texts_of_string (s : string) : (z * z) list option =
  if s = "-" then None
  else Some (List.map (fun kv -> let (k, v) = split_once '=' kv in (z_of_string k, z_of_string v)) (list_of (tail s)))

let parse_desc (toks : string list) : desc =
  let cs = ref [] and rs = ref [] in
  List.iter (fun t ->
    match t.[0] with
    | 'c' -> let (o, hx) = split_once ':' (tail t) in cs := (nat_of_string o, unhex hx) :: !cs
    | 'r' ->
        (match String.split_on_char ':' (tail t) with
         | [o; name; dt; dflt; cons; texts] ->
             rs := (nat_of_string o,
                    { d_name = z_of_string name; d_type = dt_of_string dt; d_default = z_of_string dflt;
                      d_constraint = cons_of_string cons; d_texts = texts_of_string texts }) :: !rs
         | _ -> raise (Bad ("ref " ^ t)))
    | _ -> raise (Bad ("token " ^ t))) toks;
  { consts = List.rev !cs; refs = List.rev !rs }

let op_of_string (s : string) : op =
  let (n, v) = split_once '=' (tail s) in
  match s.[0] with
  | 's' -> OpSet (z_of_string n, z_of_string v)
  | 't' -> OpText (z_of_string n, z_of_string v)
  | _ -> raise (Bad ("op " ^ s))

let err_name = function
  | ENotFound -> "NotFound" | EWithoutTexts -> "NoTexts" | ETextNotFound -> "TextNotFound"
  | EConstraint -> "Constraint" | ERange -> "Range"

(* split on " ; " *)
let split_semis (s : string) : string list =
  let toks = split_ws s in
  let rec go cur acc = function
    | [] -> List.rev (List.rev cur :: acc)
    | ";" :: r -> go [] (List.rev cur :: acc) r
    | t :: r -> go (t :: cur) acc r in
  List.map (String.concat " ") (go [] [] toks)

(* "PANIC <loc>" -> "PANIC" anywhere in a result line *)
let canon (s : string) : string =
  String.concat " ; " (List.map (fun part ->
    if starts_with "PANIC" part then "PANIC"
    else if starts_with "new=PANIC" part then "new=PANIC" else part) (split_semis s))

(* names / text keys: id and id+1000 are the same string in the other letter case (harness convention);
   for the model they are simply different names *)
let flip_case (n : z) : z = let i = int_of_z n in z_of_int (if i >= 1000 then i - 1000 else i + 1000)

let case_stats (d : desc) (o : op) : unit =
  let n = (match o with OpSet (n, _) -> n | OpText (n, _) -> n) in
  (match find_ref d.refs n, find_ref d.refs (flip_case n) with
   | None, Some _ -> count "case:name-only-in-other-case"
   | Some _, Some _ -> count "case:twin-names-addressed"
   | _ -> ());
  match o with
  | OpText (_, t) ->
      (match find_ref d.refs n with
       | Some (_, def) ->
           (match def.d_texts with
            | Some texts -> if assoc texts t = None && assoc texts (flip_case t) <> None then count "case:text-only-in-other-case"
            | None -> ())
       | None -> ())
  | _ -> ()

let model_line (d : desc) (ops : op list) : string =
  match prm_new d with
  | Panic _ -> "new=PANIC"
  | OutOfFuel -> "new=OUTOFFUEL"
  | Ok None -> "new=err"
  | Ok (Some p0) ->
      let buf = Buffer.create 256 in
      Buffer.add_string buf ("new=ok:" ^ hex p0);
      let rec go p = function
        | [] -> ()
        | o :: rest ->
            (match step d p o with
             | Ok (r, p') ->
                 case_stats d o;
                 count (match r with
                        | SOk -> "set:ok:" ^ (match spec_expect d o with ExpAccept (_, dt, _) -> dt_kind dt | ExpReject -> "UNEXPECTED")
                        | SErr e -> "set:err:" ^ err_name e);
                 Buffer.add_string buf
                   (Printf.sprintf " ; %s %s" (match r with SOk -> "ok" | SErr e -> "err:" ^ err_name e) (hex (as_bytes p')));
                 go p' rest
             | Panic _ -> Buffer.add_string buf " ; PANIC"
             | OutOfFuel -> Buffer.add_string buf " ; OUTOFFUEL") in
      go p0 ops;
      Buffer.contents buf

let handle (case : string) (out : string) : unit =
  incr n_cases;
  match split_ws case with
  | ["WV"; dts; vs; hx] ->
      let dt = dt_of_string dts and v = z_of_string vs and s = unhex hx in
      let m = write_value dt v s in
      let model = (match m with
        | Ok (true, s') -> "ok " ^ hex s'
        | Ok (false, s') -> "err " ^ hex s'
        | Panic _ -> "PANIC" | OutOfFuel -> "OUTOFFUEL") in
      count ("wv:" ^ (match m with Ok (true, _) -> "ok:" ^ dt_kind dt | Ok (false, _) -> "err:" ^ dt_kind dt | _ -> "panic"));
      if model <> canon out then report_diverge "C20" case out model;
      (* oracle: with a slice that is long enough the call behaves like a one-field block *)
      if List.length s >= int_of_nat (dt_size dt) then begin
        let d = { consts = []; refs = [ (O, { d_name = Z0; d_type = dt; d_default = Z0; d_constraint = CUnconstrained; d_texts = None }) ] } in
        let o = OpSet (Z0, v) in
        let (acc, s') = (match split_ws out with
          | ["ok"; h] -> (Some true, unhex h) | ["err"; h] -> (Some false, unhex h) | _ -> (None, [])) in
        if not (c20_step_ok d s o acc s') then begin
          if c20_step_known d s o && c20_step_known_ok d s o acc s' then report_known "C20" "F9-bitarea" case
          else report_fail "C20" (if acc = None then "no_panic" else "write_value") case out
        end
      end
  | "PRM" :: rest ->
      let rec split_at_semi acc = function
        | [] -> (List.rev acc, [])
        | ";" :: r -> (List.rev acc, r)
        | t :: r -> split_at_semi (t :: acc) r in
      let (dtoks, optoks) = split_at_semi [] rest in
      let d = parse_desc dtoks in
      let ops = List.map op_of_string (List.filter (fun t -> t <> ";") optoks) in
      let model = model_line d ops in
      if model <> canon out then report_diverge "C20" case out model;
      (* ---- oracles on the implementation's output *)
      let parts = split_semis out in
      let failed = ref false and known = ref false in
      let fail name = if not !failed then (failed := true; report_fail "C20" name case out) in
      let known_hit () = if not !known then (known := true; report_known "C20" "F9-bitarea" case) in
      (match parts with
       | [] -> fail "no_output"
       | first :: steps ->
           let r = (if starts_with "new=ok:" first then Some (Some (unhex (String.sub first 7 (String.length first - 7))))
                    else if first = "new=err" then Some None else None) in
           if c20_new_ok d r then count (match r with Some (Some _) -> "new:ok" | _ -> "new:err")
           else if r <> None && known_new d then (count "new:known"; known_hit ())
           else fail (if r = None then "no_panic" else "new_overlay");
           (match r with
            | Some (Some p0) ->
                let rec go p ops steps =
                  match ops, steps with
                  | [], [] -> ()
                  | o :: ops', s :: steps' ->
                      let (acc, p') = (match split_ws s with
                        | ["ok"; h] -> (Some true, unhex h)
                        | [e; h] when starts_with "err:" e -> (Some false, unhex h)
                        | _ -> (None, p)) in
                      if c20_step_ok d p o acc p' then begin
                        (match spec_expect d o with
                         | ExpAccept (off, (DtBitArea _ as dt), _) ->
                             count (if known_write off dt p then "bitarea:accepted-in-known-class-but-correct" else "bitarea:accepted-clean")
                         | ExpAccept _ -> count "field:accepted"
                         | ExpReject -> count "call:rejected")
                      end else if c20_step_known d p o && c20_step_known_ok d p o acc p' then (count "bitarea:clobbered-known"; known_hit ())
                      else fail (match acc, spec_expect d o with None, _ -> "no_panic" | _, ExpAccept _ -> "set_frame" | _, ExpReject -> "rejects_unchanged");
                      if acc <> None then go p' ops' steps'
                  | _, _ -> fail "step_count" in
                go p0 ops steps
            | _ -> if steps <> [] then fail "step_count"))
  | _ -> Printf.printf "BADLINE %s\n" case
