(* GSD domain (C19): feed the REAL pair tree (dumped by the harness's own pest parser) to the model of the
   interpretation step, compare with the real parser's result; check the grammar-derived shape predicate on
   every real tree; run the no-panic and fidelity oracles on the implementation's output. *)
open Model
open Zu

exception Bad of string

(* ---- numbers and text *)
let rec digits_of_pos (p : positive) : int list =   (* little endian decimal digits *)
  let rec dbl ds carry = match ds with
    | [] -> if carry > 0 then [carry] else []
    | d :: r -> let v = 2 * d + carry in (v mod 10) :: dbl r (v / 10) in
  match p with XH -> [1] | XO q -> dbl (digits_of_pos q) 0 | XI q -> dbl (digits_of_pos q) 1
let string_of_pos p = String.concat "" (List.rev_map string_of_int (digits_of_pos p))
let string_of_z (x : z) : string = match x with Z0 -> "0" | Zpos p -> string_of_pos p | Zneg p -> "-" ^ string_of_pos p

let bytes_of_hex (s : string) : int list =
  if s = "-" then [] else List.init (String.length s / 2) (fun i -> int_of_string ("0x" ^ String.sub s (2 * i) 2))

(* Rust strings are valid UTF-8 *)
let rec utf8_decode (b : int list) : int list =
  match b with
  | [] -> []
  | c :: r when c < 0x80 -> c :: utf8_decode r
  | c :: c1 :: r when c land 0xE0 = 0xC0 -> (((c land 0x1F) lsl 6) lor (c1 land 0x3F)) :: utf8_decode r
  | c :: c1 :: c2 :: r when c land 0xF0 = 0xE0 ->
      (((c land 0x0F) lsl 12) lor ((c1 land 0x3F) lsl 6) lor (c2 land 0x3F)) :: utf8_decode r
  | c :: c1 :: c2 :: c3 :: r when c land 0xF8 = 0xF0 ->
      (((c land 0x07) lsl 18) lor ((c1 land 0x3F) lsl 12) lor ((c2 land 0x3F) lsl 6) lor (c3 land 0x3F)) :: utf8_decode r
  | _ -> raise (Bad "utf8")

let utf8_encode (buf : Buffer.t) (c : int) : unit =
  let add x = Buffer.add_string buf (Printf.sprintf "%02x" x) in
  if c < 0x80 then add c
  else if c < 0x800 then (add (0xC0 lor (c lsr 6)); add (0x80 lor (c land 0x3F)))
  else if c < 0x10000 then (add (0xE0 lor (c lsr 12)); add (0x80 lor ((c lsr 6) land 0x3F)); add (0x80 lor (c land 0x3F)))
  else (add (0xF0 lor (c lsr 18)); add (0x80 lor ((c lsr 12) land 0x3F)); add (0x80 lor ((c lsr 6) land 0x3F)); add (0x80 lor (c land 0x3F)))

(* strict UTF-8 validation (the harness decodes lossily; texts that are not valid UTF-8 are not fed to the PEG model) *)
let utf8_valid (b : int list) : bool =
  let cont c = c land 0xC0 = 0x80 in
  let rec go = function
    | [] -> true
    | c :: r when c < 0x80 -> go r
    | c :: c1 :: r when c >= 0xC2 && c <= 0xDF && cont c1 -> go r
    | c :: c1 :: c2 :: r when c land 0xF0 = 0xE0 && cont c1 && cont c2 ->
        let v = ((c land 0x0F) lsl 12) lor ((c1 land 0x3F) lsl 6) lor (c2 land 0x3F) in
        v >= 0x800 && not (v >= 0xD800 && v <= 0xDFFF) && go r
    | c :: c1 :: c2 :: c3 :: r when c land 0xF8 = 0xF0 && cont c1 && cont c2 && cont c3 ->
        let v = ((c land 0x07) lsl 18) lor ((c1 land 0x3F) lsl 12) lor ((c2 land 0x3F) lsl 6) lor (c3 land 0x3F) in
        v >= 0x10000 && v <= 0x10FFFF && go r
    | _ -> false in
  go b

let str_of_hex (s : string) : z list = List.map z_of_int (utf8_decode (bytes_of_hex s))
let hex_of_str (s : z list) : string =
  if s = [] then "-" else begin
    let b = Buffer.create 32 in
    List.iter (fun c -> utf8_encode b (int_of_z c)) s;
    Buffer.contents b
  end
let ascii_of_str (s : z list) : string = String.concat "" (List.map (fun c -> String.make 1 (Char.chr (int_of_z c))) s)

(* ---- the pair tree dump: rule:texthex | rule(child,child,...) *)
let rules : (string, rule) Hashtbl.t =
  let h = Hashtbl.create 64 in
  List.iter (fun r -> Hashtbl.replace h (ascii_of_str (rule_name r)) r) all_rules;
  h

let parse_tree (s : string) : tree =
  let n = String.length s in
  let pos = ref 0 in
  let is_name c = (c >= 'a' && c <= 'z') || (c >= 'A' && c <= 'Z') || (c >= '0' && c <= '9') || c = '_' in
  let rec node () : tree =
    let st = !pos in
    while !pos < n && is_name s.[!pos] do incr pos done;
    let name = String.sub s st (!pos - st) in
    let r = try Hashtbl.find rules name with Not_found -> raise (Bad ("rule " ^ name)) in
    if !pos < n && s.[!pos] = ':' then begin
      incr pos;
      let st = !pos in
      while !pos < n && s.[!pos] <> ',' && s.[!pos] <> ')' do incr pos done;
      Node (r, str_of_hex (String.sub s st (!pos - st)), [])
    end else if !pos < n && s.[!pos] = '(' then begin
      incr pos;
      let cs = ref [] in
      let continue = ref true in
      while !continue do
        cs := node () :: !cs;
        if !pos < n && s.[!pos] = ',' then incr pos
        else if !pos < n && s.[!pos] = ')' then (incr pos; continue := false)
        else raise (Bad "tree syntax")
      done;
      Node (r, [], List.rev !cs)
    end else raise (Bad "tree syntax")
  in
  let t = node () in
  if !pos <> n then raise (Bad "tree: trailing text");
  t

(* ---- canonical dump of a description (mirrors harness/src/gsd.rs dump_desc) *)
let b2s b = if b then "1" else "0"
let opt_s = function None -> "N" | Some s -> "S" ^ hex_of_str s
let join sep f l = String.concat sep (List.map f l)
let hex_of_bytes (l : z list) = hex l

let dump_def (d : prmdef) : string =
  let ty = match d.pd_type with
    | DNamed DT_Unsigned8 -> "U8" | DNamed DT_Unsigned16 -> "U16" | DNamed DT_Unsigned32 -> "U32"
    | DNamed DT_Signed8 -> "S8" | DNamed DT_Signed16 -> "S16" | DNamed DT_Signed32 -> "S32"
    | DBit n -> "B" ^ string_of_z n
    | DBitArea (a, z) -> "A" ^ string_of_z a ^ "." ^ string_of_z z in
  let c = match d.pd_constraint with
    | CNone -> "N"
    | CMinMax (a, z) -> "R" ^ string_of_z a ^ ":" ^ string_of_z z
    | CEnum v -> "E" ^ join ":" string_of_z v in
  let t = match d.pd_text with
    | None -> "N"
    | Some m -> "T[" ^ join "/" (fun (k, v) -> hex_of_str k ^ "=" ^ string_of_z v) m ^ "]" in
  Printf.sprintf "(%s,%s,%s,%s,%s,%s,%s)" (hex_of_str d.pd_name) ty (string_of_z d.pd_default) c t
    (b2s d.pd_changeable) (b2s d.pd_visible)

let dump_prm (p : userprm) : string =
  Printf.sprintf "(%s,[%s],[%s])" (string_of_z p.up_len)
    (join "/" (fun (o, v) -> string_of_z o ^ ":" ^ hex_of_bytes v) p.up_const)
    (join "/" (fun (o, d) -> string_of_z o ^ ":" ^ dump_def d) p.up_ref)

let dump_module (m : module0) : string =
  Printf.sprintf "(%s,%s,%s,%s,%s)" (hex_of_str m.m_name) (opt_s m.m_info) (hex_of_bytes m.m_config)
    (match m.m_ref with None -> "N" | Some r -> string_of_z r) (dump_prm m.m_prm)

let dump_bits (m : (z * diagbit) list) : string =
  join "/" (fun (k, v) -> string_of_z k ^ ":" ^ hex_of_str v.db_text ^ ":" ^ opt_s v.db_help) m

let dump_desc (g : desc) : string =
  let n f = string_of_z (g.d_num f) and s f = hex_of_str (g.d_str f) and fl f = b2s (g.d_flag f) in
  String.concat "" [
    "rev="; n NF_gsd_revision; ";vendor="; s SF_vendor; ";model="; s SF_model; ";revision="; s SF_revision;
    ";revnum="; n NF_revision_number; ";ident="; n NF_ident_number; ";hw="; s SF_hardware_release;
    ";sw="; s SF_software_release; ";impl="; s SF_implementation_type;
    ";freeze="; fl BF_freeze_mode_supported; ";sync="; fl BF_sync_mode_supported; ";autobaud="; fl BF_auto_baud_supported;
    ";setaddr="; fl BF_set_slave_addr_supported; ";failsafe="; fl BF_fail_safe; ";maxdiag="; n NF_max_diag_data_length;
    ";modular="; fl BF_modular_station; ";maxmod="; n NF_max_modules; ";maxin="; n NF_max_input_length;
    ";maxout="; n NF_max_output_length; ";maxdata="; n NF_max_data_length;
    ";speeds="; string_of_z g.d_speeds;
    ";tsdr="; String.concat "/" (List.map n [NF_max_tsdr_b9600; NF_max_tsdr_b19200; NF_max_tsdr_b31250; NF_max_tsdr_b45450;
                                              NF_max_tsdr_b93750; NF_max_tsdr_b187500; NF_max_tsdr_b500000; NF_max_tsdr_b1500000;
                                              NF_max_tsdr_b3000000; NF_max_tsdr_b6000000; NF_max_tsdr_b12000000]);
    ";modules=["; join "/" dump_module g.d_modules;
    "];slots=["; join "/" (fun sl -> Printf.sprintf "(%s,%s,%d,[%s])" (hex_of_str sl.sl_name) (string_of_z sl.sl_number)
                                        (int_of_nat sl.sl_default) (join "/" (fun i -> string_of_int (int_of_nat i)) sl.sl_allowed)) g.d_slots;
    "];prm="; dump_prm g.d_prm;
    ";bits=["; dump_bits g.d_bits; "];notbits=["; dump_bits g.d_notbits;
    "];areas=["; join "/" (fun a -> Printf.sprintf "%s:%s:[%s]" (string_of_z a.ar_first) (string_of_z a.ar_last)
                                        (join "/" (fun (k, v) -> string_of_z k ^ "=" ^ hex_of_str v) a.ar_values)) g.d_areas;
    "]" ]

let string_of_result (r : (desc * z) pr) : string =
  match r with
  | POk (g, w) -> "OK " ^ string_of_z w ^ " " ^ dump_desc g
  | PErr -> "ERR C"
  | PPanic _ -> "PANIC"

let bucket n = if n < 10 then "0-9" else if n < 100 then "10-99" else if n < 1000 then "100-999" else "1000+"

let split_hashes (s : string) : string * string =
  let n = String.length s in
  let rec find i = if i + 4 > n then None else if String.sub s i 4 = " ## " then Some i else find (i + 1) in
  match find 0 with
  | None -> (s, "")
  | Some i -> (String.sub s 0 i, String.sub s (i + 4) (n - i - 4))

let handle (case : string) (out : string) : unit =
  incr n_cases;
  let toks = split_ws case in
  let kind = match toks with k :: _ -> k | [] -> "?" in
  let (impl_raw, tree_s) = split_hashes out in
  let impl = if starts_with "PANIC" impl_raw then "PANIC" else impl_raw in
  let short s = if String.length s > 300 then String.sub s 0 300 ^ "..." else s in
  let case_s = case in
  (* ---- oracle 1 (no panic), on the implementation's output *)
  if impl = "PANIC" then begin
    report_fail "C19" "no_panic" case_s impl_raw;
    let loc = match List.rev (String.split_on_char '/' impl_raw) with l :: _ -> l | [] -> "?" in
    count ("panic:" ^ String.concat "_" (split_ws loc))
  end;
  (* ---- oracle 2 (fidelity): a rendered description comes back exactly *)
  (match kind, toks with
   | ("REN" | "SET"), [_; _; expected] ->
       let ok = match split_ws impl with
         | ["OK"; _; d] -> d = expected
         | _ -> false in
       if ok then count ("fidelity:" ^ kind ^ ":ok")
       else report_fail "C19" "fidelity" case_s (short impl_raw)
   | _ -> ());
  let outcome = match split_ws impl with x :: y :: _ when x = "ERR" -> "ERR" ^ y | x :: _ -> x | [] -> "?" in
  count ("kind:" ^ kind ^ ":" ^ outcome);
  (* ---- the PEG model of pest (validated only): same verdict and same pair tree as the real pest parser *)
  (match toks with
   | _ :: h :: _ when not (starts_with "TREEPANIC" tree_s) ->
       let bytes = bytes_of_hex h in
       if utf8_valid bytes then begin
         let text = List.map z_of_int (utf8_decode bytes) in
         match peg_parse text with
         | Ok None ->
             count "peg:reject";
             if tree_s <> "NOTREE" then report_diverge "C19" case_s "pest accepts the text" "Peg.v rejects it"
         | Ok (Some t) ->
             count "peg:accept";
             if tree_s = "NOTREE" then report_diverge "C19" case_s "pest rejects the text" "Peg.v accepts it"
             else if not (tree_eqb t (parse_tree tree_s)) then
               report_diverge "C19" case_s "pest's pair tree" "Peg.v builds a different pair tree"
         | OutOfFuel -> report_diverge "C19" case_s "pest terminates" "Peg.v: OUTOFFUEL"
         | Panic _ -> report_diverge "C19" case_s "pest terminates" "Peg.v: PANIC"
       end else count "peg:skipped-invalid-utf8"
   | _ -> ());
  (* ---- correspondence *)
  if tree_s = "NOTREE" then begin
    count "pest:reject";
    if impl <> "ERR P" then report_diverge "C19" case_s (short impl_raw) "ERR P (the harness's pest parser rejects the text)"
  end else if starts_with "TREEPANIC" tree_s then
    report_diverge "C19" case_s tree_s "pest panicked in the harness"
  else begin
    let t = parse_tree tree_s in
    let size = int_of_nat (tree_size t) in
    count ("interp:tree:" ^ bucket size);
    if not (shapeb t) then
      report_diverge "C19" case_s "pest produced this pair tree" "shape predicate (derived from the grammar) rejects it";
    (* the settings fragment of the proved round trip: the real tree must be settings_tree of its decoded items,
       and the items must meet the theorem's hypotheses *)
    if kind = "SET" then begin
      match decode_settings t with
      | Some items -> count "interp:settings-theorem-applies"; count ("settings:items:" ^ bucket (List.length items))
      | None -> report_diverge "C19" case_s "real pair tree of a settings-only file"
                  "not settings_tree of its decoded items / hypotheses of C19_roundtrip_settings_partial fail"
    end;
    (* whole files (C19_roundtrip_file and the fragment theorems): the real pair tree of every rendered file must be
       file_tree of its decoded statements and meet the hypotheses; then what the written statements say
       (file_says: no tree, no parsing) must be the implementation's result *)
    (match decode_file t with
     | Some stmts ->
         count "file:in-image";
         if file_okb stmts then begin
           count ("interp:file-theorem-applies:" ^ kind);
           let said = string_of_result (file_says stmts) in
           if said <> impl then report_diverge "C19" case_s (short impl_raw) ("file_says: " ^ short said);
           (* the extra hypotheses of the fragment theorems (scalars / definitions+parameter data+modules / slots) *)
           let h1 = nodupb (set_targets (sets_of stmts)) and h2 = ids_unique stmts and h3 = modules_first stmts in
           if h1 then count "fragment:scalars-applies";
           if h2 then count "fragment:prm-modules-applies";
           if h3 then count "fragment:slots-applies";
           if (kind = "REN" || kind = "SET") && not (h1 && h2 && h3) then
             report_diverge "C19" case_s "rendered file"
               (Printf.sprintf "hypotheses of the fragment theorems fail (no field twice %b, unique ids %b, modules first %b)" h1 h2 h3)
         end else begin
           count ("file:hypotheses-fail:" ^ outcome);
           if kind = "REN" || kind = "SET" then
             report_diverge "C19" case_s "rendered file" "hypotheses of C19_roundtrip_file fail on its decoded statements";
           (* a file the implementation accepts although the written-level semantics calls it ill-formed is worth a look *)
           if outcome = "OK" then count "file:accepted-outside-fragment"
         end
     | None ->
         count "file:not-in-image";
         if kind = "REN" || kind = "SET" then
           report_diverge "C19" case_s "real pair tree of a rendered file" "not file_tree of its decoded statements");
    let m = string_of_result (interp t) in
    (match interp t with
     | POk _ -> count "interp:model:OK" | PErr -> count "interp:model:ERR" | PPanic _ -> count "interp:model:PANIC");
    if m <> impl then report_diverge "C19" case_s (short impl_raw) (short m)
  end
