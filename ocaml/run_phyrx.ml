(* Receive-path domain (C16): replay the chunks / timed operations through the extracted model,
   compare with the implementation, and run the C16 oracles on the implementation's output. *)
open Model
open Zu

exception Bad of string

let fcbit_of_int = function 0 -> FcbFirst | 1 -> FcbHigh | 2 -> FcbLow | _ -> FcbInactive
let int_of_fcbit = function FcbFirst -> 0 | FcbHigh -> 1 | FcbLow -> 2 | FcbInactive -> 3

let fc_of_string (s : string) : fcode =
  match String.split_on_char ':' s with
  | ["Q"; a; b] ->
      (match req_from_byte (z_of_int (int_of_string b)) with
       | Some r -> FcRequest (fcbit_of_int (int_of_string a), r)
       | None -> raise (Bad ("req " ^ b)))
  | ["P"; a; b] ->
      (match resp_state_from_byte (z_of_int (int_of_string a)), resp_status_from_byte (z_of_int (int_of_string b)) with
       | Some st, Some s -> FcResponse (st, s)
       | _ -> raise (Bad ("resp " ^ s)))
  | _ -> raise (Bad ("fc " ^ s))

let string_of_fc (fc : fcode) : string =
  match fc with
  | FcRequest (f, r) -> Printf.sprintf "Q:%d:%d" (int_of_fcbit f) (int_of_z (req_to_byte r))
  | FcResponse (st, s) -> Printf.sprintf "P:%d:%d" (int_of_z (resp_state_to_byte st)) (int_of_z (resp_status_to_byte s))

let string_of_telegram (t : telegram) : string =
  match t with
  | TData (h, pdu) ->
      Printf.sprintf "D %d %d %s %s %s %s" (int_of_z h.h_da) (int_of_z h.h_sa) (string_of_opt h.h_dsap)
        (string_of_opt h.h_ssap) (string_of_fc h.h_fc) (hex pdu)
  | TToken (da, sa) -> Printf.sprintf "T %d %d" (int_of_z da) (int_of_z sa)
  | TShortConf -> "S"

let telegram_of_fields (p : string list) : telegram =
  match p with
  | ["D"; da; sa; dsap; ssap; fc; pdu] ->
      TData ({ h_da = z_of_int (int_of_string da); h_sa = z_of_int (int_of_string sa);
               h_dsap = opt_of_string dsap; h_ssap = opt_of_string ssap; h_fc = fc_of_string fc }, unhex pdu)
  | ["T"; da; sa] -> TToken (z_of_int (int_of_string da), z_of_int (int_of_string sa))
  | ["S"] -> TShortConf
  | _ -> raise (Bad "telegram")

let telegram_of_token (s : string) : telegram = telegram_of_fields (String.split_on_char '/' s)

let parse_lens (s : string) : int list =
  if s = "-" then [] else List.map int_of_string (String.split_on_char ',' s)

(* clamp-split (same rule as the harness) *)
let split_stream (stream : z list) (lens : int list) : z list list =
  let rec take n l = if n <= 0 then ([], l) else match l with [] -> ([], []) | x :: r -> let (a, b) = take (n - 1) r in (x :: a, b) in
  let rec go l lens = match lens with
    | [] -> []
    | n :: rest -> let (a, b) = take n l in a :: go b rest in
  go stream lens

(* ---------------------------------------------------------------- printing model outputs *)

let string_of_poll (d : (telegram * bool) list) (r : telegram option) (pending : int) : string =
  let b = Buffer.create 64 in
  Buffer.add_string b "P";
  List.iter (fun (t, l) -> Buffer.add_string b (Printf.sprintf " | %s ! %d" (string_of_telegram t) (if l then 1 else 0))) d;
  Buffer.add_string b (Printf.sprintf " | r %s | p %d" (match r with Some t -> string_of_telegram t | None -> "-") pending);
  Buffer.contents b

(* ---------------------------------------------------------------- parsing implementation outputs *)

let split_on_string (sep : string) (s : string) : string list =
  let n = String.length s and m = String.length sep in
  let rec go start i acc =
    if i + m > n then List.rev (String.sub s start (n - start) :: acc)
    else if String.sub s i m = sep then go (i + m) (i + m) (String.sub s start (i - start) :: acc)
    else go start (i + 1) acc in
  go 0 0 []

(* "P | tel ! f | ... | r tel | p n" -> obs *)
let obs_of_string (s : string) : obs =
  match List.map String.trim (String.split_on_char '|' s) with
  | "P" :: rest ->
      let rec go acc = function
        | [r; p] ->
            let r = (match split_ws r with
                     | ["r"; "-"] -> None
                     | "r" :: toks -> Some (telegram_of_fields toks)
                     | _ -> raise (Bad "ret")) in
            let p = (match split_ws p with ["p"; n] -> int_of_string n | _ -> raise (Bad "pending")) in
            { ob_deliv = List.rev acc; ob_ret = r; ob_pending = nat_of_int p }
        | d :: rest ->
            let toks = split_ws d in
            let rec split_bang acc = function
              | ["!"; f] -> (List.rev acc, f <> "0")
              | x :: xs -> split_bang (x :: acc) xs
              | [] -> raise (Bad "delivery") in
            let (tt, f) = split_bang [] toks in
            go ((telegram_of_fields tt, f) :: acc) rest
        | [] -> raise (Bad "poll") in
      go [] rest
  | _ -> raise (Bad "poll")

let has_panic (s : string) : bool =
  List.exists (fun x -> starts_with "PANIC" (String.trim x)) (split_on_string " ; " s)

(* PANIC <loc> -> PANIC *)
let canon (s : string) : string =
  String.concat " ; " (List.map (fun x -> let x = String.trim x in if starts_with "PANIC" x then "PANIC" else x) (split_on_string " ; " s))

(* full i64 range (OCaml's int has 63 bits) *)
let z_of_int64 (i : int64) : z =
  let rec pos (u : int64) : positive =   (* u > 0, treated as unsigned *)
    if u = 1L then XH
    else
      let q = Int64.shift_right_logical u 1 in
      if Int64.logand u 1L = 0L then XO (pos q) else XI (pos q) in
  if i = 0L then Z0 else if i > 0L then Zpos (pos i) else Zneg (pos (Int64.neg i))   (* neg min_int = min_int = 2^63 unsigned *)

let baud_of_rate (r : int) : baudrate =
  match List.filter (fun b -> int_of_z (baud_to_rate b) = r) all_baudrates with
  | b :: _ -> b
  | [] -> raise (Bad "baud")

let handle (case : string) (out : string) : unit =
  incr n_cases;
  let p = split_ws case in
  match p with
  | "RXB" :: mode :: eps ->
      let all = (mode = "A") in
      (* episodes: kind, telegrams, bytes, chunks *)
      let parsed = List.map (fun ep ->
        match String.split_on_char '=' ep with
        | ["C"; tels; lens] ->
            let ts = if tels = "-" then [] else List.map telegram_of_token (String.split_on_char ',' tels) in
            let chunks = split_stream (stream ts) (parse_lens lens) in
            (`Clean ts, chunks)
        | [g; hx; lens] when String.length g = 2 && g.[0] = 'G' ->
            (`Garbage (g.[1] = '1'), split_stream (unhex hx) (parse_lens lens))
        | _ -> raise (Bad "episode")) eps in
      let chunks = List.concat (List.map snd parsed) in
      let poll = if all then poll_all else poll_single in
      (* model run, poll by poll so that a panic keeps the outputs before it *)
      let rec run buf cs acc =
        match cs with
        | [] -> List.rev acc
        | c :: cs' ->
            (match poll (buf @ c) with
             | Ok o -> run o.po_rest cs' (string_of_poll o.po_deliv o.po_ret (List.length o.po_rest) :: acc)
             | Panic _ -> List.rev ("PANIC" :: acc)
             | OutOfFuel -> List.rev ("OUTOFFUEL" :: acc)) in
      let model = (match run [] chunks [] with [] -> "-" | l -> String.concat " ; " l) in
      if model <> canon out then begin
        report_diverge "C16" case out model;
        (* first differing poll: all polls before it agree, so both sides looked at the same buffer.
           For that buffer C16_is_last ties the model's flag to "no byte is buffered behind the
           telegram": same telegram delivered with a different flag = the is_last clause is violated. *)
        let ip = split_on_string " ; " (canon out) and mp = split_on_string " ; " model in
        let rec first a b = match a, b with
          | x :: a', y :: b' -> if x = y then first a' b' else Some (x, y)
          | _, _ -> None in
        (match first ip mp with
         | Some (x, y) ->
             let ex = split_on_string " | " x and ey = split_on_string " | " y in
             let flag_of e = (match split_on_string " ! " e with [t; f] -> Some (t, f) | _ -> None) in
             let rec cmp a b = match a, b with
               | e1 :: a', e2 :: b' ->
                   (match flag_of e1, flag_of e2 with
                    | Some (t1, f1), Some (t2, f2) when t1 = t2 && f1 <> f2 -> true
                    | _ -> if e1 = e2 then cmp a' b' else false)
               | _, _ -> false in
             if cmp ex ey then report_fail "C16" "is_last" case out
         | None -> ())
      end;
      (* statistics *)
      let ngarb = List.length (List.filter (fun (k, _) -> match k with `Garbage _ -> true | _ -> false) parsed) in
      count (Printf.sprintf "buf:%s:%s" mode (if ngarb = 0 then "clean" else "garbage"));
      List.iter (fun (k, _) -> match k with
        | `Clean ts -> List.iter (fun t -> count (match t with
            | TShortConf -> "tel:sc" | TToken _ -> "tel:token"
            | TData (h, pdu) -> (match List.length (encode t) - List.length pdu with
                                 | _ when List.length (encode t) = 6 -> "tel:sd1"
                                 | _ when List.length (encode t) = 14 -> "tel:sd3"
                                 | _ -> if h.h_dsap <> None || h.h_ssap <> None then "tel:sd2+sap" else "tel:sd2"))) ts
        | _ -> ()) parsed;
      count (Printf.sprintf "chunks:%s" (let n = List.length chunks in if n <= 1 then "1" else if n <= 4 then "2-4" else if n <= 16 then "5-16" else ">16"));
      (* oracle on the implementation's output *)
      let valid = List.for_all (fun (k, _) -> match k with `Clean ts -> List.for_all valid_telegramb ts | _ -> true) parsed in
      if valid then begin
        let eps = List.map (fun (k, cs) ->
          let lens = List.map (fun c -> nat_of_int (List.length c)) cs in
          match k with `Clean ts -> EpClean (ts, lens) | `Garbage m -> EpGarbage (m, lens)) parsed in
        match (try Some (List.map obs_of_string (if out = "-" then [] else split_on_string " ; " out)) with _ -> None) with
        | Some obs when not (has_panic out) ->
            if not (c16_case_ok all eps true obs) then report_fail "C16" "reassembly" case out;
            let rs = int_of_nat (c16_resyncs eps true false obs) in
            if rs > 0 then count "resync:checked";
            if ngarb > 0 && rs = 0 then count "resync:stuck-or-last"
        | _ -> report_fail "C16" "no_panic" case out
      end
  | kind :: mode :: rate :: ops when kind = "RXS" || kind = "RXQ" ->
      let all = (mode = "A") in
      let baud = baud_of_rate (int_of_string rate) in
      let parse_op (s : string) =
        let (head, arg) = (match String.index_opt s '=' with
          | Some i -> (String.sub s 0 i, Some (String.sub s (i + 1) (String.length s - i - 1)))
          | None -> (s, None)) in
        let i = String.index head '@' in
        let k = String.sub head 0 i in
        let t = z_of_int64 (Int64.of_string (String.sub head (i + 1) (String.length head - i - 1))) in
        let rec take n l = if n <= 0 then [] else match l with [] -> [] | x :: r -> x :: take (n - 1) r in
        let rec drop n l = if n <= 0 then l else match l with [] -> [] | _ :: r -> drop (n - 1) r in
        match k, arg with
        | ("P" | "F"), _ -> (OpPoll t, `Poll (k = "F"))
        | ("Zr" | "Zt"), _ -> (OpTxNone (k = "Zr", t), `Nop)
        | _, Some a ->
            let by_rx = (k = "Xr") in
            if a.[0] = 'H' || a.[0] = 'L' then
              (* a telegram sent in two pieces through transmit_data *)
              let j = String.index a '/' in
              let n = int_of_string (String.sub a 1 (j - 1)) in
              let tel = telegram_of_token (String.sub a (j + 1) (String.length a - j - 1)) in
              let f = encode tel in
              if a.[0] = 'H' then (OpTx (by_rx, t, PayRaw (take n f)), (if by_rx then `Quirk else `Sent tel))
              else (OpTx (by_rx, t, PayRaw (drop n f)), (if by_rx then `Quirk else `Nop))
            else if a.[0] = 'G' then
              let j = String.index a '/' in
              let data = unhex (String.sub a (j + 1) (String.length a - j - 1)) in
              (OpTx (by_rx, t, PayRaw data), (if by_rx then `Quirk else `Garbage (a.[1] = '1')))
            else
              let tel = telegram_of_token a in
              let rq = (match tel with TData (h, pdu) -> TxData (h, pdu) | TToken (da, sa) -> TxToken (da, sa) | TShortConf -> TxShortConf) in
              (OpTx (by_rx, t, PayTelegram rq), (if by_rx then `Quirk else `Sent tel))
        | _ -> raise (Bad "op") in
      let pops = List.map parse_op ops in
      let (outs, panicked) = run_sim all (sim_init baud) (List.map fst pops) in
      let strs = List.map (fun o -> match o with
        | SoTx (n, exp) -> Printf.sprintf "X %d %s" (int_of_nat n) (string_of_opt exp)
        | SoRaw n -> Printf.sprintf "R %d" (int_of_nat n)
        | SoNone -> "N"
        | SoPoll (d, r, pending) -> string_of_poll d r (int_of_nat pending)) outs in
      let strs = if panicked then strs @ ["PANIC"] else strs in
      let model = (match strs with [] -> "-" | l -> String.concat " ; " l) in
      if model <> canon out then report_diverge "C16" case out model;
      count (Printf.sprintf "sim:%s:%s%s" kind mode (if panicked then ":panic" else ""));
      let partial = List.exists (fun o -> match o with SoPoll (d, _, p) -> int_of_nat p > 0 && d <> [] | _ -> false) outs in
      let waiting = List.exists (fun o -> match o with SoPoll (d, _, p) -> int_of_nat p > 0 && d = [] | _ -> false) outs in
      if partial then count "sim:poll-with-delivery-and-incomplete-tail";
      if waiting then count "sim:poll-mid-telegram";
      (* a transmit call of the receiver that sent nothing while it had unread bytes *)
      let rec idle_tx_unread pend pr orr = match pr, orr with
        | (_, `Poll _) :: pr, SoPoll (_, _, p) :: orr -> idle_tx_unread (int_of_nat p) pr orr
        | (OpTxNone (true, _), _) :: pr, _ :: orr -> pend > 0 || idle_tx_unread pend pr orr
        | _ :: pr, _ :: orr -> idle_tx_unread pend pr orr
        | _, _ -> false in
      if List.exists (fun (o, _) -> match o with OpTxNone _ -> true | _ -> false) pops then count (Printf.sprintf "sim:%s:idle-transmit" kind);
      if idle_tx_unread 0 pops outs then count "sim:idle-transmit-with-incomplete-telegram-buffered";
      if List.exists (fun (o, k) -> k = `Nop && (match o with OpTx _ -> true | _ -> false)) pops then count (Printf.sprintf "sim:%s:telegram-in-two-transmissions" kind);
      if kind = "RXS" then begin
        if has_panic out then report_fail "C16" "no_panic" case out
        else begin
          let outstrs = if out = "-" then [] else split_on_string " ; " out in
          if List.length outstrs <> List.length pops then report_fail "C16" "sim_shape" case out
          else begin
            match (try Some (List.map2 (fun (_, k) o ->
              match k with
              | `Poll flush -> EvPoll (flush, obs_of_string o)
              | `Sent t -> if valid_telegramb t then EvSent t else EvGarbage false
              | `Garbage m -> EvGarbage (m && all)
              | `Nop -> EvNop
              | `Quirk -> EvGarbage false) pops outstrs) with _ -> None) with
            | None -> report_fail "C16" "sim_shape" case out
            | Some evs ->
                (match c16_sim_walk all sim_mon_init evs with
                 | Some m -> count "sim:oracle-ok"; if int_of_nat m.m_checked > 0 then count "sim:oracle-deliveries-checked"
                 | None -> report_fail "C16" "sim_reassembly" case out)
          end
        end
      end
  | _ -> Printf.printf "BADLINE %s\n" case
