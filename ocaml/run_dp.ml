(* DP domain: replay the inputs of the implementation's transcript on the model (DpRun.run_in) and
   compare every output record; run the property monitors on the implementation's transcript. *)
open Model
open Zu

exception Bad of string

let props = ["C03"; "C04"; "C07"; "C08"; "C14"]
let zi s = z_of_int (int_of_string s)
let ni s = nat_of_int (int_of_string s)
let b2i b = if b then 1 else 0
let opt_bytes s = if s = "N" then None else Some (unhex s)

(* split on a separator string *)
let split_on (sep : string) (s : string) : string list =
  let n = String.length s and k = String.length sep in
  let rec go start i acc =
    if i + k > n then List.rev (String.sub s start (n - start) :: acc)
    else if String.sub s i k = sep then go (i + k) (i + k) (String.sub s start (i - start) :: acc)
    else go start (i + 1) acc in
  go 0 0 []

(* ---------------------------------------------------------------- case -> conf *)

let parse_conf (case : string) : conf * int option =
  let secs = List.map split_ws (String.split_on_char ';' case) in
  let dp = (try List.find (function "DP" :: _ -> true | _ -> false) secs with Not_found -> raise (Bad "no DP")) in
  let (params, bufsize, owned, nslots, autotake, wdms) =
    (match dp with
     | [_; addr; baud; slot; retry; tsdr; wd; buf; st; at; _t0] ->
         let wdms = if wd = "-" then None else Some (int_of_string wd) in
         let wdf = (match wdms with
                    | None -> None
                    | Some ms -> (match watchdog_factors (z_of_int (ms * 1000)) with Some (Some f) -> Some f | _ -> None)) in
         let d = default_params in
         ({ p_address = zi addr; p_baud = List.nth all_baudrates (int_of_string baud); p_slot_bits = zi slot;
            p_ttr_bits = d.p_ttr_bits; p_gap_wait = d.p_gap_wait; p_hsa = d.p_hsa; p_max_retry = zi retry;
            p_min_tsdr_bits = zi tsdr; p_watchdog = wdf },
          ni buf, st.[0] = 'V', ni (String.sub st 1 (String.length st - 1)), at = "1", wdms)
     | _ -> raise (Bad "DP section")) in
  let periphs = List.filter_map (function
    | ["P"; slot; addr; ident; fl; groups; mt; prm; cfg; il; ol; dg] ->
        Some { pc_slot = (if slot = "-" || slot = "L" then None else Some (ni slot)); pc_late = (slot = "L");
               pc_addr = zi addr;
               pc_opts = { o_ident = zi ident; o_sync = fl.[0] = '1'; o_freeze = fl.[1] = '1'; o_groups = zi groups;
                           o_max_tsdr = zi mt; o_fail_safe = fl.[2] = '1'; o_user_prm = opt_bytes prm; o_config = opt_bytes cfg };
               pc_in = ni il; pc_out = ni ol; pc_diag = ni dg }
    | _ -> None) secs in
  let slaves = List.filter_map (function
    | ["S"; addr; ident; cfg; il; ol] -> Some (slave_new (zi addr) (zi ident) (unhex cfg) (ni il) (ni ol))
    | _ -> None) secs in
  ({ cf_params = params; cf_bufsize = bufsize; cf_nslots = nslots; cf_owned = owned; cf_autotake = autotake;
     cf_periphs = periphs; cf_slaves = slaves }, wdms)

(* ---------------------------------------------------------------- printing model values *)

let events_str (e : dpevents) : string =
  match e.ev_peripheral with
  | Some (h, ev) -> Printf.sprintf "%d,%d,%d,%d" (b2i e.ev_cycle_completed) (int_of_nat h.hd_index) (int_of_z h.hd_addr) (int_of_z (pevent_code ev))
  | None -> Printf.sprintf "%d,-" (b2i e.ev_cycle_completed)

let pobs_str (o : pobs option) : string =
  match o with
  | None -> "?"
  | Some o ->
      let d = (match o.ob_diag with
               | None -> "-"
               | Some (d, ext) -> Printf.sprintf "%d,%d,%s,%s" (int_of_z d.d_flags) (int_of_z d.d_ident) (string_of_opt d.d_master)
                                    (match ext with None -> "N" | Some b -> hex b)) in
      Printf.sprintf "%d%d:%s:%s:%s" (b2i o.ob_live) (b2i o.ob_running) (hex o.ob_pi_i) (hex o.ob_pi_q) d

(* ---------------------------------------------------------------- parsing implementation records *)

let pevent_of_code (c : int) : pevent =
  try List.find (fun e -> int_of_z (pevent_code e) = c) all_pevents with Not_found -> raise (Bad "event code")

let events_of_string (s : string) : dpevents =
  match String.split_on_char ',' s with
  | [cc; "-"] -> { ev_cycle_completed = cc = "1"; ev_peripheral = None }
  | [cc; idx; addr; ev] ->
      { ev_cycle_completed = cc = "1";
        ev_peripheral = Some ({ hd_index = ni idx; hd_addr = zi addr }, pevent_of_code (int_of_string ev)) }
  | _ -> raise (Bad ("events " ^ s))

let pobs_of_string (s : string) : pobs option =
  if s = "?" then None else
  match String.split_on_char ':' s with
  | [lr; i; q; d] ->
      let diag = if d = "-" then None else
        (match String.split_on_char ',' d with
         | [fl; id; ma; ext] -> Some ({ d_flags = zi fl; d_ident = zi id; d_master = opt_of_string ma }, opt_bytes ext)
         | _ -> raise (Bad ("diag " ^ d))) in
      Some { ob_live = lr.[0] = '1'; ob_running = lr.[1] = '1'; ob_pi_i = unhex i; ob_pi_q = unhex q; ob_diag = diag }
  | _ -> raise (Bad ("pobs " ^ s))

let opstate_of_code = function 0 -> OpStop | 1 -> OpClear | _ -> OpOperate

let canon_panic (s : string) : string =
  (* "... PANIC file:line" -> "... PANIC" *)
  let toks = split_ws s in
  let rec go = function
    | [] -> []
    | "PANIC" :: _ -> ["PANIC"]
    | x :: r -> x :: go r in
  String.concat " " (go toks)

(* implementation record -> input, and what the implementation returned *)
let parse_action (toks : string list) : tr_in * bool * tr_out =
  let out_of rest = (match rest with
    | ["PANIC"] -> Some OutPanic
    | ["TIMEOUT"] -> Some OutHang
    | _ -> None) in
  match toks with
  | "X" :: now :: hp :: rest ->
      let i = InTx (zi now, hp = "1") in
      (match rest with
       | ["N"] -> (i, false, OutTx None)
       | ["S"; hx; exp] -> (i, false, OutTx (Some (unhex hx, opt_of_string exp)))
       | _ -> (match out_of rest with Some o -> (i, false, o) | None -> raise (Bad "X")))
  | "SV" :: k :: wire :: [reply] -> (InSlave (ni k, unhex wire), false, OutSlave (opt_bytes reply))
  | ("RX" | "RW" as w) :: now :: addr :: hx :: rest ->
      (InRx (zi now, zi addr, unhex hx), w = "RW", (match out_of rest with Some o -> o | None -> OutUnit))
  | "TO" :: now :: addr :: rest -> (InTo (zi now, zi addr), false, (match out_of rest with Some o -> o | None -> OutUnit))
  | ["AB"] -> (InAbandon, false, OutUnit)
  | ["RD"; k] -> (InReqDiag (ni k), false, OutUnit)
  | ["WQ"; k; hx] -> (InWriteQ (ni k, unhex hx), false, OutUnit)
  | ["EN"; c; r] -> (InEnter (opstate_of_code (int_of_string c)), false, (if r = "ok" then OutUnit else OutPanicked))
  | ["TK"] -> (InTake, false, OutUnit)
  | "ADD" :: k :: rest ->
      (match rest with
       | [idx; addr] -> (InAdd (ni k), false, OutHandle { hd_index = ni idx; hd_addr = zi addr })
       | _ -> (match out_of rest with Some o -> (InAdd (ni k), false, o) | None -> raise (Bad "ADD")))
  | ["PC"; k] -> (InPower (ni k), false, OutUnit)
  | ["SF"; k; si; rd; sd; dp; f1; f2; ext; ident] ->
      (InSlaveSet (ni k, si = "1", ni rd, sd = "1", dp = "1", zi f1, zi f2, unhex ext, zi ident), false, OutUnit)
  | ["CLEAN"] -> (InClean, false, OutUnit)
  | "RA" :: k :: a :: rest -> (InResetAddr (ni k, zi a), false, (match out_of rest with Some o -> o | None -> OutUnit))
  | _ -> raise (Bad ("action " ^ String.concat " " toks))

(* the model's rendering of the same action *)
let render_action (toks : string list) (r : (sys * tr_out) res) : string =
  let pre n = String.concat " " (List.filteri (fun i _ -> i < n) toks) in
  let fail p = (match r with Panic _ -> p ^ " PANIC" | OutOfFuel -> p ^ " TIMEOUT" | Ok _ -> p) in
  match toks, r with
  | "X" :: _, Ok (_, OutTx None) -> pre 3 ^ " N"
  | "X" :: _, Ok (_, OutTx (Some (w, exp))) -> Printf.sprintf "%s S %s %s" (pre 3) (hex w) (string_of_opt exp)
  | "X" :: _, _ -> fail (pre 3)
  | "SV" :: _, Ok (_, OutSlave reply) -> Printf.sprintf "%s %s" (pre 3) (match reply with None -> "N" | Some b -> hex b)
  | ("RX" | "RW") :: _, _ -> fail (pre 4)
  | "TO" :: _, _ -> fail (pre 3)
  | "RA" :: _, _ -> fail (pre 3)
  | "EN" :: _, Ok (_, OutUnit) -> pre 2 ^ " ok"
  | "EN" :: _, Ok (_, OutPanicked) -> pre 2 ^ " unw"
  | "ADD" :: _, Ok (_, OutHandle h) -> Printf.sprintf "%s %d %d" (pre 2) (int_of_nat h.hd_index) (int_of_z h.hd_addr)
  | "ADD" :: _, _ -> fail (pre 2)
  | _, Ok (_, OutBad) -> "BAD-INPUT"
  | _, Ok _ -> String.concat " " toks
  | _, _ -> fail (String.concat " " toks)

type istep = { s_in : tr_in; s_raw : bool; s_out : tr_out; s_taken : dpevents option;
               s_obs : pobs option list; s_op : opstate; s_text : string }

let pstate_name = function
  | PsOffline -> "Offline" | PsWaitForParam -> "WaitForParam" | PsWaitForConfig -> "WaitForConfig"
  | PsValidateConfig -> "ValidateConfig" | PsPreDataExchange -> "PreDataExchange" | PsDataExchange -> "DataExchange"

let handle (case : string) (out : string) : unit =
  incr n_cases;
  let (conf, _wdms) = parse_conf case in
  let nper = List.length conf.cf_periphs in
  let recs = split_on " ; " out in
  (* model side *)
  let sys = ref (init_sys conf) in
  let last_obs = Array.make nper "?" in
  let last_op = ref "?" in
  (* implementation side (for the monitors) *)
  let impl_obs = Array.make nper None in
  let impl_op = ref OpStop in
  let steps = ref [] in
  let diverged = ref false in
  let obs0 = ref [] in
  let hs0 = ref [] in
  let report_div i impl model =
    if not !diverged then begin
      diverged := true;
      List.iter (fun p -> report_diverge p case (Printf.sprintf "step %d: %s" i impl) (Printf.sprintf "step %d: %s" i model)) props
    end in
  let obs_suffix (taken : string option) : string =
    match !sys with
    | Ok s ->
        let b = Buffer.create 64 in
        (match taken with Some t -> Buffer.add_string b (" E=" ^ t) | None -> ());
        List.iteri (fun k o ->
          let cur = pobs_str o in
          if cur <> last_obs.(k) then begin
            Buffer.add_string b (Printf.sprintf " P%d=%s" k cur); last_obs.(k) <- cur end) (observe s);
        let op = string_of_int (int_of_z (opstate_code (observe_op s))) in
        if op <> !last_op then begin Buffer.add_string b (" O=" ^ op); last_op := op end;
        if Buffer.length b = 0 then "" else " |" ^ Buffer.contents b
    | _ -> "" in
  let stop = ref false in      (* the model no longer follows (diverged, panicked, out of fuel) *)
  List.iteri (fun i rcd ->
    if !stop then begin
      (* keep reading the implementation's transcript for the monitors *)
      let rcd = String.trim rcd in
      let (act, obs) = (match split_on " | " rcd with [a] -> (a, "") | a :: o :: _ -> (a, o) | [] -> ("", "")) in
      let toks = split_ws (canon_panic act) in
      let taken = ref None in
      List.iter (fun t ->
        if starts_with "E=" t then taken := Some (events_of_string (String.sub t 2 (String.length t - 2)))
        else if starts_with "O=" t then impl_op := opstate_of_code (int_of_string (String.sub t 2 (String.length t - 2)))
        else if starts_with "P" t then begin
          match String.index_opt t '=' with
          | Some j ->
              let k = int_of_string (String.sub t 1 (j - 1)) in
              if k < nper then impl_obs.(k) <- pobs_of_string (String.sub t (j + 1) (String.length t - j - 1))
          | None -> ()
        end) (split_ws obs);
      (match toks with
       | [] | "INIT" :: _ | ["TIMEOUT"] | ["SETUP-PANIC"] | "BADCASE" :: _ -> ()
       | _ ->
           (try
              let (inp, raw, iout) = parse_action toks in
              steps := { s_in = inp; s_raw = raw; s_out = iout; s_taken = !taken;
                         s_obs = Array.to_list impl_obs; s_op = !impl_op; s_text = canon_panic act ^ (if obs = "" then "" else " | " ^ obs) } :: !steps
            with Bad _ -> ()))
    end else begin
      let rcd = String.trim rcd in
      let (act, obs) = (match split_on " | " rcd with
                        | [a] -> (a, "")
                        | a :: o :: _ -> (a, o)
                        | [] -> ("", "")) in
      let toks = split_ws (canon_panic act) in
      let impl_canon = canon_panic act ^ (if obs = "" then "" else " | " ^ obs) in
      (* record the implementation's observables *)
      let taken = ref None in
      List.iter (fun t ->
        if starts_with "E=" t then taken := Some (events_of_string (String.sub t 2 (String.length t - 2)))
        else if starts_with "O=" t then impl_op := opstate_of_code (int_of_string (String.sub t 2 (String.length t - 2)))
        else if starts_with "P" t then begin
          match String.index_opt t '=' with
          | Some j ->
              let k = int_of_string (String.sub t 1 (j - 1)) in
              if k < nper then impl_obs.(k) <- pobs_of_string (String.sub t (j + 1) (String.length t - j - 1))
          | None -> ()
        end) (split_ws obs);
      match toks with
      | "INIT" :: rest ->
          (* INIT <wd> H<handles> *)
          let model =
            (match !sys with
             | Ok s ->
                 let wd = (match conf.cf_params.p_watchdog with
                           | Some (a, b) -> Printf.sprintf "%d,%d" (int_of_z a) (int_of_z b) | None -> "-") in
                 let hs = String.concat "," (List.map (function Some h -> string_of_int (int_of_nat h.hd_index) | None -> "-") s.sy_handles) in
                 Printf.sprintf "INIT %s H%s" wd hs ^ obs_suffix None
             | Panic _ -> (match rest with wd :: _ -> "INIT " ^ wd ^ " PANIC" | [] -> "INIT PANIC")
             | OutOfFuel -> "INIT TIMEOUT") in
          count "dp:cases";
          obs0 := Array.to_list impl_obs;
          (match List.filter (fun t -> String.length t > 0 && t.[0] = 'H') rest with
           | h :: _ when String.length h > 1 ->
               let idx = String.split_on_char ',' (String.sub h 1 (String.length h - 1)) in
               hs0 := List.mapi (fun k ix ->
                 if ix = "-" then None
                 else (match List.nth_opt conf.cf_periphs k with
                       | Some pc -> Some { hd_index = ni ix; hd_addr = pc.pc_addr }
                       | None -> None)) idx
           | _ -> hs0 := List.map (fun _ -> None) conf.cf_periphs);
          count (Printf.sprintf "dp:peripherals:%d" nper);
          if model <> impl_canon then begin report_div i impl_canon model; stop := true end;
          (match !sys with Ok _ -> () | _ -> stop := true)
      | [] -> ()
      | ["TIMEOUT"] -> report_div i impl_canon "(model has no pending call)"; stop := true
      | ["SETUP-PANIC"] | "BADCASE" :: _ -> report_div i impl_canon "(setup)"; stop := true
      | _ ->
          (match !sys with
           | Ok s ->
               let (inp, raw, iout) = parse_action toks in
               let r = run_in s inp in
               let act_m = render_action toks r in
               let model =
                 (match r with
                  | Ok (s1, o) ->
                      let (s2, tk) = auto_take s1 inp in
                      sys := Ok s2;
                      let tk = (match tk, o with
                                | Some e, _ -> Some (events_str e)
                                | None, OutEvents e -> Some (events_str e)
                                | None, _ -> None) in
                      act_m ^ obs_suffix tk
                  | Panic st -> sys := Panic st; act_m
                  | OutOfFuel -> sys := OutOfFuel; act_m) in
               steps := { s_in = inp; s_raw = raw; s_out = iout; s_taken = !taken;
                          s_obs = Array.to_list impl_obs; s_op = !impl_op; s_text = impl_canon } :: !steps;
               (match inp with
                | InTx _ -> count "dp:step:transmit"
                | InRx _ -> count (if raw then "dp:step:reply-raw" else "dp:step:reply")
                | InTo _ -> count "dp:step:timeout"
                | InAbandon -> count "dp:step:abandoned"
                | InSlave _ -> count "dp:step:slave"
                | InPower _ -> count "dp:step:power-cycle"
                | InSlaveSet _ -> count "dp:step:slave-set"
                | InClean -> count "dp:step:clean-marker"
                | InResetAddr _ -> count "dp:step:reset-address"
                | _ -> count "dp:step:api");
               (match r with
                | Panic _ -> count "dp:outcome:panic"
                | OutOfFuel -> count "dp:outcome:out-of-fuel"
                | Ok (_, OutTx (Some (_, Some _))) -> count "dp:tx:request"
                | Ok (_, OutTx (Some (_, None))) -> count "dp:tx:global-control"
                | Ok (_, OutTx None) -> count "dp:tx:none"
                | _ -> ());
               (match !taken with
                | Some { ev_peripheral = Some (_, ev) } -> count (Printf.sprintf "dp:event:%d" (int_of_z (pevent_code ev)))
                | _ -> ());
               (match !taken with Some { ev_cycle_completed = true } -> count "dp:event:cycle-completed" | _ -> ());
               if model <> impl_canon then begin report_div i impl_canon model; stop := true end;
               (match r with Ok _ -> () | _ -> stop := true)
           | _ -> stop := true)
    end) recs;
  (* which peripheral states were reached at the end of the run *)
  (match !sys with
   | Ok s ->
       List.iter (function
         | Some p -> count ("dp:final-state:" ^ pstate_name p.pe_state)
         | None -> ()) s.sy_m.dm_slots
   | _ -> ());
  (* the property monitors on the implementation's transcript *)
  let isteps = List.rev !steps in
  (* what kind of history this was *)
  let has f = List.exists f isteps in
  let ev_is c s = (match s.s_taken with Some { ev_peripheral = Some (_, e) } -> int_of_z (pevent_code e) = c | _ -> false) in
  if has (fun s -> List.exists (function Some o -> o.ob_running | None -> false) s.s_obs) then count "dp:history:data-exchange-reached";
  if has (fun s -> match s.s_in with InTo _ -> true | _ -> false) then count "dp:history:with-timeout";
  if has (fun s -> match s.s_in with InAbandon -> true | _ -> false) then count "dp:history:with-inadmissible-reply";
  if has (ev_is 6) then count "dp:history:with-offline-event";
  if has (ev_is 6) && has (ev_is 0) then count "dp:history:offline-and-online";
  if has (ev_is 2) || has (ev_is 3) then count "dp:history:with-prm-or-cfg-error";
  if has (ev_is 5) then count "dp:history:with-diagnostics-event";
  if has (fun s -> match s.s_in with InReqDiag _ | InWriteQ _ -> true | _ -> false) then count "dp:history:with-user-calls";
  if has (fun s -> match s.s_in with InPower _ -> true | _ -> false) then count "dp:history:with-power-cycle";
  if has (fun s -> match s.s_in with InClean -> true | _ -> false) then count "dp:history:with-fault-free-tail";
  if has (fun s -> match s.s_out with OutTx (Some (_, None)) -> true | _ -> false) then count "dp:history:with-global-control";
  if has (fun s -> match s.s_out with OutPanic -> true | _ -> false) then count "dp:history:ends-in-panic";
  (* retransmissions: the same request bytes to the same address twice in a row *)
  let rec retrans last = function
    | [] -> false
    | { s_out = OutTx (Some (w, Some _)) } :: r -> (match last with Some w0 when w0 = w -> true | _ -> retrans (Some w) r)
    | { s_in = InRx _ } :: r -> retrans None r
    | _ :: r -> retrans last r in
  if retrans None isteps then count "dp:history:with-retransmission";
  let tsteps = List.map (fun s -> { ts_in = s.s_in; ts_raw = s.s_raw; ts_out = s.s_out; ts_taken = s.s_taken;
                                    ts_obs = s.s_obs; ts_op = s.s_op }) isteps in
  let texts = Array.of_list (List.map (fun s -> s.s_text) isteps) in
  if not conf.cf_autotake then count "dp:monitors:skipped-manual-take"
  else if not (ra_sane conf tsteps) then count "dp:monitors:skipped-duplicate-address"
  else if not (contract_ok conf tsteps) then count "dp:monitors:skipped-contract-violation"
  else begin
    count "dp:monitors:run";
    if has_reset tsteps then count "dp:history:with-reset-address";
    (* known class F22: reset_address while the reply of that peripheral is outstanding *)
    let known_ra = known_reset_while_pending conf tsteps in
    if known_ra then count "dp:history:reset-address-while-reply-outstanding";
    let run prop name (v : (nat * z) option) =
      match v with
      | None -> ()
      | Some (i, code) ->
          if known_ra && prop <> "C07" then begin
            count (Printf.sprintf "dp:known-f22:%s:%d" prop (int_of_z code)); report_known prop "F22" case end else
          let i = int_of_nat i in
          report_fail prop (Printf.sprintf "%s:%d" name (int_of_z code)) case
            (Printf.sprintf "step %d: %s" (i + 1) (if i < Array.length texts then texts.(i) else "?")) in
    (* the _ra monitors are the plain ones on transcripts without reset_address *)
    run "C03" "bring_up" (c03_monitor_ra conf tsteps);
    run "C04" "process_image" (c04_monitor_ra conf !obs0 tsteps);
    run "C08" "fcb_retry" (c08_monitor_ra conf tsteps);
    run "C14" "cycle_events" (c14_monitor_ra conf !hs0 tsteps);
    run "C14" "turn_skipped_on_high_prio" (c14_silent_none_monitor tsteps);
    let conf_end = conf_after conf tsteps in
    let slowest = int_of_nat (max_ready_delay tsteps) in
    if has (fun s -> match s.s_in with InClean -> true | _ -> false) then
      count (Printf.sprintf "dp:tail:slowest-ready-delay:%d" slowest);
    if has (fun s -> match s.s_in with InTx (_, true) -> true | _ -> false) then count "dp:history:with-high-prio-only-calls";
    run "C07" "offline_for_answering_station" (c07_no_offline_monitor conf tsteps);
    (* ready delays <= 2: the monitor of theorem C07_recovery; longer delays: bound + 2 * delay *)
    (match (if slowest <= 2 then c07_monitor_ra conf tsteps else c07_monitor_slow conf tsteps) with
     | Some (_, code) when int_of_z code = 701 && c07_known_f15 conf_end tsteps -> report_known "C07" "F15" case
     | v -> run "C07" "recovery" v);
    (match c07_cycles_needed conf_end tsteps with
     | Some n -> count (Printf.sprintf "dp:recovery-cycles:%02d" (int_of_nat n))
     | None -> ())
  end
