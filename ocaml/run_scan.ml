(* Scan domain (C18): replay the implementation's transcript on the models of LiveList /
   DpScanner (same reactions, compare requests, events, station sets) and run the C18
   oracles on the implementation's transcript. *)
open Model
open Zu

exception Bad of string

(* ---- big bit masks <-> hex *)
let z_of_hexmask (s : string) : z =
  let bits = ref [] in   (* LSB first *)
  let n = String.length s in
  for i = n - 1 downto 0 do
    let d = int_of_string ("0x" ^ String.make 1 s.[i]) in
    for b = 0 to 3 do bits := ((d lsr b) land 1 = 1) :: !bits done
  done;
  let l = List.rev !bits in            (* LSB first *)
  let rec strip = function [] -> [] | false :: r -> strip r | l -> l in
  let l = List.rev (strip (List.rev l)) in
  let rec pos = function
    | [] -> raise (Bad "pos")
    | [true] -> XH
    | b :: r -> if b then XI (pos r) else XO (pos r) in
  if l = [] then Z0 else Zpos (pos l)

let hexmask_of_z (x : z) : string =
  let rec bits = function XH -> [true] | XO p -> false :: bits p | XI p -> true :: bits p in
  match x with
  | Z0 -> "0"
  | Zneg _ -> "NEG"
  | Zpos p ->
      let l = Array.of_list (bits p) in
      let n = Array.length l in
      let nd = (n + 3) / 4 in
      let b = Buffer.create nd in
      for d = nd - 1 downto 0 do
        let v = ref 0 in
        for k = 3 downto 0 do
          let i = 4 * d + k in
          v := !v * 2 + (if i < n && l.(i) then 1 else 0)
        done;
        Buffer.add_string b (Printf.sprintf "%x" !v)
      done;
      Buffer.contents b

let zi = z_of_int
let iz = int_of_z

let count_n (k : string) (n : int) =
  if n > 0 then Hashtbl.replace tbl k (n + (try Hashtbl.find tbl k with Not_found -> 0))

(* ---- printing model values *)
let string_of_ll_ev = function
  | None -> "-"
  | Some (LlDiscovered (a, st)) -> Printf.sprintf "D:%d:%d" (iz a) (iz (resp_state_to_byte st))
  | Some (LlLost a) -> Printf.sprintf "L:%d" (iz a)

let string_of_sc_ev = function
  | None -> "-"
  | Some (ScFound d) -> Printf.sprintf "F:%d:%d:%s" (iz d.sd_address) (iz d.sd_ident) (string_of_opt d.sd_master)
  | Some (ScRequery d) -> Printf.sprintf "Q:%d:%d:%s" (iz d.sd_address) (iz d.sd_ident) (string_of_opt d.sd_master)
  | Some (ScLost a) -> Printf.sprintf "L:%d" (iz a)

let ll_ev_of_string (s : string) : ll_event option =
  match String.split_on_char ':' s with
  | ["-"] -> None
  | ["D"; a; st] ->
      (match resp_state_from_byte (zi (int_of_string st)) with
       | Some st -> Some (LlDiscovered (zi (int_of_string a), st))
       | None -> raise (Bad ("state " ^ s)))
  | ["L"; a] -> Some (LlLost (zi (int_of_string a)))
  | _ -> raise (Bad ("ll event " ^ s))

let sc_ev_of_string (s : string) : sc_event option =
  let desc a i m = { sd_address = zi (int_of_string a); sd_ident = zi (int_of_string i); sd_master = opt_of_string m } in
  match String.split_on_char ':' s with
  | ["-"] -> None
  | ["F"; a; i; m] -> Some (ScFound (desc a i m))
  | ["Q"; a; i; m] -> Some (ScRequery (desc a i m))
  | ["L"; a] -> Some (ScLost (zi (int_of_string a)))
  | _ -> raise (Bad ("sc event " ^ s))

let telegram_of_hex (h : string) : telegram =
  match decode (unhex h) with
  | Ok (Accept (t, _)) -> t
  | _ -> raise (Bad ("undecodable " ^ h))

(* ---- one transcript, generic in the event type *)
(* canonical text of a model transcript; reply bytes are taken from the implementation's
   transcript (they are the model's input) *)
let string_of_transcript (ev_str : 'e option -> string) (tr : 'e pollobs list) (replies : string array) : string =
  let prev = ref None in
  let bits_tok b = if !prev = Some b then "=" else (prev := Some b; hexmask_of_z b) in
  String.concat ";" (List.mapi (fun i o ->
    match o.po_req with
    | None -> Printf.sprintf "N %s %s" (ev_str o.po_ev_tx) (bits_tok o.po_bits)
    | Some t ->
        let head = Printf.sprintf "X%s %s %s" (hex t.tx_wire) (string_of_opt t.tx_exp) (ev_str o.po_ev_tx) in
        (match o.po_react with
         | None -> Printf.sprintf "%s - - %s" head (bits_tok o.po_bits)
         | Some RTimeout -> Printf.sprintf "%s T %s %s" head (ev_str o.po_ev_re) (bits_tok o.po_bits)
         | Some (RReply _) -> Printf.sprintf "%s R%s %s %s" head replies.(i) (ev_str o.po_ev_re) (bits_tok o.po_bits))) tr)

(* parse the implementation's transcript into pollobs *)
let parse_transcript (ev_of : string -> 'e option) (out : string) : 'e pollobs list * string array =
  let polls = String.split_on_char ';' out in
  let prev = ref Z0 in
  let bits s = if s = "=" then !prev else (let b = z_of_hexmask s in prev := b; b) in
  let replies = Array.make (List.length polls) "" in
  let obs = List.mapi (fun i p ->
    match split_ws p with
    | ["N"; e; b] -> { po_req = None; po_react = None; po_ev_tx = ev_of e; po_ev_re = None; po_bits = bits b }
    | [x; exp; e1; r; e2; b] when String.length x > 1 && x.[0] = 'X' ->
        let wire = String.sub x 1 (String.length x - 1) in
        let h = (match telegram_of_hex wire with TData (h, _) -> h | _ -> raise (Bad "request is not a data telegram")) in
        let req = { tx_h = h; tx_wire = unhex wire; tx_exp = opt_of_string exp } in
        let react =
          if r = "T" then Some RTimeout
          else if r = "-" then None
          else if r.[0] = 'R' then begin
            let hx = String.sub r 1 (String.length r - 1) in
            replies.(i) <- hx; Some (RReply (telegram_of_hex hx)) end
          else raise (Bad ("reaction " ^ r)) in
        { po_req = Some req; po_react = react; po_ev_tx = ev_of e1; po_ev_re = (if r = "-" then None else ev_of e2);
          po_bits = bits b }
    | _ -> raise (Bad ("poll " ^ p))) polls in
  (obs, replies)

let env_of (tr : 'e pollobs list) : (z -> reaction) list =
  List.map (fun o -> match o.po_react with Some r -> (fun _ -> r) | None -> (fun _ -> RTimeout)) tr

(* ---- oracles on an abstract transcript *)
let run_oracles (case : string) (out : string) (kind : string) (peqb : 'p -> 'p -> bool) (silent : bool)
    (payloads : bool) (abs : 'p apoll list) : unit =
  let fail name = report_fail "C18" name case (if String.length out > 300 then String.sub out 0 300 ^ "..." else out) in
  let n = List.length abs in
  count_n ("polls:" ^ kind) n;
  let probes = probed abs in
  count_n ("probes:" ^ kind) (List.length probes);
  (* the property: only addresses 0..125 are ever probed.  The +1-per-probe sweep ORDER is how the
     code achieves convergence (theorem C18_cursor) but not itself demanded by the property: a
     deviation from it is left to the correspondence (DIVERGE) and to the convergence oracle. *)
  if List.exists (fun a -> let i = int_of_z a in i < 0 || i > 125) probes then fail "probe_range"
  else if not (cursor_walk Z0 false abs) then count ("cursor-order-deviation:" ^ kind);
  (* lenient for the live list: a Discovered for an answer that is not a response telegram (O1) is
     accepted as well as none; the property does not decide that *)
  if not (evs_matchb peqb silent abs) then fail "event_matches_observation";
  (match alt_walk silent Z0 abs with None -> fail "alternate" | Some _ -> ());
  (* strict alternation is due whenever no marking went unannounced *)
  if no_silent Z0 abs then begin
    count ("alt:strict:" ^ kind);
    if not (no_other abs) then count ("alt:strict-with-announced-other:" ^ kind);
    (match alt_walk false Z0 abs with None -> fail "alternate_strict" | Some _ -> ())
  end else count ("alt:with-unannounced-marking:" ^ kind);
  let nev = List.fold_left (fun (u, r, d) p ->
    List.fold_left (fun (u, r, d) e -> match e with AUp _ -> (u + 1, r, d) | ARe _ -> (u, r + 1, d) | ADown _ -> (u, r, d + 1))
      (u, r, d) p.ap_evs) (0, 0, 0) abs in
  let (u, r, d) = nev in
  count_n ("ev:up:" ^ kind) u; count_n ("ev:requery:" ^ kind) r; count_n ("ev:down:" ^ kind) d;
  List.iter (fun p -> match p.ap_cls with
    | CValid _ -> count ("react:valid:" ^ kind) | CTimeout -> count ("react:timeout:" ^ kind)
    | COther -> count ("react:other:" ^ kind) | CNone -> ()) abs;
  if n >= int_of_nat sweep_polls then begin
    (* windows of two sweeps (the property) and of one sweep (the theorem's bound) *)
    List.iter (fun (w, name) ->
      let (stable, failed) = converge_scan peqb payloads (nat_of_int w) (nat_of_int 64) [] abs (O, O) in
      count_n (Printf.sprintf "conv:%s:stable-windows:%s" name kind) (int_of_nat stable);
      if int_of_nat stable > 0 then count (Printf.sprintf "conv:%s:cases-with-stable-window:%s" name kind);
      if int_of_nat failed > 0 then fail ("converges_" ^ name))
      [(2 * int_of_nat sweep_polls, "two-sweeps"); (int_of_nat sweep_polls, "one-sweep")]
  end


(* ---- ground-truth oracle: the case line says who is on the bus, as a function of TIME: script
   entry k takes effect at transmit_telegram call 2k whatever the application does.  One address
   sweep is `sweep_polls` = 252 calls - C18_sweep_covers proves that the application probes every
   address 0..125 within any 252 consecutive calls, whatever HighPrioOnly says (it is ignored, O4).
   In a clean case (nothing lost, no other replies) let 2K be the call of the last population
   change: if at least two sweeps' worth of calls (504) follow, the station set at the end must be
   exactly the final population minus the own address.  This depends neither on the order in which
   the application sweeps nor on whether it probed anything at all - an application that is given
   the calls and does not probe fails here. *)
let rec bits_of_pos (p : positive) (i : int) (acc : int list) : int list =
  match p with
  | XH -> i :: acc
  | XO q -> bits_of_pos q (i + 1) acc
  | XI q -> bits_of_pos q (i + 1) (i :: acc)
let bits_of_z (x : z) : int list = match x with Zpos p -> List.sort compare (bits_of_pos p 0 []) | _ -> []

let ground_truth (case : string) (out : string) (kind : string) (ts : int) (hp : string) (pop : string) (script : string)
    (abs : 'p apoll list) : unit =
  let entries = if script = "-" then [] else String.split_on_char ',' script in
  let npolls = List.length abs in
  if List.exists (fun e -> String.contains e '!') entries then count ("truth:skipped-dirty:" ^ kind)
  else begin
    let strict = no_other abs in
    if not strict then count ("truth:with-other-replies:" ^ kind);
    let popl = ref (if pop = "-" then [] else
      List.map (fun e -> int_of_string (List.hd (String.split_on_char '=' e))) (String.split_on_char ',' pop)) in
    (* (k, appear?, address) in the order the harness applies them: by call, then by position *)
    let parsed = List.map (fun e ->
      if String.contains e '+' then begin
        let i = String.index e '+' in
        let rest = String.sub e (i + 1) (String.length e - i - 1) in
        (int_of_string (String.sub e 0 i), true, int_of_string (List.hd (String.split_on_char '=' rest)))
      end else begin
        let i = String.index e '-' in
        (int_of_string (String.sub e 0 i), false, int_of_string (String.sub e (i + 1) (String.length e - i - 1)))
      end) entries in
    let parsed = List.stable_sort (fun (k1, _, _) (k2, _, _) -> compare k1 k2) parsed in
    let last_change = ref 0 in
    List.iter (fun (k, appear, a) ->
      if 2 * k < npolls then begin
        last_change := max !last_change k;
        if appear then (if not (List.mem a !popl) then popl := a :: !popl)
        else popl := List.filter (fun x -> x <> a) !popl
      end) parsed;
    if npolls - 2 * !last_change >= 2 * int_of_nat sweep_polls then begin
      count (Printf.sprintf "truth:checked:%s:hp%s" kind hp);
      let expect = List.sort compare (List.filter (fun a -> a <> ts) (List.sort_uniq compare !popl)) in
      if expect <> [] then count ("truth:checked-nonempty:" ^ kind);
      (* THE DECISION is the Coq function Model/ScanTruth.v: truth_ok (extracted; sound for both models:
         C18_ground_truth_sound / _scanner).  Per address of the final population (minus the own address): its
         last probe inside the stable window decides - a valid reply: listed; never probed during two sweeps:
         not converging; another reply or none: no demand - and nothing outside the population is listed.
         Here: only the case line is parsed (population, call of the last change) and the verdict is printed. *)
      let window = 2 * !last_change in
      let final = last_bits Z0 abs in
      (* the hypothesis of the soundness theorems, checked on this transcript: outside the population (and at the
         own address) the harness environment let every probe of the window time out; counted only when violated *)
      if not (explained (zi ts) (List.map zi !popl) (skipn (nat_of_int window) abs)) then count ("truth:window-not-explained:" ^ kind);
      if not (truth_ok (zi ts) (List.map zi !popl) (nat_of_int window) final abs) then begin
        (* the offending addresses, for the message only *)
        let bad = truth_bad (zi ts) (List.map zi !popl) (nat_of_int window) final abs in
        let msg (a, r) = match r with
          | TNeverProbed -> Printf.sprintf "#%d never probed" (iz a)
          | TValidNotListed -> Printf.sprintf "#%d answers validly, not listed" (iz a)
          | TListedNotOnBus -> Printf.sprintf "#%d listed, not on the bus" (iz a) in
        report_fail "C18" "converges_to_population" case
          (Printf.sprintf "%s; %d calls, population fixed since call %d" (String.concat "; " (List.map msg bad)) npolls window)
      end
    end else count ("truth:too-short:" ^ kind)
  end

(* ---- RAW cases: callbacks in arbitrary order *)
let raw_model (kind : string) (ts : z) (ops : string list) : string =
  let b = Buffer.create 256 in
  let first = ref true in
  let sep () = if not !first then Buffer.add_char b ';'; first := false in
  let tx_str = function
    | None -> "N"
    | Some t -> Printf.sprintf "X%s %s" (hex t.tx_wire) (string_of_opt t.tx_exp) in
  let exception Stop in
  let generic (type s) (type e) (init : s) (tx : z -> s -> (s * txout option) res) (rx : s -> z -> telegram -> s res)
      (tmo : s -> z -> s res) (take : s -> s * e option) (bits : s -> z) (ev_str : e option -> string) =
    let st = ref init in
    let after tag =
      let (s', e) = take !st in
      st := s';
      Buffer.add_string b (Printf.sprintf "%s %s %s" tag (ev_str e) (hexmask_of_z (bits s'))) in
    let ok r k = match r with Ok v -> k v | Panic _ -> Buffer.add_string b " PANIC"; raise Stop
                              | OutOfFuel -> Buffer.add_string b " OUTOFFUEL"; raise Stop in
    (try
       List.iter (fun op ->
         sep ();
         if op = "t" then ok (tx ts !st) (fun (s', r) -> st := s'; after (tx_str r))
         else if op.[0] = 'o' then
           ok (tmo !st (zi (int_of_string (String.sub op 1 (String.length op - 1))))) (fun s' -> st := s'; after "o")
         else begin
           let i = String.index op '=' in
           let a = zi (int_of_string (String.sub op 1 (i - 1))) in
           let hx = String.sub op (i + 1) (String.length op - i - 1) in
           match decode (unhex hx) with
           | Ok (Accept (t, _)) -> ok (rx !st a t) (fun s' -> st := s'; after "r")
           | _ -> after "U"
         end) ops
     with Stop -> ()) in
  if kind = "L" then generic ll_new ll_transmit ll_receive ll_timeout ll_take (fun s -> s.ll_stations) string_of_ll_ev
  else generic sc_new sc_transmit sc_receive sc_timeout sc_take (fun s -> s.sc_stations) string_of_sc_ev;
  Buffer.contents b

let canon_panic (s : string) : string =
  (* "... PANIC file:line" -> "... PANIC" *)
  let n = String.length s in
  let rec find i = if i + 5 > n then None else if String.sub s i 5 = "PANIC" then Some i else find (i + 1) in
  match find 0 with Some i -> String.sub s 0 (i + 5) | None -> s

let contains (s : string) (sub : string) : bool =
  let n = String.length s and m = String.length sub in
  let rec go i = i + m <= n && (String.sub s i m = sub || go (i + 1)) in go 0

let short s = if String.length s > 400 then String.sub s 0 400 ^ "..." else s

let first_diff (a : string) (b : string) : string =
  let pa = Array.of_list (String.split_on_char ';' a) and pb = Array.of_list (String.split_on_char ';' b) in
  let n = min (Array.length pa) (Array.length pb) in
  let rec go i = if i >= n then Printf.sprintf "lengths %d/%d" (Array.length pa) (Array.length pb)
    else if pa.(i) <> pb.(i) then Printf.sprintf "poll %d: impl [%s] model [%s]" i pa.(i) pb.(i) else go (i + 1) in
  go 0

let handle (case : string) (out : string) : unit =
  incr n_cases;
  match split_ws case with
  | ["SCAN"; ts; kind; hp_s; _npolls; pop_s; script_s] ->
      let tsz = zi (int_of_string ts) in
      if canon_panic out <> out || contains out "PANIC" then begin
        count ("scan:impl-panic:" ^ kind);
        report_fail "C18" "no_panic" case (short out);
        report_diverge "C18" case (short out) "(not replayed)"
      end else if kind = "L" then begin
        let (itr, replies) = parse_transcript ll_ev_of_string out in
        count ("scan:L:" ^ (if List.length itr >= 504 then "long" else "short"));
        (match ll_run tsz ll_new (env_of itr) with
         | Ok (_, mtr) ->
             let m = string_of_transcript string_of_ll_ev mtr replies in
             if m <> out then report_diverge "C18" case (first_diff out m) "(see impl)"
         | Panic _ -> report_diverge "C18" case (short out) "PANIC"
         | OutOfFuel -> report_diverge "C18" case (short out) "OUTOFFUEL");
        run_oracles case out "L" resp_state_eqb true false (List.map ll_abs itr);
        ground_truth case out "L" (int_of_string ts) hp_s pop_s script_s (List.map ll_abs itr)
      end else begin
        let (itr, replies) = parse_transcript sc_ev_of_string out in
        count ("scan:S:" ^ (if List.length itr >= 504 then "long" else "short"));
        (match sc_run tsz sc_new (env_of itr) with
         | Ok (_, mtr) ->
             let m = string_of_transcript string_of_sc_ev mtr replies in
             if m <> out then report_diverge "C18" case (first_diff out m) "(see impl)"
         | Panic _ -> report_diverge "C18" case (short out) "PANIC"
         | OutOfFuel -> report_diverge "C18" case (short out) "OUTOFFUEL");
        run_oracles case out "S" sc_pay_eqb false true (List.map sc_abs itr);
        ground_truth case out "S" (int_of_string ts) hp_s pop_s script_s (List.map sc_abs itr)
      end
  | ["RAW"; ts; kind; ops] ->
      let m = raw_model kind (zi (int_of_string ts)) (String.split_on_char ',' ops) in
      let o = canon_panic out in
      count (if String.length m >= 5 && String.sub m (String.length m - 5) 5 = "PANIC" then "raw:panic:" ^ kind else "raw:ok:" ^ kind);
      if m <> o then report_diverge "C18" case out m
  | _ -> Printf.printf "BADLINE %s\n" case
