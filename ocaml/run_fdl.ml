(* FDL domain: replay the implementation's transcript poll by poll on the extracted model
   (Model/Fdl.v) and compare every output; run the monitors of Model/FdlOracle.v on the
   IMPLEMENTATION's transcript.  See harness/src/fdl.rs for the case and transcript formats. *)
open Model
open Zu

exception Bad of string

let props = ["C01"; "C05"; "C06"; "C11"; "C12"; "C13"; "C15"]

(* ------------------------------------------------------------------------------------------ case *)

let baud_of_int = function
  | 0 -> B9600 | 1 -> B19200 | 2 -> B31250 | 3 -> B45450 | 4 -> B93750 | 5 -> B187500
  | 6 -> B500000 | 7 -> B1500000 | 8 -> B3000000 | 9 -> B6000000 | _ -> B12000000

type decision = Decline | Send of char * int * z list * z option * z option * bool
type app = { ds : decision array; pos : int; looping : bool }

let parse_decision (s : string) : decision =
  if s = "D" then Decline else
  let kind = s.[0] in
  match String.split_on_char ',' (String.sub s 1 (String.length s - 1)) with
  | da :: pdu :: dsap :: ssap :: rest ->
      Send (kind, int_of_string da, unhex pdu, opt_of_string dsap, opt_of_string ssap, rest = ["l"])
  | _ -> raise (Bad ("decision " ^ s))

let fc_of_kind = function
  | 'N' -> FcRequest (FcbInactive, RqSdnLow)
  | 'M' -> FcRequest (FcbInactive, RqSdnHigh)
  | 'R' -> FcRequest (FcbFirst, RqSrdLow)
  | 'H' -> FcRequest (FcbHigh, RqSrdHigh)
  | 'A' -> FcRequest (FcbLow, RqSdaLow)
  | 'F' -> FcRequest (FcbInactive, RqFdlStatus)
  | _ -> FcRequest (FcbInactive, RqClockValue)

let n256 = nat_of_int 256

(* the scripted application of the harness (SApp) as app_ops *)
let app_ops : app app_ops = {
  a_tx = (fun a _now p hp ->
    let (d, a') =
      if a.pos < Array.length a.ds then
        let pos' = a.pos + 1 in
        (a.ds.(a.pos), { a with pos = if a.looping && pos' = Array.length a.ds then 0 else pos' })
      else (Decline, a) in
    match d with
    | Decline -> Ok (a', None)
    | Send (_, _, _, _, _, true) when hp -> Ok (a', None)
    | Send (kind, da, pdu, dsap, ssap, _) ->
        let h = { h_da = z_of_int da; h_sa = p.p_address; h_dsap = dsap; h_ssap = ssap; h_fc = fc_of_kind kind } in
        (match encode_data_in n256 h pdu with
         | Ok wire -> Ok (a', Some (wire, tx_expects_reply h))
         | Panic s -> Panic s
         | OutOfFuel -> OutOfFuel));
  a_rx = (fun a _ _ _ _ -> Ok a);
  a_to = (fun a _ _ _ -> Ok a);
}

(* ------------------------------------------------------------------------------------------ printing *)

let int_of_fcbit = function FcbFirst -> 0 | FcbHigh -> 1 | FcbLow -> 2 | FcbInactive -> 3
let string_of_fc (fc : fcode) : string =
  match fc with
  | FcRequest (f, r) -> Printf.sprintf "Q:%d:%d" (int_of_fcbit f) (int_of_z (req_to_byte r))
  | FcResponse (st, s) -> Printf.sprintf "P:%d:%d" (int_of_z (resp_state_to_byte st)) (int_of_z (resp_status_to_byte s))

let telegram_dots (t : telegram) : string =
  match t with
  | TData (h, pdu) ->
      Printf.sprintf "D.%d.%d.%s.%s.%s.%s" (int_of_z h.h_da) (int_of_z h.h_sa) (string_of_opt h.h_dsap)
        (string_of_opt h.h_ssap) (string_of_fc h.h_fc) (hex pdu)
  | TToken (da, sa) -> Printf.sprintf "T.%d.%d" (int_of_z da) (int_of_z sa)
  | TShortConf -> "S"

let string_of_call (c : call) : string =
  match c with
  | CallTransmit (i, hp, None) -> Printf.sprintf "T%d:%d:D:-" (int_of_nat i) (if hp then 1 else 0)
  | CallTransmit (i, hp, Some (_, exp)) -> Printf.sprintf "T%d:%d:S:%s" (int_of_nat i) (if hp then 1 else 0) (string_of_opt exp)
  | CallReceiveReply (i, a, t) -> Printf.sprintf "R%d:%d:%s" (int_of_nat i) (int_of_z a) (telegram_dots t)
  | CallHandleTimeout (i, a) -> Printf.sprintf "O%d:%d" (int_of_nat i) (int_of_z a)

let kind_name = function
  | KOffline -> "Offline" | KPassiveIdle -> "PassiveIdle" | KListenToken -> "ListenToken"
  | KActiveIdle -> "ActiveIdle" | KUseToken -> "UseToken" | KClaimToken -> "ClaimToken"
  | KAwaitDataResponse -> "AwaitDataResponse" | KPassToken -> "PassToken"
  | KCheckTokenPass -> "CheckTokenPass" | KAwaitStatusResponse -> "AwaitStatusResponse"

let kind_of_name = function
  | "Offline" -> KOffline | "PassiveIdle" -> KPassiveIdle | "ListenToken" -> KListenToken
  | "ActiveIdle" -> KActiveIdle | "UseToken" -> KUseToken | "ClaimToken" -> KClaimToken
  | "AwaitDataResponse" -> KAwaitDataResponse | "PassToken" -> KPassToken
  | "CheckTokenPass" -> KCheckTokenPass | "AwaitStatusResponse" -> KAwaitStatusResponse
  | s -> raise (Bad ("state name " ^ s))

let att_name = function AttFirst -> "First" | AttSecond -> "Second" | AttThird -> "Third"
let optz = function None -> "None" | Some v -> Printf.sprintf "Some(%d)" (int_of_z v)
let optn = function None -> "None" | Some v -> Printf.sprintf "Some(%d)" (int_of_nat v)
let inst t = Printf.sprintf "Instant{%d}" (int_of_z t)

(* the Debug rendering of the private state without field names (harness: compress) *)
let string_of_state (s : state) : string =
  match s with
  | Offline -> "Offline"
  | PassiveIdle -> "PassiveIdle"
  | ListenToken (sr, cc) -> Printf.sprintf "ListenToken{%s,%d}" (optz sr) (int_of_z cc)
  | ActiveIdle (sr, nps, cc) -> Printf.sprintf "ActiveIdle{%s,%s,%d}" (optz sr) (optz nps) (int_of_z cc)
  | UseToken (t, fa, fcd) -> Printf.sprintf "UseToken{UseTokenData{%s,%s},%b}" (inst t) (optn fa) fcd
  | ClaimToken st ->
      "ClaimToken{" ^ (match st with
        | StepFirstToken -> "FirstToken" | StepSecondToken -> "SecondToken" | StepScan -> "Scan"
        | StepScanAwaitResponse a -> Printf.sprintf "ScanAwaitResponse{%d}" (int_of_z a)) ^ "}"
  | AwaitDataResponse (a, t, fa) -> Printf.sprintf "AwaitDataResponse{%d,UseTokenData{%s,%s}}" (int_of_z a) (inst t) (optn fa)
  | PassToken (g, a) -> Printf.sprintf "PassToken{%s,%s}" (if g then "Yes" else "No") (att_name a)
  | CheckTokenPass a -> Printf.sprintf "CheckTokenPass{%s}" (att_name a)
  | AwaitStatusResponse a -> Printf.sprintf "AwaitStatusResponse{%d}" (int_of_z a)

let fingerprint (f : fdl) : string =
  Printf.sprintf "%s,%s,%s,%d,%s,%s,%d"
    (match f.f_gap with GapWaiting n -> Printf.sprintf "Waiting{%d}" (int_of_z n) | GapDoPoll a -> Printf.sprintf "DoPoll{%d}" (int_of_z a))
    (string_of_state f.f_state)
    (match f.f_lba with None -> "None" | Some t -> "Some(" ^ inst t ^ ")")
    (int_of_nat f.f_pending) (inst f.f_last_token_time) (inst f.f_end_tht) (int_of_nat f.f_next_app)

let obs_of (f : fdl) : string =
  let r = f.f_ring in
  let act = List.map (fun a -> string_of_int (int_of_z a)) (las_ones r.r_las) in
  Printf.sprintf "c%dr%d/%d/%d/%s/%s/%s"
    (match f.f_conn with ConnOffline -> 0 | ConnPassive -> 1 | ConnOnline -> 2)
    (if is_in_ring f then 1 else 0) (int_of_z r.r_ns) (int_of_z r.r_ps)
    (match r.r_state with LasUninitialized -> "U" | LasDiscovery -> "D" | LasVerification -> "V" | LasValid -> "A")
    (if act = [] then "-" else String.concat "," act)
    (fingerprint f)

let tag_name (t : tag) : string =
  match t with
  | TTrans (a, b) -> "trans:" ^ kind_name a ^ ">" ^ kind_name b
  | TOngoingPhy -> "ongoing:phy" | TOngoingPredicted -> "ongoing:predicted" | TBusActivity -> "bus-activity"
  | TSyncWait -> "sync-wait" | TLostTokenClaim -> "lost-token-claim"
  | TClaimSendToken -> "claim:send-token" | TClaimScanDone -> "claim:scan-done" | TClaimScanPoll -> "claim:scan-poll"
  | TClaimScanIdle -> "claim:scan-idle"
  | TGapEnd -> "gap:end" | TGapNext -> "gap:next" | TGapWaitCount -> "gap:wait-count" | TGapWaitDone -> "gap:wait-done"
  | TGapReplyMaster -> "gap:reply-master" | TGapReplyOther -> "gap:reply-other" | TGapUnexpected -> "gap:unexpected"
  | TGapNoResponse -> "gap:no-response" | TGapAwait -> "gap:await" | TGapRxDiscard -> "gap:rx-discard"
  | TLtOfflineSkip -> "lt:offline-skip" | TLtCollisionFirst -> "lt:collision-first" | TLtCollisionOffline -> "lt:collision-offline"
  | TLtWitness -> "lt:witness" | TLtStatusReqLast -> "lt:status-req-last" | TLtStatusReqNotLast -> "lt:status-req-not-last"
  | TLtOther -> "lt:other" | TLtReplyReady -> "lt:reply-ready" | TLtReplyNotReady -> "lt:reply-not-ready"
  | THtListenSkip -> "ht:listen-skip" | THtCollisionFirst -> "ht:collision-first" | THtCollisionLeave -> "ht:collision-leave"
  | THtWitness -> "ht:witness" | THtAcceptPS -> "ht:accept-ps" | THtAcceptSecondOffer -> "ht:accept-second-offer"
  | THtPendStranger -> "ht:pend-stranger" | THtStatusReq -> "ht:status-req" | THtOther -> "ht:other"
  | TAiReplyInRing -> "ai:reply-in-ring"
  | TUseNewVisit -> "use:new-visit" | TUseNewVisitGapReserve -> "use:new-visit-gap-reserve" | TUseLowPrio -> "use:low-prio"
  | TUseHighPrioOnce -> "use:high-prio-once" | TUseHoldOver -> "use:hold-over"
  | TAppTxNoReply -> "app:tx-no-reply" | TAppTxExpectReply -> "app:tx-expect-reply" | TAppDecline -> "app:decline"
  | TAppCycleCompleted -> "app:cycle-completed"
  | TReplyDelivered -> "reply:delivered" | TReplyUnexpected -> "reply:unexpected" | TReplyTimeout -> "reply:timeout"
  | TReplyAwait -> "reply:await" | TReplyRxDiscard -> "reply:rx-discard"
  | TPassToken -> "pass:token" | TPassTokenToSelf -> "pass:to-self"
  | TCheckRetry a -> "check:retry-" ^ att_name a | TCheckRemove -> "check:remove"
  | TCheckHeardExpected -> "check:heard-expected" | TCheckHeardOther -> "check:heard-other" | TCheckAwait -> "check:await"

(* ------------------------------------------------------------------------------------------ transcript *)

type pollrec = { now : int; busy : bool; rxs : string; txs : string; consumed : int; calls : string; obs : string }
type event = Api of string * string | Poll of pollrec | PanicEv of string | TimeoutEv

let parse_event (last_obs : string ref) (s : string) : event =
  let expand o = if o = "=" then !last_obs else (last_obs := o; o) in
  match split_ws s with
  | ["A"; name; obs] -> Api (name, expand obs)
  | ["P"; now; busy; rx; ">"; tx; consumed; calls; obs] ->
      Poll { now = int_of_string now; busy = (busy = "1"); rxs = rx; txs = tx; consumed = int_of_string consumed;
             calls; obs = expand obs }
  | "PANIC" :: rest -> PanicEv (String.concat " " rest)
  | ["TIMEOUT"] -> TimeoutEv
  | _ -> raise (Bad ("event " ^ s))

(* obs fields: c<conn>r<ring>/ns/ps/las/active/fingerprint *)
let obs_fields (o : string) : string list = String.split_on_char '/' o

(* state name inside the fingerprint: second top-level component *)
let state_name_of_obs (o : string) : string =
  match obs_fields o with
  | [_; _; _; _; _; fp] ->
      let n = String.length fp in
      let rec skip i depth =
        if i >= n then n
        else match fp.[i] with
          | '{' | '(' -> skip (i + 1) (depth + 1)
          | '}' | ')' -> skip (i + 1) (depth - 1)
          | ',' when depth = 0 -> i + 1
          | _ -> skip (i + 1) depth in
      let st = skip 0 0 in
      let rec ident j = if j < n && (match fp.[j] with 'A'..'Z' | 'a'..'z' -> true | _ -> false) then ident (j + 1) else j in
      String.sub fp st (ident st - st)
  | _ -> raise (Bad ("obs " ^ o))


(* ------------------------------------------------------------------------------------------ monitors *)

let fc_of_string (s : string) : fcode =
  match String.split_on_char ':' s with
  | ["Q"; a; b] ->
      (match req_from_byte (z_of_int (int_of_string b)) with
       | Some r -> FcRequest ((match int_of_string a with 0 -> FcbFirst | 1 -> FcbHigh | 2 -> FcbLow | _ -> FcbInactive), r)
       | None -> raise (Bad ("req " ^ b)))
  | ["P"; a; b] ->
      (match resp_state_from_byte (z_of_int (int_of_string a)), resp_status_from_byte (z_of_int (int_of_string b)) with
       | Some st, Some s -> FcResponse (st, s)
       | _ -> raise (Bad ("resp " ^ s)))
  | _ -> raise (Bad ("fc " ^ s))

let telegram_of_dots (s : string) : telegram =
  match String.split_on_char '.' s with
  | ["S"] -> TShortConf
  | ["T"; da; sa] -> TToken (z_of_int (int_of_string da), z_of_int (int_of_string sa))
  | ["D"; da; sa; dsap; ssap; fc; pdu] ->
      TData ({ h_da = z_of_int (int_of_string da); h_sa = z_of_int (int_of_string sa);
               h_dsap = opt_of_string dsap; h_ssap = opt_of_string ssap; h_fc = fc_of_string fc }, unhex pdu)
  | _ -> raise (Bad ("telegram " ^ s))

(* the implementation's call log; the wire bytes of a transmit are the poll's tx *)
let calls_of_string (s : string) (tx : z list) : call list =
  if s = "-" then [] else
  List.map (fun c ->
    let body = String.sub c 1 (String.length c - 1) in
    match c.[0], String.split_on_char ':' body with
    | 'T', [i; hp; "D"; _] -> CallTransmit (nat_of_int (int_of_string i), hp = "1", None)
    | 'T', [i; hp; "S"; exp] -> CallTransmit (nat_of_int (int_of_string i), hp = "1", Some (tx, opt_of_string exp))
    | 'R', i :: a :: rest -> CallReceiveReply (nat_of_int (int_of_string i), z_of_int (int_of_string a), telegram_of_dots (String.concat ":" rest))
    | 'O', [i; a] -> CallHandleTimeout (nat_of_int (int_of_string i), z_of_int (int_of_string a))
    | _ -> raise (Bad ("call " ^ c))) (String.split_on_char ',' s)

let view_of_obs (o : string) : view =
  match obs_fields o with
  | [cr; ns; ps; las; act; fp] ->
      { v_gap_due = starts_with "DoPoll" fp;
        v_scan_await = (let k = "ScanAwaitResponse" in
                        let n = String.length fp and m = String.length k in
                        let rec f i = i + m <= n && (String.sub fp i m = k || f (i + 1)) in f 0);
        v_conn = (match cr.[1] with '0' -> ConnOffline | '1' -> ConnPassive | _ -> ConnOnline);
        v_in_ring = (cr.[3] = '1'); v_kind = kind_of_name (state_name_of_obs o);
        v_ns = z_of_int (int_of_string ns); v_ps = z_of_int (int_of_string ps); v_las_valid = (las = "A");
        v_active = (if act = "-" then [] else List.map (fun a -> z_of_int (int_of_string a)) (String.split_on_char ',' act)) }
  | _ -> raise (Bad ("obs " ^ o))

let rule_name = function
  | R01_tx_while_busy -> "tx_while_busy" | R01_sync_pause -> "sync_pause" | R01_who_may_transmit -> "who_may_transmit"
  | R01_check_pass_before_slot -> "check_pass_before_slot" | R01_claim_before_timeout -> "claim_before_timeout"
  | R05_panic -> "panic" | R05_timeout -> "timeout"
  | R06_no_claim_after_timeout -> "no_claim_after_timeout"
  | R11_accept_while_listening -> "accept_while_listening" | R11_accept_without_token -> "accept_without_token"
  | R11_accept_from_stranger -> "accept_from_stranger" | R11_retry_too_early -> "retry_too_early"
  | R11_too_many_retries -> "too_many_retries" | R11_removed_too_early -> "removed_too_early"
  | R11_heard_but_supervising -> "heard_but_supervising"
  | R11_offer_changes_ring_view -> "offer_changes_ring_view"
  | R12_gap_poll_outside_gap -> "gap_poll_outside_gap" | R12_two_gap_polls_per_visit -> "two_gap_polls_per_visit"
  | R12_reply_without_request -> "reply_without_request" | R12_reply_untruthful -> "reply_untruthful"
  | R12_reply_from_wrong_state -> "reply_from_wrong_state"
  | R12_found_not_successor -> "found_not_successor" | R12_found_not_next_token -> "found_not_next_token"
  | R12_successor_changed_without_ready_reply -> "successor_changed_without_ready_reply" | R12_sweep_bound -> "sweep_bound"
  | R13_high_prio_inside_hold_time -> "high_prio_inside_hold_time"
  | R12_post_claim_scan_incomplete -> "post_claim_scan_incomplete"
  | R12_gap_wait_never_ends -> "gap_wait_never_ends" | R11_supervision_never_ends -> "supervision_never_ends"
  | R15_no_reply_no_timeout -> "no_reply_no_timeout"
  | R06_no_backoff -> "no_backoff"
  | R15_asked_after_all_declined -> "asked_after_all_declined" | R15_not_passed_after_all_declined -> "not_passed_after_all_declined"
  | R15_passed_before_all_declined -> "passed_before_all_declined" | R15_cycle_after_hold_time -> "cycle_after_hold_time"
  | R13_low_prio_after_hold_time -> "low_prio_after_hold_time" | R13_second_cycle_after_hold_time -> "second_cycle_after_hold_time"
  | R15_transmit_without_token -> "transmit_without_token" | R15_transmit_while_outstanding -> "transmit_while_outstanding"
  | R15_round_robin -> "round_robin" | R15_reply_not_requested -> "reply_not_requested" | R15_reply_invalid -> "reply_invalid"
  | R15_timeout_not_requested -> "timeout_not_requested" | R15_await_without_request -> "await_without_request"

let pid_name = function PC01 -> "C01" | PC05 -> "C05" | PC06 -> "C06" | PC11 -> "C11" | PC12 -> "C12" | PC13 -> "C13" | PC15 -> "C15"

let monitor_events (events : event list) : Model.event list =
  List.map (fun ev ->
    match ev with
    | Api (name, obs) ->
        EApi ((match name with "new" -> ApiNew | "on" -> ApiOnline | "off" -> ApiOffline | _ -> ApiPassive),
              (if obs = "" then { v_conn = ConnOffline; v_in_ring = false; v_kind = KOffline; v_ns = Z0; v_ps = Z0;
                                  v_las_valid = false; v_active = []; v_gap_due = true; v_scan_await = false } else view_of_obs obs))
    | Poll pr ->
        let tx = if pr.txs = "-" then None else Some (unhex pr.txs) in
        EPoll { s_now = z_of_int pr.now; s_busy = pr.busy; s_rx = unhex pr.rxs; s_tx = tx;
                s_consumed = nat_of_int pr.consumed;
                s_calls = calls_of_string pr.calls (match tx with Some b -> b | None -> []);
                s_view = view_of_obs pr.obs }
    | PanicEv _ -> EPanic
    | TimeoutEv -> ETimeout) events

let handle (case : string) (out : string) : unit =
  incr n_cases;
  (* every timing clause is stated in bit times: the code's rate table must be the standard one
     (theorem C01_standard_baud_rates; Model/StdRates.v is hand-written, not regenerated) *)
  if not rates_standard_ok then
    List.iter (fun pr -> report_fail pr "standard_baud_rates" case "Baudrate::to_rate differs from the standard bit rates")
      ["C01"; "C06"; "C11"; "C12"; "C13"];
  (* which request kinds await a reply (C15: an application is asked again only when no reply is outstanding)
     must be the standard's table (theorem C15_expects_reply_standard) *)
  if not expects_reply_standard_ok then
    report_fail "C15" "standard_expects_reply" case "RequestType::expects_reply differs from the standard table";
  let sections = List.map String.trim (String.split_on_char '/' case) in
  let header, rest = (match sections with h :: r -> (split_ws h, r) | [] -> raise (Bad "empty case")) in
  let p, _seed = (match header with
    | "FDL" :: a :: b :: sl :: hsa :: gap :: ttr :: rt :: seed :: _t0 :: opt ->
        let tsdr = (match opt with [] -> 11 | [x] -> int_of_string x | _ -> raise (Bad "header")) in
        ({ p_address = z_of_int (int_of_string a); p_baud = baud_of_int (int_of_string b);
           p_slot_bits = z_of_int (int_of_string sl); p_ttr_bits = z_of_int (int_of_string ttr);
           p_gap_wait = z_of_int (int_of_string gap); p_hsa = z_of_int (int_of_string hsa);
           p_max_retry = z_of_int (int_of_string rt); p_min_tsdr_bits = z_of_int tsdr; p_watchdog = None }, seed)
    | _ -> raise (Bad "header")) in
  let apps = List.filter_map (fun s ->
    match split_ws s with
    | "APP" :: ds -> Some { ds = Array.of_list (List.map parse_decision ds); pos = 0; looping = false }
    | "APP*" :: ds -> Some { ds = Array.of_list (List.map parse_decision ds); pos = 0; looping = true }
    | _ -> None) rest in
  count (Printf.sprintf "apps:%d" (List.length apps));
  let last_obs = ref "" in
  let events = List.map (parse_event last_obs) (List.filter (fun s -> String.trim s <> "") (String.split_on_char ';' out)) in
  let nevents = List.length events in
  count (if nevents < 200 then "len:<200" else if nevents < 1000 then "len:200-999" else "len:>=1000");
  (* ---- correspondence: model replay ---- *)
  let diverged = ref false in
  let diverge step what impl model =
    if not !diverged then begin
      diverged := true;
      List.iter (fun pid ->
        report_diverge pid case (Printf.sprintf "step %d %s: %s" step what impl) model) props
    end in
  let model : fdl option ref = ref None in
  let mapps = ref apps in
  let rec go (i : int) (evs : event list) =
    if !diverged then () else
    match evs with
    | [] -> ()
    | PanicEv _ :: _ -> diverge i "panic" "PANIC (not after a call)" "-"
    | TimeoutEv :: _ -> diverge i "timeout" "TIMEOUT" "-"
    | _ :: TimeoutEv :: _ -> diverge i "timeout" "TIMEOUT (call did not return)" "the model is total"
    | ev :: tl ->
        let impl_panics = (match tl with PanicEv _ :: _ -> true | _ -> false) in
        let finish (r : (fdl * string) res) (impl_out : string) =
          (match r with
           | Ok (f', model_out) ->
               if impl_panics then diverge i "panic" "PANIC" model_out
               else if model_out <> impl_out then diverge i "output" impl_out model_out
               else (model := Some f'; go (i + 1) tl)
           | Panic _ ->
               count "outcome:panic";
               if not impl_panics then diverge i "panic" impl_out "PANIC"
           | OutOfFuel -> diverge i "fuel" impl_out "OUTOFFUEL") in
        (match ev with
         | Api (name, obs) ->
             count ("api:" ^ name);
             let r = (match name, !model with
               | "new", _ -> fdl_new p
               | "on", Some f -> set_online f
               | "off", Some f -> set_offline f
               | "pas", Some f -> set_passive f
               | _ -> raise (Bad ("api " ^ name))) in
             finish (match r with Ok f -> Ok (f, obs_of f) | Panic s -> Panic s | OutOfFuel -> OutOfFuel) obs
         | Poll pr ->
             let f = (match !model with Some f -> f | None -> raise (Bad "poll before new")) in
             count ("state:" ^ kind_name (kind_of f.f_state));
             let rx = unhex pr.rxs in
             let r = poll_traced app_ops f (z_of_int pr.now) { tx_busy = pr.busy; rx = rx } !mapps in
             let impl_out = Printf.sprintf "%s %d %s %s" pr.txs pr.consumed pr.calls pr.obs in
             finish (match r with
               | Ok ((((f', po), apps'), calls), trace) ->
                   mapps := apps';
                   List.iter (fun t -> count ("tag:" ^ tag_name t)) trace;
                   if po.tx <> None then count ("tx:" ^ kind_name (kind_of f.f_state));
                   let consumed = List.length rx - List.length po.rx_left in
                   Ok (f', Printf.sprintf "%s %d %s %s"
                         (match po.tx with None -> "-" | Some b -> hex b) consumed
                         (if calls = [] then "-" else String.concat "," (List.map string_of_call calls))
                         (obs_of f'))
               | Panic s -> Panic s
               | OutOfFuel -> OutOfFuel) impl_out
         | PanicEv _ | TimeoutEv -> ())
  in
  go 0 events;
  if not !diverged then count "outcome:replayed";
  (* ---- monitors on the implementation's transcript ---- *)
  (* a poll that panicked has no trustworthy outputs: drop it, keep the PANIC marker *)
  let rec drop_panicked = function
    | Poll _ :: (PanicEv _ as pe) :: tl -> pe :: drop_panicked tl
    | Poll _ :: TimeoutEv :: tl -> TimeoutEv :: drop_panicked tl
    | e :: tl -> e :: drop_panicked tl
    | [] -> [] in
  let mevents = drop_panicked events in
  let violated = monitor p (nat_of_int (List.length apps)) (monitor_events mevents) in
  (* promptness (Model/FdlPrompt.v): needs to know whether a status request waits for its reply *)
  let contains hay k =
    let n = String.length hay and m = String.length k in
    let rec f i = i + m <= n && (String.sub hay i m = k || f (i + 1)) in f 0 in
  let pending_of obs = contains obs ",ListenToken{Some(" || contains obs ",ActiveIdle{Some(" in
  let flags = List.map (fun ev -> match ev with Api (_, o) -> pending_of o | Poll pr -> pending_of pr.obs | _ -> false) mevents in
  let pviolated = pmonitor p (List.combine (monitor_events mevents) flags) in
  (match pviolated with
   | [] -> ()
   | (step, r) :: _ ->
       let name = (match r with P01_reaction_after_slot_time -> "reaction_after_slot_time") in
       count ("violated:" ^ pid_name (prule_prop r) ^ ":" ^ name);
       report_fail (pid_name (prule_prop r)) name case
         (Printf.sprintf "event %d: %s" (int_of_nat step) (try List.nth (String.split_on_char ';' out) (int_of_nat step) with _ -> "?")));
  (* ring view after the removal of a silent successor (Model/FdlRing.v) *)
  (match rmonitor p (monitor_events mevents) with
   | [] -> ()
   | (step, r) :: _ ->
       let name = (match r with P11_removal_passes_to_next -> "removal_passes_to_next") in
       count ("violated:" ^ pid_name (rrule_prop r) ^ ":" ^ name);
       report_fail (pid_name (rrule_prop r)) name case
         (Printf.sprintf "event %d: %s" (int_of_nat step) (try List.nth (String.split_on_char ';' out) (int_of_nat step) with _ -> "?")));
  (* sweep order / fresh ring view after set_offline (Model/FdlSweep.v) *)
  (let seen = Hashtbl.create 2 in
   List.iter (fun (step, r) ->
     let name = (match r with P12_sweep_order -> "sweep_order" | P12_offline_forgets_ring -> "offline_forgets_ring") in
     if not (Hashtbl.mem seen name) then begin
       Hashtbl.add seen name ();
       count ("violated:" ^ pid_name (srule_prop r) ^ ":" ^ name);
       report_fail (pid_name (srule_prop r)) name case
         (Printf.sprintf "event %d: %s" (int_of_nat step) (try List.nth (String.split_on_char ';' out) (int_of_nat step) with _ -> "?"))
     end) (smonitor p (monitor_events mevents)));
  if violated = [] then count "monitors:ok"
  else begin
    let seen = Hashtbl.create 8 in
    List.iter (fun (step, r) ->
      let key = pid_name (rule_prop r) ^ " " ^ rule_name r in
      if not (Hashtbl.mem seen key) then begin
        Hashtbl.add seen key ();
        count ("violated:" ^ pid_name (rule_prop r) ^ ":" ^ rule_name r);
        report_fail (pid_name (rule_prop r)) (rule_name r) case
          (Printf.sprintf "event %d: %s" (int_of_nat step) (try List.nth (String.split_on_char ';' out) (int_of_nat step) with _ -> "?"))
      end) violated
  end
