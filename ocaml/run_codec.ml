(* Codec domain: compare implementation results with the model and run the C09 / C10 oracles
   on the implementation's outputs. *)
open Model
open Zu

let fcbit_of_int = function 0 -> FcbFirst | 1 -> FcbHigh | 2 -> FcbLow | _ -> FcbInactive
let int_of_fcbit = function FcbFirst -> 0 | FcbHigh -> 1 | FcbLow -> 2 | FcbInactive -> 3

exception Bad of string

let fc_of_string (s : string) : fcode =
  match String.split_on_char ':' s with
  | ["Q"; a; b] ->
      (match req_from_byte (z_of_int (int_of_string b)) with
       | Some r -> FcRequest (fcbit_of_int (int_of_string a), r)
       | None -> raise (Bad ("req " ^ b)))
  | ["P"; a; b] ->
      (match resp_state_from_byte (z_of_int (int_of_string a)), resp_status_from_byte (z_of_int (int_of_string b)) with
       | Some st, Some s -> FcResponse (st, s)
       | _ -> raise (Bad ("resp " ^ s)))
  | _ -> raise (Bad ("fc " ^ s))

let string_of_fc (fc : fcode) : string =
  match fc with
  | FcRequest (f, r) -> Printf.sprintf "Q:%d:%d" (int_of_fcbit f) (int_of_z (req_to_byte r))
  | FcResponse (st, s) -> Printf.sprintf "P:%d:%d" (int_of_z (resp_state_to_byte st)) (int_of_z (resp_status_to_byte s))

let string_of_telegram (t : telegram) : string =
  match t with
  | TData (h, pdu) ->
      Printf.sprintf "D %d %d %s %s %s %s" (int_of_z h.h_da) (int_of_z h.h_sa) (string_of_opt h.h_dsap)
        (string_of_opt h.h_ssap) (string_of_fc h.h_fc) (hex pdu)
  | TToken (da, sa) -> Printf.sprintf "T %d %d" (int_of_z da) (int_of_z sa)
  | TShortConf -> "S"

let string_of_dres (r : dres res) : string =
  match r with
  | Ok NeedMore -> "N"
  | Ok Reject -> "R"
  | Ok (Accept (t, n)) -> Printf.sprintf "A %d %s L%d" (int_of_nat n) (string_of_telegram t) (int_of_nat (telegram_len t))
  | Panic _ -> "PANIC"
  | OutOfFuel -> "OUTOFFUEL"

(* parse the implementation's decode result *)
let telegram_of_tokens (p : string list) : telegram =
  match p with
  | ["D"; da; sa; dsap; ssap; fc; pdu] ->
      TData ({ h_da = z_of_int (int_of_string da); h_sa = z_of_int (int_of_string sa);
               h_dsap = opt_of_string dsap; h_ssap = opt_of_string ssap; h_fc = fc_of_string fc }, unhex pdu)
  | ["T"; da; sa] -> TToken (z_of_int (int_of_string da), z_of_int (int_of_string sa))
  | ["S"] -> TShortConf
  | _ -> raise (Bad "telegram")

(* returns (dres option (None = panic), claimed telegram_len option) *)
let dres_of_string (s : string) : dres option * int option =
  match split_ws s with
  | ["N"] -> (Some NeedMore, None)
  | ["R"] -> (Some Reject, None)
  | "A" :: n :: rest ->
      let rec split_last = function
        | [] -> raise (Bad "A")
        | [x] -> ([], x)
        | x :: xs -> let (a, b) = split_last xs in (x :: a, b) in
      let (toks, l) = split_last rest in
      (Some (Accept (telegram_of_tokens toks, nat_of_int (int_of_string n))),
       Some (int_of_string (String.sub l 1 (String.length l - 1))))
  | "PANIC" :: _ -> (None, None)
  | _ -> raise (Bad ("dres " ^ s))

let canon_panic (s : string) : string = if starts_with "PANIC" s then "PANIC" else s

let header_of p =
  match p with
  | da :: sa :: dsap :: ssap :: fc :: _ ->
      { h_da = z_of_int (int_of_string da); h_sa = z_of_int (int_of_string sa);
        h_dsap = opt_of_string dsap; h_ssap = opt_of_string ssap; h_fc = fc_of_string fc }
  | _ -> raise (Bad "header")

(* parse "OK hex n exp tlen | <dec>" *)
let parse_enc_out (out : string) =
  match String.index_opt out '|' with
  | None -> None
  | Some i ->
      let left = String.trim (String.sub out 0 i) in
      let right = String.trim (String.sub out (i + 1) (String.length out - i - 1)) in
      (match split_ws left with
       | ["OK"; wire; n; exp; tl] ->
           Some (unhex wire, int_of_string n, opt_of_string exp, int_of_string tl, right)
       | _ -> None)

let model_tx_line (wire : z list res) (exp : z option) (tl : int) (rest : z list) : string =
  match wire with
  | Ok w ->
      Printf.sprintf "OK %s %d %s %d | %s" (hex w) (List.length w) (string_of_opt exp) tl
        (string_of_dres (decode (w @ rest)))
  | Panic _ -> "PANIC"
  | OutOfFuel -> "OUTOFFUEL"

let handle (case : string) (out : string) : unit =
  incr n_cases;
  let p = split_ws case in
  match p with
  | ["FC"; b] ->
      let bz = z_of_int (int_of_string b) in
      let model = (match fc_from_byte bz with
                   | Some fc -> Printf.sprintf "ok %s %d" (string_of_fc fc) (int_of_z (fc_to_byte fc))
                   | None -> "err") in
      count (if model = "err" then "fc:invalid" else "fc:valid");
      if model <> canon_panic out then report_diverge "C09" case out model;
      let r = (match split_ws out with
               | ["ok"; fc; b'] -> (try Some (Some (fc_of_string fc, z_of_int (int_of_string b'))) with Bad _ -> None)
               | ["err"] -> Some None
               | _ -> None) in
      (match r with
       | Some r when c09_fc_ok bz r -> ()
       | _ -> report_fail "C09" "fc_roundtrip" case out)
  | "ENC" :: rest ->
      let h = header_of rest in
      let (pdu, tail, bufsize) = (match rest with
        | [_; _; _; _; _; pdu; tail; bs] -> (unhex pdu, unhex tail, int_of_string bs)
        | _ -> raise (Bad "ENC")) in
      let tl = int_of_nat (telegram_len (TData (h, pdu))) in
      let model = model_tx_line (encode_data_in (nat_of_int bufsize) h pdu) (tx_expects_reply h) tl tail in
      let indom = c09_domainb h pdu && bufsize >= tl in
      count (if indom then Printf.sprintf "enc:ok:saps%d" ((if h.h_dsap <> None then 1 else 0) + (if h.h_ssap <> None then 2 else 0))
             else "enc:outside-domain");
      if model <> canon_panic out then report_diverge "C09" case out model;
      if indom then begin
        match parse_enc_out out with
        | Some (wire, n, exp, tlen, dec) ->
            let (d, claimed) = (try dres_of_string dec with Bad _ -> (None, None)) in
            let len_ok = (match claimed with Some c -> c = n | None -> false) in
            if not (c09_enc_ok h pdu tail wire (nat_of_int n) exp (nat_of_int tlen) d && len_ok) then
              report_fail "C09" "enc_roundtrip" case out
        | None -> report_fail "C09" "enc_roundtrip" case out
      end
  | ["ENCZ"; da; sa; dsap; ssap; fc; n; prefix] ->
      (* the closure wrote only `prefix`; the PDU on the wire must be prefix ++ zeros *)
      let h = header_of [da; sa; dsap; ssap; fc] in
      let pre = unhex prefix in
      let n = int_of_string n in
      let pdu = pre @ List.init (n - List.length pre) (fun _ -> Z0) in
      let tl = int_of_nat (telegram_len (TData (h, pdu))) in
      let model = model_tx_line (encode_data_in (nat_of_int 256) h pdu) (tx_expects_reply h) tl [] in
      count "enc:ok:partial-write";
      if model <> canon_panic out then report_diverge "C09" case out model;
      if c09_domainb h pdu then begin
        match parse_enc_out out with
        | Some (wire, sent, exp, tlen, dec) ->
            let (d, claimed) = (try dres_of_string dec with Bad _ -> (None, None)) in
            let len_ok = (match claimed with Some c -> c = sent | None -> false) in
            if not (c09_enc_ok h pdu [] wire (nat_of_int sent) exp (nat_of_int tlen) d && len_ok) then
              report_fail "C09" "enc_zero_fill" case out
        | None -> report_fail "C09" "enc_zero_fill" case out
      end
  | ["TOK"; da; sa; tail] ->
      let da = z_of_int (int_of_string da) and sa = z_of_int (int_of_string sa) in
      let tail = unhex tail in
      let model = model_tx_line (Ok (encode (TToken (da, sa)))) None 3 tail in
      count "tok";
      if model <> canon_panic out then report_diverge "C09" case out model;
      (match parse_enc_out out with
       | Some (wire, n, exp, tlen, dec) ->
           let (d, _) = (try dres_of_string dec with Bad _ -> (None, None)) in
           if not (c09_tok_ok da sa wire (nat_of_int n) exp (nat_of_int tlen) d) then
             report_fail "C09" "token_roundtrip" case out
       | None -> report_fail "C09" "token_roundtrip" case out)
  | ["SC"; tail] ->
      let tail = unhex tail in
      let model = model_tx_line (Ok (encode TShortConf)) None 1 tail in
      count "sc";
      if model <> canon_panic out then report_diverge "C09" case out model;
      (match parse_enc_out out with
       | Some (wire, n, exp, tlen, dec) ->
           let (d, _) = (try dres_of_string dec with Bad _ -> (None, None)) in
           if not (c09_sc_ok wire (nat_of_int n) exp (nat_of_int tlen) d) then
             report_fail "C09" "sc_roundtrip" case out
       | None -> report_fail "C09" "sc_roundtrip" case out)
  | ["DEC"; hx] ->
      let l = unhex hx in
      let m = decode l in
      let model = string_of_dres m in
      count ("dec:" ^ String.sub model 0 1);
      (match m with Ok (Accept (TData _, _)) -> count "dec:accept-data" | _ -> ());
      if model <> canon_panic out then report_diverge "C10" case out model;
      let (d, claimed) = (try dres_of_string out with Bad _ -> (None, None)) in
      ignore claimed;
      if not (c10_dec_ok l d) then report_fail "C10" "decode" case out
  | ["MUT"; hx; pos; nb] ->
      let orig = unhex hx in
      let pos = nat_of_int (int_of_string pos) and nb = z_of_int (int_of_string nb) in
      let l = subst orig pos nb in
      let m = decode l in
      let model = string_of_dres m in
      count ("mut:" ^ String.sub model 0 1);
      if model <> canon_panic out then report_diverge "C10" case out model;
      let (d, _) = (try dres_of_string out with Bad _ -> (None, None)) in
      if not (c10_dec_ok l d) then report_fail "C10" "decode" case out;
      if not (c10_mut_ok orig pos nb d) then report_fail "C10" "single_byte" case out
  | _ -> Printf.printf "BADLINE %s\n" case
