(* Apps domain (C05, application side): replay the implementation's transcript poll by poll on the
   extracted `Fdl.poll any_app_ops` (Model/AppsGlue.v: the station with the models of DpMaster /
   LiveList / DpScanner / () attached) and compare every poll output, every event taken by the user and
   the final application states.  Oracle (on the IMPLEMENTATION's transcript): no PANIC.
   See harness/src/apps.rs for the case and transcript formats. *)
open Model
open Zu

exception Bad of string

let zi = z_of_int
let iz = int_of_z
let ni = nat_of_int

let baud_of_int (i : int) : baudrate = List.nth all_baudrates (max 0 (min 10 i))

let pattern (n : int) (k : int) : z list = List.init n (fun i -> zi ((i * 7 + k) mod 256))

let hexmask_of_z (x : z) : string =
  let rec bits = function XH -> [true] | XO p -> false :: bits p | XI p -> true :: bits p in
  match x with
  | Z0 -> "0"
  | Zneg _ -> "NEG"
  | Zpos p ->
      let l = Array.of_list (bits p) in
      let n = Array.length l in
      let nd = (n + 3) / 4 in
      let b = Buffer.create nd in
      for d = nd - 1 downto 0 do
        let v = ref 0 in
        for k = 3 downto 0 do
          let i = 4 * d + k in
          v := !v * 2 + (if i < n && l.(i) then 1 else 0)
        done;
        Buffer.add_string b (Printf.sprintf "%x" !v)
      done;
      Buffer.contents b

(* ------------------------------------------------------------------------------------------ case *)

let len_opt (s : string) (k : int) : z list option =
  if s = "N" then None else Some (pattern (int_of_string s) k)

(* an application as the harness creates it; None when the creation panics in the model *)
let make_app (tok : string) : (any_app * int) option =
  match tok.[0] with
  | 'L' -> Some (AppLl ll_new, 0)
  | 'C' -> Some (AppSc sc_new, 0)
  | 'U' -> Some (AppUnit, 0)
  | 'D' ->
      let parts = String.split_on_char ':' tok in
      let head = List.hd parts in
      let operate = head.[1] = 'O' in
      let owned = head.[2] = 'V' in
      let nslots = int_of_string (String.sub head 3 (String.length head - 3)) in
      let m = ref (Some (dp_new (ni nslots) owned)) in
      let np = ref 0 in
      List.iter (fun p ->
        match String.split_on_char '.' p with
        | [a; inl; outl; prm; cfg] ->
            incr np;
            let o = { o_ident = zi 0x1234; o_sync = false; o_freeze = false; o_groups = Z0; o_max_tsdr = Z0;
                      o_fail_safe = false; o_user_prm = len_opt prm 1; o_config = len_opt cfg 3 } in
            let per = periph_new (zi (int_of_string a)) o (List.init (int_of_string inl) (fun _ -> Z0))
                        (pattern (int_of_string outl) 5) O in
            (match !m with
             | Some mm -> (match dp_add mm per with Ok (m', _) -> m := Some m' | _ -> m := None)
             | None -> ())
        | _ -> raise (Bad ("peripheral " ^ p))) (List.tl parts);
      (match !m with
       | None -> None
       | Some mm ->
           if operate then (match dp_enter_state mm OpOperate with Ok m' -> Some (AppDp m', !np) | _ -> None)
           else Some (AppDp mm, !np))
  | _ -> raise (Bad ("app " ^ tok))

(* ------------------------------------------------------------------------------------------ printing *)

let b2i b = if b then 1 else 0

let take_events (a : any_app) : any_app * string =
  match a with
  | AppDp m ->
      let (m', e) = dp_take_last_events m in
      (AppDp m',
       match e.ev_peripheral with
       | Some (h, ev) -> Printf.sprintf "%d,%d,%d,%d" (b2i e.ev_cycle_completed) (int_of_nat h.hd_index) (iz h.hd_addr) (iz (pevent_code ev))
       | None -> Printf.sprintf "%d,-" (b2i e.ev_cycle_completed))
  | AppLl s ->
      let (s', e) = ll_take s in
      (AppLl s',
       match e with
       | None -> "-"
       | Some (LlDiscovered (a, st)) -> Printf.sprintf "D:%d:%d" (iz a) (iz (resp_state_to_byte st))
       | Some (LlLost a) -> Printf.sprintf "L:%d" (iz a))
  | AppSc s ->
      let (s', e) = sc_take s in
      (AppSc s',
       match e with
       | None -> "-"
       | Some (ScFound d) -> Printf.sprintf "F:%d:%d:%s" (iz d.sd_address) (iz d.sd_ident) (string_of_opt d.sd_master)
       | Some (ScRequery d) -> Printf.sprintf "Q:%d:%d:%s" (iz d.sd_address) (iz d.sd_ident) (string_of_opt d.sd_master)
       | Some (ScLost a) -> Printf.sprintf "L:%d" (iz a))
  | AppUnit -> (AppUnit, "-")

let summary (a : any_app) (np : int) : string =
  match a with
  | AppDp m ->
      let b = Buffer.create 64 in
      Buffer.add_string b (Printf.sprintf "dp%d" (iz (opstate_code m.dm_op)));
      for i = 0 to np - 1 do
        match slot m (ni i) with
        | Some p -> Buffer.add_string b (Printf.sprintf "/%d%d:%s" (b2i (is_live p)) (b2i (is_running p)) (hex p.pe_pi_i))
        | None -> Buffer.add_string b "/??"
      done;
      Buffer.contents b
  | AppLl s -> "ll" ^ hexmask_of_z s.ll_stations
  | AppSc s -> "sc" ^ hexmask_of_z s.sc_stations
  | AppUnit -> "u"

(* ------------------------------------------------------------------------------------------ replay *)

let rec replace_nth l i x = match l, i with
  | [], _ -> []
  | _ :: t, 0 -> x :: t
  | h :: t, i -> h :: replace_nth t (i - 1) x

let handle (case : string) (out : string) : unit =
  incr n_cases;
  let sections = List.map String.trim (String.split_on_char '/' case) in
  let (hd, appsec) = (match sections with [h; a; _; _] -> (h, a) | _ -> raise (Bad "sections")) in
  let h = Array.of_list (split_ws hd) in
  if Array.length h <> 10 || h.(0) <> "APPS" then raise (Bad "header");
  let i k = int_of_string h.(k) in
  let p = { p_address = zi (i 1); p_baud = baud_of_int (i 2); p_slot_bits = zi (i 3); p_ttr_bits = zi (i 6);
            p_gap_wait = zi (i 5); p_hsa = zi (i 4); p_max_retry = zi (i 7);
            p_min_tsdr_bits = default_min_tsdr_bits; p_watchdog = None } in
  let made = List.map make_app (split_ws appsec) in
  let items = List.filter (fun s -> s <> "") (String.split_on_char ';' out) in
  let impl_panics = List.exists (fun s -> starts_with "PANIC" s) items in
  (* oracle on the implementation's transcript: poll with the real applications attached never panics *)
  if impl_panics then report_fail "C05" "no_panic_with_apps" case out;
  count (Printf.sprintf "apps:n:%d" (List.length made));
  if List.exists (fun m -> m = None) made then begin
    (* application creation panics in the model: the implementation must have panicked as well *)
    if not impl_panics then report_diverge "C05" case out "model: application creation panics"
  end else begin
    let nps = Array.of_list (List.map (function Some (_, n) -> n | None -> 0) made) in
    let apps = ref (List.map (function Some (a, _) -> a | None -> AppUnit) made) in
    let diverged = ref false in
    let div (what : string) (impl : string) (model : string) =
      if not !diverged then begin
        diverged := true;
        report_diverge "C05" case (what ^ " " ^ impl) model
      end in
    (match fdl_new p with
     | Ok f0 ->
         let f = ref f0 in
         let model_panicked = ref false in
         List.iter (fun item ->
           if not !diverged then
           match split_ws item with
           | ["A"; "on"] -> (match set_online !f with Ok f' -> f := f' | _ -> div "A on" "ok" "PANIC")
           | ["A"; "off"] -> (match set_offline !f with Ok f' -> f := f' | _ -> div "A off" "ok" "PANIC")
           | ["P"; now; busy; rxh; ">"; txh; consumed] ->
               let rxb = unhex rxh in
               (match poll any_app_ops !f (zi (int_of_string now)) { tx_busy = (busy = "1"); rx = rxb } !apps with
                | Ok (((f', o), apps'), calls) ->
                    let mtx = (match o.tx with Some w -> hex w | None -> "-") in
                    let mcons = List.length rxb - List.length o.rx_left in
                    if mtx <> txh || mcons <> int_of_string consumed then
                      div item (txh ^ " " ^ consumed) (Printf.sprintf "%s %d" mtx mcons)
                    else begin
                      f := f'; apps := apps';
                      if mtx <> "-" then count "apps:tx";
                      List.iter (fun c ->
                        match c with
                        | CallTransmit (i, _, Some _) ->
                            count (match List.nth apps' (int_of_nat i) with
                                   | AppDp _ -> "apps:call:dp:send" | AppLl _ -> "apps:call:ll:send"
                                   | AppSc _ -> "apps:call:sc:send" | AppUnit -> "apps:call:unit:send")
                        | CallTransmit (_, _, None) -> count "apps:decline"
                        | CallReceiveReply (i, _, _) ->
                            count (match List.nth apps' (int_of_nat i) with
                                   | AppDp _ -> "apps:call:dp:reply" | AppLl _ -> "apps:call:ll:reply"
                                   | AppSc _ -> "apps:call:sc:reply" | AppUnit -> "apps:call:unit:reply")
                        | CallHandleTimeout (i, _) ->
                            count (match List.nth apps' (int_of_nat i) with
                                   | AppDp _ -> "apps:call:dp:timeout" | AppLl _ -> "apps:call:ll:timeout"
                                   | AppSc _ -> "apps:call:sc:timeout" | AppUnit -> "apps:call:unit:timeout")) calls
                    end
                | Panic _ -> model_panicked := true; if not impl_panics then div item "ok" "PANIC"
                | OutOfFuel -> div item "ok" "OUT-OF-FUEL")
           | ["E"; i; s] ->
               let i = int_of_string i in
               let (a', ms) = take_events (List.nth !apps i) in
               apps := replace_nth !apps i a';
               if ms <> s then div item s ms
               else if s <> "-" && s <> "0,-" then
                 count (match List.nth !apps i with
                        | AppDp _ ->
                            (match String.split_on_char ',' s with
                             | [_; _; _; code] -> "apps:event:dp:" ^ code
                             | _ -> "apps:event:dp:cycle")
                        | AppLl _ -> "apps:event:ll:" ^ String.sub s 0 1
                        | AppSc _ -> "apps:event:sc:" ^ String.sub s 0 1
                        | AppUnit -> "apps:event:unit")
           | ["G"; i; a; res] ->
               let i = int_of_string i in
               (match List.nth !apps i with
                | AppDp m ->
                    let o = { o_ident = zi 0x1234; o_sync = false; o_freeze = false; o_groups = Z0; o_max_tsdr = Z0;
                              o_fail_safe = false; o_user_prm = None; o_config = Some (pattern 1 3) } in
                    let per = periph_new (zi (int_of_string a)) o [Z0] (pattern 1 5) O in
                    (match dp_add m per with
                     | Ok (m', _) ->
                         if res <> "ok" then div item res "ok"
                         else begin
                           apps := replace_nth !apps i (AppDp m'); nps.(i) <- nps.(i) + 1;
                           count (match !f.f_state with AwaitDataResponse _ -> "apps:add:while-waiting" | _ -> "apps:add:idle")
                         end
                     | _ -> if res <> "PANIC" then div item res "PANIC" else count "apps:add:full")
                | _ -> div item "add" "not a DP master")
           | ["F"; i; s] ->
               let i = int_of_string i in
               let ms = summary (List.nth !apps i) nps.(i) in
               if ms <> s then div item s ms
               else begin
                 (* peripherals in data exchange at the end: "/11:" *)
                 let n = String.length s in
                 let rec go k = if k + 3 < n then (if String.sub s k 4 = "/11:" then count "apps:final:dp:running"; go (k + 1)) in
                 go 0
               end
           | "PANIC" :: _ -> if not !model_panicked then div item "PANIC" "no panic"
           | _ -> raise (Bad ("item " ^ item))) items
     | _ -> if not impl_panics then div "new" "ok" "PANIC")
  end
