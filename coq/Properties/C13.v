(* C13 - token hold time (station-local, one-step part).
   Planned on top of the same model (not yet proved): that the deadline equals previous token time + TTR
   (- GAP reserve) along histories, C13_rotation_bound (abstract). *)
From PB Require Import Common Params Fdl FdlProofs FdlStepProofs.

(* Once the hold time of the visit is over and the guaranteed message cycle is done, no application is
   asked, nothing is transmitted and the station proceeds to pass the token - for all states of the
   remaining fields, all applications and all worlds. *)
Theorem C13_hold_over_passes : forall (A : Type) (ops : app_ops A) (f : fdl) (w : world A) (now tk : Z)
                                      (fa : option nat) (l : Z),
  f_state f = UseToken tk fa true -> f_last_token_time f = tk -> f_lba f = Some l ->
  i64_ok (l + p_bits_to_time (f_p f) sync_pause_bits) = true ->
  l + p_bits_to_time (f_p f) sync_pause_bits < now ->
  f_end_tht f <= now ->
  exists w', do_use_token A ops f now w = Ok (set_st f (PassToken true first_attempt), w') /\
             w_calls w' = w_calls w /\ w_tx w' = w_tx w /\ w_apps w' = w_apps w.
Proof. exact do_use_token_hold_over. Qed.
Print Assumptions C13_hold_over_passes.

(* C13_hold_rule, the "only if" half, over the call log of one do_use_token step, for all states,
   applications and worlds: the calls added are transmit requests of one priority class; if any were
   made, then either the time is still before the end of the hold time of this visit (low-priority
   round), or the hold time is over and this is the single guaranteed round of the visit, which asks
   for high-priority telegrams only. *)
Theorem C13_hold_rule : forall (A : Type) (ops : app_ops A) (f : fdl) (now : Z) (w : world A) (f' : fdl) (w' : world A),
  do_use_token A ops f now w = Ok (f', w') ->
  exists l hp, w_calls w' = w_calls w ++ l /\
    Forall (fun c => exists i r, c = CallTransmit i hp r) l /\
    (l <> [] ->
     if hp then (exists tk fa, f_state f = UseToken tk fa false) /\ f_end_tht f' <= now
     else now < f_end_tht f').
Proof. exact do_use_token_hold_rule. Qed.
Print Assumptions C13_hold_rule.
