(* C13 - token hold time.
   Station-local rule (FULL): one-step theorems from all states (C13_hold_over_passes, C13_hold_rule,
   C13_hold_rule_poll, C13_deadline_as_coded) and history theorems for arbitrary applications and
   arbitrary event sequences (C13_visit_bounded, C13_one_gap_poll_per_visit; histories as in C15.v).
   Global rotation bound (CONDITIONAL / partial): C13_rotation_bound_conditional derives the bound
   TTR + N (C + O) per rotation from per-visit hypotheses that are exactly what the local theorems give
   for one station, plus timing bounds C (one message cycle) and O (hand-over).  NOT proved: that the
   composed N-station timed system produces visit sequences with these properties (ring stability,
   bounded poll latency, bounded cycles and hand-overs). *)
From PB Require Import Common Params Fdl FdlProofs FdlStepProofs C15Proofs C13Proofs.

(* Once the hold time of the visit is over and the guaranteed message cycle is done, no application is
   asked and the station passes the token IN THE SAME POLL (F20 repair, active.rs do_use_token: the rest
   of the poll is do_pass_token from PassToken{do_gap: Yes, First}: the GAP request or the token goes out,
   see C12_visit_performs_gap_step) - for all states of the remaining fields, all applications and all
   worlds.  Last conjunct: whatever the outcome, no application was asked and the list is untouched. *)
Theorem C13_hold_over_passes : forall (A : Type) (ops : app_ops A) (f : fdl) (w : world A) (now tk : Z)
                                      (fa : option nat) (l : Z),
  f_state f = UseToken tk fa true -> f_last_token_time f = tk -> f_lba f = Some l ->
  i64_ok (l + p_bits_to_time (f_p f) sync_pause_bits) = true ->
  l + p_bits_to_time (f_p f) sync_pause_bits < now ->
  f_end_tht f <= now ->
  exists w1, do_use_token A ops f now w = do_pass_token A (set_st f (PassToken true first_attempt)) now w1 /\
             w_calls w1 = w_calls w /\ w_tx w1 = w_tx w /\ w_apps w1 = w_apps w /\
             forall f' w', do_use_token A ops f now w = Ok (f', w') ->
                           w_calls w' = w_calls w /\ w_apps w' = w_apps w.
Proof. exact do_use_token_hold_over. Qed.
Print Assumptions C13_hold_over_passes.

(* C13_hold_rule, the "only if" half, over the call log of one do_use_token step, for all states,
   applications and worlds: the calls added are transmit requests of one priority class; if any were
   made, then either the time is still before the end of the hold time of this visit (low-priority
   round), or the hold time is over and this is the single guaranteed round of the visit, which asks
   for high-priority telegrams only. *)
Theorem C13_hold_rule : forall (A : Type) (ops : app_ops A) (f : fdl) (now : Z) (w : world A) (f' : fdl) (w' : world A),
  do_use_token A ops f now w = Ok (f', w') ->
  exists l hp, w_calls w' = w_calls w ++ l /\
    Forall (fun c => exists i r, c = CallTransmit i hp r) l /\
    (l <> [] ->
     if hp then (exists tk fa, f_state f = UseToken tk fa false) /\ f_end_tht f' <= now
     else now < f_end_tht f').
Proof. exact do_use_token_hold_rule. Qed.
Print Assumptions C13_hold_rule.

(* ---------------------------------------------------------------------------------------------- *)
(* C13_hold_rule for a whole poll (poll_inner through all do_* functions, including the time-out path
   do_await_data_response -> do_use_token), from ANY station state: the transmit callbacks of one poll
   are of one priority class; if there are any, then either now < end_token_hold_time (normal round), or
   the hold time is over, only high-priority telegrams are asked for, and the visit had not had a round
   yet when the poll began (first_cycle_done = false). *)
Theorem C13_hold_rule_poll : forall (A : Type) (ops : app_ops A) (f : fdl) (now : Z) (pin : phy_in)
    (apps : list A) (f' : fdl) (o : phy_out) (apps' : list A) (calls : list call),
  poll ops f now pin apps = Ok (f', o, apps', calls) ->
  exists hp, Forall (prio_of hp) calls /\
    (asks calls ->
     if hp then (exists tk fa, f_state f = UseToken tk fa false) /\ f_end_tht f' <= now
     else now < f_end_tht f').
Proof. exact poll_hold_rule. Qed.
Print Assumptions C13_hold_rule_poll.

(* The deadline as coded (active.rs:1172-1182): do_use_token computes it once per visit - when
   last_token_time differs from the token time of the visit - as previous token time + TTR, minus
   Tslot + 100 bit when a GAP poll is due (gap_reserve); afterwards last_token_time is the token time of
   the visit and the deadline stays.  Third conjunct: the state do_use_token leaves; its last case
   (passed_on) is what do_pass_token leaves when do_use_token found nothing (more) to send and went on
   to pass the token in the same poll (F20 repair): a token-passing state, or the first state of the next
   visit when the station is its own successor. *)
Theorem C13_deadline_as_coded : forall (A : Type) (ops : app_ops A) (f : fdl) (now : Z) (w : world A)
    (f' : fdl) (w' : world A) (tk : Z) (fa : option nat) (fcd : bool),
  do_use_token A ops f now w = Ok (f', w') -> f_state f = UseToken tk fa fcd ->
  f_p f' = f_p f /\
  (if f_last_token_time f =? tk
   then f_last_token_time f' = f_last_token_time f /\ f_end_tht f' = f_end_tht f
   else f_last_token_time f' = tk /\
        f_end_tht f' = f_last_token_time f + token_rotation_time (f_p f) - gap_reserve f) /\
  ((f_state f' = f_state f /\ w_calls w' = w_calls w) \/
   (exists fa', f_state f' = UseToken tk fa' true) \/
   (exists a fa', f_state f' = AwaitDataResponse a tk fa') \/
   (pass_kind (kind_of (f_state f')) = true \/ f_state f' = UseToken now None false)).
Proof. exact do_use_token_state. Qed.
Print Assumptions C13_deadline_as_coded.

(* C13_visit_bounded, over histories (acceptor hpre / hpost; h_asked = "an application has been asked in
   an earlier poll of this visit"): in every poll of every visit, applications are asked for normal
   telegrams only when now < end_token_hold_time; they are asked for high-priority telegrams only when
   end_token_hold_time <= now, and only if NO application has been asked before in this visit, and never
   both in one poll.  So after the deadline a visit starts at most one more message cycle - the
   guaranteed first one; with C13_hold_over_passes the station then passes the token. *)
Theorem C13_visit_bounded : forall (A : Type) (ops : app_ops A) (p : params) (f0 : fdl) (apps : list A)
    (evs : list (event A)) (f : fdl) (apps' : list A) (h : list hitem),
  fdl_new p = Ok f0 -> run A ops f0 apps evs = Ok (f, apps', h) -> accepts hpre hpost hst_init h.
Proof. exact visit_bounded_history. Qed.
Print Assumptions C13_visit_bounded.

(* the same from every state satisfying the stated invariant InvH, with the invariant afterwards *)
Theorem C13_visit_bounded_from_any_state : forall (A : Type) (ops : app_ops A) (f : fdl) (s : hst) (apps : list A)
    (evs : list (event A)) (f' : fdl) (apps' : list A) (h : list hitem),
  InvH f s -> run A ops f apps evs = Ok (f', apps', h) -> accepts hpre hpost s h /\ InvH f' (posts hpost s h).
Proof. exact visit_bounded_from_inv. Qed.
Print Assumptions C13_visit_bounded_from_any_state.

(* C13_one_gap_poll_per_visit (acceptor gpre / gpost): after a visit the station enters
   AwaitStatusResponse - which, by C12_pass_token_polls_in_gap, happens exactly when do_pass_token has
   sent one GAP request - at most once before the next visit, and only in the poll that ends the visit
   (from a token-use state, F20 repair) or from PassToken.  (The time for this
   one request is what the GAP reserve of C13_deadline_as_coded sets aside when the GAP cursor is in a
   sweep; the first request of a sweep, started when the wait counter expires in do_pass_token, is not
   reserved for - as coded.) *)
Theorem C13_one_gap_poll_per_visit : forall (A : Type) (ops : app_ops A) (p : params) (f0 : fdl) (apps : list A)
    (evs : list (event A)) (f : fdl) (apps' : list A) (h : list hitem),
  fdl_new p = Ok f0 -> run A ops f0 apps evs = Ok (f, apps', h) -> accepts gpre gpost gst_init h.
Proof. exact one_gap_poll_history. Qed.
Print Assumptions C13_one_gap_poll_per_visit.

(* C13_deadline_constant_in_visit (acceptor dpre / dpost): all polls of one visit in which applications
   are asked see the same end_token_hold_time - the deadline of C13_visit_bounded is one number per
   visit (computed by the first do_use_token of the visit, C13_deadline_as_coded). *)
Theorem C13_deadline_constant_in_visit : forall (A : Type) (ops : app_ops A) (p : params) (f0 : fdl) (apps : list A)
    (evs : list (event A)) (f : fdl) (apps' : list A) (h : list hitem),
  fdl_new p = Ok f0 -> run A ops f0 apps evs = Ok (f, apps', h) -> accepts dpre dpost dst_init h.
Proof. exact deadline_constant_history. Qed.
Print Assumptions C13_deadline_constant_in_visit.

(* ---------------------------------------------------------------------------------------------- *)
(* The connection to the abstract rotation bound.  A `visit` records, for one token visit, the numbers
   the local theorems speak about; visit_ok = hold_ok (the conclusion of C13_hold_rule / C13_visit_bounded
   per round) + deadline_ok (C13_deadline_as_coded: deadline <= previous token time + TTR) + timing_ok
   (assumed bounds: C on a message cycle, O on the hand-over).  ring_run: visit v is at station v mod N,
   arrival times chain, vi_prev is the arrival of the same station N visits earlier. *)
Theorem C13_hold_inequality : forall (TTR C O : Z) (v : visit), visit_ok TTR C O v -> 0 <= C ->
  vi_release v - vi_arrival v <= Z.max 0 (TTR - (vi_arrival v - vi_prev v)) + C.
Proof. exact hold_inequality. Qed.
Print Assumptions C13_hold_inequality.

(* CONDITIONAL: if the visits of a stable ring of N stations satisfy visit_ok, every rotation
   takes at most TTR + N (C + O).  That N composed model stations produce such visits is NOT proved. *)
Theorem C13_rotation_bound_conditional : forall (N : nat) (V : nat -> visit) (TTR C O : Z),
  (1 <= N)%nat -> ring_run N V -> (forall v, visit_ok TTR C O (V v)) -> 0 <= TTR -> 0 <= C -> 0 <= O ->
  forall v, (N <= v)%nat ->
  vi_arrival (V (v + N)%nat) - vi_arrival (V v) <= TTR + Z.of_nat N * (C + O).
Proof. exact rotation_bound_conditional. Qed.
Print Assumptions C13_rotation_bound_conditional.

(* Non-vacuity: a three-station ring whose visits satisfy the hypotheses; the monitors reject a normal
   round after the deadline, a second extra round, and a second GAP request. *)
Example C13_hypotheses_satisfiable : ring_run 3 example_visit /\ forall v, visit_ok 100 10 1 (example_visit v).
Proof. exact example_ring_ok. Qed.

Example C13_monitor_rejects_late_round :
  ~ accepts hpre hpost (mkH KUseToken true false false)
      [HCall (CallTransmit 0 false None); HEnd 500 (stub_fdl (PassToken true AttFirst) 400)].
Proof. exact hold_rejects_late_round. Qed.

Example C13_monitor_rejects_second_extra_round :
  ~ accepts hpre hpost (mkH KUseToken true false false) [HCall (CallTransmit 0 true None)].
Proof. exact hold_rejects_second_extra_round. Qed.

Example C13_monitor_rejects_second_gap_poll :
  ~ accepts gpre gpost (mkG KPassToken 1) [HEnd 0 (stub_fdl (AwaitStatusResponse 9) 0)].
Proof. exact gap_rejects_second_poll. Qed.

Example C13_monitor_rejects_deadline_change :
  ~ accepts dpre dpost (mkD KUseToken (Some 400) false)
      [HCall (CallTransmit 0 false None); HEnd 100 (stub_fdl (UseToken 0 None true) 900)].
Proof. exact deadline_rejects_change. Qed.

(* ------------------------------------------------------------------------------------------ *)
(* ORACLE SOUNDNESS (Proofs/FdlOracleSound1-5.v; see Properties/C01.v for model_transcript): the monitors
   never report a rule of C13 (R13_low_prio_after_hold_time - both the coarse bound previous token time + TTR
   and the exact end of the hold time with the GAP reserve -, R13_second_cycle_after_hold_time,
   R13_high_prio_inside_hold_time) on a transcript of the model, for ALL input histories (no class
   excluded), any number of total applications that hand data telegrams to the PHY (`app_sends_data`: what
   TelegramTx::send_data_telegram produces decodes as a data telegram - an application that put a token
   on the wire would make the monitors see a token pass).
   The proof keeps the ghost monitor of C15 (Proofs/C15Proofs.v: Inv) and the deadline of the visit
   (C13_deadline_as_coded) in step with the executable monitor state (m_tt, m_prev_tt, m_rounds, h_end).
   It found one false alarm, repaired in Model/FdlOracle.v: when the station re-creates itself (second
   address collision) its last_token_time is 0 again, the monitor kept the token times of the old station
   (reproduced on the crate: `FDL 3 7 300 8 1 80000 1 6 10000000 / APP D / ENV on per:8:8 run:89 inj:dc0505
   run:3 inj:dc0503dc0503 run:2 inj:dc0503dc0503 run:2 on run:100` reported high_prio_inside_hold_time). *)
From PB Require Import Params C05Proofs FdlOracle FdlOracleSound1 FdlOracleSound5.

Theorem C13_oracle_sound : forall (A : Type) (ops : app_ops A) (p : params),
  apps_total A ops -> builder_valid p -> app_sends_data A ops ->
  forall (apps : list A) (ins : list minput), ins_ok 0 ins ->
  forall k r, In (k, r) (monitor p (length apps) (model_transcript A ops p apps ins)) -> rule_prop r <> PC13.
Proof. exact c13_oracle_sound. Qed.
Print Assumptions C13_oracle_sound.

(* ---------------------------------------------------------------------------------------------- *)
(* EXTRACTION OF VISITS (Proofs/C13Visits.v).  visits_of h reads the token visits of ONE station off a
   history h of `run` (histories as in C15.v): per visit the previous token time (last_token_time when the
   visit begins), the token time, the deadline, the rounds in which applications were asked (time of the
   poll, high_prio_only) and the time of the poll that passed the token on (None: visit still open, or cut
   short by giving up the token / going offline).  `mono 0 events`: the poll times are > 0 and strictly
   increasing.  `0 <= p_slot_bits p` holds for every builder-valid parameter set. *)
From PB Require Import Telegram Phy C13Visits FdlOracleSound2.

(* C13_station_visits_ok: every visit extracted from a history of a newly created model station - any
   applications, any events - satisfies sv_ok: previous token time < token time; every round lies after the
   arrival and satisfies exactly hold_ok (normal round: now < deadline; high-priority-only round: the first
   round of the visit, deadline <= now); the deadline is ONE number per visit and <= previous token time +
   TTR (deadline_ok); the release is not before the arrival nor before any round.  Hence hold_ok and
   deadline_ok of C13_rotation_bound_conditional are theorems about model stations (sv_ok_hold). *)
Theorem C13_station_visits_ok : forall (A : Type) (ops : app_ops A) (p : params) (f0 : fdl) (apps : list A)
    (evs : list (C15Proofs.event A)) (f : fdl) (apps' : list A) (h : list hitem),
  0 <= p_slot_bits p -> fdl_new p = Ok f0 -> mono 0 evs -> C15Proofs.run A ops f0 apps evs = Ok (f, apps', h) ->
  Forall (sv_ok (token_rotation_time p)) (visits_of h).
Proof. exact station_visits_ok. Qed.
Print Assumptions C13_station_visits_ok.

Theorem C13_station_visit_hold_deadline : forall (TTR : Z) (v : svisit) (next : Z),
  sv_ok TTR v -> hold_ok (to_visit v next) /\ deadline_ok TTR (to_visit v next).
Proof. exact sv_ok_hold. Qed.
Print Assumptions C13_station_visit_hold_deadline.

(* C13_visits_linked: in the list of extracted visits, the visit after a COMPLETED visit has that visit's
   token time as its previous token time - or 0 when the station was re-created in between (set_offline, or
   the self-re-creation after a second address collision).  This is the second half of ring_run. *)
Theorem C13_visits_linked : forall (A : Type) (ops : app_ops A) (p : params) (f0 : fdl) (apps : list A)
    (evs : list (C15Proofs.event A)) (f : fdl) (apps' : list A) (h : list hitem),
  0 <= p_slot_bits p -> fdl_new p = Ok f0 -> mono 0 evs -> C15Proofs.run A ops f0 apps evs = Ok (f, apps', h) ->
  linked (visits_of h).
Proof. exact visits_linked. Qed.
Print Assumptions C13_visits_linked.

(* C13_rotation_bound_stations: the rotation bound for N MODEL stations with RING hypotheses only.
   Given: histories H i of model stations with parameters P i (station_history: ANY applications, ANY events
   with increasing poll times) whose TTR is at most TTR; the ring order - the v-th visit of the ring is visit
   ix v of station st v, completed by passing the token, N visits later it is the same station's next visit,
   no station re-created; medium / schedule - timing_ok C O for the visits (token released by one visit
   arrives as the next visit within O, a message cycle ends within C).  Then every rotation takes at most
   TTR + N (C + O).  The per-station hypotheses of C13_rotation_bound_conditional (hold_ok, deadline_ok,
   previous token time = the station's previous arrival) are no longer assumed: they are discharged by
   C13_station_visits_ok and C13_visits_linked.  STILL ASSUMED (not proved): that N model stations on a
   shared medium produce histories with this ring order and these timing bounds. *)
Theorem C13_rotation_bound_stations : forall (N : nat) (P : nat -> params) (H : nat -> list hitem)
    (st ix : nat -> nat) (SV : nat -> svisit) (TTR C O : Z),
  (forall i, station_history (P i) (H i) /\ 0 <= p_slot_bits (P i) /\ token_rotation_time (P i) <= TTR) ->
  (forall v, nth_error (visits_of (H (st v))) (ix v) = Some (SV v) /\ sv_release (SV v) <> None) ->
  (forall v, st (v + N)%nat = st v /\ ix (v + N)%nat = S (ix v)) ->
  (forall v, (N <= v)%nat -> sv_prev (SV v) <> 0) ->
  (forall v, timing_ok C O (ring_visit SV v)) ->
  (1 <= N)%nat -> 0 <= TTR -> 0 <= C -> 0 <= O ->
  forall v, (N <= v)%nat ->
  sv_arrival (SV (v + N)%nat) - sv_arrival (SV v) <= TTR + Z.of_nat N * (C + O).
Proof. exact rotation_bound_stations. Qed.
Print Assumptions C13_rotation_bound_stations.

(* The explicit core of the message-cycle bound C, one step from ALL states: the poll that sends a request
   expecting a reply leaves last_bus_activity = now + 11 bit * |request| (C13_request_starts_wait); from then
   on, on a silent bus (PHY not busy, nothing complete in the receive buffer, every buffered byte counted)
   the FIRST poll later than last_bus_activity + Tslot calls handle_timeout (C13_reply_wait_expires).  With
   polls at most delta apart, a message cycle without reply therefore ends within
   11 bit * |request| + Tslot + delta of the poll that sent the request.  A full derivation of C and O for a
   ring (replies, synchronisation pauses, hand-over, the other stations) is NOT given. *)
Theorem C13_request_starts_wait : forall (A : Type) (ops : app_ops A) (f : fdl) (now : Z) (busy : bool) (rxb : bytes)
    (apps : list A) (f' : fdl) (o : phy_out) (apps' : list A) (calls : list call),
  poll ops f now (mkPhyIn busy rxb) apps = Ok (f', o, apps', calls) ->
  kind_of (f_state f) = KUseToken -> f_conn f = ConnOnline -> (f_pending f <= length rxb)%nat ->
  kind_of (f_state f') = KAwaitDataResponse ->
  exists wire, tx o = Some wire /\ f_lba f' = Some (now + dur (f_p f) (length wire)) /\
               f_pending f' = length (rx_left o).
Proof. exact request_starts_wait. Qed.
Print Assumptions C13_request_starts_wait.

Theorem C13_reply_wait_expires : forall (A : Type) (ops : app_ops A) (f : fdl) (now : Z) (rxb : bytes)
    (apps : list A) (f' : fdl) (o : phy_out) (apps' : list A) (calls : list call) (a tk : Z) (fa : option nat) (l : Z),
  poll ops f now (mkPhyIn false rxb) apps = Ok (f', o, apps', calls) ->
  f_state f = AwaitDataResponse a tk fa -> f_conn f = ConnOnline -> f_lba f = Some l ->
  f_pending f = length rxb -> decode rxb = Ok NeedMore -> 0 <= p_slot_bits (f_p f) ->
  l + slot_time (f_p f) < now ->
  exists cl, calls = CallHandleTimeout (f_next_app f) a :: cl.
Proof. exact reply_wait_expires. Qed.
Print Assumptions C13_reply_wait_expires.

(* Non-vacuity: a newly created station alone on the bus, polled every 3 ms, with the demo application of
   C15: the model claims the token, scans its GAP and visits itself; the first two extracted visits (the first
   with the request and, after the time-out, the decline; linked: 99001 is the token time of the first and the
   previous token time of the second). *)
Example C13_demo_visits : exists f0 f apps h,
  fdl_new demo4_params = Ok f0 /\ mono 0 demo4_events /\
  C15Proofs.run nat demo_ops f0 [0%nat] demo4_events = Ok (f, apps, h) /\
  firstn 2 (visits_of h) =
    [mkSv 0 99001 1689375 [(105001, false); (117001, false)] (Some 117001);
     mkSv 99001 117001 1788376 [(123001, false)] (Some 123001)] /\
  firstn 3 (calls_of h) = [CallTransmit 0 false (Some (demo_wire, Some 5)); CallHandleTimeout 0 5; CallTransmit 0 false None].
Proof. exact demo4_visits. Qed.
