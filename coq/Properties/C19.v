(* C19 - The GSD parser never panics and reproduces what the file says. (statements: TODO) *)
From PB Require Import Common GsdGrammar GsdTables GsdInterp GsdShape.
