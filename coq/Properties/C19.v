(* C19 - The GSD parser never panics and reproduces what the file says.
   Theorem statements only; every proof is `exact <lemma of Proofs/>`.

   Layering: text --(pest library, gsd.pest; TRUSTED, validated at tree level)--> pair tree
                  --(parser.rs parse_inner; MODELLED as GsdInterp.interp)--> description | Err | panic.
   `Shape` is computed from the grammar value generated from gsd.pest (GsdShape.child_rx); the correspondence
   driver checks `shapeb` on every pair tree the real pest parser produced and compares `interp` on that real
   tree with the real parser's result. *)
From PB Require Import Common GsdGrammar GsdTables GsdInterp GsdShape GsdRender Peg C19Shape C19Proofs C19Fidelity C19Peg C19File C19Fragments.

(* ------------------------------------------------------------------------------------------ (A) no panic *)

(* The executable shape checker that is run against pest's real trees decides the shape predicate. *)
Theorem C19_tree_shape : forall t : tree, shapeb t = true -> Shape t.
Proof. exact shapeb_sound. Qed.
Print Assumptions C19_tree_shape.

(* Shape, unfolded one level: the inner pairs of a pair of rule r form a word of the language computed from the
   grammar for r; every inner pair has a rule that occurs in that expression and is well shaped itself. *)
Theorem C19_tree_shape_children : forall t : tree, Shape t ->
  Kids (child_rx (root t)) (kids t) /\
  Forall (fun c => In (root c) (syms (child_rx (root t))) /\ Shape c) (kids t).
Proof. exact shape_children. Qed.
Print Assumptions C19_tree_shape_children.

(* The implicit WHITESPACE / COMMENT rules of this grammar are silent, so they contribute no pairs
   (the side condition under which child_rx ignores them). *)
Theorem C19_implicit_rules_silent : implicit_silent grammar = true.
Proof. exact implicit_rules_silent. Qed.
Print Assumptions C19_implicit_rules_silent.

(* For EVERY pair tree of the shape the grammar prescribes, the interpretation step returns a description
   (with its number of warnings) or the parser's error value: no unwrap / expect / assert! / unreachable! /
   panic! of parse_inner is reachable.  No fuel is involved: interp is structurally recursive. *)
Theorem C19_interp_total : forall t : tree, Shape t ->
  (exists d w, interp t = POk (d, w)) \/ interp t = PErr.
Proof. exact interp_total. Qed.
Print Assumptions C19_interp_total.

(* the same in the conventions of Common.v: never Panic, never OutOfFuel *)
Theorem C19_interp_never_panics : forall t : tree, Shape t ->
  (forall s, to_res (interp t) <> Panic s) /\ to_res (interp t) <> OutOfFuel.
Proof. exact interp_never_panics. Qed.
Print Assumptions C19_interp_never_panics.

(* every real pair tree that passed the run-time shape check is covered *)
Theorem C19_checked_trees_no_panic : forall t : tree, shapeb t = true -> no_panic (interp t).
Proof. exact interp_checked_no_panic. Qed.
Print Assumptions C19_checked_trees_no_panic.

(* Text level, relative to Model/Peg.v (the PEG interpreter with the semantics of pest; it is VALIDATED against the
   real pest parser at tree level on every case of a run, not verified): every pair tree the PEG model returns for
   ANY text has the grammar-derived shape (so `child_rx` is not an extra assumption), and therefore whatever text the
   PEG model accepts, the interpretation of its pair tree cannot panic. *)
Theorem C19_peg_tree_shape : forall (text : str) (t : tree),
  peg_parse text = Ok (Some t) -> Shape t /\ root t = R_gsd.
Proof. exact peg_tree_shape. Qed.
Print Assumptions C19_peg_tree_shape.

Theorem C19_text_level_no_panic : forall (text : str) (t : tree),
  peg_parse text = Ok (Some t) -> no_panic (interp t).
Proof. exact peg_then_interp_no_panic. Qed.
Print Assumptions C19_text_level_no_panic.

(* The model of the whole parser at text level (PEG model of pest, then interpretation) has no panic outcome for
   ANY text: description, error - or out of fuel, which is not proved impossible (C19_parse_total is not done). *)
Theorem C19_model_never_panics : forall (text : str) (s : site), gsd_model text <> Panic s.
Proof. exact gsd_model_never_panics. Qed.
Print Assumptions C19_model_never_panics.

(* ------------------------------------------------------------------------------------------ (B) fidelity, PARTIAL *)

(* The parser reads exactly the value of the written digits (decimal or 0x-hexadecimal in either letter case,
   leading zeros allowed), for every integer type of the description ... *)
Theorem C19_number_as_written : forall (n : wnum) (tmax : Z),
  wnum_okb n = true -> wnum_value n <= tmax -> tmax <= u32_max ->
  parse_number tmax (Node (wnum_rule n) (wnum_text n) []) = POk (wnum_value n).
Proof. exact parse_number_written. Qed.
Print Assumptions C19_number_as_written.

(* ... and exactly the content of a written string, whatever line continuation markers cut it. *)
Theorem C19_string_as_written : forall w : wstr, wstr_okb w = true ->
  parse_string (Node R_string_literal (wstr_text w) []) = POk (wstr_value w).
Proof. exact parse_string_written. Qed.
Print Assumptions C19_string_as_written.

(* FULL: for every well-formed GSD file (all statement kinds), whatever the keyword case, spacing, comments,
         line continuations, CR/LF style and preamble, the returned description contains exactly the data
         written in the file.
   PROVED (tree level, settings fragment): for every file that consists of `key = number | string` settings
   with known non-special keys in ANY spelling of the key, ANY digit spelling of the numbers, ANY placement of
   continuation markers in the strings and ANY text before/in the marker line, where no field is written twice:
   the interpretation of its pair tree yields a description that contains exactly the written values, the
   or-ed speed flags, defaults everywhere else (Max_Module defaults to 1), and nothing else (one warning:
   a compact station without module).  White space, comments and line ends are consumed by pest and do not
   reach the tree; that part - and every other statement kind - is validated differentially, not proved. *)
Theorem C19_roundtrip_settings_partial : forall (pre mk : str) (items : list witem),
  settings_okb items = true ->
  exists d, interp (settings_tree pre mk items) = POk (d, 1) /\
    (forall it, In it items -> says d it) /\
    d_speeds d = said_speeds items /\
    (forall f, ~ In (TNum f) (targets items) -> d_num d f = if nfield_eqb f NF_max_modules then 1 else nfield_default f) /\
    (forall f, ~ In (TStr f) (targets items) -> d_str d f = []) /\
    (forall f, ~ In (TFlag f) (targets items) -> d_flag d f = false) /\
    rest_of d = ([], [], prm_default, [], [], []).
Proof. exact roundtrip_settings. Qed.
Print Assumptions C19_roundtrip_settings_partial.

(* these trees are among the trees the grammar admits *)
Theorem C19_settings_tree_shape : forall (pre mk : str) (items : list witem),
  items <> [] -> Shape (settings_tree pre mk items).
Proof. exact settings_tree_shape. Qed.
Print Assumptions C19_settings_tree_shape.

(* ------------------------------------------------------------------------------------------ non-vacuity *)

Definition ex_items : list witem :=
  [ mkItem [71; 83; 68; 95; 82; 101; 118; 105; 115; 105; 111; 110] (WNum (WDec [0; 3]));            (* GSD_Revision = 03 *)
    mkItem [105; 68; 69; 78; 84; 95; 110; 85; 77; 66; 69; 82] (WNum (WHex [(1, false); (3, false); (10, true); (15, false)]));  (* iDENT_nUMBER = 0x13Af *)
    mkItem [86; 101; 110; 100; 111; 114; 95; 78; 97; 109; 101] (WStr (mkWstr [97; 98] [(true, [99]); (false, [])]));  (* Vendor_Name = "ab\<CR><LF>c\<LF>" *)
    mkItem [49; 46; 53; 77; 95; 115; 117; 112; 112] (WNum (WDec [1])) ].                              (* 1.5M_supp = 1 *)

(* the hypotheses of the round trip are satisfiable, the tree is well shaped, and the values arrive *)
Example C19_settings_example :
  settings_okb ex_items = true /\ shapeb (settings_tree [] [] ex_items) = true /\
  match interp (settings_tree [] [] ex_items) with
  | POk (d, w) => d_num d NF_gsd_revision = 3 /\ d_num d NF_ident_number = 5039 /\ d_str d SF_vendor = [97; 98; 99] /\
                  d_speeds d = 256 /\ w = 1
  | _ => False
  end.
Proof. vm_compute. repeat split; reflexivity. Qed.

(* the panic sites of the model are live: an ill-shaped tree (a setting without inner pairs) panics, a well-shaped
   one with a dangling reference gives the parser's error (the repaired F8 behaviour) *)
Example C19_ill_shaped_tree_panics :
  shapeb (Node R_gsd [] [Node R_setting [] []]) = false /\
  interp (Node R_gsd [] [Node R_setting [] []]) = PPanic SiteUnwrap.
Proof. vm_compute. split; reflexivity. Qed.

Example C19_dangling_reference_is_error :
  let t := Node R_gsd [] [Node R_any_text [] []; Node R_start [] [];
             Node R_setting [] [Node R_identifier [69; 120; 116; 95; 85; 115; 101; 114; 95; 80; 114; 109; 95; 68; 97; 116; 97; 95; 82; 101; 102] [];
                                Node R_dec_number [48] []; Node R_dec_number [57] []];
             Node R_EOI [] []] in
  shapeb t = true /\ interp t = PErr.
Proof. vm_compute. split; reflexivity. Qed.

(* the text-level theorems are not vacuous: the PEG model parses a small file (hexadecimal number, comment, CR LF,
   a continuation inside a string), the tree is well shaped and the values arrive *)
Definition ex_text : str :=
  [35; 80; 114; 111; 102; 105; 98; 117; 115; 95; 68; 80; 10; 71; 83; 68; 95; 82; 101; 118; 105; 115; 105; 111; 110; 32; 61; 32; 48; 120; 49; 70; 32; 59; 32; 99; 13; 10; 86; 101; 110; 100; 111; 114; 95; 78; 97; 109; 101; 61; 34; 97; 92; 10; 98; 34; 10].
Example C19_peg_example :
  match peg_parse ex_text with
  | Ok (Some t) =>
      shapeb t = true /\
      match interp t with
      | POk (d, _) => d_num d NF_gsd_revision = 31 /\ d_str d SF_vendor = [97; 98]
      | _ => False
      end
  | _ => False
  end.
Proof. vm_compute. repeat split; reflexivity. Qed.

(* ========================================================================================== (B) fidelity, whole files

   A file is a list of WRITTEN statements (GsdRender.wstmt) of every kind, in any order: settings `Key[(n)] = value`,
   PrmText, ExtUserPrmData, Unit_Diag_Area, Module, SlotDefinition, ignored blocks.  Numbers are digit strings
   (decimal, 0x-hexadecimal in either letter case, leading zeros, a minus sign where the grammar allows one), strings
   are contents cut by any line continuation markers, keys and type names are any spelling that lower-cases to the
   parser's key.  `file_tree` is the pair tree pest delivers for such a file (the driver checks on every rendered
   file of a run that the REAL pair tree is file_tree of its decoded statements and that the hypotheses hold).
   `file_okb` = the file is well formed: values within the types of their fields, references defined before use,
   legacy parameter data within its declared length, string contents without a back slash directly before CR/LF
   (that would BE a continuation marker), data type names known, no index on plain keys. *)

(* what the statements say, read directly from the written values (no tree, no parsing), is what the
   interpretation of the pair tree returns - description and number of warnings *)
Theorem C19_roundtrip_file : forall (pre mk : str) (stmts : list wstmt),
  file_okb stmts = true -> interp (file_tree pre mk stmts) = file_says stmts.
Proof. exact roundtrip_file. Qed.
Print Assumptions C19_roundtrip_file.

(* (1) identification data, speeds (*_supp), response times (MaxTsdr_*), sizes, flags, Modular_Station, Max_Module:
   in ANY well-formed file (whatever other statements surround them) in which no scalar field is written twice,
   every such setting arrives exactly as written, the supported speeds are the or of the non-zero *_supp settings,
   everything not written keeps its default (Max_Module: 1, and 1 for a compact station whatever was written). *)
Theorem C19_roundtrip_scalars : forall stmts : list wstmt,
  file_okb stmts = true -> nodupb (set_targets (sets_of stmts)) = true ->
  exists d w, file_says stmts = POk (d, w) /\
    (forall x, In (WSetS x) stmts -> set_says d x) /\
    d_speeds d = speeds_said (sets_of stmts) /\
    (forall f, ~ In (TNum f) (set_targets (sets_of stmts)) -> d_num d f = if nfield_eqb f NF_max_modules then 1 else nfield_default f) /\
    (forall f, ~ In (TStr f) (set_targets (sets_of stmts)) -> d_str d f = []) /\
    (forall f, ~ In (TFlag f) (set_targets (sets_of stmts)) -> d_flag d f = false).
Proof. exact roundtrip_scalars. Qed.
Print Assumptions C19_roundtrip_scalars.

(* (2) PrmText blocks and ExtUserPrmData definitions, (3) station-level Ext_User_Prm_Data_Const/_Ref and legacy
   User_Prm_Data[_Len], (4a) modules: in ANY well-formed file whose PrmText ids and ExtUserPrmData ids are unique,
   - a reference to a definition id means the definition block with that id: name, data type (incl. Bit(n) and
     BitArea(a-b)), default, range or value set, Changeable/Visible and - for a Prm_Text_Ref - the table of the
     PrmText block with that id (wdef_den),
   - the station's user parameter data is exactly the Ext_ constants and resolved references in file order (length 0)
     if any Ext_ keyword occurs, otherwise the last User_Prm_Data_Len and every User_Prm_Data line (prm_said),
   - the modules are exactly the Module blocks in file order: name, configuration bytes, reference number, Info_Text,
     Ext_Module_Prm_Data_Len, constants and resolved references (wmodule_den). *)
Theorem C19_roundtrip_prm_modules : forall stmts : list wstmt,
  file_okb stmts = true -> ids_unique stmts = true ->
  exists d w, file_says stmts = POk (d, w) /\
    (forall id es, In (WText id es) stmts -> zmap_get (wnum_value id) (texts_of stmts) = Some (table_of es)) /\
    (forall x, In (WDef x) stmts ->
       zmap_get (wnum_value (wd_id x)) (defs_of stmts) = Some (wdef_den (texts_of stmts) x)) /\
    d_prm d = prm_said (defs_of stmts) (prmlines_of stmts) /\
    d_modules d = map (wmodule_den (defs_of stmts)) (modules_of stmts).
Proof. exact roundtrip_prm_modules. Qed.
Print Assumptions C19_roundtrip_prm_modules.

(* (4b) slots - PARTIAL: restricted to files in which no Module block follows a SlotDefinition block (the parser
   resolves a slot against the modules defined before it; C19_roundtrip_file covers the other layouts, without a
   closed form).  Then every slot is exactly: name, number, the first module with the default reference, and the
   modules found for the allowed references - the written set in its order, or the range in ascending order. *)
Theorem C19_roundtrip_slots_partial : forall stmts : list wstmt,
  file_okb stmts = true -> modules_first stmts = true ->
  exists d w, file_says stmts = POk (d, w) /\
    map Some (d_slots d) = map (slot_den (d_modules d)) (slots_of stmts).
Proof. exact roundtrip_slots. Qed.
Print Assumptions C19_roundtrip_slots_partial.

(* non-vacuity: a file with every proved fragment; parsed by the PEG model, decoded, all hypotheses hold, the tree is
   file_tree of the decoded statements, and the description contains what was written *)
Definition ex_file : str :=
  [35; 80; 114; 111; 102; 105; 98; 117; 115; 95; 68; 80; 13; 10; 77; 111; 100; 117; 108; 97; 114; 95; 83; 116; 97; 116; 105; 111; 110; 32; 61; 32; 49; 32; 59; 32; 109; 111; 100; 117; 108; 97; 114; 13; 10; 77; 97; 120; 95; 77; 111; 100; 117; 108; 101; 32; 61; 32; 48; 120; 48; 56; 13; 10; 57; 46; 54; 95; 115; 117; 112; 112; 32; 61; 32; 49; 10; 77; 97; 120; 84; 115; 100; 114; 95; 57; 46; 54; 32; 61; 32; 49; 53; 10; 80; 114; 109; 84; 101; 120; 116; 61; 49; 10; 84; 101; 120; 116; 40; 48; 41; 61; 34; 111; 102; 102; 34; 10; 84; 101; 120; 116; 40; 45; 49; 41; 61; 34; 111; 92; 10; 110; 34; 10; 69; 110; 100; 80; 114; 109; 84; 101; 120; 116; 10; 69; 120; 116; 85; 115; 101; 114; 80; 114; 109; 68; 97; 116; 97; 61; 55; 32; 34; 109; 111; 100; 101; 34; 10; 66; 105; 116; 65; 114; 101; 97; 40; 49; 45; 50; 41; 32; 48; 32; 48; 45; 51; 10; 80; 114; 109; 95; 84; 101; 120; 116; 95; 82; 101; 102; 61; 49; 10; 86; 105; 115; 105; 98; 108; 101; 61; 48; 10; 69; 110; 100; 69; 120; 116; 85; 115; 101; 114; 80; 114; 109; 68; 97; 116; 97; 10; 69; 120; 116; 85; 115; 101; 114; 80; 114; 109; 68; 97; 116; 97; 61; 56; 32; 34; 108; 101; 118; 101; 108; 34; 10; 83; 105; 103; 110; 101; 100; 49; 54; 32; 45; 53; 32; 45; 53; 44; 48; 44; 53; 10; 69; 110; 100; 69; 120; 116; 85; 115; 101; 114; 80; 114; 109; 68; 97; 116; 97; 10; 69; 120; 116; 95; 85; 115; 101; 114; 95; 80; 114; 109; 95; 68; 97; 116; 97; 95; 67; 111; 110; 115; 116; 40; 48; 41; 61; 48; 120; 48; 48; 44; 48; 120; 48; 49; 44; 92; 10; 50; 10; 69; 120; 116; 95; 85; 115; 101; 114; 95; 80; 114; 109; 95; 68; 97; 116; 97; 95; 82; 101; 102; 40; 49; 41; 61; 55; 10; 85; 115; 101; 114; 95; 80; 114; 109; 95; 68; 97; 116; 97; 95; 76; 101; 110; 61; 49; 10; 77; 111; 100; 117; 108; 101; 61; 34; 105; 110; 34; 32; 48; 120; 49; 48; 10; 51; 10; 69; 120; 116; 95; 77; 111; 100; 117; 108; 101; 95; 80; 114; 109; 95; 68; 97; 116; 97; 95; 76; 101; 110; 61; 50; 10; 69; 120; 116; 95; 85; 115; 101; 114; 95; 80; 114; 109; 95; 68; 97; 116; 97; 95; 82; 101; 102; 40; 48; 41; 61; 56; 10; 73; 110; 102; 111; 95; 84; 101; 120; 116; 61; 34; 120; 34; 10; 69; 110; 100; 77; 111; 100; 117; 108; 101; 10; 77; 111; 100; 117; 108; 101; 32; 61; 32; 34; 111; 117; 116; 34; 32; 48; 120; 50; 48; 44; 48; 120; 50; 49; 10; 52; 10; 69; 110; 100; 77; 111; 100; 117; 108; 101; 10; 83; 108; 111; 116; 68; 101; 102; 105; 110; 105; 116; 105; 111; 110; 10; 83; 108; 111; 116; 40; 49; 41; 61; 34; 115; 34; 32; 51; 32; 51; 45; 52; 10; 83; 108; 111; 116; 40; 50; 41; 61; 34; 116; 34; 32; 52; 32; 52; 44; 57; 10; 69; 110; 100; 83; 108; 111; 116; 68; 101; 102; 105; 110; 105; 116; 105; 111; 110; 10].
Example C19_file_example :
  match peg_parse ex_file with
  | Ok (Some t) =>
      match decode_file t with
      | Some stmts =>
          file_okb stmts = true /\ ids_unique stmts = true /\ modules_first stmts = true /\
          nodupb (set_targets (sets_of stmts)) = true /\ shapeb t = true /\
          match interp t with
          | POk (d, w) =>
              d_flag d BF_modular_station = true /\ d_num d NF_max_modules = 8 /\ d_speeds d = 2 /\
              d_num d NF_max_tsdr_b9600 = 15 /\ w = 1 /\
              map (fun m => (m_name m, m_config m, m_ref m, up_len (m_prm m), length (up_ref (m_prm m)))) (d_modules d) =
                [([105; 110], [16], Some 3, 2, 1%nat); ([111; 117; 116], [32; 33], Some 4, 0, 0%nat)] /\
              map (fun sl => (sl_number sl, sl_default sl, sl_allowed sl)) (d_slots d) = [(1, 0%nat, [0%nat; 1%nat]); (2, 1%nat, [1%nat])] /\
              up_const (d_prm d) = [(0, [0; 1; 2])] /\
              map (fun r => (fst r, pd_name (snd r), pd_type (snd r), pd_constraint (snd r), pd_text (snd r), pd_visible (snd r))) (up_ref (d_prm d)) =
                [(1, [109; 111; 100; 101], DBitArea 1 2, CMinMax 0 3, Some [([111; 102; 102], 0); ([111; 110], -1)], false)]
          | _ => False
          end
      | None => False
      end
  | _ => False
  end.
Proof. vm_compute. repeat split; reflexivity. Qed.
