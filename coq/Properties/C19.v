(* C19 - The GSD parser never panics and reproduces what the file says.
   Theorem statements only; every proof is `exact <lemma of Proofs/>`.

   Layering: text --(pest library, gsd.pest; TRUSTED, validated at tree level)--> pair tree
                  --(parser.rs parse_inner; MODELLED as GsdInterp.interp)--> description | Err | panic.
   `Shape` is computed from the grammar value generated from gsd.pest (GsdShape.child_rx); the correspondence
   driver checks `shapeb` on every pair tree the real pest parser produced and compares `interp` on that real
   tree with the real parser's result. *)
From PB Require Import Common GsdGrammar GsdTables GsdInterp GsdShape GsdRender Peg C19Shape C19Proofs C19Fidelity C19Peg.

(* ------------------------------------------------------------------------------------------ (A) no panic *)

(* The executable shape checker that is run against pest's real trees decides the shape predicate. *)
Theorem C19_tree_shape : forall t : tree, shapeb t = true -> Shape t.
Proof. exact shapeb_sound. Qed.
Print Assumptions C19_tree_shape.

(* Shape, unfolded one level: the inner pairs of a pair of rule r form a word of the language computed from the
   grammar for r; every inner pair has a rule that occurs in that expression and is well shaped itself. *)
Theorem C19_tree_shape_children : forall t : tree, Shape t ->
  Kids (child_rx (root t)) (kids t) /\
  Forall (fun c => In (root c) (syms (child_rx (root t))) /\ Shape c) (kids t).
Proof. exact shape_children. Qed.
Print Assumptions C19_tree_shape_children.

(* The implicit WHITESPACE / COMMENT rules of this grammar are silent, so they contribute no pairs
   (the side condition under which child_rx ignores them). *)
Theorem C19_implicit_rules_silent : implicit_silent grammar = true.
Proof. exact implicit_rules_silent. Qed.
Print Assumptions C19_implicit_rules_silent.

(* For EVERY pair tree of the shape the grammar prescribes, the interpretation step returns a description
   (with its number of warnings) or the parser's error value: no unwrap / expect / assert! / unreachable! /
   panic! of parse_inner is reachable.  No fuel is involved: interp is structurally recursive. *)
Theorem C19_interp_total : forall t : tree, Shape t ->
  (exists d w, interp t = POk (d, w)) \/ interp t = PErr.
Proof. exact interp_total. Qed.
Print Assumptions C19_interp_total.

(* the same in the conventions of Common.v: never Panic, never OutOfFuel *)
Theorem C19_interp_never_panics : forall t : tree, Shape t ->
  (forall s, to_res (interp t) <> Panic s) /\ to_res (interp t) <> OutOfFuel.
Proof. exact interp_never_panics. Qed.
Print Assumptions C19_interp_never_panics.

(* every real pair tree that passed the run-time shape check is covered *)
Theorem C19_checked_trees_no_panic : forall t : tree, shapeb t = true -> no_panic (interp t).
Proof. exact interp_checked_no_panic. Qed.
Print Assumptions C19_checked_trees_no_panic.

(* Text level, relative to Model/Peg.v (the PEG interpreter with the semantics of pest; it is VALIDATED against the
   real pest parser at tree level on every case of a run, not verified): every pair tree the PEG model returns for
   ANY text has the grammar-derived shape (so `child_rx` is not an extra assumption), and therefore whatever text the
   PEG model accepts, the interpretation of its pair tree cannot panic. *)
Theorem C19_peg_tree_shape : forall (text : str) (t : tree),
  peg_parse text = Ok (Some t) -> Shape t /\ root t = R_gsd.
Proof. exact peg_tree_shape. Qed.
Print Assumptions C19_peg_tree_shape.

Theorem C19_text_level_no_panic : forall (text : str) (t : tree),
  peg_parse text = Ok (Some t) -> no_panic (interp t).
Proof. exact peg_then_interp_no_panic. Qed.
Print Assumptions C19_text_level_no_panic.

(* The model of the whole parser at text level (PEG model of pest, then interpretation) has no panic outcome for
   ANY text: description, error - or out of fuel, which is not proved impossible (C19_parse_total is not done). *)
Theorem C19_model_never_panics : forall (text : str) (s : site), gsd_model text <> Panic s.
Proof. exact gsd_model_never_panics. Qed.
Print Assumptions C19_model_never_panics.

(* ------------------------------------------------------------------------------------------ (B) fidelity, PARTIAL *)

(* The parser reads exactly the value of the written digits (decimal or 0x-hexadecimal in either letter case,
   leading zeros allowed), for every integer type of the description ... *)
Theorem C19_number_as_written : forall (n : wnum) (tmax : Z),
  wnum_okb n = true -> wnum_value n <= tmax -> tmax <= u32_max ->
  parse_number tmax (Node (wnum_rule n) (wnum_text n) []) = POk (wnum_value n).
Proof. exact parse_number_written. Qed.
Print Assumptions C19_number_as_written.

(* ... and exactly the content of a written string, whatever line continuation markers cut it. *)
Theorem C19_string_as_written : forall w : wstr, wstr_okb w = true ->
  parse_string (Node R_string_literal (wstr_text w) []) = POk (wstr_value w).
Proof. exact parse_string_written. Qed.
Print Assumptions C19_string_as_written.

(* FULL: for every well-formed GSD file (all statement kinds), whatever the keyword case, spacing, comments,
         line continuations, CR/LF style and preamble, the returned description contains exactly the data
         written in the file.
   PROVED (tree level, settings fragment): for every file that consists of `key = number | string` settings
   with known non-special keys in ANY spelling of the key, ANY digit spelling of the numbers, ANY placement of
   continuation markers in the strings and ANY text before/in the marker line, where no field is written twice:
   the interpretation of its pair tree yields a description that contains exactly the written values, the
   or-ed speed flags, defaults everywhere else (Max_Module defaults to 1), and nothing else (one warning:
   a compact station without module).  White space, comments and line ends are consumed by pest and do not
   reach the tree; that part - and every other statement kind - is validated differentially, not proved. *)
Theorem C19_roundtrip_settings_partial : forall (pre mk : str) (items : list witem),
  settings_okb items = true ->
  exists d, interp (settings_tree pre mk items) = POk (d, 1) /\
    (forall it, In it items -> says d it) /\
    d_speeds d = said_speeds items /\
    (forall f, ~ In (TNum f) (targets items) -> d_num d f = if nfield_eqb f NF_max_modules then 1 else nfield_default f) /\
    (forall f, ~ In (TStr f) (targets items) -> d_str d f = []) /\
    (forall f, ~ In (TFlag f) (targets items) -> d_flag d f = false) /\
    rest_of d = ([], [], prm_default, [], [], []).
Proof. exact roundtrip_settings. Qed.
Print Assumptions C19_roundtrip_settings_partial.

(* these trees are among the trees the grammar admits *)
Theorem C19_settings_tree_shape : forall (pre mk : str) (items : list witem),
  items <> [] -> Shape (settings_tree pre mk items).
Proof. exact settings_tree_shape. Qed.
Print Assumptions C19_settings_tree_shape.

(* ------------------------------------------------------------------------------------------ non-vacuity *)

Definition ex_items : list witem :=
  [ mkItem [71; 83; 68; 95; 82; 101; 118; 105; 115; 105; 111; 110] (WNum (WDec [0; 3]));            (* GSD_Revision = 03 *)
    mkItem [105; 68; 69; 78; 84; 95; 110; 85; 77; 66; 69; 82] (WNum (WHex [(1, false); (3, false); (10, true); (15, false)]));  (* iDENT_nUMBER = 0x13Af *)
    mkItem [86; 101; 110; 100; 111; 114; 95; 78; 97; 109; 101] (WStr (mkWstr [97; 98] [(true, [99]); (false, [])]));  (* Vendor_Name = "ab\<CR><LF>c\<LF>" *)
    mkItem [49; 46; 53; 77; 95; 115; 117; 112; 112] (WNum (WDec [1])) ].                              (* 1.5M_supp = 1 *)

(* the hypotheses of the round trip are satisfiable, the tree is well shaped, and the values arrive *)
Example C19_settings_example :
  settings_okb ex_items = true /\ shapeb (settings_tree [] [] ex_items) = true /\
  match interp (settings_tree [] [] ex_items) with
  | POk (d, w) => d_num d NF_gsd_revision = 3 /\ d_num d NF_ident_number = 5039 /\ d_str d SF_vendor = [97; 98; 99] /\
                  d_speeds d = 256 /\ w = 1
  | _ => False
  end.
Proof. vm_compute. repeat split; reflexivity. Qed.

(* the panic sites of the model are live: an ill-shaped tree (a setting without inner pairs) panics, a well-shaped
   one with a dangling reference gives the parser's error (the repaired F8 behaviour) *)
Example C19_ill_shaped_tree_panics :
  shapeb (Node R_gsd [] [Node R_setting [] []]) = false /\
  interp (Node R_gsd [] [Node R_setting [] []]) = PPanic SiteUnwrap.
Proof. vm_compute. split; reflexivity. Qed.

Example C19_dangling_reference_is_error :
  let t := Node R_gsd [] [Node R_any_text [] []; Node R_start [] [];
             Node R_setting [] [Node R_identifier [69; 120; 116; 95; 85; 115; 101; 114; 95; 80; 114; 109; 95; 68; 97; 116; 97; 95; 82; 101; 102] [];
                                Node R_dec_number [48] []; Node R_dec_number [57] []];
             Node R_EOI [] []] in
  shapeb t = true /\ interp t = PErr.
Proof. vm_compute. split; reflexivity. Qed.

(* the text-level theorems are not vacuous: the PEG model parses a small file (hexadecimal number, comment, CR LF,
   a continuation inside a string), the tree is well shaped and the values arrive *)
Definition ex_text : str :=
  [35; 80; 114; 111; 102; 105; 98; 117; 115; 95; 68; 80; 10; 71; 83; 68; 95; 82; 101; 118; 105; 115; 105; 111; 110; 32; 61; 32; 48; 120; 49; 70; 32; 59; 32; 99; 13; 10; 86; 101; 110; 100; 111; 114; 95; 78; 97; 109; 101; 61; 34; 97; 92; 10; 98; 34; 10].
Example C19_peg_example :
  match peg_parse ex_text with
  | Ok (Some t) =>
      shapeb t = true /\
      match interp t with
      | POk (d, _) => d_num d NF_gsd_revision = 31 /\ d_str d SF_vendor = [97; 98]
      | _ => False
      end
  | _ => False
  end.
Proof. vm_compute. repeat split; reflexivity. Qed.
