(* C18 - Live list and DP scanner converge to the stations actually on the bus.
   Theorem statements only; every proof is `exact <lemma of Proofs/>`.

   Setting.  `ll_run ts s h` / `sc_run ts s h` (Model/ScanBase.v: run) drive the model of
   LiveList / DpScanner from state s through the history h in the call order the FDL layer
   guarantees to applications (C15): every poll is transmit_telegram followed, when a
   request was sent, by exactly one of receive_reply / handle_timeout for the probed
   address; take_last_event() after every callback.  h lists, per poll, the environment's
   reaction as a function of the probed address - histories of stations appearing and
   disappearing, lost replies and unexpected answers are all lists of such functions.
   `ll_rep` / `sc_rep`: ANY state with the cursor in 0..125 and no uncollected event.
   `ll_abs` / `sc_abs` project a poll to (probed address, class of the reaction, events as
   Up/Re/Down, station set); the predicates cursor_walk, alt_walk, alt_from, evs_matchb,
   consistent, track of Model/ScanOracle.v are the oracles the check also runs on the
   implementation's transcripts. *)
From PB Require Import Common Telegram ScanBase LiveList Scan ScanOracle ScanMachine C18Proofs.

(* ------------------------------------------------------------------ no panic *)

(* Every callback sequence that respects the contract runs without panic, from any state. *)
Theorem C18_no_panic : forall ts s h, addr_ok ts -> ll_rep s ->
  exists s' tr, ll_run ts s h = Ok (s', tr) /\ ll_rep s' /\ length tr = length h.
Proof. exact ll_total. Qed.
Print Assumptions C18_no_panic.

Theorem C18_no_panic_scanner : forall ts s h, addr_ok ts -> sc_rep s ->
  exists s' tr, sc_run ts s h = Ok (s', tr) /\ sc_rep s' /\ length tr = length h.
Proof. exact sc_total. Qed.
Print Assumptions C18_no_panic_scanner.

(* The diagnostics parser of the scanner is total on every telegram. *)
Theorem C18_parse_total : forall t, exists r, sc_parse t = Ok r.
Proof. exact sc_parse_total. Qed.
Print Assumptions C18_parse_total.

(* Outside the contract the panic sites are real: an address beyond the 128 bit array. *)
Theorem C18_panic_outside_contract : forall s a t, 128 <= a ->
  ll_timeout s a = Panic SiteUnwrap /\ ll_receive s a t = Panic SiteUnwrap.
Proof. exact ll_panic_sites. Qed.
Print Assumptions C18_panic_outside_contract.

Theorem C18_panic_outside_contract_scanner : forall s a t, 128 <= a ->
  sc_timeout s a = Panic SiteUnwrap /\ sc_receive s a t = Panic SiteUnwrap.
Proof. exact sc_panic_sites. Qed.
Print Assumptions C18_panic_outside_contract_scanner.

(* ------------------------------------------------------------------ cursor *)

(* Polls alternate between probing the cursor address and advancing; every probed address is
   in 0..125; the cursor advances by exactly one per completed probe and wraps 125 -> 0
   (cursor_walk).  The own address is probed like any other (O5). *)
Theorem C18_cursor : forall ts s h s' tr, addr_ok ts -> ll_rep s -> ll_run ts s h = Ok (s', tr) ->
  cursor_walk (ll_cursor s) (ll_done s) (map ll_abs tr) = true.
Proof. exact ll_cursor_thm. Qed.
Print Assumptions C18_cursor.

Theorem C18_cursor_scanner : forall ts s h s' tr, addr_ok ts -> sc_rep s -> sc_run ts s h = Ok (s', tr) ->
  cursor_walk (sc_cursor s) (sc_done s) (map sc_abs tr) = true.
Proof. exact sc_cursor_thm. Qed.
Print Assumptions C18_cursor_scanner.

(* The request of a probe: an FDL status request (no SAPs, FC = request, FCB/FCV inactive)
   resp. a Slave_Diag request (DSAP 60, SSAP 62, SRD low, first FCB) from TS to the cursor
   address, exactly the PROFIBUS frame of that header, awaiting a reply from that address. *)
Theorem C18_request : forall ts s, addr_ok ts -> ll_rep s -> ll_done s = false ->
  ll_transmit ts s =
  Ok (s, Some (mkTx (ll_request ts (ll_cursor s)) (frame_spec (ll_request ts (ll_cursor s)) []) (Some (ll_cursor s)))).
Proof. exact ll_request_thm. Qed.
Print Assumptions C18_request.

Theorem C18_request_scanner : forall ts s, addr_ok ts -> sc_rep s -> sc_done s = false ->
  sc_transmit ts s =
  Ok (s, Some (mkTx (sc_request ts (sc_cursor s)) (frame_spec (sc_request ts (sc_cursor s)) []) (Some (sc_cursor s)))).
Proof. exact sc_request_thm. Qed.
Print Assumptions C18_request_scanner.

(* What cursor_walk means: the probed addresses are c, c+1, c+2, ... modulo 126. *)
Theorem C18_cursor_meaning : forall (P : Type) (tr : list (apoll P)) c dn,
  0 <= c <= 125 -> cursor_walk c dn tr = true ->
  probed tr = sweep_from (if dn then next_addr c else c) (length (probed tr)) /\
  Forall (fun a => 0 <= a <= 125) (probed tr).
Proof. exact cursor_meaning. Qed.
Print Assumptions C18_cursor_meaning.

(* A sweep is 252 calls: from any state and against any environment, every address 0..125 is
   probed within any 252 consecutive transmit_telegram calls.  The models have no HighPrioOnly
   input - both applications ignore it (DESIGN O4), the correspondence varies it - so no call
   pattern of the FDL layer can make an address be skipped.  The ground-truth oracle of the check
   (converges_to_population) measures "stable for two sweeps" in calls on this basis. *)
Theorem C18_sweep_covers : forall ts s h s' tr, addr_ok ts -> ll_rep s -> ll_run ts s h = Ok (s', tr) ->
  (sweep_polls <= length h)%nat -> forall a, 0 <= a <= 125 -> In a (probed (map ll_abs tr)).
Proof. exact ll_sweep_covers. Qed.
Print Assumptions C18_sweep_covers.

Theorem C18_sweep_covers_scanner : forall ts s h s' tr, addr_ok ts -> sc_rep s -> sc_run ts s h = Ok (s', tr) ->
  (sweep_polls <= length h)%nat -> forall a, 0 <= a <= 125 -> In a (probed (map sc_abs tr)).
Proof. exact sc_sweep_covers. Qed.
Print Assumptions C18_sweep_covers_scanner.

(* ------------------------------------------------------------------ convergence *)

(* From ANY state: if the reactions observed during a window of at least one sweep (252
   polls = 126 completed probes; a fortiori two sweeps) are explained by a fixed responder
   set m - members answered validly, non-members timed out, nothing else - then afterwards
   the station set restricted to 0..125 is exactly m. *)
Theorem C18_converges : forall ts s h s' tr m, addr_ok ts -> ll_rep s -> ll_run ts s h = Ok (s', tr) ->
  (sweep_polls <= length h)%nat -> consistent m (map ll_abs tr) = true ->
  forall a, 0 <= a <= 125 -> Z.testbit (ll_stations s') a = m a.
Proof. exact ll_converges_thm. Qed.
Print Assumptions C18_converges.

Theorem C18_converges_scanner : forall ts s h s' tr m, addr_ok ts -> sc_rep s -> sc_run ts s h = Ok (s', tr) ->
  (sweep_polls <= length h)%nat -> consistent m (map sc_abs tr) = true ->
  forall a, 0 <= a <= 125 -> Z.testbit (sc_stations s') a = m a.
Proof. exact sc_converges_thm. Qed.
Print Assumptions C18_converges_scanner.

(* The property as worded: ANY history h0 (appearing, disappearing, lost replies, unexpected
   answers) from the initial state, followed by a phase h1 of one sweep or more in which
   exactly the stations of R answer the status request with a response telegram and nothing
   is lost (the scanning station itself does not answer, O5): the live list is R minus TS. *)
Theorem C18_history_converges : forall ts R h0 h1 s' tr, addr_ok ts ->
  Forall (ll_answers ts R) h1 -> (sweep_polls <= length h1)%nat ->
  ll_run ts ll_new (h0 ++ h1) = Ok (s', tr) ->
  (forall a, 0 <= a <= 125 -> Z.testbit (ll_stations s') a = R a && negb (a =? ts)) /\
  ll_iter_stations s' = Ok (filter (minus_ts ts R) (addr_list 126)).
Proof. exact ll_history_converges. Qed.
Print Assumptions C18_history_converges.

(* literally "stable for two full address sweeps" *)
Theorem C18_history_converges_two_sweeps : forall ts R h0 h1 s' tr, addr_ok ts ->
  Forall (ll_answers ts R) h1 -> (2 * sweep_polls <= length h1)%nat ->
  ll_run ts ll_new (h0 ++ h1) = Ok (s', tr) ->
  ll_iter_stations s' = Ok (filter (minus_ts ts R) (addr_list 126)).
Proof. exact ll_history_converges_two_sweeps. Qed.
Print Assumptions C18_history_converges_two_sweeps.

(* Scanner: D a = Some (ident, master) for the DP peripherals on the bus, which answer the
   diagnostics request with a telegram carrying these values; all other addresses are silent.
   After any history and one stable sweep the scanner's station set is exactly the
   peripherals (minus TS) and the last description it reported for every address - Found
   or Requery, erased by Lost - is the peripheral's ident number and master address. *)
Theorem C18_history_converges_scanner : forall ts D h0 h1 s' tr, addr_ok ts ->
  Forall (sc_answers ts D) h1 -> (sweep_polls <= length h1)%nat ->
  sc_run ts sc_new (h0 ++ h1) = Ok (s', tr) ->
  (forall a, 0 <= a <= 125 -> Z.testbit (sc_stations s') a = is_some (sc_on_bus ts D a)) /\
  bs_ones SC_BITS (sc_stations s') = filter (fun a => is_some (sc_on_bus ts D a)) (addr_list 126) /\
  (forall a, 0 <= a <= 125 -> track (fun _ => None) (map sc_abs tr) a = sc_on_bus ts D a).
Proof. exact sc_history_converges. Qed.
Print Assumptions C18_history_converges_scanner.

(* ------------------------------------------------------------------ events *)

(* Every event concerns the probed address and is justified by the observation of that poll:
   Discovered/Found/Requery by a valid reply (with the reported state / ident and master),
   Lost by a time-out.  (The live list's oracle is lenient - second argument true - in one
   point the property leaves open: it would also accept a Discovered for an answer that is not
   a response telegram, O1; the model, like the code, emits none.) *)
Theorem C18_events_match : forall ts s h s' tr, addr_ok ts -> ll_rep s -> ll_run ts s h = Ok (s', tr) ->
  evs_matchb resp_state_eqb true (map ll_abs tr) = true.
Proof. exact ll_evs_match_thm. Qed.
Print Assumptions C18_events_match.

Theorem C18_events_match_scanner : forall ts s h s' tr, addr_ok ts -> sc_rep s -> sc_run ts s h = Ok (s', tr) ->
  evs_matchb sc_pay_eqb false (map sc_abs tr) = true.
Proof. exact sc_evs_match_thm. Qed.
Print Assumptions C18_events_match_scanner.

(* Alternation, live list.  HYPOTHESIS (DESIGN 4.0 / O1): every delivered answer is a response
   telegram.  Then the station set after every poll equals the set told by the events alone
   (alt_walk: Discovered only for an unknown address, Lost only for a known one - an event is
   emitted iff the membership bit changed), and per address the events strictly alternate
   Discovered, Lost, Discovered, ... and account for its membership from first to last state. *)
Theorem C18_alternate : forall ts s h s' tr, addr_ok ts -> ll_rep s -> ll_run ts s h = Ok (s', tr) ->
  Forall answers_are_responses h ->
  alt_walk false (ll_stations s) (map ll_abs tr) = Some (ll_stations s') /\
  forall a, 0 <= a ->
    alt_from (Z.testbit (ll_stations s) a) (kinds_of a (map ll_abs tr)) = Some (Z.testbit (ll_stations s') a).
Proof. exact ll_alt_env_thm. Qed.
Print Assumptions C18_alternate.

(* the same with the hypothesis read off the transcript *)
Theorem C18_alternate_transcript : forall ts s h s' tr, addr_ok ts -> ll_rep s -> ll_run ts s h = Ok (s', tr) ->
  no_other (map ll_abs tr) = true ->
  alt_walk false (ll_stations s) (map ll_abs tr) = Some (ll_stations s') /\
  forall a, 0 <= a ->
    alt_from (Z.testbit (ll_stations s) a) (kinds_of a (map ll_abs tr)) = Some (Z.testbit (ll_stations s') a).
Proof. exact ll_alt_thm. Qed.
Print Assumptions C18_alternate_transcript.

(* Without the hypothesis exactly one deviation exists (O1): an answer that is not a response
   telegram marks an unknown address without an event.  alt_walk true has that built in (it
   accepts such a mark without an event, or announced by a Discovered) and holds for every
   history. *)
Theorem C18_alternate_o1 : forall ts s h s' tr, addr_ok ts -> ll_rep s -> ll_run ts s h = Ok (s', tr) ->
  alt_walk true (ll_stations s) (map ll_abs tr) = Some (ll_stations s').
Proof. exact ll_alt_o1_thm. Qed.
Print Assumptions C18_alternate_o1.

(* O1 exhibited on the model: a bare SC from station 0, then silence: the only event of the
   254 polls is Lost(0); strict alternation rejects the transcript. *)
Theorem C18_sc_observation :
  match ll_run 1 ll_new o1_history with
  | Ok (s', tr) =>
      flat_map ap_evs (map ll_abs tr) = [ADown 0] /\
      alt_walk false 0 (map ll_abs tr) = None /\
      alt_walk true 0 (map ll_abs tr) = Some 0
  | _ => False
  end.
Proof. exact ll_o1_observation. Qed.
Print Assumptions C18_sc_observation.

(* Alternation, scanner: no hypothesis needed (the bit is set only together with Found);
   Requery is reported only for a known peripheral. *)
Theorem C18_alternate_scanner : forall ts s h s' tr, addr_ok ts -> sc_rep s -> sc_run ts s h = Ok (s', tr) ->
  alt_walk false (sc_stations s) (map sc_abs tr) = Some (sc_stations s') /\
  forall a, 0 <= a ->
    alt_from (Z.testbit (sc_stations s) a) (kinds_of a (map sc_abs tr)) = Some (Z.testbit (sc_stations s') a).
Proof. exact sc_alt_thm. Qed.
Print Assumptions C18_alternate_scanner.

(* Observation O8 (why sc_answers lets non-peripherals be silent): a known peripheral that
   keeps answering with something else than a diagnostics reply stays recorded, no Lost. *)
Theorem C18_scan_stale_observation :
  match sc_run 1 sc_new o8_history with
  | Ok (s', tr) =>
      flat_map ap_evs (map sc_abs tr) = [AUp 0 (2838, None)] /\ sc_stations s' = 1
  | _ => False
  end.
Proof. exact sc_o8_observation. Qed.
Print Assumptions C18_scan_stale_observation.

(* ------------------------------------------------------------------ the check's oracles *)

(* The oracle suite that ./check C18 runs on the implementation's transcript of every
   generated history (cursor, event justification, alternation with and without O1, the
   convergence scan over windows of any length n) holds of the model's transcript for EVERY
   history from the initial state: an oracle failure can only come from the implementation. *)
Theorem C18_oracle_sound : forall ts h s' tr, addr_ok ts -> ll_run ts ll_new h = Ok (s', tr) ->
  cursor_walk 0 false (map ll_abs tr) = true /\
  evs_matchb resp_state_eqb true (map ll_abs tr) = true /\
  alt_walk true 0 (map ll_abs tr) = Some (ll_stations s') /\
  (no_silent 0 (map ll_abs tr) = true -> alt_walk false 0 (map ll_abs tr) = Some (ll_stations s')) /\
  forall n fuel, snd (converge_scan resp_state_eqb false n fuel [] (map ll_abs tr) (O, O)) = O.
Proof. exact ll_oracle_sound. Qed.
Print Assumptions C18_oracle_sound.

Theorem C18_oracle_sound_scanner : forall ts h s' tr, addr_ok ts -> sc_run ts sc_new h = Ok (s', tr) ->
  cursor_walk 0 false (map sc_abs tr) = true /\
  evs_matchb sc_pay_eqb false (map sc_abs tr) = true /\
  alt_walk false 0 (map sc_abs tr) = Some (sc_stations s') /\
  forall n fuel, snd (converge_scan sc_pay_eqb true n fuel [] (map sc_abs tr) (O, O)) = O.
Proof. exact sc_oracle_sound. Qed.
Print Assumptions C18_oracle_sound_scanner.

(* ------------------------------------------------------------------ non-vacuity *)

(* The hypotheses of C18_history_converges are satisfiable: the population of the crate's own
   test (station 7 scans; 3, 8, 11, 67, 125 and - irrelevant - 7 itself answer). *)
Example C18_hypotheses_satisfiable :
  ll_answers 7 ex_R ex_env /\ addr_ok 7 /\ ll_rep ll_new /\
  match ll_run 7 ll_new (repeat ex_env 252) with
  | Ok (s', _) => ll_iter_stations s' = Ok [3; 8; 11; 67; 125]
  | _ => False
  end.
Proof.
  split; [exact ex_env_answers|]. split; [unfold addr_ok; lia|]. split; [exact ll_new_rep|exact ex_run].
Qed.
Print Assumptions C18_hypotheses_satisfiable.

(* ------------------------------------------------------------------ the ground-truth oracle *)
From PB Require Import ScanTruth C18Truth.

(* The check's ground-truth oracle (converges_to_population) knows from the case line who is on
   the bus: `pop` = the population after the last change, `window` = the call of the last change.
   Its decision is the function truth_ok of Model/ScanTruth.v (extracted; the driver only parses
   the case line): per address 0..125 expected in the list (in pop, not TS) the LAST probe inside
   the window decides - never probed: failure; answered validly: must be listed; anything else: no
   demand - and nothing else may be listed, bits 126/127 of the array included.

   Soundness: from ANY state (cursor in range, no uncollected event; bits 126/127 clear, see
   below), for any history h of at least window + one sweep of calls (a fortiori two): if the
   window is explained by the population - every probe of an address that is not expected timed
   out (explained; nothing is assumed about the members: valid answer, other answer, no answer) -
   then the rule accepts the transcript, with `final` = the station set after the last poll
   exactly as the driver reads it (last_bits).  A converges_to_population failure on a clean case
   can only come from the implementation.

   EXACT CONDITION: the rule also looks at bits 126 and 127 of the 128 bit station array.  The
   sweep never touches them (C18_cursor), so a state that has them set keeps them; the hypothesis
   that they are clear at the start (true of new()) cannot be dropped: C18_ground_truth_needs_hi_clear.
   The live list's lenient marking (O1: any reply marks) and the own address need no exclusion:
   members that answer with something else are left open by the rule, and the own address is
   not expected, so its probes are required to time out like those of any absent station. *)
Theorem C18_ground_truth_sound : forall ts pop window s h s' tr, addr_ok ts -> ll_rep s ->
  ll_run ts s h = Ok (s', tr) -> (window + sweep_polls <= length h)%nat ->
  Z.testbit (ll_stations s) 126 = false -> Z.testbit (ll_stations s) 127 = false ->
  explained ts pop (skipn window (map ll_abs tr)) = true ->
  last_bits 0 (map ll_abs tr) = ll_stations s' /\
  truth_ok ts pop window (ll_stations s') (map ll_abs tr) = true.
Proof. exact ll_truth_sound. Qed.
Print Assumptions C18_ground_truth_sound.

Theorem C18_ground_truth_sound_scanner : forall ts pop window s h s' tr, addr_ok ts -> sc_rep s ->
  sc_run ts s h = Ok (s', tr) -> (window + sweep_polls <= length h)%nat ->
  Z.testbit (sc_stations s) 126 = false -> Z.testbit (sc_stations s) 127 = false ->
  explained ts pop (skipn window (map sc_abs tr)) = true ->
  last_bits 0 (map sc_abs tr) = sc_stations s' /\
  truth_ok ts pop window (sc_stations s') (map sc_abs tr) = true.
Proof. exact sc_truth_sound. Qed.
Print Assumptions C18_ground_truth_sound_scanner.

(* The same with the environment as the case line describes it: ANY history h1, then a phase h2
   of one sweep of calls or more in which every address outside the population - and the own
   address - is silent (silent_outside; members may do anything, per poll): the rule accepts,
   with window = the length of h1 and the station set read off the transcript as the driver does. *)
Theorem C18_ground_truth_sound_env : forall ts pop s h1 h2 s' tr, addr_ok ts -> ll_rep s ->
  ll_run ts s (h1 ++ h2) = Ok (s', tr) -> (sweep_polls <= length h2)%nat ->
  Z.testbit (ll_stations s) 126 = false -> Z.testbit (ll_stations s) 127 = false ->
  Forall (silent_outside ts pop) h2 ->
  truth_ok ts pop (length h1) (last_bits 0 (map ll_abs tr)) (map ll_abs tr) = true.
Proof. exact ll_truth_sound_env. Qed.
Print Assumptions C18_ground_truth_sound_env.

Theorem C18_ground_truth_sound_env_scanner : forall ts pop s h1 h2 s' tr, addr_ok ts -> sc_rep s ->
  sc_run ts s (h1 ++ h2) = Ok (s', tr) -> (sweep_polls <= length h2)%nat ->
  Z.testbit (sc_stations s) 126 = false -> Z.testbit (sc_stations s) 127 = false ->
  Forall (silent_outside ts pop) h2 ->
  truth_ok ts pop (length h1) (last_bits 0 (map sc_abs tr)) (map sc_abs tr) = true.
Proof. exact sc_truth_sound_env. Qed.
Print Assumptions C18_ground_truth_sound_env_scanner.

(* the hypothesis on bits 126/127 is needed: a state with bit 126 set, two silent sweeps, empty
   population - bit 126 is still set and the rule reports it *)
Theorem C18_ground_truth_needs_hi_clear :
  match ll_run 1 (mkLl (2 ^ 126) 0 None false) (repeat (fun _ => RTimeout) 504) with
  | Ok (s', tr) => truth_ok 1 [] 0 (ll_stations s') (map ll_abs tr) = false
  | _ => False
  end.
Proof. exact ll_truth_hi_bit_needed. Qed.
Print Assumptions C18_ground_truth_needs_hi_clear.

(* Non-vacuity, a model run: station 1 scans one sweep from new(); 3 answers validly, 5 answers
   with a bare SC, 9 is on the bus but never heard, all others are silent.  The window is
   explained by {3, 5, 9} and accepted (final set {3, 5}: the live list lists 5, which the rule
   leaves open); the same transcript is rejected with 3 missing from the final set, with the
   silent address 7 listed, and - cut to 5 polls - because 3, 5, 9 were never probed. *)
Example C18_ground_truth_example :
  match ll_run 1 ll_new (repeat tr_env 252) with
  | Ok (s', tr) =>
      explained 1 [3; 5; 9] (map ll_abs tr) = true /\
      ll_stations s' = 40 /\
      truth_ok 1 [3; 5; 9] 0 (ll_stations s') (map ll_abs tr) = true /\
      truth_bad 1 [3; 5; 9] 0 (Z.clearbit (ll_stations s') 3) (map ll_abs tr) = [(3, TValidNotListed)] /\
      truth_ok 1 [3; 5; 9] 0 (Z.clearbit (ll_stations s') 3) (map ll_abs tr) = false /\
      truth_bad 1 [3; 5; 9] 0 (Z.setbit (ll_stations s') 7) (map ll_abs tr) = [(7, TListedNotOnBus)] /\
      truth_bad 1 [3; 5; 9] 0 (ll_stations s') (firstn 5 (map ll_abs tr)) = [(3, TNeverProbed); (5, TNeverProbed); (9, TNeverProbed)]
  | _ => False
  end.
Proof. exact ll_truth_example. Qed.
Print Assumptions C18_ground_truth_example.
