(* C18 placeholder while the proofs are being written. *)
From PB Require Import ScanOracle.
