(* C08: placeholder until the proofs land (phase 1). *)
From PB Require Import DpRun.
