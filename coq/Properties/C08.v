(* C08 (phase 1): one-step theorems about the frame count bit and the retry counter, over ALL peripheral
   states (after the fixes F6, F10, F13, F14). *)
From PB Require Import Peripheral DpStepProofs.

(* when the retries have run out exactly the Offline event is raised, the peripheral is no longer live and
   its frame count bit is First ... *)
Theorem C08_first_offline : forall pa op p,
  op <> OpStop ->
  dp_retry_exhausted (pe_retry p) (p_max_retry pa) = true ->
  exists p', p_transmit pa op p = Ok (p', PtxSkip (Some EvOffline)) /\
             pe_fcb p' = FcbFirst /\ is_live p' = false /\ pe_retry p' = 0.
Proof. exact offline_declared. Qed.
Print Assumptions C08_first_offline.

(* ... and a peripheral that is not live sends nothing but Slave_Diag requests (DSAP 60 from SSAP 62, no
   payload) carrying its bit: with First that is FCV=0/FCB=1, function code byte 0x6C *)
Theorem C08_first_probe : forall pa op p p' h pdu,
  pe_state p = PsOffline ->
  p_transmit pa op p = Ok (p', PtxSend h pdu) ->
  h = mkHeader (pe_addr p) (p_address pa) (Some 60) (Some 62) (FcRequest (pe_fcb p) RqSrdLow) /\ pdu = [] /\
  (pe_fcb p = FcbFirst -> fc_to_byte (h_fc h) = 108).
Proof. exact offline_probe. Qed.
Print Assumptions C08_first_probe.

(* a reply either leaves bit and retry counter alone (not accepted: the next request is a retransmission)
   or toggles the bit with FCV=1 and clears the counter (accepted) *)
Theorem C08_toggle_after_accept : forall p t p' ev,
  p_receive_reply p t = Ok (p', ev) ->
  (pe_fcb p' = pe_fcb p /\ pe_retry p' = pe_retry p) \/
  (fcbit_fcv (pe_fcb p') = true /\ fcbit_fcb (pe_fcb p') = negb (fcbit_fcb (pe_fcb p)) /\ pe_retry p' = 0).
Proof. exact toggle_after_accept. Qed.
Print Assumptions C08_toggle_after_accept.

(* what transmit_telegram does: a request is sent only while retry_count <= max_retry_limit, carries the
   current bit, counts one transmission and changes neither bit nor state; the only event is Offline, on
   exhaustion, with the bit reset; otherwise nothing is sent and the counter is cleared *)
Theorem C08_transmit_step : forall pa op p p' r,
  p_transmit pa op p = Ok (p', r) ->
  match r with
  | PtxSend h pdu =>
      dp_retry_exhausted (pe_retry p) (p_max_retry pa) = false /\
      (exists rq, h_fc h = FcRequest (pe_fcb p) rq) /\ h_da h = pe_addr p /\ h_sa h = p_address pa /\
      pe_fcb p' = pe_fcb p /\ pe_retry p' = pe_retry p + 1 /\ pe_state p' = pe_state p
  | PtxSkip (Some ev) =>
      ev = EvOffline /\ dp_retry_exhausted (pe_retry p) (p_max_retry pa) = true /\
      pe_fcb p' = FcbFirst /\ pe_state p' = PsOffline /\ pe_retry p' = 0
  | PtxSkip None =>
      dp_retry_exhausted (pe_retry p) (p_max_retry pa) = false /\ pe_retry p' = 0 /\
      pe_state p' = pe_state p /\ (pe_fcb p' = pe_fcb p \/ (pe_state p = PsOffline /\ pe_fcb p' = FcbFirst))
  end.
Proof. exact transmit_spec. Qed.
Print Assumptions C08_transmit_step.

(* the comparison the crate uses: exhausted means more than max_retry_limit transmissions *)
Example C08_exhausted_means : forall retry max_retry,
  dp_retry_exhausted retry max_retry = true <-> max_retry < retry.
Proof. intros. unfold dp_retry_exhausted. apply Z.ltb_lt. Qed.

(* non-vacuity: a new peripheral starts not live with the bit First *)
Example C08_new_is_first : forall a o i q d,
  pe_fcb (periph_new a o i q d) = FcbFirst /\ pe_state (periph_new a o i q d) = PsOffline.
Proof. intros. split; reflexivity. Qed.
