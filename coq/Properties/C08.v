(* C08 (phase 1): one-step theorems about the frame count bit and the retry counter, over ALL peripheral
   states (after the fixes F6, F10, F13, F14). *)
From PB Require Import Peripheral DpStepProofs.

(* when the retries have run out exactly the Offline event is raised, the peripheral is no longer live and
   its frame count bit is First ... *)
Theorem C08_first_offline : forall pa op p,
  op <> OpStop ->
  dp_retry_exhausted (pe_retry p) (p_max_retry pa) = true ->
  exists p', p_transmit pa op p = Ok (p', PtxSkip (Some EvOffline)) /\
             pe_fcb p' = FcbFirst /\ is_live p' = false /\ pe_retry p' = 0.
Proof. exact offline_declared. Qed.
Print Assumptions C08_first_offline.

(* ... and a peripheral that is not live sends nothing but Slave_Diag requests (DSAP 60 from SSAP 62, no
   payload) carrying its bit: with First that is FCV=0/FCB=1, function code byte 0x6C *)
Theorem C08_first_probe : forall pa op p p' h pdu,
  pe_state p = PsOffline ->
  p_transmit pa op p = Ok (p', PtxSend h pdu) ->
  h = mkHeader (pe_addr p) (p_address pa) (Some 60) (Some 62) (FcRequest (pe_fcb p) RqSrdLow) /\ pdu = [] /\
  (pe_fcb p = FcbFirst -> fc_to_byte (h_fc h) = 108).
Proof. exact offline_probe. Qed.
Print Assumptions C08_first_probe.

(* a reply either leaves bit and retry counter alone (not accepted: the next request is a retransmission)
   or toggles the bit with FCV=1 and clears the counter (accepted) *)
Theorem C08_toggle_after_accept : forall p t p' ev,
  p_receive_reply p t = Ok (p', ev) ->
  (pe_fcb p' = pe_fcb p /\ pe_retry p' = pe_retry p) \/
  (fcbit_fcv (pe_fcb p') = true /\ fcbit_fcb (pe_fcb p') = negb (fcbit_fcb (pe_fcb p)) /\ pe_retry p' = 0).
Proof. exact toggle_after_accept. Qed.
Print Assumptions C08_toggle_after_accept.

(* what transmit_telegram does: a request is sent only while retry_count <= max_retry_limit, carries the
   current bit, counts one transmission and changes neither bit nor state; the only event is Offline, on
   exhaustion, with the bit reset; otherwise nothing is sent and the counter is cleared *)
Theorem C08_transmit_step : forall pa op p p' r,
  p_transmit pa op p = Ok (p', r) ->
  match r with
  | PtxSend h pdu =>
      dp_retry_exhausted (pe_retry p) (p_max_retry pa) = false /\
      (exists rq, h_fc h = FcRequest (pe_fcb p) rq) /\ h_da h = pe_addr p /\ h_sa h = p_address pa /\
      pe_fcb p' = pe_fcb p /\ pe_retry p' = pe_retry p + 1 /\ pe_state p' = pe_state p
  | PtxSkip (Some ev) =>
      ev = EvOffline /\ dp_retry_exhausted (pe_retry p) (p_max_retry pa) = true /\
      pe_fcb p' = FcbFirst /\ pe_state p' = PsOffline /\ pe_retry p' = 0
  | PtxSkip None =>
      dp_retry_exhausted (pe_retry p) (p_max_retry pa) = false /\ pe_retry p' = 0 /\
      pe_state p' = pe_state p /\ (pe_fcb p' = pe_fcb p \/ (pe_state p = PsOffline /\ pe_fcb p' = FcbFirst))
  end.
Proof. exact transmit_spec. Qed.
Print Assumptions C08_transmit_step.

(* the comparison the crate uses: exhausted means more than max_retry_limit transmissions *)
Example C08_exhausted_means : forall retry max_retry,
  dp_retry_exhausted retry max_retry = true <-> max_retry < retry.
Proof. intros. unfold dp_retry_exhausted. apply Z.ltb_lt. Qed.

(* non-vacuity: a new peripheral starts not live with the bit First *)
Example C08_new_is_first : forall a o i q d,
  pe_fcb (periph_new a o i q d) = FcbFirst /\ pe_state (periph_new a o i q d) = PsOffline.
Proof. intros. split; reflexivity. Qed.

(* ====================================================================================================
   C08 (phase 2): HISTORY theorems.

   Histories (Proofs/DpHistory.v): `history pa a o tr` = tr is the wire trace of ANY sequence of calls
   (transmit_telegram in any operating state, receive_reply with ANY telegram -- accepted, well-formed but
   rejected, SC, wrong SAPs, wrong length --, time-out / abandoned request, request_diagnostics(), pi_q
   writes, in any order) on a freshly constructed peripheral with address a and options o (any image sizes,
   any diagnostics buffer) that does not panic and respects the FdlApplication contract projected to one
   peripheral (`contract_p`: a reply or a time-out only while a request is outstanding, at most one per
   request).  Wire trace events: WReq h pdu (request), WReply t ev (reply delivered, event it raised),
   WTimeout, WIdle (transmit_telegram had nothing to send), WEvent ev (it raised an event instead), WUser.
   "Accepted reply" is the standard's view DpOracle.reply_accepted (Slave_Diag: data from SSAP 60 to DSAP 62
   with >= 6 bytes; Set_Prm / Chk_Cfg: SC; Data_Exchange: any response or SC); receive_facts (DpHistory.v)
   proves that the code accepts exactly those.
   All theorems: every max_retry_limit >= 1 (the builder admits 1..15), every address, all option values.
   Two requests are CONSECUTIVE when the events between them (`mid`) contain no request and no Offline event
   (`quiet mid`). *)
From PB Require Import DpOracle DpHistory C08Proofs.

(* The first request after start-up or after an Offline event ("first" made explicit: every earlier request
   of the trace was followed by an Offline event) is a Slave_Diag request (DSAP 60 from SSAP 62, SRD low, no
   payload) with FCV=0/FCB=1: function code byte 0x6C.
   After fix F18 the frame count bit is ALSO First again on every probe that follows an unanswered probe of a
   peripheral that is not live: see C08_offline_then_probes; such a probe is a retransmission in the sense of
   C08_same_bit_only_retransmission (same service, same destination, no acceptable reply in between). *)
Theorem C08_first : forall pa a o tr,
  1 <= p_max_retry pa -> history pa a o tr ->
  forall pre h pdu post,
  tr = pre ++ WReq h pdu :: post ->
  (forall pre1 h1 pdu1 post1, pre = pre1 ++ WReq h1 pdu1 :: post1 -> In (WEvent EvOffline) post1) ->
  h = mkHeader a (p_address pa) (Some 60) (Some 62) (FcRequest FcbFirst RqSrdLow) /\ pdu = [] /\
  fc_to_byte (h_fc h) = 108.
Proof. exact first_request. Qed.
Print Assumptions C08_first.

(* Two consecutive requests carry the same frame count bit only if the second is a retransmission: no
   acceptable reply arrived in between, same service, same destination -- and then even the same function
   code byte, except that a probe of a peripheral that is not live may carry FCV=0/FCB=1 again (F18). *)
Theorem C08_same_bit_only_retransmission : forall pa a o tr,
  1 <= p_max_retry pa -> history pa a o tr ->
  forall pre h1 pdu1 mid h2 pdu2 post,
  tr = pre ++ WReq h1 pdu1 :: mid ++ WReq h2 pdu2 :: post ->
  (forall e, In e mid -> is_req e = false /\ is_offline e = false) ->
  forall f1 rq1 f2 rq2,
  h_fc h1 = FcRequest f1 rq1 -> h_fc h2 = FcRequest f2 rq2 ->
  fcbit_fcb f1 = fcbit_fcb f2 ->
  existsb (fun e => match e with WReply t _ => reply_accepted (classify h1) t | _ => false end) mid = false /\
  classify h2 = classify h1 /\ h_da h2 = h_da h1 /\
  (h_fc h2 = h_fc h1 \/ (f2 = FcbFirst /\ classify h2 = SvDiag)).
Proof. exact same_bit_only_retransmission. Qed.
Print Assumptions C08_same_bit_only_retransmission.

(* Every request that follows an accepted reply (to the previous request) toggles the bit with FCV=1. *)
Theorem C08_toggle_history : forall pa a o tr,
  1 <= p_max_retry pa -> history pa a o tr ->
  forall pre h1 pdu1 mid h2 pdu2 post,
  tr = pre ++ WReq h1 pdu1 :: mid ++ WReq h2 pdu2 :: post ->
  (forall e, In e mid -> is_req e = false /\ is_offline e = false) ->
  existsb (fun e => match e with WReply t _ => reply_accepted (classify h1) t | _ => false end) mid = true ->
  exists f1 rq1 f2 rq2, h_fc h1 = FcRequest f1 rq1 /\ h_fc h2 = FcRequest f2 rq2 /\
    fcbit_fcv f2 = true /\ fcbit_fcb f2 = negb (fcbit_fcb f1).
Proof. exact toggle_history. Qed.
Print Assumptions C08_toggle_history.

(* An unanswered request is transmitted at most 1 + max_retry_limit times: in any stretch `mid` after a
   request in which no reply is accepted for its service and transmit_telegram neither idles nor raises an
   event, at most max_retry further requests occur (all of them retransmissions by the theorem above). *)
Theorem C08_retry_bound : forall pa a o tr,
  1 <= p_max_retry pa -> history pa a o tr ->
  forall pre h pdu mid post,
  tr = pre ++ WReq h pdu :: mid ++ post ->
  (forall e, In e mid ->
     match e with
     | WIdle | WEvent _ => False
     | WReply t _ => reply_accepted (classify h) t = false
     | _ => True
     end) ->
  1 + count_req mid <= 1 + p_max_retry pa.
Proof. exact retry_bound. Qed.
Print Assumptions C08_retry_bound.

(* transmit_telegram raises no event but Offline, and raises it exactly when the retries have run out: the
   trace before it ends with a request that stayed unanswered through exactly 1 + max_retry transmissions *)
Theorem C08_offline_when_exhausted : forall pa a o tr,
  1 <= p_max_retry pa -> history pa a o tr ->
  forall pre ev post,
  tr = pre ++ WEvent ev :: post ->
  ev = EvOffline /\
  exists pre0 h pdu mid, pre = pre0 ++ WReq h pdu :: mid /\ unanswered_seg (classify h) mid /\
    1 + count_req mid = 1 + p_max_retry pa.
Proof. exact offline_when_exhausted. Qed.
Print Assumptions C08_offline_when_exhausted.

(* ... and after 1 + max_retry unanswered transmissions the next turn does raise it: transmit_telegram
   neither sends another request nor idles *)
Theorem C08_exhausted_then_offline : forall pa a o tr,
  1 <= p_max_retry pa -> history pa a o tr ->
  forall pre h pdu mid e post,
  tr = pre ++ WReq h pdu :: mid ++ e :: post ->
  unanswered_seg (classify h) mid ->
  1 + count_req mid = 1 + p_max_retry pa ->
  e <> WIdle /\ (forall h2 pdu2, e <> WReq h2 pdu2).
Proof. exact exhausted_then_offline. Qed.
Print Assumptions C08_exhausted_then_offline.

(* After the Offline event, until a diagnostics reply is accepted: exactly one Offline event (no further
   event), and the peripheral is only probed: every request is a Slave_Diag request with FCV=0/FCB=1 (0x6C)
   and no payload, and no probe is repeated in the turn in which it went unanswered -- the transmit_telegram
   turn before it was idle (`turn_open mid = false`; the DP master ends the peripheral's turn of the cycle on
   an idle turn): one probe per DP cycle. *)
Theorem C08_offline_then_probes : forall pa a o tr,
  1 <= p_max_retry pa -> history pa a o tr ->
  forall pre mid e post,
  tr = pre ++ WEvent EvOffline :: mid ++ e :: post ->
  (forall t ev, In (WReply t ev) mid -> reply_accepted SvDiag t = false) ->
  match e with
  | WEvent _ => False
  | WReq h pdu =>
      h = mkHeader a (p_address pa) (Some 60) (Some 62) (FcRequest FcbFirst RqSrdLow) /\ pdu = [] /\
      fc_to_byte (h_fc h) = 108 /\ turn_open mid = false
  | _ => True
  end.
Proof. exact offline_then_probes. Qed.
Print Assumptions C08_offline_then_probes.

(* the engine: the invariant holds initially and EVERY call from EVERY state satisfying it preserves it and
   emits an event the monitor accepts *)
Theorem C08_invariant_step : forall pa a o p g c p' e,
  1 <= p_max_retry pa ->
  Inv pa a o p g ->
  p_step pa p c = Ok (p', e) ->
  contract_p (gh_out g) [e] = true ->
  Inv pa a o p' (gstep g e) /\ ev_ok pa a o g e.
Proof. exact step_inv. Qed.
Print Assumptions C08_invariant_step.

(* non-vacuity: a history with max_retry_limit = 1 showing every clause: first probe 0x6C, accepted reply,
   Set_Prm with the toggled bit, time-out, retransmission with the same function code, a reply that is not
   accepted, a user call, the Offline event after 1 + 1 transmissions, a first probe again, time-out, idle *)
Example C08_history_example :
  let pa := mkParams 2 B19200 100 32436 10 126 1 11 None in
  let o := mkOpts 4660 false false 0 100 false (Some [170]) (Some [17]) in
  let diag := TData (mkHeader 2 7 (Some 62) (Some 60) (FcResponse RsSlave StDataLow)) [0; 0; 0; 2; 18; 52] in
  let junk := TData (mkHeader 2 7 None None (FcResponse RsSlave StOk)) [] in
  let probe := WReq (mkHeader 7 2 (Some 60) (Some 62) (FcRequest FcbFirst RqSrdLow)) [] in
  let prm := WReq (mkHeader 7 2 (Some 61) (Some 62) (FcRequest FcbLow RqSrdLow)) [128; 0; 0; 11; 18; 52; 0; 170] in
  history pa 7 o
    [probe; WReply diag (Some EvOnline); prm; WTimeout; prm; WReply junk None; WUser; WEvent EvOffline;
     probe; WTimeout; WIdle].
Proof.
  exists [0], [0], 0%nat,
    [PcTransmit OpOperate;
     PcReply (TData (mkHeader 2 7 (Some 62) (Some 60) (FcResponse RsSlave StDataLow)) [0; 0; 0; 2; 18; 52]);
     PcTransmit OpOperate; PcTimeout; PcTransmit OpOperate;
     PcReply (TData (mkHeader 2 7 None None (FcResponse RsSlave StOk)) []); PcReqDiag;
     PcTransmit OpOperate; PcTransmit OpOperate; PcTimeout; PcTransmit OpOperate].
  eexists. split; vm_compute; reflexivity.
Qed.

(* ====================================================================================================
   C08 (phase 3): the histories of the DP MASTER.

   Proofs/DpMasterHistory.v: `d_run pa bufsize m0 cs []` runs ANY list of calls -- the FdlApplication
   callbacks transmit_telegram / receive_reply / handle_timeout and the user calls request_diagnostics(),
   pi_q writes, enter_state(), take_last_events() -- on the model of DpMaster (DpMaster.v) from ANY master
   state m0 (any number of slots and peripherals, dense or sparse storage, any cycle position), returning
   the outputs `outs` and a LOG of (slot index, wire event) pairs; `contract_m` is the FdlApplication
   contract (C15) over calls and outputs: after a transmit_telegram that returned a request expecting a
   reply from da, at most one of receive_reply(da, _) / handle_timeout(da) -- or nothing (token given up) --
   before the next transmit_telegram; user calls anywhere.  (Peripherals are added before the history
   starts.)  State and outputs of `d_step` are by definition those of the model functions. *)
From PB Require Import DpMaster DpMasterHistory.

(* Every contract-respecting master history projects, for EVERY slot, to a contract-respecting history of
   that slot's peripheral: so all theorems above with the hypothesis `history pa a o tr` hold for
   tr = proj k log, for every peripheral of every master history (any peripheral count). *)
Theorem C08_master_histories_project : forall pa bufsize m0 cs m' outs log,
  d_run pa bufsize m0 cs [] = Ok (m', outs, log) ->
  contract_m None outs = true ->
  (forall k p0, slot m0 k = Some p0 ->
     exists pcs pk, p_run pa p0 pcs = Ok (pk, proj k log) /\ contract_p false (proj k log) = true /\
                    slot m' k = Some pk) /\
  (forall k a o i q d, slot m0 k = Some (periph_new a o i q d) -> history pa a o (proj k log)).
Proof. exact master_projects_both. Qed.
Print Assumptions C08_master_histories_project.

(* the log-keeping copy of the slot loop computes exactly what the model's dp_tx_loop computes *)
Theorem C08_master_log_is_model : forall fuel pa bufsize m pev log,
  erase3 (tx_loop_log fuel pa bufsize m pev log) = dp_tx_loop fuel pa bufsize m pev.
Proof. exact tx_loop_log_erase. Qed.
Print Assumptions C08_master_log_is_model.

(* and the log is faithful to what is observable: one transmit_telegram call appends only transmit outcomes;
   if it returns bytes and expects a reply from da, the last new entry is a request whose encoding is exactly
   these bytes and whose destination is da, and no other request is logged; otherwise no request is logged;
   every logged event is the peripheral event left for take_last_events(), with that slot's handle *)
Theorem C08_master_log_faithful : forall pa bufsize m now hp log m' o log',
  d_step pa bufsize m (DcTransmit now hp) log = Ok (m', DoTx o, log') ->
  exists new, log' = log ++ new /\
    (forall x, In x new -> match snd x with WReq _ _ | WIdle | WEvent _ => True | _ => False end) /\
    match o with
    | Some (w, Some da) =>
        exists pre k h pdu, new = pre ++ [(k, WReq h pdu)] /\ existsb log_is_req pre = false /\
          encode_data_in bufsize h pdu = Ok w /\ da = h_da h
    | _ => existsb log_is_req new = false
    end /\
    (forall k ev, In (k, WEvent ev) new ->
       exists hd, ev_peripheral (dm_events m') = Some (hd, ev) /\ hd_index hd = k).
Proof. exact transmit_log_link. Qed.
Print Assumptions C08_master_log_faithful.

(* the first clause, spelled out at the master level *)
Theorem C08_first_master : forall pa bufsize m0 cs m' outs log,
  1 <= p_max_retry pa ->
  d_run pa bufsize m0 cs [] = Ok (m', outs, log) ->
  contract_m None outs = true ->
  forall k a o i q d, slot m0 k = Some (periph_new a o i q d) ->
  forall pre h pdu post,
  proj k log = pre ++ WReq h pdu :: post ->
  (forall pre1 h1 pdu1 post1, pre = pre1 ++ WReq h1 pdu1 :: post1 -> In (WEvent EvOffline) post1) ->
  h = mkHeader a (p_address pa) (Some 60) (Some 62) (FcRequest FcbFirst RqSrdLow) /\ pdu = [] /\
  fc_to_byte (h_fc h) = 108.
Proof. exact first_request_master. Qed.
Print Assumptions C08_first_master.

(* non-vacuity: a master with two peripherals (7 answers, 9 is silent), max_retry_limit = 1: the projections
   of the log *)
Example C08_master_example :
  let pa := mkParams 2 B19200 100 32436 10 126 1 11 None in
  let o := mkOpts 4660 false false 0 100 false (Some [170]) (Some [17]) in
  let m0 := set_slots (dp_new 2 false) [Some (periph_new 7 o [0] [0] 0); Some (periph_new 9 o [] [] 0)] in
  let diag := TData (mkHeader 2 7 (Some 62) (Some 60) (FcResponse RsSlave StDataLow)) [0; 0; 0; 2; 18; 52] in
  let cs := [DcEnter OpOperate; DcTransmit 0 false; DcTransmit 10 false; DcReply 7 diag; DcTake;
             DcTransmit 20 false; DcTimeout 9; DcTransmit 30 false; DcTransmit 40 false;
             DcReqDiag (mkHandle 0 7); DcTimeout 7; DcTransmit 50 false] in
  let prm := WReq (mkHeader 7 2 (Some 61) (Some 62) (FcRequest FcbLow RqSrdLow)) [128; 0; 0; 11; 18; 52; 0; 170] in
  exists m' outs log,
    d_run pa 256 m0 cs [] = Ok (m', outs, log) /\ contract_m None outs = true /\
    proj 0 log = [WReq (mkHeader 7 2 (Some 60) (Some 62) (FcRequest FcbFirst RqSrdLow)) [];
                  WReply diag (Some EvOnline); prm; WUser; WTimeout; prm] /\
    proj 1 log = [WReq (mkHeader 9 2 (Some 60) (Some 62) (FcRequest FcbFirst RqSrdLow)) []; WTimeout; WIdle].
Proof. do 3 eexists. split; [vm_compute; reflexivity|]. split; vm_compute; auto. Qed.

(* The wire monitor itself, as ONE predicate: monitor state `ghost_of pre` (a fold over the events so far:
   last request since start / Offline, "answered by an accepted reply", number of unanswered transmissions,
   bring-up phase) and the per-event acceptance condition `ev_ok` (DpHistory.v: req_ok for requests -- first /
   toggle / retransmission / probe / retry-bound clauses --, "Offline only when live and after exactly
   1+max_retry transmissions" for events, "not exhausted" for idle turns).  It accepts every event of every
   history; the theorems above are readings of this one. *)
Theorem C08_wire_monitor_accepts : forall pa a o tr,
  1 <= p_max_retry pa ->
  history pa a o tr ->
  forall pre e post, tr = pre ++ e :: post -> ev_ok pa a o (ghost_of pre) e.
Proof. exact history_new. Qed.
Print Assumptions C08_wire_monitor_accepts.

(* ====================================================================================================
   C08: ORACLE SOUNDNESS -- the executable monitor DpOracle.c08_monitor, which ocaml/run_dp.ml runs on the
   IMPLEMENTATION's transcripts, accepts every transcript of the MODEL.

   Proofs/DpOracleSound.v.  `model_run s0 ins` is the model side of ocaml/run_dp.ml as a Coq function: for each
   input DpRun.run_in (FdlApplication callbacks transmit_telegram / receive_reply / handle_timeout, a request
   dropped by the FDL, the user calls request_diagnostics(), pi_q writes, enter_state(), take_last_events(),
   add() DURING the history, and the environment steps), then DpRun.auto_take (take_last_events() after every
   callback), then the observables DpRun.observe -- collected into the transcript type DpOracle.tstep the
   monitors read.  A model panic ends the run (`= Ok (s', tr)`: every prefix of every execution up to a panic).
   Hypotheses: `conf_ok c` = the configurations the monitors are run on / the generator produces:
   cf_autotake, DpOracle.conf_sane (distinct addresses), DpOracle.conf_within_limits (frame format),
   max_retry_limit >= 1 (the builder allows 1..15), own address 0..126, pre-placed peripherals in distinct
   storage slots; `contract_ok c tr` = the FdlApplication contract (C15) exactly as run_dp.ml checks it before
   running the monitors; `driver_ok` = the guards of the harness (harness/src/dp.rs): no ill-formed input
   (OutBad), add(k) only for a peripheral that is not yet in the master and only between requests (op ADD<k>).
   Any peripheral set, any storage layout, global control, time-outs, dropped requests, any reply telegram.
   Consequence: on a transcript of the real crate that agrees with the model (0 divergences) a failure code of
   this monitor is never a false alarm of the monitor.
   ==================================================================================================== *)
From PB Require Import DpRun DpOracle DpOracleSound.

(* After phase 1 the user call reset_address was added to the model (input InResetAddr) and the driver runs the
   wrappers DpOracle.c08_monitor_ra, which follow the current station address of every peripheral.  On transcripts
   without a reset_address step (`has_reset l = false`) the wrapper IS the monitor: *)
Theorem C08_oracle_ra_agrees : forall c l, has_reset l = false -> c08_monitor_ra c l = c08_monitor c l.
Proof. exact c08_ra_agrees. Qed.
Print Assumptions C08_oracle_ra_agrees.

(* Soundness of what the driver runs, for histories without reset_address (`no_reset ins`: no InResetAddr input). *)
Theorem C08_oracle_sound : forall c, conf_ok c -> forall s0 ins s' tr,
  init_sys c = Ok s0 -> no_reset ins = true -> model_run s0 ins = Ok (s', tr) ->
  contract_ok c tr = true -> driver_ok (sy_handles s0) tr = true ->
  c08_monitor_ra c tr = None.
Proof. exact c08_oracle_sound_ra0. Qed.
Print Assumptions C08_oracle_sound.

(* the same for the plain monitor *)
Theorem C08_oracle_sound_plain : forall c, conf_ok c -> forall s0 ins s' tr,
  init_sys c = Ok s0 -> no_reset ins = true -> model_run s0 ins = Ok (s', tr) ->
  contract_ok c tr = true -> driver_ok (sy_handles s0) tr = true ->
  c08_monitor c tr = None.
Proof. exact c08_oracle_sound. Qed.
Print Assumptions C08_oracle_sound_plain.

(* non-vacuity: a computed 22-step history of a master with two peripherals (one added by add() during the
   history), max_retry_limit = 1, meets all hypotheses; it contains a global control broadcast, an accepted
   diagnostics reply (Online, completed cycle), a time-out with retransmission, a dropped request, user calls,
   the Offline event after 1 + 1 transmissions, probes, a second completed cycle and a reply that is not
   accepted *)
Example C08_oracle_sound_hypotheses :
  conf_ok ex_conf /\
  exists s0 s' tr, init_sys ex_conf = Ok s0 /\ model_run s0 ex_ins = Ok (s', tr) /\
    no_reset ex_ins = true /\ contract_ok ex_conf tr = true /\ driver_ok (sy_handles s0) tr = true /\ length tr = 22%nat /\
    map step_event tr = [None; None; None; Some (7, EvOnline); None; None; None; None; None; None; None; None; None;
                         Some (7, EvOffline); None; None; None; None; None; None; None; None] /\
    map step_cc tr = [false; false; false; true; false; false; false; false; false; false; false; false; false; false;
                      false; false; true; false; false; false; false; false].
Proof. exact oracle_sound_example. Qed.

(* ----------------------------------------------------------------------------------------------------
   C08: ORACLE SOUNDNESS for histories WITH reset_address.  The monitor the driver runs, c08_monitor_ra, accepts
   every transcript of the model in which reset_address (input InResetAddr k a, any number of times, to the same
   or to another address, also for a peripheral added during the history) is called with a station address
   0..125 and only while no reply of that peripheral is outstanding -- `reset_guard`, i.e. outside the known
   class F22 (DpOracle.known_reset_while_pending, see C08_oracle_reset_guard) -- and every intermediate address
   assignment is duplicate-free (`DpOracle.ra_sane`, the test of run_dp.ml before it runs the monitors).
   At such a step: the next request of the peripheral is a first request again (FCV=0/FCB=1), the retry counting starts again.
   The invariants of Proofs/DpOracleSound.v are stated for the configuration IN FORCE (station addresses as
   changed by the calls), handles are compared by slot index (the address a handle carries is stale afterwards).
   C08_oracle_sound and C08_oracle_sound_plain above are corollaries (no InResetAddr input).
   ---------------------------------------------------------------------------------------------------- *)
Theorem C08_oracle_sound_ra : forall c s0 ins s' tr, conf_ok c ->
  init_sys c = Ok s0 -> model_run s0 ins = Ok (s', tr) ->
  contract_ok c tr = true -> driver_ok (sy_handles s0) tr = true ->
  ra_sane c tr = true -> reset_guard c None tr = true ->
  c08_monitor_ra c tr = None.
Proof. exact c08_oracle_sound_ra. Qed.
Print Assumptions C08_oracle_sound_ra.

(* the guard follows from the driver's own test for the known class F22 and the address range *)
Theorem C08_oracle_reset_guard : forall c l,
  known_reset_while_pending c l = false -> reset_range c l = true -> reset_guard c None l = true.
Proof. exact reset_guard_known. Qed.
Print Assumptions C08_oracle_reset_guard.

(* non-vacuity: a computed 21-step history with four reset_address calls (same address after the bring-up
   started, another address after a time-out, a peripheral just added by add(), back to the first address)
   meets all hypotheses *)
Example C08_oracle_sound_ra_hypotheses :
  conf_ok ex_conf /\
  exists s0 s' tr, init_sys ex_conf = Ok s0 /\ model_run s0 ex_ins_ra = Ok (s', tr) /\
    has_reset tr = true /\ contract_ok ex_conf tr = true /\ driver_ok (sy_handles s0) tr = true /\
    ra_sane ex_conf tr = true /\ known_reset_while_pending ex_conf tr = false /\ reset_range ex_conf tr = true /\
    reset_guard ex_conf None tr = true /\ length tr = 21%nat /\
    map (fun t => match reset_of ex_conf t with Some _ => true | None => false end) tr =
      [false; false; false; false; false; true; false; false; false; true; false; false; false; true; false; false;
       false; true; false; false; false] /\
    map step_event tr = [None; None; None; Some (7, EvOnline); None; None; None; None; None; None; None; None; None;
                         None; None; None; None; None; None; None; None].
Proof. exact oracle_sound_ra_example. Qed.
