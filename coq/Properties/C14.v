(* C14 (phase 1): the DP master's turn always ends. *)
From PB Require Import DpMaster C14Proofs.

(* transmit_telegram returns for every master state -- any slot vector (empty, all-None, sparse), any
   cycle state, reachable or not -- within `length slots + 2` iterations of its loop (the fuel dp_transmit
   gives to dp_tx_loop) *)
Theorem C14_turn_ends : forall pa bufsize m now hp,
  dp_transmit pa bufsize m now hp <> OutOfFuel.
Proof. exact dp_transmit_ends. Qed.
Print Assumptions C14_turn_ends.

(* the loop itself: fuel above the number of occupied slots at or after the cycle index suffices *)
Theorem C14_loop_bound : forall fuel pa bufsize m pev,
  (mu m < fuel)%nat -> dp_tx_loop fuel pa bufsize m pev <> OutOfFuel.
Proof. exact tx_loop_ends. Qed.
Print Assumptions C14_loop_bound.

(* non-vacuity: the empty master (F4) in Operate with global control not due ends its turn and reports a
   completed cycle *)
Example C14_empty_master :
  dp_transmit default_params 256 (set_last_gc (set_op (dp_new 0 false) OpOperate) (Some 0)) 0 false =
  Ok (set_events (set_last_gc (set_op (dp_new 0 false) OpOperate) (Some 0)) (mkEvents true None), None).
Proof. reflexivity. Qed.

(* ================================================================================================ *)
(* C14, history theorems (Proofs/C14History.v).

   Histories: `run_g auto pa bufsize m0 cbs` executes an ARBITRARY list of callbacks on the DP master
   model from m0: the three FdlApplication callbacks (CTx CRx CTo), take_last_events (CTake) and the user
   API calls request_diagnostics / pi_q writes / enter_state (CReqDiag CWriteQ CEnter) in any order, with any
   replies (any telegram), any losses (a request followed by CTo or by nothing at all = the token was given
   up in the middle of a cycle) and any times.  With auto = true take_last_events() follows every
   FdlApplication callback.  A panic ends the run, so a statement about `run_g .. = Ok tr` holds for every
   prefix of every execution up to a panic; C14_contract_safe shows that within the FdlApplication contract
   (C15) the unreachable!() sites of receive_reply are never hit.  The peripheral set is fixed during a
   history (add() is not a callback; slot vectors are arbitrary: empty, all None, sparse).
   Each item of the trace carries a ghost log `it_log` of the calls made to the Peripheral objects
   (GSend / GSkip = Peripheral::transmit_telegram returned a request / nothing, GReply =
   Peripheral::receive_reply, GGc = global control written); C14_ghost_erasure: the instrumented functions
   are the model functions plus the log.
   `accepts St I mon s m tr`: the monitor `mon` started in state s accepts the trace, and invariant I holds
   between the master and the monitor state before every callback and at the end. *)
From PB Require Import DpOracle C14History.

Theorem C14_ghost_erasure :
  (forall pa bufsize m now hp, drop_log (dp_transmit_g pa bufsize m now hp) = dp_transmit pa bufsize m now hp) /\
  (forall m addr t, drop_log (dp_receive_reply_g m addr t) = dp_receive_reply m addr t) /\
  (forall auto pa bufsize cbs m,
     match run_g auto pa bufsize m cbs with
     | Ok tr => run auto pa bufsize m cbs = Ok (map strip tr, final m tr)
     | Panic s => run auto pa bufsize m cbs = Panic s
     | OutOfFuel => run auto pa bufsize m cbs = OutOfFuel
     end).
Proof. exact (conj dp_transmit_erase (conj dp_receive_reply_erase run_erase)). Qed.
Print Assumptions C14_ghost_erasure.

(* C14_one_turn_each.  Monitor state `rem` = the occupied slots that still have to get their turn in this
   pass (cycle_item / turn_entry): a request is sent only by the head of rem (its turn is in progress), a turn
   ends only for the head of rem, which is then removed (so every occupied slot gets exactly one turn per
   pass, in slot order, and nobody else gets one); when the last turn has ended the callback reports
   cycle_completed and the next pass starts with all occupied slots.  The invariant cycle_inv says that
   rem is exactly the concrete cycle position (pos_rem: the occupied slots at or after the cycle index) --
   after a turn that ends the call early because of an event (F11) the position is the next slot -- and that
   the occupancy never changes.  For a master as constructed (cycle index 0) the first pass starts with all
   occupied slots: pos_rem m0 = occupied m0. *)
Theorem C14_one_turn_each : forall auto pa bufsize m0 cbs tr,
  (dm_cycle m0 = CyCompleted -> occupied m0 <> []) ->
  run_g auto pa bufsize m0 cbs = Ok tr ->
  accepts (list nat) (cycle_inv (occupied m0)) (cycle_item (occupied m0)) (pos_rem m0) m0 tr.
Proof. exact one_turn_each_history. Qed.
Print Assumptions C14_one_turn_each.

(* C14_cycle_completed_once: what acceptance by cycle_item means, per callback, from EVERY state with the
   invariant: cycle_completed is reported by a callback iff the slot scheduler ran in it and the last turn
   of the pass ended in it (for an empty master: iff the scheduler ran) -- hence exactly once per pass --
   and then the whole of occ is due again. *)
Theorem C14_cycle_completed_once : forall auto pa bufsize occ m rem c x log,
  cycle_inv occ m rem -> cstep_g pa bufsize m c = Ok (x, log) ->
  let it := mk_item auto m c x log in
  exists rem',
    turn_entries rem (it_log it) = Some rem' /\
    (ev_cycle_completed (reported it) = true <-> (sched_ran it = true /\ rem' = [])) /\
    cycle_inv occ (it_m it) (if ev_cycle_completed (reported it) then occ else rem').
Proof. exact cycle_completed_once_step. Qed.
Print Assumptions C14_cycle_completed_once.

(* a turn is at most one request plus its retransmissions: all transmissions of one turn carry the same
   frame count bit (sends_entry) and there are at most 1 + max_retry_limit of them *)
Theorem C14_turn_is_one_request : forall auto pa bufsize m0 cbs tr,
  (forall i p, slot m0 i = Some p -> pe_retry p = 0) ->
  run_g auto pa bufsize m0 cbs = Ok tr ->
  accepts (nat * option fcbit) sends_inv (sends_item (p_max_retry pa)) (0%nat, None) m0 tr.
Proof. exact turn_sends_history. Qed.
Print Assumptions C14_turn_is_one_request.

(* the shape of one transmit_telegram call that is not a global control broadcast (call_shape): silent
   turn ends, then a request (Some is returned) or ONE turn that ends with the Offline event (None is
   returned, F11) or the end of the pass *)
Theorem C14_call_shape : forall pa bufsize m now hp m' o log,
  dp_transmit_g pa bufsize m now hp = Ok (m', o, log) -> existsb is_gc log = false -> call_shape log o.
Proof. exact call_shape_transmit. Qed.
Print Assumptions C14_call_shape.

(* C14_no_event_lost: the application takes the events after every FdlApplication callback (auto = true;
   further explicit CTake calls allowed anywhere).  Per callback the collected peripheral events are exactly
   the events the Peripheral objects produced in it (with the handle of their slot), and cycle_completed
   is collected exactly when reported; hence the whole collected sequence equals the produced sequence:
   nothing lost, nothing duplicated, order kept. *)
Theorem C14_no_event_lost : forall pa bufsize m0 cbs tr,
  dm_events m0 = events_default ->
  run_g true pa bufsize m0 cbs = Ok tr ->
  Forall accounted tr /\
  flat_map collected tr = flat_map produced tr /\
  fold_right (fun it n => (collected_cc it + n)%nat) 0%nat tr =
  fold_right (fun it n => (bool_nat (ev_cycle_completed (reported it)) + n)%nat) 0%nat tr.
Proof. exact no_event_lost_history. Qed.
Print Assumptions C14_no_event_lost.

(* C14_lifecycle: per slot the produced events (= the collected ones, C14_no_event_lost) are accepted by
   the life-cycle automaton DpOracle.l_step (the one the executable monitor runs on the implementation):
   Online only from Off; Configured only after Online; DataExchanged / Diagnostics only after Configured;
   Offline / ParameterError / ConfigError only while live, and lead to Off.  After every callback the
   automaton state agrees with every peripheral (life_inv / agree): Off iff not live, Cfg whenever in
   (Pre)DataExchange.  Needs max_retry_limit >= 1 (ParametersBuilder allows 1..15). *)
Theorem C14_lifecycle : forall auto pa bufsize m0 life0 cbs tr,
  1 <= p_max_retry pa -> life_inv m0 life0 ->
  run_g auto pa bufsize m0 cbs = Ok tr ->
  accepts (nat -> lstate) life_inv life_item life0 m0 tr.
Proof. exact lifecycle_history. Qed.
Print Assumptions C14_lifecycle.

(* ... a master whose peripherals are fresh (Peripheral::new) starts with the automaton in Off everywhere *)
Theorem C14_lifecycle_init : forall m,
  (forall i p, slot m i = Some p -> fresh p) -> life_inv m (fun _ => LOff).
Proof. exact fresh_life_inv. Qed.
Print Assumptions C14_lifecycle_init.

(* ... and `agree` in terms of the public getters *)
Theorem C14_lifecycle_public : forall l p, agree l p ->
  is_live p = negb (lstate_eqb l LOff) /\ (is_running p = true -> l = LCfg) /\
  (l = LOff <-> pe_state p = PsOffline).
Proof. exact agree_public. Qed.
Print Assumptions C14_lifecycle_public.

(* C14_gc_interleaving, one call, from EVERY master state: a global control broadcast is written only by a
   transmit call with HighPrioOnly::No of a master that is not stopped when it is due; it is an SDN request
   (expects_reply = None, so the FDL routes no reply), cycle position, slots and operating state are
   untouched, the event slot is emptied (nothing is lost when events are taken after every callback:
   C14_no_event_lost covers these calls); and when it is due it is sent whatever the cycle position. *)
Theorem C14_gc_interleaving : forall pa bufsize m now hp m' o log,
  dp_transmit_g pa bufsize m now hp = Ok (m', o, log) ->
  existsb is_gc log = true ->
  log = [GGc] /\ hp = false /\ dm_op m <> OpStop /\ gc_due pa m now = Ok true /\
  (exists b w, (b = dp_gc_clear /\ dm_op m = OpClear \/ b = dp_gc_operate /\ dm_op m = OpOperate) /\
               send_data bufsize (gc_header pa) [b; dp_gc_groups] = Ok (w, None) /\ o = Some (w, None)) /\
  dm_cycle m' = dm_cycle m /\ dm_slots m' = dm_slots m /\ pos_rem m' = pos_rem m /\
  dm_events m' = events_default /\ dm_last_gc m' = Some now /\ dm_op m' = dm_op m.
Proof. exact gc_broadcast. Qed.
Print Assumptions C14_gc_interleaving.

Theorem C14_gc_when_due : forall pa bufsize m now,
  dm_op m <> OpStop -> gc_due pa m now = Ok true ->
  match dp_transmit_g pa bufsize m now false with
  | Ok (_, _, log) => log = [GGc]
  | Panic _ => True
  | OutOfFuel => False
  end.
Proof. exact gc_when_due. Qed.
Print Assumptions C14_gc_when_due.

(* at most one broadcast per interval (gc_item): between two broadcasts without an enter_state in between
   at least slot_time * dp_gc_interval_slots (regenerated: 50) elapse *)
Theorem C14_gc_interval : forall auto pa bufsize m0 cbs tr,
  run_g auto pa bufsize m0 cbs = Ok tr ->
  accepts (option Z) gc_inv (gc_item pa) (dm_last_gc m0) m0 tr.
Proof. exact gc_interval_history. Qed.
Print Assumptions C14_gc_interval.

(* C14_zero_peripherals (F4): an empty master returns None at once having reported cycle_completed ... *)
Theorem C14_zero_peripherals : forall pa bufsize m now hp index,
  occupied m = [] -> dm_cycle m = CyDataExchange index -> dm_op m <> OpStop ->
  (hp = true \/ gc_due pa m now = Ok false) ->
  dp_transmit pa bufsize m now hp =
    Ok (set_events (set_cycle m (CyDataExchange 0)) (mkEvents true None), None).
Proof. exact zero_peripherals_tx. Qed.
Print Assumptions C14_zero_peripherals.

(* ... and in every history of an empty master every transmit call returns None (with cycle_completed
   unless stopped) or writes a global control broadcast, and no reply is ever processed (empty_item) *)
Theorem C14_zero_peripherals_history : forall auto pa bufsize m0 cbs tr,
  occupied m0 = [] -> dm_cycle m0 <> CyCompleted ->
  run_g auto pa bufsize m0 cbs = Ok tr -> Forall empty_item tr.
Proof. exact zero_peripherals_history. Qed.
Print Assumptions C14_zero_peripherals_history.

(* C14_contract_safe: after any history that respects the FdlApplication contract (pend_run: replies and
   time-outs only for the outstanding request, replies only as admitted by the FDL, C15) a reply within
   the contract is processed without panic: the unreachable!() sites of DpMaster::receive_reply and the
   unwrap / unreachable of Peripheral::receive_reply are never hit *)
Theorem C14_contract_safe : forall auto pa bufsize m0 cbs tr a t,
  safe_init m0 -> run_g auto pa bufsize m0 cbs = Ok tr ->
  pend_run (p_address pa) None tr = Some (Some a) -> admissible (p_address pa) a t = true ->
  exists m', dp_receive_reply (final m0 tr) a t = Ok m'.
Proof. exact contract_safe_history. Qed.
Print Assumptions C14_contract_safe.

(* non-vacuity: a history on a sparse slot vector [None; 7; None; 9] (max_retry_limit 1): global control
   first; slot 1 is asked, answers its diagnostics request (Online); slot 3 is asked, times out, its probe
   turn ends: cycle completed; slot 1 gets Set_Prm twice without answer, goes Offline: the call ends with
   the event (F11) and the NEXT call continues with slot 3; cycle completed; a new pass starts at slot 1.
   The history respects the contract, and the produced events are Online, Offline of slot 1. *)
Example C14_history_example :
  let opts := mkOpts 4660 false false 0 0 false (Some [1; 2]) (Some [3]) in
  let m0 := set_slots (dp_new 4 false)
              [None; Some (periph_new 7 opts [0; 0] [0] 0); None; Some (periph_new 9 opts [] [] 0)] in
  let diag := TData (mkHeader 1 7 (Some 62) (Some 60) (FcResponse RsSlave StDataLow)) [0; 12; 0; 1; 18; 52] in
  let cbs := [CEnter OpOperate; CTx 0 false; CTx 1 false; CRx 7 diag; CTx 2 false; CTo 9; CTx 3 false;
              CTx 4 false; CTx 5 false; CTx 6 false; CTx 7 false; CTx 8 false; CTx 9 false] in
  let tag e := match e with
               | GSend i _ _ _ _ => (1, i) | GSkip i _ _ _ => (2, i) | GReply i _ _ _ _ => (3, i) | GGc => (4, 0)
               end%nat in
  exists tr, run_g true default_params 256 m0 cbs = Ok tr /\
    map (fun it => (map tag (it_log it), ev_cycle_completed (reported it))) tr =
      [([], false); ([(4, 0)], false); ([(1, 1)], false); ([(3, 1)], false); ([(1, 3)], false); ([], false);
       ([(2, 3)], true); ([(1, 1)], false); ([(1, 1)], false); ([(2, 1)], false); ([(1, 3)], false);
       ([(2, 3)], true); ([(1, 1)], false)]%nat /\
    flat_map collected tr = [(mkHandle 1 7, EvOnline); (mkHandle 1 7, EvOffline)] /\
    pend_run (p_address default_params) None tr = Some (Some 7).
Proof.
  cbv zeta. eexists. split; [vm_compute; reflexivity|]. split; [vm_compute; reflexivity|].
  split; vm_compute; reflexivity.
Qed.

(* ====================================================================================================
   C14: ORACLE SOUNDNESS -- the executable monitor DpOracle.c14_monitor, which ocaml/run_dp.ml runs on the
   IMPLEMENTATION's transcripts, accepts every transcript of the MODEL.

   Proofs/DpOracleSound.v.  `model_run s0 ins` is the model side of ocaml/run_dp.ml as a Coq function: for each
   input DpRun.run_in (FdlApplication callbacks transmit_telegram / receive_reply / handle_timeout, a request
   dropped by the FDL, the user calls request_diagnostics(), pi_q writes, enter_state(), take_last_events(),
   add() DURING the history, and the environment steps), then DpRun.auto_take (take_last_events() after every
   callback), then the observables DpRun.observe -- collected into the transcript type DpOracle.tstep the
   monitors read.  A model panic ends the run (`= Ok (s', tr)`: every prefix of every execution up to a panic).
   Hypotheses: `conf_ok c` = the configurations the monitors are run on / the generator produces:
   cf_autotake, DpOracle.conf_sane (distinct addresses), DpOracle.conf_within_limits (frame format),
   max_retry_limit >= 1 (the builder allows 1..15), own address 0..126, pre-placed peripherals in distinct
   storage slots; `contract_ok c tr` = the FdlApplication contract (C15) exactly as run_dp.ml checks it before
   running the monitors; `driver_ok` = the guards of the harness (harness/src/dp.rs): no ill-formed input
   (OutBad), add(k) only for a peripheral that is not yet in the master and only between requests (op ADD<k>).
   Any peripheral set, any storage layout, global control, time-outs, dropped requests, any reply telegram.
   Consequence: on a transcript of the real crate that agrees with the model (0 divergences) a failure code of
   this monitor is never a false alarm of the monitor.
   ==================================================================================================== *)
From PB Require Import DpRun DpOracle DpOracleSound.

(* After phase 1 the user call reset_address was added to the model (input InResetAddr) and the driver runs the
   wrappers DpOracle.c14_monitor_ra, which follow the current station address of every peripheral.  On transcripts
   without a reset_address step (`has_reset l = false`) the wrapper IS the monitor: *)
Theorem C14_oracle_ra_agrees : forall c hs0 l, has_reset l = false -> c14_monitor_ra c hs0 l = c14_monitor c hs0 l.
Proof. exact c14_ra_agrees. Qed.
Print Assumptions C14_oracle_ra_agrees.

(* Soundness of what the driver runs, for histories without reset_address (`no_reset ins`: no InResetAddr input). *)
Theorem C14_oracle_sound : forall c, conf_ok c -> forall s0 ins s' tr,
  init_sys c = Ok s0 -> no_reset ins = true -> model_run s0 ins = Ok (s', tr) ->
  contract_ok c tr = true -> driver_ok (sy_handles s0) tr = true ->
  c14_monitor_ra c (sy_handles s0) tr = None.
Proof. exact c14_oracle_sound_ra0. Qed.
Print Assumptions C14_oracle_sound.

(* the same for the plain monitor *)
Theorem C14_oracle_sound_plain : forall c, conf_ok c -> forall s0 ins s' tr,
  init_sys c = Ok s0 -> no_reset ins = true -> model_run s0 ins = Ok (s', tr) ->
  contract_ok c tr = true -> driver_ok (sy_handles s0) tr = true ->
  c14_monitor c (sy_handles s0) tr = None.
Proof. exact c14_oracle_sound. Qed.
Print Assumptions C14_oracle_sound_plain.

(* non-vacuity: a computed 22-step history of a master with two peripherals (one added by add() during the
   history), max_retry_limit = 1, meets all hypotheses; it contains a global control broadcast, an accepted
   diagnostics reply (Online, completed cycle), a time-out with retransmission, a dropped request, user calls,
   the Offline event after 1 + 1 transmissions, probes, a second completed cycle and a reply that is not
   accepted *)
Example C14_oracle_sound_hypotheses :
  conf_ok ex_conf /\
  exists s0 s' tr, init_sys ex_conf = Ok s0 /\ model_run s0 ex_ins = Ok (s', tr) /\
    no_reset ex_ins = true /\ contract_ok ex_conf tr = true /\ driver_ok (sy_handles s0) tr = true /\ length tr = 22%nat /\
    map step_event tr = [None; None; None; Some (7, EvOnline); None; None; None; None; None; None; None; None; None;
                         Some (7, EvOffline); None; None; None; None; None; None; None; None] /\
    map step_cc tr = [false; false; false; true; false; false; false; false; false; false; false; false; false; false;
                      false; false; true; false; false; false; false; false].
Proof. exact oracle_sound_example. Qed.

(* ----------------------------------------------------------------------------------------------------
   C14: ORACLE SOUNDNESS for histories WITH reset_address.  The monitor the driver runs, c14_monitor_ra, accepts
   every transcript of the model in which reset_address (input InResetAddr k a, any number of times, to the same
   or to another address, also for a peripheral added during the history) is called with a station address
   0..125 and only while no reply of that peripheral is outstanding -- `reset_guard`, i.e. outside the known
   class F22 (DpOracle.known_reset_while_pending, see C14_oracle_reset_guard) -- and every intermediate address
   assignment is duplicate-free (`DpOracle.ra_sane`, the test of run_dp.ml before it runs the monitors).
   At such a step: its life-cycle state goes to Off without an event, a turn in the current cycle stays its turn under the new address, the handle list carries the new address.
   The invariants of Proofs/DpOracleSound.v are stated for the configuration IN FORCE (station addresses as
   changed by the calls), handles are compared by slot index (the address a handle carries is stale afterwards).
   C14_oracle_sound and C14_oracle_sound_plain above are corollaries (no InResetAddr input).
   ---------------------------------------------------------------------------------------------------- *)
Theorem C14_oracle_sound_ra : forall c s0 ins s' tr, conf_ok c ->
  init_sys c = Ok s0 -> model_run s0 ins = Ok (s', tr) ->
  contract_ok c tr = true -> driver_ok (sy_handles s0) tr = true ->
  ra_sane c tr = true -> reset_guard c None tr = true ->
  c14_monitor_ra c (sy_handles s0) tr = None.
Proof. exact c14_oracle_sound_ra. Qed.
Print Assumptions C14_oracle_sound_ra.

(* the guard follows from the driver's own test for the known class F22 and the address range *)
Theorem C14_oracle_reset_guard : forall c l,
  known_reset_while_pending c l = false -> reset_range c l = true -> reset_guard c None l = true.
Proof. exact reset_guard_known. Qed.
Print Assumptions C14_oracle_reset_guard.

(* non-vacuity: a computed 21-step history with four reset_address calls (same address after the bring-up
   started, another address after a time-out, a peripheral just added by add(), back to the first address)
   meets all hypotheses *)
Example C14_oracle_sound_ra_hypotheses :
  conf_ok ex_conf /\
  exists s0 s' tr, init_sys ex_conf = Ok s0 /\ model_run s0 ex_ins_ra = Ok (s', tr) /\
    has_reset tr = true /\ contract_ok ex_conf tr = true /\ driver_ok (sy_handles s0) tr = true /\
    ra_sane ex_conf tr = true /\ known_reset_while_pending ex_conf tr = false /\ reset_range ex_conf tr = true /\
    reset_guard ex_conf None tr = true /\ length tr = 21%nat /\
    map (fun t => match reset_of ex_conf t with Some _ => true | None => false end) tr =
      [false; false; false; false; false; true; false; false; false; true; false; false; false; true; false; false;
       false; true; false; false; false] /\
    map step_event tr = [None; None; None; Some (7, EvOnline); None; None; None; None; None; None; None; None; None;
                         None; None; None; None; None; None; None; None].
Proof. exact oracle_sound_ra_example. Qed.
