(* C14 (phase 1): the DP master's turn always ends. *)
From PB Require Import DpMaster C14Proofs.

(* transmit_telegram returns for every master state -- any slot vector (empty, all-None, sparse), any
   cycle state, reachable or not -- within `length slots + 2` iterations of its loop (the fuel dp_transmit
   gives to dp_tx_loop) *)
Theorem C14_turn_ends : forall pa bufsize m now hp,
  dp_transmit pa bufsize m now hp <> OutOfFuel.
Proof. exact dp_transmit_ends. Qed.
Print Assumptions C14_turn_ends.

(* the loop itself: fuel above the number of occupied slots at or after the cycle index suffices *)
Theorem C14_loop_bound : forall fuel pa bufsize m pev,
  (mu m < fuel)%nat -> dp_tx_loop fuel pa bufsize m pev <> OutOfFuel.
Proof. exact tx_loop_ends. Qed.
Print Assumptions C14_loop_bound.

(* non-vacuity: the empty master (F4) in Operate with global control not due ends its turn and reports a
   completed cycle *)
Example C14_empty_master :
  dp_transmit default_params 256 (set_last_gc (set_op (dp_new 0 false) OpOperate) (Some 0)) 0 false =
  Ok (set_events (set_last_gc (set_op (dp_new 0 false) OpOperate) (Some 0)) (mkEvents true None), None).
Proof. reflexivity. Qed.
