(* C15 - application contract (station-local, one-step part): the reply admission filter.
   Planned on top of the same model (not yet proved): C15_contract over call logs, C15_routing,
   C15_round_robin, C15_zero_apps. *)
From PB Require Import Common Telegram Fdl FdlProofs.

(* What the station forwards to an application as the reply to a request sent to `addr` is exactly:
   a short confirmation, or a response telegram whose source is `addr` and whose destination is this
   station. *)
Theorem C15_reply_filter : forall (f : fdl) (addr : Z) (t : telegram),
  is_valid_response f addr t = true <-> reply_ok (ts f) addr t.
Proof. exact is_valid_response_spec. Qed.
Print Assumptions C15_reply_filter.
