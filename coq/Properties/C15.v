(* C15 - application contract, matched replies, routing, round-robin: over ARBITRARY histories of the
   FDL station model, for ARBITRARY applications (any state type, any three callbacks).

   A history is produced by `run A ops f0 apps events` (Proofs/C15Proofs.v): events are polls at any time
   with any PHY input (busy flag, receive buffer), set_online / set_offline calls, and arbitrary changes of
   the application objects by the user between polls.  `run` stops with Panic when a poll panics, so every
   theorem speaks about every prefix of every execution up to a panic (in particular no callback needs to
   be assumed total).  The history lists the application callbacks in order (`HCall`), the end of each
   poll with the time and the station afterwards (`HEnd now f`), and the re-creation of the station by
   set_offline (`HReset`).  `accepts pre post s h` runs an acceptor with state s over h: every item must
   satisfy `pre`, `post` updates the state.

   Proof structure (C15Proofs.v): one monitor (cpre / cpost) with state (kind of the station when the poll
   began, outstanding request, whose turn, number of declines of this visit); an invariant `Inv` between
   station and monitor; `C15_inv_init`, `C15_step_preserves` (every event, from every state satisfying
   Inv), `C15_history_monitor` (the lift by induction).  The named theorems are projections of it. *)
From PB Require Import Common Tables Telegram Phy Params Fdl FdlProofs C15Proofs.

(* What the station forwards to an application as the reply to a request sent to `addr` is exactly:
   a short confirmation, or a response telegram whose source is `addr` and whose destination is this
   station. *)
Theorem C15_reply_filter : forall (f : fdl) (addr : Z) (t : telegram),
  is_valid_response f addr t = true <-> reply_ok (ts f) addr t.
Proof. exact is_valid_response_spec. Qed.
Print Assumptions C15_reply_filter.

(* ---------------------------------------------------------------------------------------------- *)
(* The invariant, its initialisation, its preservation by every event from EVERY state, the lift.  *)

Theorem C15_inv_init : forall (n : nat) (p : params) (f : fdl), fdl_new p = Ok f -> Inv n f cst_init.
Proof. exact Inv_init. Qed.
Print Assumptions C15_inv_init.

Theorem C15_step_preserves : forall (A : Type) (ops : app_ops A) (f : fdl) (apps : list A) (e : event A)
                                    (f' : fdl) (apps' : list A) (h : list hitem) (m : cst),
  Inv (length apps) f m -> step A ops f apps e = Ok (f', apps', h) ->
  accepted (length apps) (ts f) m h /\ Inv (length apps) f' (after (length apps) m h) /\
  length apps' = length apps /\ f_p f' = f_p f.
Proof. exact step_preserves. Qed.
Print Assumptions C15_step_preserves.

Theorem C15_history_monitor : forall (A : Type) (ops : app_ops A) (p : params) (f0 : fdl) (apps : list A)
                                     (evs : list (event A)) (f : fdl) (apps' : list A) (h : list hitem),
  fdl_new p = Ok f0 -> run A ops f0 apps evs = Ok (f, apps', h) ->
  accepted (length apps) (p_address p) cst_init h /\ Inv (length apps) f (after (length apps) cst_init h).
Proof. exact history_accepted. Qed.
Print Assumptions C15_history_monitor.

(* ---------------------------------------------------------------------------------------------- *)
(* C15_contract: what application i may rely on (acceptor apre / apost, state: idle or waiting for the
   reply from da).  ANY application is asked only in a poll that began in a token-use state (UseToken or
   AwaitDataResponse, both in have_token) and while application i is not waiting for a reply - so, i being
   arbitrary, while NO request is outstanding; receive_reply(da, t) / handle_timeout(da) come to i only
   while it waits for da, end the waiting (at most one of the two per request), and t is SC or a response
   with SA = da and DA = TS.  The per-application log therefore matches
     ( transmit->None | transmit->Some(no reply) | transmit->Some(reply from da) ; X )*
   where X is exactly one of receive_reply da t / handle_timeout da - or nothing, in the one case that
   the station gives up the token while waiting (it received something that is not a valid reply and
   returns to ActiveIdle; HEnd rule of apre; set_offline likewise).  DESIGN.md planned "exactly one"
   without this exception; the property text says "at most one", which is what holds. *)
Theorem C15_contract : forall (A : Type) (ops : app_ops A) (p : params) (f0 : fdl) (apps : list A)
                              (evs : list (event A)) (f : fdl) (apps' : list A) (h : list hitem) (i : nat),
  fdl_new p = Ok f0 -> run A ops f0 apps evs = Ok (f, apps', h) ->
  accepts (apre (p_address p) i) (apost i) (AppIdle, KOffline) h.
Proof. exact contract_history. Qed.
Print Assumptions C15_contract.

(* the same from every station state that satisfies the invariant, not only from a new station *)
Theorem C15_contract_from_any_state : forall (A : Type) (ops : app_ops A) (f : fdl) (m : cst) (apps : list A)
                              (evs : list (event A)) (f' : fdl) (apps' : list A) (h : list hitem) (i : nat),
  Inv (length apps) f m -> run A ops f apps evs = Ok (f', apps', h) ->
  accepts (apre (ts f) i) (apost i) (app_view i m) h.
Proof. exact contract_from_inv. Qed.
Print Assumptions C15_contract_from_any_state.

(* token-use states are token-holding states of the regenerated have_token table *)
Theorem C15_in_visit_has_token : forall k : state_kind, in_visit k = true -> have_token_kind k = true.
Proof. exact in_visit_have_token. Qed.
Print Assumptions C15_in_visit_has_token.

(* which requests await a reply is decided by the regenerated table req_expects_reply (via
   tx_expects_reply in Phy.transmit = TelegramTx): for applications that build their telegram with the
   TelegramTx they are handed (hypothesis; `TelegramTxResponse::new` is public, so a hostile application
   could lie - the contract above holds for those too, with their own expects_reply) *)
Theorem C15_expects_reply_by_table : forall (A : Type) (ops : app_ops A),
  (forall a now p hp a' wire er, a_tx ops a now p hp = Ok (a', Some (wire, er)) ->
     exists size rq, transmit size rq = Ok (wire, er)) ->
  forall (p : params) (f0 : fdl) (apps : list A) (evs : list (event A)) (f : fdl) (apps' : list A)
         (h : list hitem) (i : nat) (hp : bool) (wire : bytes) (er : option Z),
  fdl_new p = Ok f0 -> run A ops f0 apps evs = Ok (f, apps', h) ->
  In (CallTransmit i hp (Some (wire, er))) (calls_of h) ->
  exists size rq, transmit size rq = Ok (wire, er) /\
    forall da, er = Some da <->
      exists hd pdu fcb r, rq = TxData hd pdu /\ h_fc hd = FcRequest fcb r /\ req_expects_reply r = true /\ da = h_da hd.
Proof. exact expects_reply_by_table. Qed.
Print Assumptions C15_expects_reply_by_table.

(* ---------------------------------------------------------------------------------------------- *)
(* C15_delivered_reply_shape: C15_reply_filter extended to the whole poll, from ANY station state, and
   to histories *)
Theorem C15_delivered_reply_shape : forall (A : Type) (ops : app_ops A) (f : fdl) (now : Z) (pin : phy_in)
    (apps : list A) (f' : fdl) (o : phy_out) (apps' : list A) (calls : list call) (i : nat) (a : Z) (t : telegram),
  poll ops f now pin apps = Ok (f', o, apps', calls) ->
  In (CallReceiveReply i a t) calls -> reply_ok (ts f) a t.
Proof. exact poll_reply_shape. Qed.
Print Assumptions C15_delivered_reply_shape.

Theorem C15_delivered_reply_shape_history : forall (A : Type) (ops : app_ops A) (p : params) (f0 : fdl)
    (apps : list A) (evs : list (event A)) (f : fdl) (apps' : list A) (h : list hitem) (i : nat) (a : Z) (t : telegram),
  fdl_new p = Ok f0 -> run A ops f0 apps evs = Ok (f, apps', h) ->
  In (CallReceiveReply i a t) (calls_of h) -> reply_ok (p_address p) a t.
Proof. exact reply_shape_history. Qed.
Print Assumptions C15_delivered_reply_shape_history.

(* ---------------------------------------------------------------------------------------------- *)
(* C15_routing: in the station's call log (all applications, in order) every receive_reply(i, a, _) and
   every handle_timeout(i, a) is IMMEDIATELY preceded by the transmit call of the same application i
   that sent a request expecting a reply from a.  Hence: only to the application that transmitted, at
   most one of the two per request, nothing in between. *)
Theorem C15_routing : forall (A : Type) (ops : app_ops A) (p : params) (f0 : fdl) (apps : list A)
    (evs : list (event A)) (f : fdl) (apps' : list A) (h : list hitem),
  fdl_new p = Ok f0 -> run A ops f0 apps evs = Ok (f, apps', h) ->
  forall (pre : list call) (c : call) (post : list call) (i : nat) (a : Z),
    calls_of h = pre ++ c :: post -> answers c i a ->
    exists pre' hp wire, pre = pre' ++ [CallTransmit i hp (Some (wire, Some a))].
Proof. exact routing_history. Qed.
Print Assumptions C15_routing.

(* ---------------------------------------------------------------------------------------------- *)
(* C15_round_robin (acceptor rpre / rpost over (kind when the poll began, turn, declines)):
   - only the application whose turn it is is called (transmit, reply, time-out); the turn is
     next_application (second conjunct);
   - the turn moves exactly when an application declines, to (i + 1) mod n; an application that sends
     keeps the turn and is asked again;
   - declines are counted per visit (reset when a visit begins); the declining applications are
     consecutive, so r_decl = n means every application has declined exactly once since the first
     decline of the visit;  no application is asked once r_decl = n;
   - when a poll of a visit ends with r_decl = n (n > 0) the station has passed the token on in that poll
     (F20 repair: do_use_token ends in do_pass_token): it is in a token-passing state (pass_kind:
     PassToken / AwaitStatusResponse after the GAP request / CheckTokenPass after the token telegram) or,
     being its own successor, in the first state of its next visit (fresh_visit); and a visit ends that
     way only with r_decl = n or with the hold time over (end_token_hold_time <= now). *)
Theorem C15_round_robin : forall (A : Type) (ops : app_ops A) (p : params) (f0 : fdl) (apps : list A)
    (evs : list (event A)) (f : fdl) (apps' : list A) (h : list hitem),
  fdl_new p = Ok f0 -> run A ops f0 apps evs = Ok (f, apps', h) ->
  accepts (rpre (length apps)) (rpost (length apps)) (mkRr KOffline 0 0) h /\
  r_turn (posts (rpost (length apps)) (mkRr KOffline 0 0) h) = f_next_app f.
Proof. exact round_robin_history. Qed.
Print Assumptions C15_round_robin.

(* the arithmetic behind "cycle completed": in schedule_next_application the comparison
   next == first_app is true exactly when the n-th application of the visit has declined *)
Theorem C15_cycle_completed_iff_all_declined : forall (n : nat) (fa : option nat) (next d : nat),
  (next < n)%nat -> visit_inv n fa next d ->
  let first := match fa with Some x => x | None => next end in
  let next' := Nat.modulo (next + 1) n in
  if Nat.eqb next' first then S d = n else visit_inv n (Some first) next' (S d).
Proof. exact decline_step. Qed.
Print Assumptions C15_cycle_completed_iff_all_declined.

(* ---------------------------------------------------------------------------------------------- *)
(* C15_zero_apps: without applications no callback is ever made and the station never waits for a data
   reply; do_use_token then asks nobody, does not reach the `% apps.len()` of schedule_next_application
   (which would be a division by zero) and goes on to pass the token in the same poll (the rest of the
   poll is do_pass_token from PassToken{do_gap, First}), hold time over or not. *)
Theorem C15_zero_apps : forall (A : Type) (ops : app_ops A) (p : params) (f0 : fdl) (evs : list (event A))
    (f : fdl) (apps' : list A) (h : list hitem),
  fdl_new p = Ok f0 -> run A ops f0 [] evs = Ok (f, apps', h) ->
  calls_of h = [] /\ apps' = [] /\ kind_of (f_state f) <> KAwaitDataResponse.
Proof. exact zero_apps_history. Qed.
Print Assumptions C15_zero_apps.

Theorem C15_zero_apps_passes_token : forall (A : Type) (ops : app_ops A) (f : fdl) (w : world A) (now tk : Z)
    (fa : option nat) (fcd : bool) (l : Z),
  w_apps w = [] -> f_state f = UseToken tk fa fcd -> f_last_token_time f = tk -> f_lba f = Some l ->
  i64_ok (l + p_bits_to_time (f_p f) sync_pause_bits) = true ->
  l + p_bits_to_time (f_p f) sync_pause_bits < now ->
  exists w1, do_use_token A ops f now w = do_pass_token A (set_st f (PassToken true first_attempt)) now w1 /\
             w_calls w1 = w_calls w /\ w_tx w1 = w_tx w /\ w_apps w1 = [] /\
             forall f' w', do_use_token A ops f now w = Ok (f', w') -> w_calls w' = w_calls w /\ w_apps w' = [].
Proof. exact do_use_token_zero_apps. Qed.
Print Assumptions C15_zero_apps_passes_token.

(* ---------------------------------------------------------------------------------------------- *)
(* Non-vacuity.  A concrete application (sends one SRD request to station 5, then declines) on a
   concrete token-holding station that satisfies the invariant, four polls: the model produces the log
   transmit->Some(reply from 5); receive_reply 5 SC; transmit->None and passes the token in that same
   poll (to itself, the station being alone in its ring: the next visit begins at the time of that poll). *)
Example C15_demo_history : exists f apps h,
  run nat demo_ops demo_start [0%nat] demo_events = Ok (f, apps, h) /\
  calls_of h = [CallTransmit 0 false (Some (demo_wire, Some 5)); CallReceiveReply 0 5 TShortConf; CallTransmit 0 false None] /\
  f_state f = UseToken 300000 None false /\ apps = [2%nat].
Proof. exact demo_history. Qed.

(* ... and from a newly created station (goes online, listens, claims the token after its time-out, is
   taken offline and online again): the hypotheses of the history theorems are satisfiable *)
Example C15_demo_from_new_station : exists f0, fdl_new demo_params = Ok f0 /\
  is_ok (run nat demo_ops f0 [0%nat] demo_init_events) = true.
Proof. exact demo_from_init. Qed.

Example C15_demo_start_satisfies_inv : Inv 1 demo_start (cst_of demo_start 0).
Proof. exact demo_inv. Qed.

(* The acceptors reject wrong logs: an unsolicited reply, a reply from another station, a second
   request while one is outstanding, an application asked out of turn. *)
Example C15_contract_rejects_unsolicited_reply :
  ~ accepts (apre 2 0) (apost 0) (AppIdle, KAwaitDataResponse) [HCall (CallReceiveReply 0 5 TShortConf)].
Proof. exact contract_rejects_unsolicited_reply. Qed.

Example C15_contract_rejects_foreign_reply :
  ~ accepts (apre 2 0) (apost 0) (AppWaiting 5, KAwaitDataResponse)
      [HCall (CallReceiveReply 0 5 (TData (mkHeader 2 7 None None (FcResponse RsSlave StOk)) []))].
Proof. exact contract_rejects_foreign_reply. Qed.

Example C15_contract_rejects_second_request :
  ~ accepts (apre 2 0) (apost 0) (AppIdle, KUseToken)
      [HCall (CallTransmit 0 false (Some ([], Some 5))); HCall (CallTransmit 0 false None)].
Proof. exact contract_rejects_second_request. Qed.

Example C15_round_robin_rejects_out_of_turn :
  ~ accepts (rpre 3) (rpost 3) (mkRr KUseToken 0 0)
      [HCall (CallTransmit 0 false None); HCall (CallTransmit 2 false None)].
Proof. exact round_robin_rejects_out_of_turn. Qed.

(* ------------------------------------------------------------------------------------------ *)
(* Which requests await a reply is decided by `RequestType::expects_reply` (regenerated from
   src/fdl/telegram.rs on every run); it is the standard's table: SDA / SRD / multicast SRD / status,
   ident and LSAP requests are answered, SDN and the clock / time-event broadcasts are not. *)
From PB Require Import Tables StdRates StdRatesProofs.
Theorem C15_expects_reply_standard : forall r : req_type, req_expects_reply r = std_expects_reply r.
Proof. exact standard_expects_reply. Qed.
Print Assumptions C15_expects_reply_standard.

(* ------------------------------------------------------------------------------------------ *)
(* ORACLE SOUNDNESS, PARTIAL (Proofs/FdlOracleSound1-5.v; see Properties/C01.v for model_transcript and
   Properties/C13.v for `app_sends_data`): on a transcript of the model, for ALL input histories, the only
   rule of C15 the monitors can report is the liveness rule R15_no_reply_no_timeout (not covered yet).
   Covered: R15_transmit_without_token, R15_transmit_while_outstanding, R15_round_robin (the executable
   acceptor of C15_round_robin in mon_poll2, including R15_asked_after_all_declined), R15_reply_not_requested,
   R15_reply_invalid, R15_timeout_not_requested, R15_await_without_request, R15_not_passed_after_all_declined,
   R15_passed_before_all_declined, R15_cycle_after_hold_time.  This closes the gap noted in C15Proofs between
   the Coq acceptors (which see the station state: fresh_visit) and the executable monitor (which detects a
   pass-to-self from the transmitted token TS -> TS): they agree because witnessing the own pass does not
   change NS (FdlOracleSound4.witness_own_pass_ns).
   FULL: forall r, In (k, r) (monitor ..) -> rule_prop r <> PC15. *)
From PB Require Import Params C05Proofs FdlOracle FdlOracleSound1 FdlOracleSound5.

Theorem C15_oracle_sound_partial : forall (A : Type) (ops : app_ops A) (p : params),
  apps_total A ops -> builder_valid p -> app_sends_data A ops ->
  forall (apps : list A) (ins : list minput), ins_ok 0 ins ->
  forall k r, In (k, r) (monitor p (length apps) (model_transcript A ops p apps ins)) ->
  rule_prop r = PC15 -> r = R15_no_reply_no_timeout.
Proof. exact c15_oracle_sound_partial. Qed.
Print Assumptions C15_oracle_sound_partial.

(* ------------------------------------------------------------------------------------------ *)
(* ORACLE SOUNDNESS, FULL (Proofs/C15Liveness.v on top of FdlOracleSound1-8): on a transcript of the model,
   for ALL input histories, NO rule of C15 fires - the liveness rule R15_no_reply_no_timeout included:
   "in AwaitDataResponse, a poll that is quiet for the monitor (PHY not busy, own transmission over, no RX
   growth, no uncounted bytes) later than one slot time after the monitor's reference instant delivers the
   reply or the time-out (or otherwise acts)".  The proof keeps, while the station waits for a data reply,
   last_bus_activity = Some l with l <= l_ref, l_txend <= l, and pending_bytes covering the PHY buffer
   unless l_spur is set (C15Liveness.WA); then do_await_data_response takes its `None` branch with l
   unchanged, check_slot_expired compares exactly l + Tslot < now, and the time-out callback is made. *)
From PB Require Import C15Liveness.

Theorem C15_oracle_sound : forall (A : Type) (ops : app_ops A) (p : params),
  apps_total A ops -> builder_valid p -> app_sends_data A ops ->
  forall (apps : list A) (ins : list minput), ins_ok 0 ins ->
  forall k r, In (k, r) (monitor p (length apps) (model_transcript A ops p apps ins)) -> rule_prop r <> PC15.
Proof. exact c15_oracle_sound. Qed.
Print Assumptions C15_oracle_sound.
