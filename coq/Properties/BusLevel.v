(* BUS-LEVEL (multi-station) layer of C01 / C02 (global half) / C06 / C13 (global half).
   What is PROVED here: (a) the boolean trace monitors that are run on the traces of N real stations
   (harness domain `bus`) are sound w.r.t. the declarative predicates of Model/Bus.v; (b) the abstract
   assume/guarantee composition theorem for collision freedom; (c) a trace accepted by the C13
   hold-rule monitor yields a rotation trace that obeys the hold rule, hence the rotation bound.
   What is NOT proved: that the N real stations (or N copies of the single-station model) satisfy
   the monitors / the hypotheses of C01_compose for every schedule - that part is a TEST (the
   monitors run on generated scenarios).  To be merged into Properties/C01.v, C02.v, C06.v, C13.v.
   Theorem statements only; every proof is `exact <lemma of Proofs/BusProofs.v>`. *)
From PB Require Import Common Telegram Params Rotation Bus BusOracle RotationBound BusProofs.

(* ------------------------------------------------------------------------------------ C01 *)

(* The overlap monitor accepts => no two transmissions of the trace overlap in time. *)
Theorem C01_no_overlap_monitor_sound : forall (tr : trace),
  c01_no_overlap_b tr = true ->
  forall i j x y, i <> j -> nth_error tr i = Some x -> nth_error tr j = Some y ->
  disjoint (interval x) (interval y).
Proof. exact c01_no_overlap_sound. Qed.
Print Assumptions C01_no_overlap_monitor_sound.

(* The idle-time monitor accepts => every transmission starts at least 33 bit times - 11 bit times
   if it is the reply to the request right before it - minus 1 us (`rate c`, scaled) after the end
   of EVERY earlier transmission of the trace. *)
Theorem C01_idle_monitor_sound : forall (c : buscfg) (tr : trace),
  c01_idle_b c tr = true ->
  forall i j x y, (i < j)%nat -> nth_error tr i = Some x -> nth_error tr j = Some y ->
  end_sc x + idle_need (prev_of tr j) y <= start_sc y + rate c.
Proof. exact c01_idle_sound. Qed.
Print Assumptions C01_idle_monitor_sound.

(* Up to 6 Mbit/s (1 us <= 11 bit times) the idle times alone exclude every overlap. *)
Theorem C01_idle_times_no_overlap : forall (c : buscfg) (tr : trace),
  rate c <= 11 * M -> idle_times c tr -> no_overlap tr.
Proof. exact idle_times_no_overlap. Qed.
Print Assumptions C01_idle_times_no_overlap.

(* The who-may-transmit monitor accepts => every transmission is justified, in the abstract state
   (token holder, last transmission, latest end) derived from the trace before it, as token-holder
   traffic, token pass, retry of the own token pass after a slot time of silence, reply to the
   request addressed to the sender, or claim after the sender's own silence time-out. *)
Theorem C01_who_monitor_sound : forall (c : buscfg) (tr : trace),
  c01_who_b c tr = true ->
  forall k y, nth_error tr k = Some y -> exists cl, justified c (w_after (firstn k tr)) y cl.
Proof. exact c01_who_sound. Qed.
Print Assumptions C01_who_monitor_sound.

(* What the driver excuses is exactly the claim race of DESIGN section 5: the C01 monitors run on
   the prefix `pre`; either that is the whole trace, or the trace continues with two claim telegrams
   x, y of different stations, y less than one character time after x, both after their senders'
   silence time-outs, at least one of the senders online for less time than the medium was silent. *)
Theorem C01_claim_race_cut_sound : forall (c : buscfg) (tr pre : trace) (b : bool),
  c01_cut c tr = (pre, b) ->
  (b = false -> pre = tr) /\
  (b = true -> exists x y post, tr = pre ++ x :: y :: post /\ claim_race c (w_after pre) x y).
Proof. exact c01_cut_sound. Qed.
Print Assumptions C01_claim_race_cut_sound.

(* C01_compose (abstract, over any timed trace).  STATIONS: every transmission is made by a station
   that is entitled by the transmissions it has noticed (S_entitled), leaves its idle time after
   each of them (S_idle) and has noticed its own (S_own).  PROTOCOL: one prefix entitles at most one
   station at a time (E_unique), and entitlements of different stations by the same prefix are at
   least `react` apart (E_windows).  MEDIUM / SCHEDULE: the trace is ordered by start times, a
   station notices only what began before (M_causal), and everything that began `react` earlier
   (M_visible).  THEN every transmitter was up to date, the idle times hold against every earlier
   transmission, and (idle times being non-negative) no two transmissions overlap. *)
Theorem C01_compose : forall (T : Type) (sender start fin : T -> Z) (idle : nat -> Z)
    (entitled : list T -> Z -> Z -> Prop) (react : Z) (tr : list T) (seen : nat -> nat),
  (forall i j x y, (i < j)%nat -> nth_error tr i = Some x -> nth_error tr j = Some y -> start x <= start y) ->
  (forall k y, nth_error tr k = Some y -> entitled (firstn (seen k) tr) (start y) (sender y)) ->
  (forall k y j x, nth_error tr k = Some y -> (j < seen k)%nat -> nth_error tr j = Some x ->
     fin x + idle k <= start y) ->
  (forall j k x y, (j < k)%nat -> nth_error tr j = Some x -> nth_error tr k = Some y ->
     sender x = sender y -> (j < seen k)%nat) ->
  (forall pre t a b, entitled pre t a -> entitled pre t b -> a = b) ->
  (forall pre t t' a b, entitled pre t a -> entitled pre t' b -> a <> b -> t < t' -> t + react <= t') ->
  (forall k y, nth_error tr k = Some y -> (seen k <= k)%nat) ->
  (forall j k x y, (j < k)%nat -> nth_error tr j = Some x -> nth_error tr k = Some y ->
     start x + react <= start y -> (j < seen k)%nat) ->
  (forall k, 0 <= idle k) ->
  (forall k y, nth_error tr k = Some y -> seen k = k) /\
  (forall i j x y, (i < j)%nat -> nth_error tr i = Some x -> nth_error tr j = Some y ->
     fin x + idle j <= start y) /\
  (forall i j x y, i <> j -> nth_error tr i = Some x -> nth_error tr j = Some y ->
     fin x <= start y \/ fin y <= start x).
Proof.
  exact (fun T sender start fin idle entitled react tr seen Hs He Hi Ho Hu Hw Hc Hv Hp =>
           conj (compose_up_to_date T sender start entitled react tr seen Hs He Ho Hu Hw Hc Hv)
          (conj (compose_idle T sender start fin idle entitled react tr seen Hs He Hi Ho Hu Hw Hc Hv)
                (compose_no_overlap T sender start fin idle entitled react tr seen Hs He Hi Ho Hu Hw Hc Hv Hp))).
Qed.
Print Assumptions C01_compose.

(* The same on bus traces, with the predicates the monitors are proved sound for. *)
Theorem C01_compose_bus : forall (c : buscfg) (entitled : trace -> Z -> Z -> Prop) (react : Z)
    (tr : trace) (seen : nat -> nat),
  (forall i j x y, (i < j)%nat -> nth_error tr i = Some x -> nth_error tr j = Some y -> start_sc x <= start_sc y) ->
  (forall k y, nth_error tr k = Some y -> entitled (firstn (seen k) tr) (start_sc y) (tx_sender y)) ->
  (forall k y j x, nth_error tr k = Some y -> (j < seen k)%nat -> nth_error tr j = Some x ->
     end_sc x + (idle_need (prev_of tr k) y - rate c) <= start_sc y) ->
  (forall j k x y, (j < k)%nat -> nth_error tr j = Some x -> nth_error tr k = Some y ->
     tx_sender x = tx_sender y -> (j < seen k)%nat) ->
  (forall pre t a b, entitled pre t a -> entitled pre t b -> a = b) ->
  (forall pre t t' a b, entitled pre t a -> entitled pre t' b -> a <> b -> t < t' -> t + react <= t') ->
  (forall k y, nth_error tr k = Some y -> (seen k <= k)%nat) ->
  (forall j k x y, (j < k)%nat -> nth_error tr j = Some x -> nth_error tr k = Some y ->
     start_sc x + react <= start_sc y -> (j < seen k)%nat) ->
  idle_times c tr /\ (rate c <= 11 * M -> no_overlap tr).
Proof. exact compose_bus. Qed.
Print Assumptions C01_compose_bus.

(* ------------------------------------------------------------------------------------ C02 / C06 *)

(* The rotation monitor accepts => the population R has distinct addresses and the token passes go
   round R: pass number i goes from the (k0+i)-th member of R to the (k0+i+1)-th, cyclically. *)
Theorem C02_rotation_monitor_sound : forall (R : list Z) (ps : list (Z * Z)),
  c02_rot_b R ps = true ->
  NoDup R /\
  (ps = [] \/ exists k0, forall i sa da, nth_error ps i = Some (sa, da) ->
     nth_error R ((k0 + i) mod length R) = Some sa /\
     nth_error R ((k0 + i + 1) mod length R) = Some da).
Proof. exact c02_rot_sound. Qed.
Print Assumptions C02_rotation_monitor_sound.

(* ... hence every window of |R| consecutive token passes is sent by a rotation of the (ascending)
   population: every online station exactly once per rotation, in ascending address order. *)
Theorem C02_rotation_windows : forall (R : list Z) (ps : list (Z * Z)),
  c02_rot_b R ps = true -> ps <> [] ->
  exists k0, forall i, (i + length R <= length ps)%nat ->
    map fst (firstn (length R) (skipn i ps)) =
    skipn ((k0 + i) mod length R) R ++ firstn ((k0 + i) mod length R) R.
Proof. exact (fun R ps H => rotations_windows R ps (proj2 (c02_rot_sound R ps H))). Qed.
Print Assumptions C02_rotation_windows.

(* A sampled ring view accepted by the view monitor: in the ring, LAS = population, NS / PS the
   cyclic neighbours. *)
Theorem C02_view_monitor_sound : forall (R : list Z) (v : view),
  view_okb R v = true ->
  v_in_ring v = true /\ v_las v = R /\ cyc_succ R (v_addr v) (v_ns v) /\ cyc_succ R (v_ps v) (v_addr v).
Proof. exact view_okb_sound. Qed.
Print Assumptions C02_view_monitor_sound.

(* The silence time-out the monitors use is the property's 6 Tslot + 2 * address * Tslot, and it is
   the one of the code (constants regenerated from src/fdl/parameters.rs). *)
Theorem C06_timeout_is_the_codes : forall (c : buscfg) (a : Z),
  t_lost_bits c a = c_slot c * (token_lost_base + token_lost_per_addr * a).
Proof. exact (fun c a => eq_refl). Qed.
Print Assumptions C06_timeout_is_the_codes.

(* Known class F13 (two stations alone in lock-step): what the driver excuses has that signature. *)
Theorem C06_known_F13_signature : forall (ps : list (Z * Z)),
  two_self_holders_b ps = true -> exists a b, a <> b /\ In (a, a) ps /\ In (b, b) ps.
Proof. exact two_self_holders_sound. Qed.
Print Assumptions C06_known_F13_signature.

(* ------------------------------------------------------------------------------------ C13 *)

(* A list of visits accepted by the hold-rule monitor IS a rotation trace (Model/Rotation.v) that
   obeys the hold rule ... *)
Theorem C13_hold_monitor_rotation_trace : forall (n : nat) (TTR C O : Z) (vs : list visit),
  0 <= C -> 0 <= O -> c13_hold_b n TTR C O vs = true ->
  trace_wf (rt_of n vs) /\ obeys_hold_rule (rt_of n vs) TTR C O.
Proof. exact (fun n TTR C O vs HC HO H => conj (c13_hold_wf n TTR C O vs H) (c13_hold_obeys n TTR C O vs HC HO H)). Qed.
Print Assumptions C13_hold_monitor_rotation_trace.

(* ... hence (rotation_bound) every station has the token back within TTR + N (C + O). *)
Theorem C13_hold_monitor_rotation_bound : forall (n : nat) (TTR C O : Z) (vs : list visit),
  0 <= TTR -> 0 <= C -> 0 <= O -> c13_hold_b n TTR C O vs = true ->
  forall v, (n <= v)%nat -> (v + n < length vs)%nat ->
  v_end vs (v + n) - v_end vs v <= TTR + Z.of_nat n * (C + O).
Proof. exact c13_hold_rotation_bounded. Qed.
Print Assumptions C13_hold_monitor_rotation_bound.

(* The directly checked bound can therefore never fail where the hold-rule monitor accepts. *)
Theorem C13_hold_implies_bound_monitor : forall (n : nat) (TTR C O : Z) (vs : list visit),
  0 <= TTR -> 0 <= C -> 0 <= O -> c13_hold_b n TTR C O vs = true ->
  c13_bound_b n (TTR + Z.of_nat n * (C + O)) vs = true.
Proof. exact c13_hold_implies_bound_b. Qed.
Print Assumptions C13_hold_implies_bound_monitor.

(* ------------------------------------------------------------------------------------ non-vacuity *)

(* a two-station start-up at 500 kbit/s, Tslot = 200 bit (scaled times): claim of station 1 after its
   time-out (8 Tslot), second claim telegram, GAP poll of 2, its reply, pass to 2, pass back *)
Definition ex_cfg : buscfg := mkCfg B500000 200 8 1 40000 2 0 false.
Definition ex_trace : trace :=
  [ mkTx 1 1600000000 0 [220; 1; 1];
    mkTx 1 1700000000 0 [220; 1; 1];
    mkTx 1 1800000000 0 [16; 2; 1; 73; 76; 22];
    mkTx 2 1900000000 0 [16; 1; 2; 32; 35; 22];
    mkTx 1 2000000000 0 [220; 2; 1];
    mkTx 2 2100000000 0 [220; 1; 2];
    mkTx 1 2200000000 0 [220; 2; 1];
    mkTx 2 2300000000 0 [220; 1; 2] ].

Example bus_example_accepted :
  c01_no_overlap_b ex_trace = true /\ c01_idle_b ex_cfg ex_trace = true /\ c01_who_b ex_cfg ex_trace = true /\
  c01_cut ex_cfg ex_trace = (ex_trace, false) /\
  c02_rot_b [1; 2] (passes (skipn 4 ex_trace)) = true /\
  c13_hold_b 2 (sc_bits 40000) (sc_bits 1100) (sc_bits 33) (visits (skipn 4 ex_trace)) = true.
Proof. vm_compute. repeat split; reflexivity. Qed.

(* an unjustified transmission is rejected: station 2 passes a token it does not hold *)
Example bus_example_rejected :
  c01_who_b ex_cfg (firstn 3 ex_trace ++ [mkTx 2 1900000000 0 [220; 1; 2]]) = false /\
  c01_no_overlap_b [mkTx 1 0 0 [220; 1; 1]; mkTx 2 20000000 0 [220; 2; 2]] = false.
Proof. vm_compute. split; reflexivity. Qed.

(* the hypotheses of C01_compose are satisfiable *)
Example compose_hypotheses_satisfiable :
  let sender := fun x : ex_T => fst (fst x) in
  let start := fun x : ex_T => snd (fst x) in
  let fin := fun x : ex_T => snd x in
  (forall i j x y, (i < j)%nat -> nth_error ex_tr i = Some x -> nth_error ex_tr j = Some y -> start x <= start y) /\
  (forall k y, nth_error ex_tr k = Some y -> ex_entitled (firstn k ex_tr) (start y) (sender y)) /\
  (forall k y j x, nth_error ex_tr k = Some y -> (j < k)%nat -> nth_error ex_tr j = Some x -> fin x + 5 <= start y) /\
  (forall pre t a b, ex_entitled pre t a -> ex_entitled pre t b -> a = b) /\
  (forall pre t t' a b, ex_entitled pre t a -> ex_entitled pre t' b -> a <> b -> t < t' -> t + 1 <= t').
Proof. exact compose_example. Qed.

(* ========================================================================================== *)
(* THE COMPOSED N-STATION MODEL (Model/Multi.v, Proofs/MultiProofs.v).
   `multi_run A ops M s0 sc`: N copies of the single-station model Fdl.poll (any N, each with its own
   parameters and any number of applications `ops`), on a shared medium M, driven by a schedule sc (list of
   (station index, set_online | set_offline | poll at time now)).  M is an ARBITRARY function
   history -> station index -> time -> (new receive bytes, transmitter busy): every theorem below is
   universally quantified over it - a medium that loses, corrupts, delays, duplicates or invents bytes
   included; `medium_bytes M` only says that what it delivers are octets.  `multi_init cfg` creates the
   stations (FdlActiveStation::new) from cfg : list (parameters, applications).  Every station keeps a log
   (st_log: inputs, state before / after, outputs of every call); `transcript st` is the event list the
   single-station check builds (Model/FdlOracle.v).
   Schedule hypotheses: `sched_time_ok sc` - poll times in [0, 2^62) - for C05; `sched_ok (fun _ => 0) sc` -
   per station the poll times are > 0, < 2^62 and strictly increasing (no relation between different
   stations' clocks is asked for) - for the monitors.  `cfg_valid cfg`: every parameter set is one the builder
   can produce.  apps_total / app_sends_data / app_sends_requests as in C05.v / C13.v / C12.v.
   WHAT THIS GIVES: every station-local guarantee (C05; the station-local rule sets of C01 C06 C11 C12 C13
   C15; the hold rule per visit) holds of every station of the composed system, for every N, medium and
   schedule.  WHAT IT DOES NOT GIVE: the global halves - at most one token holder, no two transmissions
   overlapping on the medium, rotation order and rotation time of the N-station ring; those remain with the
   bus-level monitors above (tests) and the conditional theorems C01_compose / C13_rotation_bound_stations
   (whose per-station hypothesis `station_history` is discharged by C13_multi_station_history below). *)
From PB Require Import Fdl FdlOracle FdlProofs C05Proofs C01Proofs C06Proofs C13Proofs C15Proofs C13Visits.
From PB Require Import FdlOracleSound1 FdlOracleSound5 FdlOracleSound11 Multi MultiProofs.

(* (a) C05 for the composed system: it can be created and the run returns `Ok tt` - no station reaches a
   panic site or exhausts a loop bound - and every station satisfies Rep afterwards. *)
Theorem C05_multi_never_panics : forall (A : Type) (ops : app_ops A) (M : medium),
  medium_bytes M -> apps_total A ops ->
  forall (cfg : list (params * list A)) (sc : schedule), cfg_valid A cfg -> sched_time_ok sc ->
  exists s0 s', multi_init A cfg = Ok s0 /\ multi_run A ops M s0 sc = (s', Ok tt) /\
    forall i st, nth_error (sys_st s') i = Some st -> Rep (length (st_apps st)) (st_f st).
Proof. exact multi_run_never_panics. Qed.
Print Assumptions C05_multi_never_panics.

(* (b) NO hypotheses: whatever the medium and the schedule do, and whether or not a call panics, the
   transcript of station i of the composed system IS the single-station model transcript of the i-th
   configured station under the inputs it was given (station_inputs: its API calls and, per poll, time,
   busy flag and new bytes as supplied by the medium), and every poll record of its log is a poll of the
   single-station model. *)
Theorem Multi_station_transcripts : forall (A : Type) (ops : app_ops A) (M : medium)
    (cfg : list (params * list A)) (s0 : sys A) (sc : schedule) (s' : sys A) (r : res unit),
  multi_init A cfg = Ok s0 -> multi_run A ops M s0 sc = (s', r) ->
  forall i st, nth_error (sys_st s') i = Some st ->
  nth_error cfg i = Some (st_p st, st_apps0 st) /\
  transcript st = model_transcript A ops (st_p st) (st_apps0 st) (station_inputs st) /\
  Forall (rec_poll A ops) (st_log st) /\ fdl_new (st_p st) = Ok (st_f0 st).
Proof. exact multi_run_station_transcripts. Qed.
Print Assumptions Multi_station_transcripts.

(* ... and these inputs are admissible in the sense of the single-station soundness theorems (ins_ok). *)
Theorem Multi_station_inputs_ok : forall (A : Type) (ops : app_ops A) (M : medium), medium_bytes M ->
  forall (cfg : list (params * list A)) (s0 : sys A) (sc : schedule) (s' : sys A) (r : res unit),
  multi_init A cfg = Ok s0 -> sched_ok (fun _ => 0) sc -> multi_run A ops M s0 sc = (s', r) ->
  forall i st, nth_error (sys_st s') i = Some st -> ins_ok 0 (station_inputs st).
Proof. exact multi_run_station_inputs_ok. Qed.
Print Assumptions Multi_station_inputs_ok.

(* (c) The executable per-station monitors of Model/FdlOracle.v (all rules of C01 C05 C06 C11 C12 C13 C15)
   report NOTHING on any station of the composed system. *)
Theorem Multi_monitors_silent : forall (A : Type) (ops : app_ops A) (M : medium),
  medium_bytes M -> apps_total A ops -> app_sends_data A ops ->
  forall (cfg : list (params * list A)) (s0 : sys A) (sc : schedule) (s' : sys A) (r : res unit),
  app_sends_requests A ops -> cfg_valid A cfg -> sched_ok (fun _ => 0) sc ->
  multi_init A cfg = Ok s0 -> multi_run A ops M s0 sc = (s', r) ->
  forall i st, nth_error (sys_st s') i = Some st ->
  monitor (st_p st) (length (st_apps0 st)) (transcript st) = [].
Proof. exact multi_monitors_silent. Qed.
Print Assumptions Multi_monitors_silent.

(* without app_sends_requests: nothing but rules of C12 (the status-reply rules) can be reported - in
   particular no rule of C01, C06, C13 *)
Theorem Multi_monitors_c01_c06_c13 : forall (A : Type) (ops : app_ops A) (M : medium),
  medium_bytes M -> apps_total A ops -> app_sends_data A ops ->
  forall (cfg : list (params * list A)) (s0 : sys A) (sc : schedule) (s' : sys A) (r : res unit),
  cfg_valid A cfg -> sched_ok (fun _ => 0) sc ->
  multi_init A cfg = Ok s0 -> multi_run A ops M s0 sc = (s', r) ->
  forall i st, nth_error (sys_st s') i = Some st ->
  forall k rl, In (k, rl) (monitor (st_p st) (length (st_apps0 st)) (transcript st)) -> rule_prop rl = PC12.
Proof. exact multi_monitors_but_c12. Qed.
Print Assumptions Multi_monitors_c01_c06_c13.

(* with total applications only (they may put anything on the wire): no rule of C01, none of C05 *)
Theorem Multi_monitors_c01_c05 : forall (A : Type) (ops : app_ops A) (M : medium),
  medium_bytes M -> apps_total A ops ->
  forall (cfg : list (params * list A)) (s0 : sys A) (sc : schedule) (s' : sys A) (r : res unit),
  cfg_valid A cfg -> sched_ok (fun _ => 0) sc ->
  multi_init A cfg = Ok s0 -> multi_run A ops M s0 sc = (s', r) ->
  forall i st, nth_error (sys_st s') i = Some st ->
  forall k rl, In (k, rl) (monitor (st_p st) (length (st_apps0 st)) (transcript st)) ->
  rule_prop rl <> PC01 /\ rule_prop rl <> PC05.
Proof. exact multi_monitors_c01_c05. Qed.
Print Assumptions Multi_monitors_c01_c05.

(* (d) C01, station-local half, per poll of the composed system.  NO hypotheses: a station hands something
   to its PHY only in a poll in which the medium reported its transmitter idle and in which its
   last_bus_activity (latest RX growth, received telegram, or predicted end of its own transmission it has
   recorded) is more than 33 bit times in the past. *)
Theorem C01_multi_sync_pause : forall (A : Type) (ops : app_ops A) (M : medium)
    (cfg : list (params * list A)) (s0 : sys A) (sc : schedule) (s' : sys A) (r : res unit),
  multi_init A cfg = Ok s0 -> multi_run A ops M s0 sc = (s', r) ->
  forall i st, nth_error (sys_st s') i = Some st ->
  forall now busy nb rxb f f' o calls wire,
  In (SPoll now busy nb rxb f f' o calls) (st_log st) -> tx o = Some wire ->
  busy = false /\ exists l, f_lba f = Some l /\ l + p_bits_to_time (f_p f) sync_pause_bits < now.
Proof. exact multi_c01_sync_pause. Qed.
Print Assumptions C01_multi_sync_pause.

(* ... and (hypotheses of C05_multi_never_panics) the station is then entitled in its own view:
   `may_transmit` is the disjunction of C01_who_may_transmit. *)
Theorem C01_multi_who_may_transmit : forall (A : Type) (ops : app_ops A) (M : medium)
    (cfg : list (params * list A)) (s0 : sys A) (sc : schedule) (s' : sys A) (r : res unit),
  medium_bytes M -> apps_total A ops -> cfg_valid A cfg -> sched_time_ok sc ->
  multi_init A cfg = Ok s0 -> multi_run A ops M s0 sc = (s', r) ->
  forall i st, nth_error (sys_st s') i = Some st ->
  forall now busy nb rxb f f' o calls wire,
  In (SPoll now busy nb rxb f f' o calls) (st_log st) -> tx o = Some wire ->
  f_p f = st_p st /\ may_transmit f now.
Proof. exact multi_c01_who_may_transmit. Qed.
Print Assumptions C01_multi_who_may_transmit.

(* (d) C13, station-local half.  NO hypotheses: the hold rule per poll (C13_hold_rule_poll). *)
Theorem C13_multi_hold_rule : forall (A : Type) (ops : app_ops A) (M : medium)
    (cfg : list (params * list A)) (s0 : sys A) (sc : schedule) (s' : sys A) (r : res unit),
  multi_init A cfg = Ok s0 -> multi_run A ops M s0 sc = (s', r) ->
  forall i st, nth_error (sys_st s') i = Some st ->
  forall now busy nb rxb f f' o calls,
  In (SPoll now busy nb rxb f f' o calls) (st_log st) ->
  exists hp, Forall (prio_of hp) calls /\
    (asks calls ->
     if hp then (exists tk fa, f_state f = UseToken tk fa false) /\ f_end_tht f' <= now
     else now < f_end_tht f').
Proof. exact multi_c13_hold_rule. Qed.
Print Assumptions C13_multi_hold_rule.

(* The history of every station of a composed run that returned (station_hitems: callbacks and state after
   each poll, HReset per set_offline, read off the log) is a `station_history` - the per-station
   hypothesis of C13_rotation_bound_stations is discharged by the composed model ... *)
Theorem C13_multi_station_history : forall (A : Type) (ops : app_ops A) (M : medium)
    (cfg : list (params * list A)) (s0 : sys A) (sc : schedule) (s' : sys A),
  medium_bytes M -> sched_ok (fun _ => 0) sc ->
  multi_init A cfg = Ok s0 -> multi_run A ops M s0 sc = (s', Ok tt) ->
  forall i st, nth_error (sys_st s') i = Some st ->
  C15Proofs.run A ops (st_f0 st) (st_apps0 st) (station_events A st) = Ok (st_f st, st_apps st, station_hitems A st) /\
  station_history (st_p st) (station_hitems A st).
Proof. exact multi_c13_station_history. Qed.
Print Assumptions C13_multi_station_history.

(* ... and every token visit of every station obeys the hold rule (sv_ok: C13_station_visits_ok), consecutive
   visits are linked (C13_visits_linked). *)
Theorem C13_multi_visits_ok : forall (A : Type) (ops : app_ops A) (M : medium)
    (cfg : list (params * list A)) (s0 : sys A) (sc : schedule) (s' : sys A),
  medium_bytes M -> cfg_valid A cfg -> sched_ok (fun _ => 0) sc ->
  multi_init A cfg = Ok s0 -> multi_run A ops M s0 sc = (s', Ok tt) ->
  forall i st, nth_error (sys_st s') i = Some st ->
  Forall (sv_ok (token_rotation_time (st_p st))) (visits_of (station_hitems A st)) /\
  linked (visits_of (station_hitems A st)).
Proof. exact multi_c13_visits_ok. Qed.
Print Assumptions C13_multi_visits_ok.

(* (d) C06, station-local half: a station of the composed system enters ClaimToken only after its own
   time-out of silence (6 + 2 TS) Tslot, with no new receive bytes in that poll ... *)
Theorem C06_multi_claim_needs_silence : forall (A : Type) (ops : app_ops A) (M : medium)
    (cfg : list (params * list A)) (s0 : sys A) (sc : schedule) (s' : sys A) (r : res unit),
  medium_bytes M -> apps_total A ops -> cfg_valid A cfg -> sched_time_ok sc ->
  multi_init A cfg = Ok s0 -> multi_run A ops M s0 sc = (s', r) ->
  forall i st, nth_error (sys_st s') i = Some st ->
  forall now busy nb rxb f f' o calls,
  In (SPoll now busy nb rxb f f' o calls) (st_log st) ->
  kind_of (f_state f) <> KClaimToken -> kind_of (f_state f') = KClaimToken ->
  (length rxb <= f_pending f)%nat /\
  exists l, f_lba f = Some l /\ l < now /\ token_lost_timeout (st_p st) <= now - l.
Proof. exact multi_c06_claim_needs_silence. Qed.
Print Assumptions C06_multi_claim_needs_silence.

(* ... and (NO hypotheses) a station waiting for an answer that finds any other complete telegram - e.g.
   another station's token - gives the token up in that poll (C06_backoff). *)
Theorem C06_multi_backoff : forall (A : Type) (ops : app_ops A) (M : medium)
    (cfg : list (params * list A)) (s0 : sys A) (sc : schedule) (s' : sys A) (r : res unit),
  multi_init A cfg = Ok s0 -> multi_run A ops M s0 sc = (s', r) ->
  forall i st, nth_error (sys_st s') i = Some st ->
  forall now busy nb rxb f f' o calls t n,
  In (SPoll now busy nb rxb f f' o calls) (st_log st) ->
  unexpected_for f t -> busy = false -> C11Proofs.predicted f now = false ->
  DecodeSpec.decode_spec rxb = Accept t n ->
  f_state f' = ActiveIdle None None 0 /\ o = mkPhyOut None (skipn n rxb) /\ calls = [] /\ f_ring f' = f_ring f.
Proof. exact multi_c06_backoff. Qed.
Print Assumptions C06_multi_backoff.

(* non-vacuity: the concrete medium `ideal_medium rate` (byte timing of harness/src/bus.rs) delivers octets;
   the two-station example of Model/Multi.v (Multi.ex2_token_exchange: the stations exchange the token;
   Multi.ex2_monitors_silent: the executable monitors accept both transcripts) satisfies every hypothesis. *)
Theorem Multi_ideal_medium_bytes : forall rate : Z, medium_bytes (ideal_medium rate).
Proof. exact ideal_medium_bytes. Qed.
Print Assumptions Multi_ideal_medium_bytes.

Example Multi_hypotheses_satisfiable :
  cfg_valid unit ex2_cfg /\ sched_ok (fun _ => 0) (ex2_schedule 300) /\ apps_total unit unit_app_ops /\
  medium_bytes (ideal_medium 500000).
Proof. exact ex2_hypotheses. Qed.

(* ------------------------------------------------------------------------------------ STRETCH *)
(* A GLOBAL fact, on the concrete medium ideal_medium (Proofs/MultiHandover.v): token hand-over between
   two stations ia, ib of a composed system of any size.  Multi_ideal_delivers_rest: the medium's answer
   in the situation "last transmission on the medium is w by ia at t0, everything earlier was delivered to
   ib by its previous poll at tp, nobody transmitted since, w is complete at t1".
   Multi_handover_step_partial: ia has transmitted the token telegram to ib and supervises its pass
   (CheckTokenPass - not a token holder in its own view); ib idles in the ring (ActiveIdle, no status request
   pending) with ia as registered predecessor and the already arrived part of the telegram in its buffer.
   Then ib's poll at a time t1 at which the telegram is complete returns, transmits nothing, makes ib the
   token holder in its own view (UseToken t1) and leaves ia as it was: after the step exactly one of the two
   holds the token.
   PARTIAL: one global step, not an invariant.  Missing towards token uniqueness (at most one station with
   have_token in every reachable state): an inductive invariant tying all stations' views to the medium's
   history (through claims, GAP polls, retries, removals; a receiver that is itself still in CheckTokenPass,
   as in a two-station ring, is handled by the code but not by this lemma), under assumptions that make it
   true - loss-free medium, poll period small against Tslot, distinct addresses (cf. known classes F20 / F21). *)
From PB Require Import MultiHandover.

Theorem Multi_ideal_delivers_rest : forall (rate : Z) (h0 h1 : history) (ia ib : nat) (t0 tp t1 : Z) (w : bytes),
  ia <> ib -> all_bytes w ->
  last_poll (h0 ++ mkH ia t0 (Some w) :: h1) ib = Some tp ->
  Forall (fun x => h_tx x = None) h1 ->
  bytes_by rate t0 (length w) t1 = length w ->
  (forall x w', In x h0 -> h_who x <> ib -> h_tx x = Some w' -> bytes_by rate (h_now x) (length w') tp = length w') ->
  (forall x w', In x h0 -> h_who x = ib -> h_tx x = Some w' -> tx_end rate (h_now x) (length w') <= t1) ->
  ideal_medium rate (h0 ++ mkH ia t0 (Some w) :: h1) ib t1 = (skipn (bytes_by rate t0 (length w) tp) w, false).
Proof. exact ideal_delivers_rest. Qed.
Print Assumptions Multi_ideal_delivers_rest.

Theorem Multi_handover_step_partial : forall (A : Type) (ops : app_ops A), apps_total A ops ->
  forall (rate : Z) (s : sys A) (ia ib : nat) (sta stb : station A) (h0 h1 : history) (t0 tp t1 : Z)
         (nps : option Z) (cc : Z) (s' : sys A) (r : res unit),
  let fa := st_f sta in let fb := st_f stb in
  ia <> ib -> nth_error (sys_st s) ia = Some sta -> nth_error (sys_st s) ib = Some stb ->
  sys_hist s = h0 ++ mkH ia t0 (Some (encode_token (ts fb) (ts fa))) :: h1 -> Forall (fun x => h_tx x = None) h1 ->
  kind_of (f_state fa) = KCheckTokenPass -> Rep (length (st_apps sta)) fa ->
  Rep (length (st_apps stb)) fb -> f_conn fb = ConnOnline -> f_state fb = ActiveIdle None nps cc ->
  r_ps (f_ring fb) = ts fa -> ts fa <> ts fb ->
  st_buf stb = firstn (bytes_by rate t0 3 tp) (encode_token (ts fb) (ts fa)) -> (f_pending fb < 3)%nat ->
  (forall l, f_lba fb = Some l -> l < t1) -> time_ok t1 ->
  last_poll (sys_hist s) ib = Some tp -> bytes_by rate t0 3 t1 = 3%nat ->
  (forall x w', In x h0 -> h_who x <> ib -> h_tx x = Some w' -> bytes_by rate (h_now x) (length w') tp = length w') ->
  (forall x w', In x h0 -> h_who x = ib -> h_tx x = Some w' -> tx_end rate (h_now x) (length w') <= t1) ->
  multi_step A ops (ideal_medium rate) s (ib, ActPoll t1) = (s', r) ->
  r = Ok tt /\
  nth_error (sys_st s') ia = Some sta /\ have_token (f_state (st_f sta)) = false /\
  exists stb', nth_error (sys_st s') ib = Some stb' /\
    f_state (st_f stb') = UseToken t1 None false /\ have_token (f_state (st_f stb')) = true /\
    st_buf stb' = [] /\ sys_hist s' = sys_hist s ++ [mkH ib t1 None] /\
    exists f0, In (SPoll t1 false (skipn (bytes_by rate t0 3 tp) (encode_token (ts fb) (ts fa)))
                         (encode_token (ts fb) (ts fa)) fb f0 (mkPhyOut None []) []) (st_log stb').
Proof. exact handover_step_partial. Qed.
Print Assumptions Multi_handover_step_partial.

(* non-vacuity of Multi_handover_step_partial: the two-station example run of Model/Multi.v (ideal medium,
   500 kbit/s) is, after 163 polls, in a state satisfying every hypothesis - station 1 (index 0) handed the
   token telegram to its PHY at t0 = 6440 us; index 1 polled at tp = 6480 and found the first byte [220];
   index 0 polled at 6520; at t1 = 6560 the telegram is complete. *)
Example Multi_handover_hypotheses_satisfiable :
  exists sta stb h0 h1,
    let fa := st_f sta in let fb := st_f stb in
    nth_error (sys_st ex2_s163) 0 = Some sta /\ nth_error (sys_st ex2_s163) 1 = Some stb /\
    sys_hist ex2_s163 = h0 ++ mkH 0 6440 (Some (encode_token (ts fb) (ts fa))) :: h1 /\
    Forall (fun x => h_tx x = None) h1 /\
    kind_of (f_state fa) = KCheckTokenPass /\ Rep (length (st_apps sta)) fa /\
    Rep (length (st_apps stb)) fb /\ f_conn fb = ConnOnline /\ f_state fb = ActiveIdle None None 0 /\
    r_ps (f_ring fb) = ts fa /\ ts fa <> ts fb /\
    st_buf stb = firstn (bytes_by 500000 6440 3 6480) (encode_token (ts fb) (ts fa)) /\ st_buf stb = [220] /\
    (f_pending fb < 3)%nat /\ (forall l, f_lba fb = Some l -> l < 6560) /\ time_ok 6560 /\
    last_poll (sys_hist ex2_s163) 1 = Some 6480 /\ bytes_by 500000 6440 3 6560 = 3%nat /\
    (forall x w', In x h0 -> h_who x <> 1%nat -> h_tx x = Some w' -> bytes_by 500000 (h_now x) (length w') 6480 = length w') /\
    (forall x w', In x h0 -> h_who x = 1%nat -> h_tx x = Some w' -> tx_end 500000 (h_now x) (length w') <= 6560).
Proof. exact ex2_handover_hypotheses. Qed.
