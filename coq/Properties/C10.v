(* C10 - The decoder is total, prefix-consistent and never mis-accepts damaged frames. *)
From PB Require Import Common Telegram CodecOracle DecodeSpec C09Proofs.

(* For every byte string the decoder terminates without panicking (the decoder has no loop, so
   there is no fuel): it asks for more data, rejects, or returns a telegram. *)
Theorem C10_total : forall l : bytes, exists r : dres, decode l = Ok r.
Proof. exact (fun l => ex_intro _ (decode_spec l) (decode_is_spec l)). Qed.
Print Assumptions C10_total.
