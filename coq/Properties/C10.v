(* C10 - The decoder is total, prefix-consistent and never mis-accepts damaged frames.
   Theorem statements only; every proof is `exact <lemma of Proofs/>`.
   All theorems quantify over ALL byte lists (no length bound); `all_bytes l` (every element in
   0..255) is assumed only where a statement is about byte values. *)
From PB Require Import Common Telegram CodecOracle DecodeSpec C09Proofs C10Proofs.

(* For every byte string the decoder terminates without panicking (the decoder has no loop, so
   there is no fuel): it asks for more data, rejects, or returns a telegram. *)
Theorem C10_total : forall l : bytes, exists r : dres, decode l = Ok r.
Proof. exact (fun l => ex_intro _ (decode_spec l) (decode_is_spec l)). Qed.
Print Assumptions C10_total.

(* A returned telegram lies inside the input: the reported length does not exceed the input and is
   the announced frame length; the PDU is the contiguous sub-list of the input at the stated
   offset and is followed by exactly FCS and ED inside the reported length; token and SC likewise. *)
Theorem C10_inside : forall (l : bytes) (t : telegram) (n : nat),
  decode l = Ok (Accept t n) ->
  (n <= length l)%nat /\ n = need l /\
  match t with
  | TData h pdu =>
      let off := ((if (nth 0 l 0%Z =? SD2)%Z then 7 else 4) + has_sap (h_dsap h) + has_sap (h_ssap h))%nat in
      (off + length pdu + 2 = n)%nat /\ firstn (length pdu) (skipn off l) = pdu
  | TToken da sa => n = 3%nat /\ firstn 3 l = [SD4; da; sa]
  | TShortConf => n = 1%nat /\ firstn 1 l = [SC]
  end.
Proof. exact accept_inside. Qed.
Print Assumptions C10_inside.

(* More data is requested only while the input is shorter than the announced total length
   (1/3/6/14 by delimiter, LE+6 for SD2), and never once that length is available. *)
Theorem C10_needmore_only_if_short : forall l : bytes,
  decode l = Ok NeedMore -> (length l < need l)%nat.
Proof. exact needmore_short. Qed.
Print Assumptions C10_needmore_only_if_short.

Theorem C10_long_enough_decides : forall l : bytes,
  (need l <= length l)%nat -> decode l <> Ok NeedMore.
Proof. exact long_enough_decides. Qed.
Print Assumptions C10_long_enough_decides.

(* Every proper prefix of a valid frame (data, token, SC) makes the decoder wait. *)
Theorem C10_valid_prefix_waits : forall (h : header) (pdu : bytes) (k : nat),
  wf_header h -> (length_byte h (length pdu) <= 249)%nat -> (k < length (frame_spec h pdu))%nat ->
  decode (firstn k (frame_spec h pdu)) = Ok NeedMore.
Proof. exact valid_prefix_waits_data. Qed.
Print Assumptions C10_valid_prefix_waits.

Theorem C10_valid_prefix_waits_token : forall (da sa : Z) (k : nat),
  (k < 3)%nat -> decode (firstn k (encode (TToken da sa))) = Ok NeedMore.
Proof. exact valid_prefix_waits_token. Qed.
Print Assumptions C10_valid_prefix_waits_token.

Theorem C10_valid_prefix_waits_sc : forall k : nat,
  (k < 1)%nat -> decode (firstn k (encode TShortConf)) = Ok NeedMore.
Proof. exact valid_prefix_waits_sc. Qed.
Print Assumptions C10_valid_prefix_waits_sc.

(* The verdict on a longer input never contradicts the verdict on a prefix: Accept and Reject are
   final (same telegram, same consumed length), whatever is appended. *)
Theorem C10_prefix_consistent : forall (l ext : bytes),
  (forall t n, decode l = Ok (Accept t n) -> decode (l ++ ext) = Ok (Accept t n)) /\
  (decode l = Ok Reject -> decode (l ++ ext) = Ok Reject).
Proof. exact (fun l ext => conj (fun t n => accept_stable l t n ext) (reject_stable l ext)). Qed.
Print Assumptions C10_prefix_consistent.

(* A data telegram is accepted only if the input starts with a complete, well-formed frame:
   first delimiter matching the length class (SD1: 3 bytes, SD3: 11 bytes, SD2: LE bytes with
   LE = LEr and the repeated SD2), header bytes carrying exactly the returned addresses /
   extension bits / SAPs, a function code byte that decodes to the returned code, the PDU, the
   checksum being the byte sum and the end delimiter ED; the consumed length is that frame's length.
   (frame_raw / frame_raw_sd2 in Model/CodecOracle.v; the latter because SD2 with LE = 3 or 11
   is a legal variable-length frame.) *)
Theorem C10_accept_criterion : forall (l : bytes) (h : header) (pdu : bytes) (n : nat),
  all_bytes l -> decode l = Ok (Accept (TData h pdu) n) ->
  wf_header h /\ all_bytes pdu /\
  exists fcbyte rest,
    fc_from_byte fcbyte = Some (h_fc h) /\ is_byte fcbyte /\
    ((nth 0 l 0 <> SD2 /\ l = frame_raw h fcbyte pdu ++ rest /\ n = length (frame_raw h fcbyte pdu)) \/
     (nth 0 l 0 = SD2 /\ l = frame_raw_sd2 h fcbyte pdu ++ rest /\ n = length (frame_raw_sd2 h fcbyte pdu))).
Proof. exact accept_criterion. Qed.
Print Assumptions C10_accept_criterion.

(* The extracted oracle that the correspondence check runs on the implementation's outputs is
   implied by the theorems above: it holds of every result of the model decoder. *)
Theorem C10_oracle_sound : forall (l : bytes) (r : dres),
  all_bytes l -> decode l = Ok r -> c10_dec_ok l (Some r) = true.
Proof. exact dec_oracle_ok. Qed.
Print Assumptions C10_oracle_sound.

(* Any corruption confined to a single byte of a valid data frame is rejected (never decoded as
   any telegram, not even asked to continue) - at every position and for every new value, except
   that the first start delimiter is replaced by another frame-start byte (DESIGN 4.0). *)
Theorem C10_single_byte : forall (h : header) (pdu : bytes) (pos : nat) (v : Z),
  wf_header h -> all_bytes pdu -> (length_byte h (length pdu) <= 249)%nat ->
  (pos < length (frame_spec h pdu))%nat -> is_byte v -> v <> nth pos (frame_spec h pdu) 0 ->
  ~ (pos = 0%nat /\ is_delim v = true) ->
  decode (subst (frame_spec h pdu) pos v) = Ok Reject.
Proof. exact single_byte_data. Qed.
Print Assumptions C10_single_byte.

Theorem C10_single_byte_sc : forall (pos : nat) (v : Z),
  (pos < length (encode TShortConf))%nat -> v <> nth pos (encode TShortConf) 0 ->
  ~ (pos = 0%nat /\ is_delim v = true) ->
  decode (subst (encode TShortConf) pos v) = Ok Reject.
Proof. exact single_byte_sc. Qed.
Print Assumptions C10_single_byte_sc.

(* The checksum argument: the frame check sequence is the byte sum modulo 256, so it changes
   whenever exactly one summed byte changes. *)
Theorem C10_checksum_detects_one_byte : forall (l : bytes) (pos : nat) (v : Z),
  (pos < length l)%nat -> is_byte (nth pos l 0) -> is_byte v -> v <> nth pos l 0 ->
  sum8 (subst l pos v) <> sum8 l.
Proof. exact sum8_single_change. Qed.
Print Assumptions C10_checksum_detects_one_byte.

(* The five regenerated frame-start bytes are pairwise at Hamming distance >= 4 ... *)
Theorem C10_delimiter_distance : forall a b : Z,
  In a delims -> In b delims -> a <> b -> (4 <= hamming a b)%nat.
Proof. exact delims_distance. Qed.
Print Assumptions C10_delimiter_distance.

(* ... hence EVERY single-bit error, at every position including the first delimiter, of a valid
   data frame or short confirmation is rejected. *)
Theorem C10_single_bit : forall (h : header) (pdu : bytes) (pos : nat) (k : Z),
  wf_header h -> all_bytes pdu -> (length_byte h (length pdu) <= 249)%nat ->
  (pos < length (frame_spec h pdu))%nat -> 0 <= k < 8 ->
  decode (subst (frame_spec h pdu) pos (Z.lxor (nth pos (frame_spec h pdu) 0) (2 ^ k))) = Ok Reject.
Proof. exact single_bit_data. Qed.
Print Assumptions C10_single_bit.

Theorem C10_single_bit_sc : forall (pos : nat) (k : Z),
  (pos < length (encode TShortConf))%nat -> 0 <= k < 8 ->
  decode (subst (encode TShortConf) pos (Z.lxor (nth pos (encode TShortConf) 0) (2 ^ k))) = Ok Reject.
Proof. exact single_bit_sc. Qed.
Print Assumptions C10_single_bit_sc.

(* The exact boundary of the single-byte clause: a single-byte substitution of a valid data frame
   that is accepted as anything at all is a swap of the first delimiter for another frame-start
   byte - and that case is real (an SD1 frame whose first byte becomes SD4 reads as a token, as it
   does for every conforming decoder). *)
Theorem C10_delimiter_swap_is_the_only_escape :
  (forall (h : header) (pdu : bytes) (pos : nat) (v : Z) (t : telegram) (n : nat),
     wf_header h -> all_bytes pdu -> (length_byte h (length pdu) <= 249)%nat ->
     (pos < length (frame_spec h pdu))%nat -> is_byte v -> v <> nth pos (frame_spec h pdu) 0 ->
     decode (subst (frame_spec h pdu) pos v) = Ok (Accept t n) -> pos = 0%nat /\ is_delim v = true) /\
  (exists (h : header) (pdu : bytes) (v : Z),
     wf_header h /\ all_bytes pdu /\ (length_byte h (length pdu) <= 249)%nat /\
     is_byte v /\ v <> nth 0 (frame_spec h pdu) 0 /\ is_delim v = true /\
     decode (subst (frame_spec h pdu) 0 v) = Ok (Accept (TToken (h_da h) (h_sa h)) 3)).
Proof.
  exact (conj accepted_mutation_is_delimiter_swap
              (ex_intro _ swap_witness_h (ex_intro _ [] (ex_intro _ SD4 delimiter_swap_witness)))).
Qed.
Print Assumptions C10_delimiter_swap_is_the_only_escape.

(* The mutation oracle run by the correspondence check is implied as well. *)
Theorem C10_mutation_oracle_sound : forall (h : header) (pdu : bytes) (pos : nat) (v : Z) (r : dres),
  wf_header h -> all_bytes pdu -> (length_byte h (length pdu) <= 249)%nat ->
  (pos < length (frame_spec h pdu))%nat -> is_byte v -> v <> nth pos (frame_spec h pdu) 0 ->
  decode (subst (frame_spec h pdu) pos v) = Ok r -> c10_mut_ok (frame_spec h pdu) pos v (Some r) = true.
Proof. exact mut_oracle_ok. Qed.
Print Assumptions C10_mutation_oracle_sound.

(* ------------------------------------------------------------------ non-vacuity *)

(* Accept with trailing bytes; the SD2 frame with LE = 3 that needs frame_raw_sd2; NeedMore; Reject. *)
Example C10_accept_hypothesis_satisfiable :
  let h := mkHeader 125 2 (Some 61) (Some 62) (FcRequest FcbHigh RqSrdLow) in
  all_bytes (frame_spec h [1; 2; 3] ++ [SD4; 7]) /\
  decode (frame_spec h [1; 2; 3] ++ [SD4; 7]) = Ok (Accept (TData h [1; 2; 3]) 14).
Proof.
  cbv zeta. split; [|vm_compute; reflexivity].
  apply Forall_forall. intros x Hx. vm_compute in Hx. unfold is_byte. lia.
Qed.

Example C10_sd2_short_le_accepted :
  let h := mkHeader 5 2 None None (FcRequest FcbHigh RqSrdLow) in
  decode (frame_raw_sd2 h (fc_to_byte (h_fc h)) []) = Ok (Accept (TData h []) 9).
Proof. vm_compute. reflexivity. Qed.

Example C10_needmore_and_reject_occur :
  let l := [SD2; 9; 9; SD2; 1; 2; 3] in
  decode l = Ok NeedMore /\ (length l < need l)%nat /\
  decode [SD2; 9; 8; SD2; 1; 2; 3] = Ok Reject /\ decode [SD2; 9; 8; SD2; 1; 2; 3; 4; 5] = Ok Reject.
Proof. cbv zeta. repeat split; try (vm_compute; reflexivity). apply Nat.ltb_lt. vm_compute. reflexivity. Qed.

(* The single-byte hypotheses are satisfiable at every kind of position of an SD2 frame. *)
Example C10_single_byte_hypotheses_satisfiable :
  let h := mkHeader 125 2 (Some 61) (Some 62) (FcRequest FcbHigh RqSrdLow) in
  let F := frame_spec h [1; 2; 3] in
  wf_header h /\ all_bytes [1; 2; 3] /\ (length_byte h 3 <= 249)%nat /\
  Forall (fun pos => (pos < length F)%nat /\ is_byte 0 /\ 0 <> nth pos F 0 /\ ~ (pos = 0%nat /\ is_delim 0 = true) /\
                     decode (subst F pos 0) = Ok Reject)
         [0; 1; 2; 3; 4; 6; 7; 9; 12; 13]%nat.
Proof.
  cbv zeta. split; [unfold wf_header, is_addr7, wf_sap, is_byte; cbn; lia|].
  split; [repeat constructor; unfold is_byte; lia|]. split; [apply Nat.leb_le; vm_compute; reflexivity|].
  repeat constructor; try (apply Nat.ltb_lt; vm_compute; reflexivity); try (unfold is_byte; lia);
    try (vm_compute; discriminate); try (vm_compute; reflexivity); try (intros (_ & H); vm_compute in H; discriminate).
Qed.
