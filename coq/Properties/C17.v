(* C17 - Diagnostics are decoded correctly and block iteration is total.
   Theorem statements only; every proof is `exact <lemma of Proofs/C17Proofs.v>`.
   Model: Model/Diag.v (peripheral.rs handle_diagnostics_response, scan.rs parse_diag_response,
   diagnostics.rs ExtendedDiagnostics / ExtDiagBlockIter / ChannelError / ChannelDataType), of the
   code WITH the F5 fix (`blk_len0_guard = true` is regenerated from the source on every run).
   Vocabulary (Model/DiagOracle.v): wire_flags, cleared_bit, announced, decode_block, tiles,
   block_explicit, dtype_as_specified, error_as_specified, ext_wf/ext_ok, reply_accepted, c17_*_ok. *)
From PB Require Import Common Consts DiagTables Diag DiagOracle C17Proofs.

(* ---- header: ident, master address and every flag bit equal the wire bytes, except the always-one
   marker bit 10 (bit 2 of byte 1) which the code clears on purpose (DESIGN 4.0); PDUs shorter than
   6 bytes are rejected, nothing else is. *)
Theorem C17_header_faithful : forall pdu, all_bytes pdu ->
  ((length pdu < 6)%nat /\ parse_diag pdu = Ok None) \/
  ((6 <= length pdu)%nat /\ exists d, parse_diag pdu = Ok (Some d) /\
     d_ident d = 256 * nth 4 pdu 0 + nth 5 pdu 0 /\
     d_master d = (if nth 3 pdu 0 =? 255 then None else Some (nth 3 pdu 0)) /\
     (forall i, 0 <= i -> i <> cleared_bit -> Z.testbit (d_flags d) i = Z.testbit (wire_flags pdu) i) /\
     Z.testbit (d_flags d) cleared_bit = false /\
     d_flags d = nth 0 pdu 0 + 256 * Z.land (nth 1 pdu 0) 251 /\
     0 <= d_flags d < 65536).
Proof. exact header_faithful. Qed.
Print Assumptions C17_header_faithful.

(* the scanner (scan.rs) reports ident and master address of the same decoding *)
Theorem C17_scan_header : forall dsap ssap pdu r, all_bytes pdu -> scan_reply (RData dsap ssap pdu) = Ok r ->
  (r = None \/ (opt_eqb dsap SAP_MASTER_MS0 = true /\ opt_eqb ssap SAP_SLAVE_DIAGNOSIS = true /\ c17_scan_ok pdu r = true)).
Proof. exact scan_oracle. Qed.
Print Assumptions C17_scan_header.

(* ---- buffer: stored iff a buffer exists and the string fits; then exactly the string is visible and
   the rest of the buffer is untouched; otherwise nothing changes (the previous content stays). *)
Theorem C17_fill : forall e ext, ext_wf e ->
  exists e' ok, ext_fill e ext = Ok (e', ok) /\ ext_wf e' /\ ext_cap e' = ext_cap e /\
    ok = (Nat.ltb 0 (ext_cap e) && Nat.leb (length ext) (ext_cap e)) /\
    (ok = true -> ext_visible e' = Some ext /\
                  skipn (length ext) (e_buf e') = skipn (length ext) (e_buf e)) /\
    (ok = false -> e' = e).
Proof. exact fill_spec. Qed.
Print Assumptions C17_fill.

(* ---- iteration is total: for EVERY byte string no panic, and fuel |raw|+1 suffices (each yielded
   block advances the cursor by at least one byte, so at most |raw| blocks). *)
Theorem C17_iter_total : forall raw fuel, all_bytes raw -> (length raw < fuel)%nat ->
  exists bs, blocks raw fuel = Ok bs /\ (length bs <= length raw)%nat.
Proof. exact iter_total. Qed.
Print Assumptions C17_iter_total.

(* ---- the yielded blocks tile the buffer (see `tiles`): the first starts at 0, each next one where the
   previous ended, each at least one byte, inside the buffer, of exactly its announced length, decoded
   from exactly its bytes; after the last block the buffer ends or a malformed (reserved type, length 0)
   or truncated block starts - i.e. iteration stops at the FIRST such block and not before. *)
Theorem C17_blocks_tile : forall raw fuel bs, all_bytes raw -> blocks raw fuel = Ok bs -> tiles raw 0 bs.
Proof. exact blocks_tile. Qed.
Print Assumptions C17_blocks_tile.

(* `tiles` determines the block list: there is exactly one decomposition *)
Theorem C17_tiles_unique : forall raw bs1 bs2 off, tiles raw off bs1 -> tiles raw off bs2 -> bs1 = bs2.
Proof. exact tiles_unique. Qed.
Print Assumptions C17_tiles_unique.

Theorem C17_iter_fuel_irrelevant : forall raw f1 f2 bs1 bs2, all_bytes raw ->
  blocks raw f1 = Ok bs1 -> blocks raw f2 = Ok bs2 -> bs1 = bs2.
Proof. exact blocks_fuel_irrelevant. Qed.
Print Assumptions C17_iter_fuel_irrelevant.

(* ---- every yielded block, explicitly in terms of the buffer bytes at its offset *)
Theorem C17_block_decode : forall raw fuel bs b, all_bytes raw -> blocks raw fuel = Ok bs -> In b bs ->
  (l_off b + l_len b <= length raw)%nat /\ block_explicit raw b.
Proof. exact block_decode. Qed.
Print Assumptions C17_block_decode.

(* channel blocks, all 256 values of each byte (complete sweeps): module / channel numbers, input /
   output bits, data type and error code as specified; re-encoding returns byte 2 unless its type
   bits are 000 *)
Theorem C17_channel_decode : forall b0 b1 b2, is_byte b0 -> is_byte b1 -> is_byte b2 ->
  let c := decode_channel b0 b1 b2 in
  c_module c = b0 mod 64 /\ c_channel c = b1 mod 64 /\
  c_input c = Z.testbit b1 6 /\ c_output c = Z.testbit b1 7 /\
  dtype_as_specified (b2 / 32) (c_dtype c) /\
  error_as_specified (b2 mod 32) (c_error c) /\
  (32 <= b2 -> Z.lor (chan_error_to_byte2 (c_error c)) (chan_dtype_to_byte2 (c_dtype c)) = b2).
Proof. exact channel_decode. Qed.
Print Assumptions C17_channel_decode.

(* identifier blocks: the reported indices are exactly the set bits, bit k of byte j = module 8j+k *)
Theorem C17_ident_bits : forall d i,
  In i (ident_ones d) <->
  (i < 8 * length d)%nat /\ Z.testbit (nth (i / 8) d 0) (Z.of_nat (i mod 8)) = true.
Proof. exact ident_ones_spec. Qed.
Print Assumptions C17_ident_bits.

(* ---- container level: iterating an available container never panics and tiles its visible bytes;
   Debug formatting (which iterates) never panics, with or without buffer. *)
Theorem C17_container_iter : forall e, ext_ok e -> ext_available e = true ->
  exists bs, ext_blocks e = Ok bs /\ tiles (firstn (e_len e) (e_buf e)) 0 bs /\ (length bs <= e_len e)%nat.
Proof. exact ext_blocks_available. Qed.
Print Assumptions C17_container_iter.

Theorem C17_debug_total : forall e, ext_ok e -> ext_debug e = Ok tt.
Proof. exact ext_debug_total. Qed.
Print Assumptions C17_debug_total.

(* Observation kept explicit (not part of the property: no byte string is iterated): calling
   iter_diag_blocks().next() on a container WITHOUT buffer unwraps raw_diag_buffer() = None. *)
Theorem C17_container_without_buffer_panics : forall e, ext_available e = false -> ext_blocks e = Panic SiteUnwrap.
Proof. exact ext_blocks_unavailable. Qed.
Print Assumptions C17_container_without_buffer_panics.

(* ---- through a reply (handle_diagnostics_response with the debug log on): never panics; accepted iff
   data telegram 60 -> 62 with >= 6 bytes; header reported faithfully; ext diag stored iff EXT_DIAG
   (bit 3 of byte 0) and a buffer exists and the string fits, else the previous content stays;
   a rejected reply changes nothing.  (The model pins down the code as it is.  The executable oracle
   c17_reply_ok is deliberately weaker where the property text is silent: with EXT_DIAG clear it also
   accepts an implementation that records trailing ext bytes when they fit; this theorem shows that
   the oracle accepts the model.) *)
Theorem C17_via_dp : forall s r, ext_ok (p_ext s) -> reply_bytes r ->
  exists s' acc, diag_reply s r = Ok (s', acc) /\
    ext_ok (p_ext s') /\ ext_cap (p_ext s') = ext_cap (p_ext s) /\
    acc = reply_accepted r /\
    (acc = false -> s' = s) /\
    c17_reply_ok (ext_cap (p_ext s)) (p_diag s) (ext_visible (p_ext s)) r
                 (p_diag s') (ext_visible (p_ext s')) = true.
Proof. exact reply_spec. Qed.
Print Assumptions C17_via_dp.

(* any history of replies *)
Theorem C17_via_dp_history : forall rs s, ext_ok (p_ext s) -> Forall reply_bytes rs ->
  exists l, diag_replies s rs = Ok l /\ length l = length rs.
Proof. exact replies_total. Qed.
Print Assumptions C17_via_dp_history.

(* ---- the oracles that run on the implementation's outputs accept what the model computes *)
Theorem C17_oracle_header : forall pdu r, all_bytes pdu -> parse_diag pdu = Ok r -> c17_header_ok pdu r = true.
Proof. exact header_oracle. Qed.
Print Assumptions C17_oracle_header.

Theorem C17_oracle_tiles : forall raw fuel bs, all_bytes raw -> blocks raw fuel = Ok bs ->
  c17_tiles_ok raw (map l_blk bs) = true.
Proof. exact tiles_oracle. Qed.
Print Assumptions C17_oracle_tiles.

(* ---- F5: the same iterator WITHOUT the length-0 guard (the unfixed code) panics on 00, 40, and on a
   valid block followed by 00 *)
Theorem C17_F5_unfixed_code_panics :
  blocks_from_g false [0] 0 2 = Panic SiteIndex /\ blocks_from_g false [64] 0 2 = Panic SiteIndex /\
  blocks_from_g false [2; 3; 0] 0 4 = Panic SiteIndex.
Proof. exact f5_unfixed_panics. Qed.
Print Assumptions C17_F5_unfixed_code_panics.

(* ---- non-vacuity *)

(* the crate's own test vector: identifier block (bit 8 set), channel block, device block *)
Example C17_example_blocks :
  blocks [68; 0; 1; 0; 136; 65; 33; 4; 16; 32; 48] 12 =
  Ok [mkL 0 4 (BIdent [0; 1; 0]);
      mkL 4 3 (BChannel (mkChan 8 1 true false DtBit CeShortCircuit));
      mkL 7 4 (BDevice [16; 32; 48])] /\
  ident_ones [0; 1; 0] = [8%nat].
Proof. split; vm_compute; reflexivity. Qed.

(* malformed blocks end the iteration: reserved type, length 0, truncated *)
Example C17_example_malformed :
  blocks [2; 7; 192; 1] 5 = Ok [mkL 0 2 (BDevice [7])] /\
  blocks [2; 7; 0; 1] 5 = Ok [mkL 0 2 (BDevice [7])] /\
  blocks [2; 7; 72; 1] 5 = Ok [mkL 0 2 (BDevice [7])] /\
  blocks [2; 7; 136; 1] 5 = Ok [mkL 0 2 (BDevice [7])].
Proof. repeat split; vm_compute; reflexivity. Qed.

Example C17_example_header :
  parse_diag [8; 12; 0; 255; 18; 52; 2; 3] = Ok (Some (mkDiag 2056 4660 None)) /\
  parse_diag [8; 12; 0; 5; 18; 52] = Ok (Some (mkDiag 2056 4660 (Some 5))) /\
  parse_diag [8; 12; 0; 255; 18] = Ok None.
Proof. repeat split; vm_compute; reflexivity. Qed.

Example C17_example_reply :
  let s0 := pstate_init [238; 238; 238; 238] in
  ext_ok (p_ext s0) /\
  diag_reply s0 (RData (Some 62) (Some 60) [8; 12; 0; 255; 18; 52; 2; 3]) =
    Ok (mkP (Some (mkDiag 2056 4660 None)) (mkExt [2; 3; 238; 238] 2), true) /\
  (* too large for the 4-byte buffer: diagnostics updated, ext diag kept *)
  diag_reply (mkP (Some (mkDiag 2056 4660 None)) (mkExt [2; 3; 238; 238] 2))
             (RData (Some 62) (Some 60) [8; 4; 0; 255; 18; 52; 5; 1; 2; 3; 4]) =
    Ok (mkP (Some (mkDiag 8 4660 None)) (mkExt [2; 3; 238; 238] 2), true).
Proof.
  cbv zeta. split; [|split]; try (vm_compute; reflexivity).
  split; [vm_compute; lia|]. repeat constructor; unfold is_byte; lia.
Qed.
