(* C17 - Diagnostics are decoded correctly and block iteration is total. *)
From PB Require Import Common Consts DiagTables Diag DiagOracle C17Proofs.

Theorem C17_F5_unfixed_code_panics : blocks_from_g false [0] 0 2 = Panic SiteIndex.
Proof. exact f5_unfixed_panics. Qed.
Print Assumptions C17_F5_unfixed_code_panics.
