(* C01 - bus access (station-local obligations, one-step part).
   Planned on top of the same model (not yet proved): C01_who_may_transmit, C01_claim_stagger, the
   abstract composition C01_compose. *)
From PB Require Import Common Params Fdl FdlProofs FdlStepProofs.

(* While its PHY reports a transmission in progress the station transmits nothing, consumes nothing
   and asks no application - for all states, inputs and applications. *)
Theorem C01_not_while_busy : forall (A : Type) (ops : app_ops A) (f : fdl) (now : Z) (rxb : bytes)
                                    (apps : list A) (f' : fdl) (o : phy_out) (a : list A) (c : list call),
  poll ops f now (mkPhyIn true rxb) apps = Ok (f', o, a, c) ->
  tx o = None /\ rx_left o = rxb /\ c = [] /\ a = apps.
Proof. exact poll_busy_silent. Qed.
Print Assumptions C01_not_while_busy.

(* Nor before the predicted end of its own last transmission, whatever the PHY reports. *)
Theorem C01_not_before_predicted_end : forall (A : Type) (ops : app_ops A) (f : fdl) (now : Z) (busy : bool)
                                              (rxb : bytes) (apps : list A) (l : Z)
                                              (f' : fdl) (o : phy_out) (a : list A) (c : list call),
  f_conn f = ConnOnline -> online_entry_kind (kind_of (f_state f)) = false ->
  f_lba f = Some l -> now <= l ->
  poll ops f now (mkPhyIn busy rxb) apps = Ok (f', o, a, c) ->
  tx o = None /\ rx_left o = rxb /\ c = [] /\ a = apps /\ f_state f' = f_state f.
Proof. exact poll_predicted_silent. Qed.
Print Assumptions C01_not_before_predicted_end.

(* C01_sync_pause for a whole poll, for ALL states, inputs and applications: if a poll transmits
   anything - initiated telegram, token, retry, status reply or claim - then the station's
   last_bus_activity (latest observed RX growth / received telegram / end of its own transmission) was
   known before the poll and lies more than the synchronisation pause of 33 bit times in the past. *)
Theorem C01_sync_pause : forall (A : Type) (ops : app_ops A) (f : fdl) (now : Z) (pin : phy_in) (apps : list A)
                                (f' : fdl) (o : phy_out) (a : list A) (c : list call) (wire : bytes),
  poll ops f now pin apps = Ok (f', o, a, c) -> tx o = Some wire ->
  exists l, f_lba f = Some l /\ l + p_bits_to_time (f_p f) sync_pause_bits < now.
Proof. exact poll_tx_sync_pause. Qed.
Print Assumptions C01_sync_pause.

(* the regenerated constant is the 33 bit times of the property text *)
Example C01_sync_pause_is_33_bits : sync_pause_bits = 33.
Proof. reflexivity. Qed.
