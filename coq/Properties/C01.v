(* C01 - bus access (station-local obligations, one-step part).
   Planned on top of the same model (not yet proved): C01_who_may_transmit, C01_claim_stagger, the
   abstract composition C01_compose. *)
From PB Require Import Common Params Fdl FdlProofs FdlStepProofs.

(* While its PHY reports a transmission in progress the station transmits nothing, consumes nothing
   and asks no application - for all states, inputs and applications. *)
Theorem C01_not_while_busy : forall (A : Type) (ops : app_ops A) (f : fdl) (now : Z) (rxb : bytes)
                                    (apps : list A) (f' : fdl) (o : phy_out) (a : list A) (c : list call),
  poll ops f now (mkPhyIn true rxb) apps = Ok (f', o, a, c) ->
  tx o = None /\ rx_left o = rxb /\ c = [] /\ a = apps.
Proof. exact poll_busy_silent. Qed.
Print Assumptions C01_not_while_busy.

(* Nor before the predicted end of its own last transmission, whatever the PHY reports. *)
Theorem C01_not_before_predicted_end : forall (A : Type) (ops : app_ops A) (f : fdl) (now : Z) (busy : bool)
                                              (rxb : bytes) (apps : list A) (l : Z)
                                              (f' : fdl) (o : phy_out) (a : list A) (c : list call),
  f_conn f = ConnOnline -> online_entry_kind (kind_of (f_state f)) = false ->
  f_lba f = Some l -> now <= l ->
  poll ops f now (mkPhyIn busy rxb) apps = Ok (f', o, a, c) ->
  tx o = None /\ rx_left o = rxb /\ c = [] /\ a = apps /\ f_state f' = f_state f.
Proof. exact poll_predicted_silent. Qed.
Print Assumptions C01_not_before_predicted_end.

(* C01_sync_pause for a whole poll, for ALL states, inputs and applications: if a poll transmits
   anything - initiated telegram, token, retry, status reply or claim - then the station's
   last_bus_activity (latest observed RX growth / received telegram / end of its own transmission) was
   known before the poll and lies more than the synchronisation pause of 33 bit times in the past. *)
Theorem C01_sync_pause : forall (A : Type) (ops : app_ops A) (f : fdl) (now : Z) (pin : phy_in) (apps : list A)
                                (f' : fdl) (o : phy_out) (a : list A) (c : list call) (wire : bytes),
  poll ops f now pin apps = Ok (f', o, a, c) -> tx o = Some wire ->
  exists l, f_lba f = Some l /\ l + p_bits_to_time (f_p f) sync_pause_bits < now.
Proof. exact poll_tx_sync_pause. Qed.
Print Assumptions C01_sync_pause.

(* the regenerated constant is the 33 bit times of the property text *)
Example C01_sync_pause_is_33_bits : sync_pause_bits = 33.
Proof. reflexivity. Qed.

(* ------------------------------------------------------------------------------------------ *)
(* Single-station obligations, second part (Proofs/C01Proofs.v).  The N-station composition - no two
   transmissions overlap on a shared bus for all jittered schedules - is NOT proved here. *)
From PB Require Import Tables FdlTables C05Proofs C01Proofs.

(* Who may transmit.  For EVERY station state, input and application list: if a poll transmits, the
   state BEFORE the poll is
   - a token-holding state (regenerated `have_token_kind`: UseToken, ClaimToken, AwaitDataResponse,
     AwaitStatusResponse), or
   - PassToken, or
   - CheckTokenPass with the slot time after last_bus_activity expired (the retry of its own token pass), or
   - ListenToken / ActiveIdle with a pending status request (C01_status_request_is_addressed: such a
     request was addressed to this station), or
   - ListenToken / ActiveIdle (or Offline in the poll that takes the station online) with
     last_bus_activity at least the station's token-lost time-out in the past: the claim.
   The two hypotheses on the parameters hold for everything the builder produces (C01_builder_timeouts). *)
Theorem C01_who_may_transmit : forall (A : Type) (ops : app_ops A) (f : fdl) (now : Z) (pin : phy_in) (apps : list A)
                                      (f' : fdl) (o : phy_out) (a : list A) (c : list call) (wire : bytes),
  poll ops f now pin apps = Ok (f', o, a, c) -> tx o = Some wire ->
  0 <= slot_time (f_p f) -> 0 < token_lost_timeout (f_p f) ->
  have_token_kind (kind_of (f_state f)) = true \/
  kind_of (f_state f) = KPassToken \/
  (kind_of (f_state f) = KCheckTokenPass /\ exists l, f_lba f = Some l /\ l + slot_time (f_p f) < now) \/
  (exists src cc, f_state f = ListenToken (Some src) cc) \/
  (exists src nps cc, f_state f = ActiveIdle (Some src) nps cc) \/
  ((kind_of (f_state f) = KListenToken \/ kind_of (f_state f) = KActiveIdle \/
    online_entry_kind (kind_of (f_state f)) = true) /\
   exists l, f_lba f = Some l /\ l < now /\ token_lost_timeout (f_p f) <= now - l).
Proof. exact poll_who. Qed.
Print Assumptions C01_who_may_transmit.

Theorem C01_builder_timeouts : forall p : params, builder_valid p -> 0 <= slot_time p /\ 0 < token_lost_timeout p.
Proof. exact bv_timeouts. Qed.
Print Assumptions C01_builder_timeouts.

(* The pending status request of ListenToken / ActiveIdle is only ever set by an FDL status request
   whose destination address is TS, received as the last telegram in the buffer; it records the requester. *)
Theorem C01_status_request_is_addressed : forall (A : Type) (now : Z) (f : fdl) (w : world A) (t : telegram) (il : bool)
                                                 (f' : fdl) (w' : world A) (src : Z),
  (forall u, listen_token_telegram A now (f, w) t il = Ok (f', w', u) -> pending_sr (f_state f') = Some src ->
     pending_sr (f_state f) = Some src \/ (is_request_to (ts f) src t /\ il = true)) /\
  (handle_telegram A now f w t il = Ok (f', w') -> pending_sr (f_state f') = Some src ->
     pending_sr (f_state f) = Some src \/ (is_request_to (ts f) src t /\ il = true)).
Proof. exact status_request_is_addressed. Qed.
Print Assumptions C01_status_request_is_addressed.

(* At most one transmission per poll: the model's PHY takes one transmission per poll - every
   transmission of the station and of its applications goes through `phy_transmit`, and a second call in
   the same poll is a panic site - and under the representation invariant of C05 a poll never panics. *)
Theorem C01_at_most_one_tx_per_poll : forall (A : Type) (ops : app_ops A), apps_total A ops ->
  forall (f : fdl) (now : Z) (pin : phy_in) (apps : list A),
  Rep (length apps) f -> time_ok now -> all_bytes (rx pin) ->
  (forall (w : world A) wire x, w_tx w = Some x -> phy_transmit A w wire = Panic SiteAssert) /\
  exists f' o apps' c, poll ops f now pin apps = Ok (f', o, apps', c).
Proof. exact at_most_one_tx. Qed.
Print Assumptions C01_at_most_one_tx_per_poll.

(* Status replies - and every other transmission - start later than last_bus_activity + 33 bit times,
   hence later than last_bus_activity + min Tsdr = 11 bit times (and later than the configured min Tsdr
   whenever that is at most 33 bit). *)
Theorem C01_reply_after_min_tsdr : forall (A : Type) (ops : app_ops A) (f : fdl) (now : Z) (pin : phy_in) (apps : list A)
                                          (f' : fdl) (o : phy_out) (a : list A) (c : list call) (wire : bytes),
  poll ops f now pin apps = Ok (f', o, a, c) -> tx o = Some wire ->
  exists l, f_lba f = Some l /\
    l + p_bits_to_time (f_p f) sync_pause_bits < now /\
    l + p_bits_to_time (f_p f) builder_min_tsdr < now /\
    (p_min_tsdr_bits (f_p f) <= sync_pause_bits -> l + min_tsdr_time (f_p f) < now).
Proof. exact poll_tx_after_min_tsdr. Qed.
Print Assumptions C01_reply_after_min_tsdr.

Example C01_min_tsdr_is_11_bits : builder_min_tsdr = 11 /\ default_min_tsdr_bits = 11.
Proof. split; reflexivity. Qed.

(* The claim.  A poll takes the station from ListenToken / ActiveIdle (or from Offline, in the poll that
   takes it online) into ClaimToken only if its last_bus_activity is known and at least
   token_lost_timeout = bits_to_time((token_lost_base + token_lost_per_addr * TS) * slot_bits) old. *)
Theorem C01_claim_stagger : forall (A : Type) (ops : app_ops A) (f : fdl) (now : Z) (pin : phy_in) (apps : list A)
                                   (f' : fdl) (o : phy_out) (a : list A) (c : list call),
  poll ops f now pin apps = Ok (f', o, a, c) ->
  kind_of (f_state f) = KListenToken \/ kind_of (f_state f) = KActiveIdle \/
    online_entry_kind (kind_of (f_state f)) = true ->
  kind_of (f_state f') = KClaimToken ->
  0 < token_lost_timeout (f_p f) ->
  exists l, f_lba f = Some l /\ l < now /\ token_lost_timeout (f_p f) <= now - l.
Proof. exact poll_claim_needs_timeout. Qed.
Print Assumptions C01_claim_stagger.

(* ... and that time-out is (6 + 2 * TS) slot times in microseconds as bits_to_time computes them;
   one address more makes it 2 slot times longer (up to the 1 us rounding), strictly longer for every
   slot time the builder accepts. *)
Theorem C01_claim_stagger_by_address : forall (p : params) (b : baudrate) (s a : Z),
  token_lost_timeout p = bits_to_time (p_baud p) (p_slot_bits p * (token_lost_base + token_lost_per_addr * p_address p)) /\
  (bits_to_time b (2 * s) <= tlt b s (a + 1) - tlt b s a <= bits_to_time b (2 * s) + 1) /\
  (min_slot_bits b <= s -> tlt b s a < tlt b s (a + 1)).
Proof. exact claim_stagger_by_address. Qed.
Print Assumptions C01_claim_stagger_by_address.

Example C01_token_lost_constants : token_lost_base = 6 /\ token_lost_per_addr = 2.
Proof. split; reflexivity. Qed.

(* ------------------------------------------------------------------------------------------ *)
(* All bit-time statements above (33 bit, 11 bit, slot time, time-outs) are in the code's own conversion
   `bits_to_time`, which divides by `Baudrate::to_rate`.  That table (regenerated from src/lib.rs on every
   run) gives every baud rate the bit rate its name stands for. *)
From PB Require Import StdRates StdRatesProofs.
Theorem C01_standard_baud_rates : forall b : baudrate, baud_to_rate b = std_rate b.
Proof. exact standard_baud_rates. Qed.
Print Assumptions C01_standard_baud_rates.

(* ------------------------------------------------------------------------------------------ *)
(* ORACLE SOUNDNESS (Proofs/FdlOracleSound1-3.v): the executable monitors of Model/FdlOracle.v that
   ocaml/run_fdl.ml runs on the IMPLEMENTATION's transcripts never reject a transcript of the MODEL.
   `model_transcript A ops p apps ins` is the event list the driver would build from a run of the model:
   `A new`, then the inputs `ins` in order - API calls (on / off / pas) and polls (now, PHY busy flag,
   bytes newly received); the PHY buffer is the harness PHY's (bytes only appended between polls, a poll
   drops what it consumed); a poll event carries inputs, transmission, consumed bytes, call log and the
   view computed from the model state (view_of: what obs_of / view_of_obs of the driver give); a call
   that panics ends the transcript as in the driver.
   Hypotheses: parameters the builder can produce; total applications (any number, any state type);
   `ins_ok 0 ins`: poll times in [0, 2^62), strictly increasing and > 0 (the harness clock advances before
   every poll), received bytes are bytes.  ALL such histories: no class of inputs is excluded.
   The corner O9 is included: the station re-creates itself after the second address collision while
   listening; with further telegrams in the same buffer the code keeps last_bus_activity = now in the offline
   station and may claim in the very poll that takes it online again (two stations with one address: outside the
   class of C01, not a property violation).  The R01 rules follow the code there (an offline station observes
   nothing; the claim reference is re-based at the self-offline poll).
   Conclusion: no rule of property C01 (R01_tx_while_busy, R01_sync_pause, R01_who_may_transmit,
   R01_check_pass_before_slot, R01_claim_before_timeout) is reported.  The separate reaction-time monitor
   Model/FdlPrompt.v (P01_reaction_after_slot_time) is covered at the end of this file (C01_prompt_monitor_sound). *)
From PB Require Import FdlOracle FdlOracleSound1 FdlOracleSound3.

Theorem C01_oracle_sound : forall (A : Type) (ops : app_ops A) (p : params),
  apps_total A ops -> builder_valid p ->
  forall (apps : list A) (ins : list minput),
  ins_ok 0 ins ->
  forall k r, In (k, r) (monitor p (length apps) (model_transcript A ops p apps ins)) -> rule_prop r <> PC01.
Proof. exact c01_oracle_sound. Qed.
Print Assumptions C01_oracle_sound.

(* non-vacuity and the corner O9: a model history (station 3, 19.2 kbit/s, no applications) that goes
   through the state "Offline with last_bus_activity recorded" (`no_stale` fails) - three token telegrams with
   the own source address in one buffer while listening - and is set online again much later: it claims in the poll that takes it online.  The monitor
   accepts this transcript (before the adaptation of the rules it reported R01_who_may_transmit at event 5). *)
Definition C01_ex_params : params := mkParams 3 B19200 100 80000 1 16 1 11 None.
Definition C01_ex_inputs : list minput :=
  [InApi ApiOnline; InPoll 834 false []; InPoll 2629 false [220;5;3;220;5;3;220;5;3]; InApi ApiOnline; InPoll 134064 false []].
Example C01_oracle_corner_accepted :
  builder_validb C01_ex_params = true /\ ins_ok 0 C01_ex_inputs /\
  monitor C01_ex_params 0 (model_transcript unit unit_app_ops C01_ex_params [] C01_ex_inputs) = [] /\
  ~ transcript_ok unit unit_app_ops C01_ex_params no_stale [] C01_ex_inputs.
Proof. exact c01_corner_example. Qed.

(* ------------------------------------------------------------------------------------------ *)
(* ORACLE SOUNDNESS of the reaction-time monitor Model/FdlPrompt.v, rule P01_reaction_after_slot_time
   (Proofs/FdlPromptSound1.v, FdlPromptSound2.v): the model station never triggers the rule on its own
   transcripts.  NO exclusion: every parameter set (pmonitor itself only monitors what builder_validb
   accepts), every number and kind of total applications, every input history with strictly increasing poll
   times in [0, 2^62) - any API calls (on / off / new; pas panics and ends the transcript), busy flags and
   received bytes -, including the corner O9.

   `pmodel_transcript A ops p apps ins` is the list (event, flag) that ocaml/run_fdl.ml hands to `pmonitor`:
   the events of model_transcript (C01_prompt_transcript_events), each with the flag the driver reads from
   the hook fingerprint of that event's observation - "the private state is ListenToken{Some(..),..} or
   ActiveIdle{Some(..),..}", i.e. FdlPromptSound2.psr_flag of the model state after the event; PANIC
   markers carry false; an API call that panics repeats the last observation.

   The proof is a simulation: the invariant FdlPromptSound2.PB relates the station and the monitor state
   (q_ref never lags behind last_bus_activity, q_txend agrees with it about "my transmission is still on the
   wire", pending_bytes covers the buffer unless q_spur - in every state but Offline and ListenToken without
   pending request, where the station's clock starts later than the monitor's and which the station leaves only
   by consuming a telegram or transmitting).  Model side: a step that consumes nothing never marks bus
   activity (FdlPromptSound1.dispatch_nm, all do_* functions); a gated state whose synchronisation pause is
   over transmits, changes state or ends the GAP polling phase in that poll (FdlPromptSound1.gated_acts);
   33 bit + 11 bit < Tslot for every slot time the builder accepts. *)
From PB Require Import FdlPrompt FdlPromptSound1 FdlPromptSound2.

Theorem C01_prompt_monitor_sound : forall (A : Type) (ops : app_ops A) (p : params),
  apps_total A ops ->
  forall (apps : list A) (ins : list minput),
  ins_ok 0 ins ->
  pmonitor p (pmodel_transcript A ops p apps ins) = [].
Proof. exact prompt_monitor_sound. Qed.
Print Assumptions C01_prompt_monitor_sound.

(* the events of pmodel_transcript are those of model_transcript (the transcript of C01_oracle_sound) *)
Theorem C01_prompt_transcript_events : forall (A : Type) (ops : app_ops A) (p : params) (apps : list A) (ins : list minput),
  map fst (pmodel_transcript A ops p apps ins) = model_transcript A ops p apps ins.
Proof. exact pmodel_transcript_fst. Qed.
Print Assumptions C01_prompt_transcript_events.

(* The inductive step, from ANY station / monitor pair that satisfies the invariant (not only reachable ones):
   one poll of the model with any admissible input is accepted by pmon_poll and keeps the invariant ... *)
Theorem C01_prompt_monitor_step : forall (A : Type) (ops : app_ops A) (p : params),
  apps_total A ops -> builder_valid p ->
  forall (f : fdl) (apps : list A) (buf : bytes) (tl : Z) (q : pmon) (now : Z) (busy : bool) (nb : bytes)
         (f' : fdl) (o : phy_out) (apps' : list A) (calls : list call),
  PB A p f apps buf tl q -> tl < now -> time_ok now -> all_bytes nb ->
  poll ops f now (mkPhyIn busy (buf ++ nb)) apps = Ok (f', o, apps', calls) ->
  snd (pmon_poll p q (poll_event now busy (buf ++ nb) f' o calls) (psr_flag f')) = [] /\
  PB A p f' apps' (rx_left o) now (fst (pmon_poll p q (poll_event now busy (buf ++ nb) f' o calls) (psr_flag f'))).
Proof. exact prompt_poll_step. Qed.
Print Assumptions C01_prompt_monitor_step.

(* ... an API call that returns keeps it (the monitor state as pmonitor_from updates it) ... *)
Theorem C01_prompt_monitor_api : forall (A : Type) (p : params), builder_valid p ->
  forall (a : api_call) (f : fdl) (apps : list A) (buf : bytes) (tl : Z) (q : pmon) (f' : fdl),
  PB A p f apps buf tl q -> api_result p a f = Ok f' ->
  PB A p f' apps buf tl (pmon_after_api a (view_of f') (psr_flag f') q).
Proof. exact pb_api. Qed.
Print Assumptions C01_prompt_monitor_api.

(* ... the station just created satisfies it with the monitor state after `A new` ... *)
Theorem C01_prompt_invariant_init : forall (A : Type) (p : params), builder_valid p ->
  forall (apps : list A) (f0 : fdl), fdl_new p = Ok f0 ->
  PB A p f0 apps [] 0 (pmon_reset (view_of f0) (psr_flag f0) 0).
Proof. exact prompt_invariant_init. Qed.
Print Assumptions C01_prompt_invariant_init.

(* ... hence every continuation of a run from such a pair is accepted (any event index i). *)
Theorem C01_prompt_monitor_from : forall (A : Type) (ops : app_ops A) (p : params),
  apps_total A ops -> builder_valid p ->
  forall (ins : list minput) (f : fdl) (apps : list A) (buf : bytes) (tl : Z) (q : pmon) (i : nat),
  PB A p f apps buf tl q -> ins_ok tl ins ->
  pmonitor_from p i (Some q) (pmodel_events A ops p f apps buf ins) = [].
Proof. exact prompt_sound_from. Qed.
Print Assumptions C01_prompt_monitor_from.

(* Non-vacuity.  (a) A computed model history (station 3, 19.2 kbit/s): the station claims the token on a silent
   bus; polls while its claim token is on the wire and polls inside the synchronisation pause in the gated state
   ClaimToken (nothing happens), then the second claim token and the first GAP request - the monitor accepts.
   Per poll: (time, state kind after the poll, transmitted?). *)
Example C01_prompt_example :
  builder_validb ex_prompt_params = true /\ ins_ok 0 ex_prompt_inputs /\
  pmonitor ex_prompt_params (pmodel_transcript unit unit_app_ops ex_prompt_params [] ex_prompt_inputs) = [] /\
  map poll_summary (pmodel_transcript unit unit_app_ops ex_prompt_params [] ex_prompt_inputs) =
    [None; None; Some (834, KListenToken, false);
     Some (70000, KClaimToken, true); Some (70100, KClaimToken, false); Some (71000, KClaimToken, false);
     Some (72700, KClaimToken, false); Some (72800, KClaimToken, false); Some (73000, KClaimToken, false);
     Some (75000, KClaimToken, true); Some (76000, KClaimToken, false); Some (78000, KClaimToken, false);
     Some (79000, KClaimToken, true); Some (82000, KClaimToken, false)].
Proof. exact prompt_example. Qed.

(* (b) The monitor is not trivially silent: a transcript (not of the model) of a station that sits in PassToken on a
   silent bus for more than Tslot - 11 bit after the first poll without doing anything is reported at its third event. *)
Example C01_prompt_monitor_rejects_stuck_station :
  pmonitor ex_prompt_params ex_stuck_events = [(2%nat, P01_reaction_after_slot_time)].
Proof. exact prompt_monitor_fires. Qed.
