(* C05 - poll is total (one-step parts).  The full statement (no Panic / OutOfFuel under the
   representation invariant, for all inputs) is planned on top of the same model and not yet proved;
   until then the evidence for C05 is the correspondence run: model and implementation agree on
   PANIC / no PANIC on every generated history, and the implementation shows no PANIC. *)
From PB Require Import Common Fdl FdlProofs.

(* The GAP cursor computation cannot panic for parameters the builder can produce. *)
Theorem C05_gap_cursor_total : forall (f : fdl) (cur : Z),
  1 <= p_hsa (f_p f) <= 126 -> 0 <= cur < p_hsa (f_p f) ->
  exists g, next_gap_poll f cur = Ok g.
Proof. exact next_gap_poll_total. Qed.
Print Assumptions C05_gap_cursor_total.

(* The assertion `debug_assert_ne!(current_address, self.p.address)` of transmit_gap_poll_if_pending
   holds for every cursor the station computes (this is false on the unfixed tree: defect F1). *)
Theorem C05_gap_poll_never_self : forall (f : fdl) (cur a : Z),
  next_gap_poll f cur = Ok (GapDoPoll a) -> (a =? ts f) = false.
Proof. exact gap_poll_never_self. Qed.
Print Assumptions C05_gap_poll_never_self.

(* An offline station's poll does nothing and cannot panic. *)
Theorem C05_offline_poll_noop : forall (A : Type) (ops : app_ops A) (f : fdl) (now : Z) (pin : phy_in) (apps : list A),
  f_conn f = ConnOffline -> f_state f = Offline ->
  poll ops f now pin apps = Ok (f, mkPhyOut None (rx pin), apps, []).
Proof. exact poll_offline_noop. Qed.
Print Assumptions C05_offline_poll_noop.

(* A poll during an ongoing transmission cannot panic, in any state of an online station. *)
Theorem C05_busy_poll_total : forall (A : Type) (ops : app_ops A) (f : fdl) (now : Z) (rxb : bytes) (apps : list A),
  f_conn f = ConnOnline -> kind_of (f_state f) <> KPassiveIdle ->
  exists f', poll ops f now (mkPhyIn true rxb) apps = Ok (f', mkPhyOut None rxb, apps, []).
Proof. exact poll_busy_total. Qed.
Print Assumptions C05_busy_poll_total.

(* ------------------------------------------------------------------------------------------ *)
(* The full statement: poll is total under the representation invariant `Rep` of
   Proofs/C05Proofs.v, and `Rep` is inductive over all histories of polls and implemented API calls.

   `Rep n f` (n = number of applications) says: the parameters are ones the builder can produce; the
   LAS has 128 entries, r_ts = TS and NS / PS are the cyclic neighbours of TS in the LAS (hence
   0 <= NS < 128); connectivity is never Passive, an Offline station is in state Offline and every
   other state is entered only while Online; the state is never PassiveIdle; a GAP cursor lies in
   [0, HSA), a GAP rotation counter in [0, gap_wait + 1]; collision counters are 0 or 1; a pending status
   requester is a 7-bit address; `AwaitStatusResponse a` / `ClaimToken (ScanAwaitResponse a)` agree with
   the GAP cursor (= a, a <> TS); token times are in [0, 2^62), last_bus_activity in
   [0, 2^62 + 2^25 * 10^6]; `next_application` indexes the application list.
   `apps_total` is the applications' own totality (every callback returns; a telegram handed to the
   PHY has at most 65536 bytes).  `time_ok now` is 0 <= now < 2^62; `all_bytes` says the receive buffer
   holds bytes (0..255).  set_passive (a documented todo!()) is not part of the histories. *)
From PB Require Import Params C05Proofs.

(* Rep holds for a new station and after set_online / set_offline. *)
Theorem C05_rep_init : forall (k : nat) (p : params), builder_valid p ->
  exists f0, fdl_new p = Ok f0 /\ Rep k f0 /\
    (exists f1, set_online f0 = Ok f1 /\ Rep k f1) /\ (exists f2, set_offline f0 = Ok f2 /\ Rep k f2).
Proof. exact rep_init. Qed.
Print Assumptions C05_rep_init.

Theorem C05_rep_api : forall (k : nat) (f : fdl), Rep k f ->
  (exists f1, set_online f = Ok f1 /\ Rep k f1) /\ (exists f2, set_offline f = Ok f2 /\ Rep k f2).
Proof. exact rep_api. Qed.
Print Assumptions C05_rep_api.

(* One poll from ANY state satisfying Rep, with any PHY answer (busy or not, any received bytes), any
   time in range and any list of total applications: the result is Ok - no panic site is reached
   (assertions, unreachable!, unwrap, index, integer and time arithmetic, second transmission) and no
   loop bound is exhausted - and Rep holds again.  The model's loop bounds are part of `poll`:
   the receive loop has fuel |rx| + 1 (`receive_all_fuel`), the application loop makes at most
   |apps| iterations (structural), nothing else loops. *)
Theorem C05_rep_step : forall (A : Type) (ops : app_ops A), apps_total A ops ->
  forall (f : fdl) (now : Z) (pin : phy_in) (apps : list A),
  Rep (length apps) f -> time_ok now -> all_bytes (rx pin) ->
  exists f' o apps' c, poll ops f now pin apps = Ok (f', o, apps', c) /\
                       Rep (length apps) f' /\ length apps' = length apps.
Proof. exact poll_rep_step. Qed.
Print Assumptions C05_rep_step.

Theorem C05_fuel : forall rxb : bytes, receive_all_fuel rxb = S (length rxb).
Proof. exact fuel_is_rx_plus_one. Qed.
Print Assumptions C05_fuel.

(* All histories: a new station with builder-valid parameters, then any sequence of polls (any times
   in range - not even monotone -, any PHY answers, any received byte lists) and set_online /
   set_offline calls, with any number (including zero) of total applications: every call returns Ok. *)
Theorem C05_no_panic : forall (A : Type) (ops : app_ops A), apps_total A ops ->
  forall (p : params) (apps : list A) (evs : list api_ev), builder_valid p -> Forall ev_ok evs ->
  exists f0 f' apps', fdl_new p = Ok f0 /\ run_events A ops f0 apps evs = Ok (f', apps') /\ Rep (length apps) f'.
Proof. exact no_panic. Qed.
Print Assumptions C05_no_panic.

(* non-vacuity: the unit application is total; the default parameters are builder-valid *)
Example C05_unit_app_total : apps_total unit unit_app_ops.
Proof. exact unit_apps_total. Qed.
Example C05_default_params_valid : builder_validb default_params = true.
Proof. reflexivity. Qed.
