(* C05 - poll is total (one-step parts).  The full statement (no Panic / OutOfFuel under the
   representation invariant, for all inputs) is planned on top of the same model and not yet proved;
   until then the evidence for C05 is the correspondence run: model and implementation agree on
   PANIC / no PANIC on every generated history, and the implementation shows no PANIC. *)
From PB Require Import Common Fdl FdlProofs.

(* The GAP cursor computation cannot panic for parameters the builder can produce. *)
Theorem C05_gap_cursor_total : forall (f : fdl) (cur : Z),
  1 <= p_hsa (f_p f) <= 126 -> 0 <= cur < p_hsa (f_p f) ->
  exists g, next_gap_poll f cur = Ok g.
Proof. exact next_gap_poll_total. Qed.
Print Assumptions C05_gap_cursor_total.

(* The assertion `debug_assert_ne!(current_address, self.p.address)` of transmit_gap_poll_if_pending
   holds for every cursor the station computes (this is false on the unfixed tree: defect F1). *)
Theorem C05_gap_poll_never_self : forall (f : fdl) (cur a : Z),
  next_gap_poll f cur = Ok (GapDoPoll a) -> (a =? ts f) = false.
Proof. exact gap_poll_never_self. Qed.
Print Assumptions C05_gap_poll_never_self.

(* An offline station's poll does nothing and cannot panic. *)
Theorem C05_offline_poll_noop : forall (A : Type) (ops : app_ops A) (f : fdl) (now : Z) (pin : phy_in) (apps : list A),
  f_conn f = ConnOffline -> f_state f = Offline ->
  poll ops f now pin apps = Ok (f, mkPhyOut None (rx pin), apps, []).
Proof. exact poll_offline_noop. Qed.
Print Assumptions C05_offline_poll_noop.

(* A poll during an ongoing transmission cannot panic, in any state of an online station. *)
Theorem C05_busy_poll_total : forall (A : Type) (ops : app_ops A) (f : fdl) (now : Z) (rxb : bytes) (apps : list A),
  f_conn f = ConnOnline -> kind_of (f_state f) <> KPassiveIdle ->
  exists f', poll ops f now (mkPhyIn true rxb) apps = Ok (f', mkPhyOut None rxb, apps, []).
Proof. exact poll_busy_total. Qed.
Print Assumptions C05_busy_poll_total.
