(* C05 - poll() is total: no panic, no hang, whatever arrives on the bus.
   First the one-step parts, then (below) the full statement: no Panic / OutOfFuel from every state
   satisfying the representation invariant `Rep`, for all inputs and all histories, for the FDL station
   with abstract total applications, and (further below, Proofs/C05Apps.v) with the models of the real
   applications - DP master with any number of peripherals, live list, DP scanner - attached. *)
From PB Require Import Common Fdl FdlProofs.

(* The GAP cursor computation cannot panic for parameters the builder can produce. *)
Theorem C05_gap_cursor_total : forall (f : fdl) (cur : Z),
  1 <= p_hsa (f_p f) <= 126 -> 0 <= cur < p_hsa (f_p f) ->
  exists g, next_gap_poll f cur = Ok g.
Proof. exact next_gap_poll_total. Qed.
Print Assumptions C05_gap_cursor_total.

(* The assertion `debug_assert_ne!(current_address, self.p.address)` of transmit_gap_poll_if_pending
   holds for every cursor the station computes (this is false on the unfixed tree: defect F1). *)
Theorem C05_gap_poll_never_self : forall (f : fdl) (cur a : Z),
  next_gap_poll f cur = Ok (GapDoPoll a) -> (a =? ts f) = false.
Proof. exact gap_poll_never_self. Qed.
Print Assumptions C05_gap_poll_never_self.

(* An offline station's poll does nothing and cannot panic. *)
Theorem C05_offline_poll_noop : forall (A : Type) (ops : app_ops A) (f : fdl) (now : Z) (pin : phy_in) (apps : list A),
  f_conn f = ConnOffline -> f_state f = Offline ->
  poll ops f now pin apps = Ok (f, mkPhyOut None (rx pin), apps, []).
Proof. exact poll_offline_noop. Qed.
Print Assumptions C05_offline_poll_noop.

(* A poll during an ongoing transmission cannot panic, in any state of an online station. *)
Theorem C05_busy_poll_total : forall (A : Type) (ops : app_ops A) (f : fdl) (now : Z) (rxb : bytes) (apps : list A),
  f_conn f = ConnOnline -> kind_of (f_state f) <> KPassiveIdle ->
  exists f', poll ops f now (mkPhyIn true rxb) apps = Ok (f', mkPhyOut None rxb, apps, []).
Proof. exact poll_busy_total. Qed.
Print Assumptions C05_busy_poll_total.

(* ------------------------------------------------------------------------------------------ *)
(* The full statement: poll is total under the representation invariant `Rep` of
   Proofs/C05Proofs.v, and `Rep` is inductive over all histories of polls and implemented API calls.

   `Rep n f` (n = number of applications) says: the parameters are ones the builder can produce; the
   LAS has 128 entries, r_ts = TS and NS / PS are the cyclic neighbours of TS in the LAS (hence
   0 <= NS < 128); connectivity is never Passive, an Offline station is in state Offline and every
   other state is entered only while Online; the state is never PassiveIdle; a GAP cursor lies in
   [0, HSA), a GAP rotation counter in [0, gap_wait + 1]; collision counters are 0 or 1; a pending status
   requester is a 7-bit address; `AwaitStatusResponse a` / `ClaimToken (ScanAwaitResponse a)` agree with
   the GAP cursor (= a, a <> TS); token times are in [0, 2^62), last_bus_activity in
   [0, 2^62 + 2^25 * 10^6]; `next_application` indexes the application list.
   `apps_total` is the applications' own totality (every callback returns; a telegram handed to the
   PHY has at most 65536 bytes).  `time_ok now` is 0 <= now < 2^62; `all_bytes` says the receive buffer
   holds bytes (0..255).  set_passive (a documented todo!()) is not part of the histories. *)
From PB Require Import Params C05Proofs.

(* Rep holds for a new station and after set_online / set_offline. *)
Theorem C05_rep_init : forall (k : nat) (p : params), builder_valid p ->
  exists f0, fdl_new p = Ok f0 /\ Rep k f0 /\
    (exists f1, set_online f0 = Ok f1 /\ Rep k f1) /\ (exists f2, set_offline f0 = Ok f2 /\ Rep k f2).
Proof. exact rep_init. Qed.
Print Assumptions C05_rep_init.

Theorem C05_rep_api : forall (k : nat) (f : fdl), Rep k f ->
  (exists f1, set_online f = Ok f1 /\ Rep k f1) /\ (exists f2, set_offline f = Ok f2 /\ Rep k f2).
Proof. exact rep_api. Qed.
Print Assumptions C05_rep_api.

(* One poll from ANY state satisfying Rep, with any PHY answer (busy or not, any received bytes), any
   time in range and any list of total applications: the result is Ok - no panic site is reached
   (assertions, unreachable!, unwrap, index, integer and time arithmetic, second transmission) and no
   loop bound is exhausted - and Rep holds again.  The model's loop bounds are part of `poll`:
   the receive loop has fuel |rx| + 1 (`receive_all_fuel`), the application loop makes at most
   |apps| iterations (structural), nothing else loops. *)
Theorem C05_rep_step : forall (A : Type) (ops : app_ops A), apps_total A ops ->
  forall (f : fdl) (now : Z) (pin : phy_in) (apps : list A),
  Rep (length apps) f -> time_ok now -> all_bytes (rx pin) ->
  exists f' o apps' c, poll ops f now pin apps = Ok (f', o, apps', c) /\
                       Rep (length apps) f' /\ length apps' = length apps.
Proof. exact poll_rep_step. Qed.
Print Assumptions C05_rep_step.

Theorem C05_fuel : forall rxb : bytes, receive_all_fuel rxb = S (length rxb).
Proof. exact fuel_is_rx_plus_one. Qed.
Print Assumptions C05_fuel.

(* All histories: a new station with builder-valid parameters, then any sequence of polls (any times
   in range - not even monotone -, any PHY answers, any received byte lists) and set_online /
   set_offline calls, with any number (including zero) of total applications: every call returns Ok. *)
Theorem C05_no_panic : forall (A : Type) (ops : app_ops A), apps_total A ops ->
  forall (p : params) (apps : list A) (evs : list api_ev), builder_valid p -> Forall ev_ok evs ->
  exists f0 f' apps', fdl_new p = Ok f0 /\ run_events A ops f0 apps evs = Ok (f', apps') /\ Rep (length apps) f'.
Proof. exact no_panic. Qed.
Print Assumptions C05_no_panic.

(* non-vacuity: the unit application is total; the default parameters are builder-valid *)
Example C05_unit_app_total : apps_total unit unit_app_ops.
Proof. exact unit_apps_total. Qed.
Example C05_default_params_valid : builder_validb default_params = true.
Proof. reflexivity. Qed.

(* ------------------------------------------------------------------------------------------ *)
(* The application side: DP master, live list and DP scanner attached (Model/AppsGlue.v: the app_ops
   records of the three applications and their sum `any_app`, so one application list can hold any
   mixture; Proofs/C05Apps.v).

   `apps_total` above asks every callback to return on EVERY argument; the real applications do not (a
   reply for an address nobody asked panics: C05_dp_reply_outside_contract, C18_panic_outside_contract).
   They are total under the FdlApplication contract.  `apps_contract A ops AI AW`: with representation
   invariant AI and "waiting for the reply from da" predicate AW,
     - transmit_telegram is Ok from every AI state, at any time, keeps AI, its telegram has at most 65536
       bytes, and when it expects a reply from da the application is then waiting for da (AW);
     - receive_reply(addr, t) is Ok and keeps AI when the application waits for addr and t is what the
       station delivers (reply_ok: SC, or a response from addr to this station - C15_reply_filter);
     - handle_timeout(addr) likewise.
   `AppsInv f apps` is the tie between station and applications that makes the contract available inside
   poll: every application satisfies AI, and while the station is in AwaitDataResponse addr the
   application whose turn it is (next_application) waits for addr.  Rep /\ AppsInv is inductive. *)
From PB Require Import Telegram DpMaster ScanBase LiveList Scan AppsGlue C15Proofs C05Apps.

(* generic: one poll from ANY station state satisfying Rep and ANY application states satisfying AppsInv *)
Theorem C05_rep_step_contract : forall (A : Type) (ops : app_ops A) (AI : A -> Prop) (AW : A -> Z -> Prop),
  apps_contract A ops AI AW ->
  forall (f : fdl) (now : Z) (pin : phy_in) (apps : list A),
  Rep (length apps) f -> AppsInv A AI AW f apps -> time_ok now -> all_bytes (rx pin) ->
  exists f' o apps' c, Fdl.poll ops f now pin apps = Ok (f', o, apps', c) /\
    Rep (length apps) f' /\ AppsInv A AI AW f' apps' /\ length apps' = length apps.
Proof. exact poll_rep_stepA. Qed.
Print Assumptions C05_rep_step_contract.

(* ---- DP master.  DpRep m: every occupied slot has index <= 255 and holds a peripheral with a 7-bit
   address, a frame count bit that is not Inactive, and an output image / Chk_Cfg data / user parameters
   that fit one telegram (`fits`: <= 246 / 244 / 237 bytes); last_global_control is a time in [0, 2^62).
   ANY number of slots and of peripherals (none included), any occupancy pattern, cycle state, operating
   state (Stop included), retry counters, peripheral states, pending events.
   transmit_telegram: Ok from every such state, for any parameters the builder can produce, any time, either
   priority; DpRep holds again; neither the u8 retry counter overflows, nor does FrameCountBit::cycle see
   Inactive, nor does the event assertion fire (F11 fix), nor is the slot loop's fuel |slots| + 2
   exhausted (C14_turn_ends); if a reply from da is expected the master is then waiting for da. *)
Theorem C05_dp_transmit_total : forall (pa : params) (m : dpm) (now : Z) (hp : bool),
  builder_valid pa -> time_ok now -> DpRep m ->
  exists m' r, dp_transmit pa tx_buffer_size m now hp = Ok (m', r) /\ DpRep m' /\
    match r with
    | Some (wire, er) => Z.of_nat (length wire) <= 65536 /\ forall da, er = Some da -> dp_waiting m' da
    | None => True
    end.
Proof. exact dp_transmit_total. Qed.
Print Assumptions C05_dp_transmit_total.

(* receive_reply for the address the master waits for, with ANY telegram that is not a token and not a
   request (any SAPs, status, PDU bytes and length): Ok, DpRep again (copy_from_slice is guarded by the
   length comparison, is_response().unwrap() and the token arm are excluded by the reply filter);
   handle_timeout is a no-op. *)
Theorem C05_dp_receive_reply_total : forall (m : dpm) (addr : Z) (t : telegram),
  DpRep m -> dp_waiting m addr -> reply_shape t ->
  exists m', dp_receive_reply m addr t = Ok m' /\ DpRep m'.
Proof. exact dp_receive_reply_total. Qed.
Print Assumptions C05_dp_receive_reply_total.

Theorem C05_dp_master_total : apps_contract dpm dp_app_ops DpRep dp_waiting.
Proof. exact dp_contract. Qed.
Print Assumptions C05_dp_master_total.

(* user calls between polls keep DpRep and keep a waiting master waiting: take_last_events, enter_state
   (any state; the todo!() of enter_stop / enter_clear comes after the assignments), request_diagnostics,
   writing the output image (same length); add keeps DpRep *)
Theorem C05_dp_user_calls : 
  user_ok dpm DpRep dp_waiting u_take_last_events /\
  (forall s, user_ok dpm DpRep dp_waiting (u_enter_state s)) /\
  (forall h, user_ok dpm DpRep dp_waiting (u_request_diagnostics h)) /\
  (forall h q, user_ok dpm DpRep dp_waiting (u_write_q h q)).
Proof. exact dp_user_calls_ok. Qed.
Print Assumptions C05_dp_user_calls.

Theorem C05_dp_add_keeps_rep : forall (m : dpm) (p : periph), DpRep m -> periph_ok p ->
  match dp_add m p with Ok (m', _) => DpRep m' | _ => True end.
Proof. exact dp_add_rep. Qed.
Print Assumptions C05_dp_add_keeps_rep.

Theorem C05_dp_new_rep : forall (k : nat) (owned : bool), DpRep (dp_new k owned).
Proof. exact DpRep_new. Qed.
Print Assumptions C05_dp_new_rep.

(* Storages filled front to back (`dense`: what DpMaster::new + add produce; sparse storages exist only
   through the verif-hooks constructor).  DpRepD = DpRep /\ dense is kept by all callbacks (they never
   change which slots are occupied) and lets add() be called at ANY time, also while a reply is
   outstanding: the new peripheral lands behind the one the cycle index points to, so the reply is
   still routed to the peripheral that was asked (no `unreachable!()` in receive_reply). *)
Theorem C05_dp_master_total_dense : apps_contract dpm dp_app_ops DpRepD dp_waiting.
Proof. exact dpd_contract. Qed.
Print Assumptions C05_dp_master_total_dense.

Theorem C05_dp_user_calls_dense :
  user_ok dpm DpRepD dp_waiting u_take_last_events /\
  (forall s, user_ok dpm DpRepD dp_waiting (u_enter_state s)) /\
  (forall h, user_ok dpm DpRepD dp_waiting (u_request_diagnostics h)) /\
  (forall h q, user_ok dpm DpRepD dp_waiting (u_write_q h q)) /\
  (forall p, periph_ok p -> user_ok dpm DpRepD dp_waiting (u_add p)).
Proof. exact dp_user_calls_dense_ok. Qed.
Print Assumptions C05_dp_user_calls_dense.

Theorem C05_dp_new_rep_dense : forall (k : nat) (owned : bool), DpRepD (dp_new k owned).
Proof. exact DpRepD_new. Qed.
Print Assumptions C05_dp_new_rep_dense.

(* the size preconditions are necessary (an output image of 247 bytes panics in the serializer; the same
   on the crate), and outside the contract receive_reply does panic *)
Theorem C05_dp_oversize_output_panics :
  dp_transmit default_params tx_buffer_size oversize_master 0 true = Panic SiteAssertLen /\ ~ DpRep oversize_master.
Proof. exact oversize_output_panics. Qed.
Print Assumptions C05_dp_oversize_output_panics.

Theorem C05_dp_reply_outside_contract :
  dp_receive_reply (dp_new 1 false) 5 TShortConf = Panic SiteUnreachable /\ DpRep (dp_new 1 false).
Proof. exact dp_receive_reply_outside_contract. Qed.
Print Assumptions C05_dp_reply_outside_contract.

(* ---- live list and scanner: invariant = cursor in 0..125 (any station set, any uncollected event);
   waiting for da = da in 0..125.  (C18_no_panic / C18_no_panic_scanner state the same for the scripted
   driver of Model/ScanBase.v with take_last_event after every callback.) *)
Theorem C05_live_list_total : apps_contract ll ll_app_ops ll_ok (fun _ => scan_waiting).
Proof. exact ll_contract. Qed.
Print Assumptions C05_live_list_total.

Theorem C05_scanner_total : apps_contract scanner sc_app_ops sc_ok (fun _ => scan_waiting).
Proof. exact sc_contract. Qed.
Print Assumptions C05_scanner_total.

(* ---- the composition.  Application lists over `any_app` = any mixture of DP masters, live lists,
   scanners and unit applications (poll = list of one, poll_multi = any list, none included).
   any_ok: DpRepD for a master, ll_ok / sc_ok for live list / scanner. *)
Theorem C05_any_app_total : apps_contract any_app any_app_ops any_ok any_waiting.
Proof. exact any_contract. Qed.
Print Assumptions C05_any_app_total.

Theorem C05_rep_step_with_apps : forall (f : fdl) (now : Z) (pin : phy_in) (apps : list any_app),
  Rep (length apps) f -> AppsInv any_app any_ok any_waiting f apps -> time_ok now -> all_bytes (rx pin) ->
  exists f' o apps' c, Fdl.poll any_app_ops f now pin apps = Ok (f', o, apps', c) /\
    Rep (length apps) f' /\ AppsInv any_app any_ok any_waiting f' apps' /\ length apps' = length apps.
Proof. exact poll_with_apps_step. Qed.
Print Assumptions C05_rep_step_with_apps.

(* All histories: a new station with builder-valid parameters; ANY list of applications in states
   satisfying their invariants (e.g. new ones); any sequence of polls (any times in range, any PHY
   answers, any received bytes), set_online / set_offline, and user calls on single application objects
   between polls (any function that keeps the invariant and keeps a waiting application waiting, e.g.
   C05_dp_user_calls_dense through on_dp: take_last_events, enter_state, request_diagnostics, output
   writes, add): every call returns Ok - no panic in the station or in any callback,
   no loop bound exhausted - and the invariants hold at the end. *)
Theorem C05_no_panic_with_apps : forall (p : params) (apps : list any_app) (evs : list any_ev),
  builder_valid p -> Forall any_ok apps -> Forall any_ev_ok evs ->
  exists f0 f' apps', fdl_new p = Ok f0 /\ run_any f0 apps evs = Ok (f', apps') /\
    Rep (length apps) f' /\ Forall any_ok apps' /\ length apps' = length apps.
Proof. exact no_panic_with_apps. Qed.
Print Assumptions C05_no_panic_with_apps.

Theorem C05_on_dp_user_ok : forall g, user_ok dpm DpRepD dp_waiting g -> user_ok any_app any_ok any_waiting (on_dp g).
Proof. exact on_dp_ok. Qed.
Print Assumptions C05_on_dp_user_ok.

(* poll(now, phy, &mut app) with one application of each kind *)
Theorem C05_no_panic_dp_master : forall (p : params) (m : dpm) (evs : list (app_ev dpm)),
  builder_valid p -> DpRep m -> Forall (app_ev_ok dpm DpRep dp_waiting) evs ->
  exists f0 f' m', fdl_new p = Ok f0 /\ run_app_events dpm dp_app_ops f0 [m] evs = Ok (f', [m']) /\
    Rep 1 f' /\ DpRep m'.
Proof. exact no_panic_dp_master. Qed.
Print Assumptions C05_no_panic_dp_master.

Theorem C05_no_panic_live_list : forall (p : params) (s : ll) (evs : list (app_ev ll)),
  builder_valid p -> ll_ok s -> Forall (app_ev_ok ll ll_ok (fun _ => scan_waiting)) evs ->
  exists f0 f' s', fdl_new p = Ok f0 /\ run_app_events ll ll_app_ops f0 [s] evs = Ok (f', [s']) /\
    Rep 1 f' /\ ll_ok s'.
Proof. exact no_panic_live_list. Qed.
Print Assumptions C05_no_panic_live_list.

Theorem C05_no_panic_scanner : forall (p : params) (s : scanner) (evs : list (app_ev scanner)),
  builder_valid p -> sc_ok s -> Forall (app_ev_ok scanner sc_ok (fun _ => scan_waiting)) evs ->
  exists f0 f' s', fdl_new p = Ok f0 /\ run_app_events scanner sc_app_ops f0 [s] evs = Ok (f', [s']) /\
    Rep 1 f' /\ sc_ok s'.
Proof. exact no_panic_scanner. Qed.
Print Assumptions C05_no_panic_scanner.

(* non-vacuity: a master with two peripherals (of four slots), a new live list and scanner satisfy the
   invariants; on a token-holding station (Rep, AppsInv) 18 polls of the model ask all three in turn:
   (application, 0 declined / 1 sent / 2 reply / 3 time-out, addressed station) *)
Example C05_demo_apps_ok : DpRepD demo_master /\ occupied demo_master = [0%nat; 1%nat] /\
  Forall any_ok [AppDp demo_master; AppLl ll_new; AppSc sc_new; AppUnit].
Proof. exact demo_master_rep. Qed.
Example C05_demo_station_ok : forall f0, fdl_new demo_params = Ok f0 ->
  Rep 3 (demo_station f0) /\ AppsInv any_app any_ok any_waiting (demo_station f0) demo_apps.
Proof. exact demo_station_rep. Qed.
Example C05_demo_run :
  match fdl_new demo_params with
  | Ok f0 =>
      match polls (demo_station f0) demo_apps demo_polls with
      | Ok (f, apps, calls) =>
          map short calls =
            [(0, 1, None); (0, 1, Some 8); (0, 2, Some 8); (0, 1, Some 9); (0, 3, Some 9); (0, 0, None);
             (1, 1, Some 0); (1, 3, Some 0); (1, 0, None); (2, 1, Some 0); (2, 3, Some 0); (2, 0, None);
             (0, 1, Some 9); (0, 3, Some 9); (0, 0, None); (1, 1, Some 1); (1, 3, Some 1); (1, 0, None);
             (2, 1, Some 1)] /\
          f_state f = AwaitDataResponse 1 180000 (Some 0%nat)
      | _ => False
      end
  | _ => False
  end.
Proof. exact demo_run. Qed.

(* ------------------------------------------------------------------------------------------ *)
(* ORACLE SOUNDNESS (see Properties/C01.v for model_transcript and the hypotheses): the monitors never
   report a rule of C05 (R05_panic, R05_timeout) on a transcript of the model - for ALL input histories
   (polls at any increasing times, any PHY answers, any bytes; on / off / pas in any order), any number of
   total applications.  set_passive (todo!()) ends the transcript with a panic that the monitor excuses, as
   DESIGN 4.0 says; every other call of the model returns (C05_no_panic) and the model has no time-outs. *)
From PB Require Import FdlOracle FdlOracleSound1 FdlOracleSound3.

Theorem C05_oracle_sound : forall (A : Type) (ops : app_ops A) (p : params),
  apps_total A ops -> builder_valid p ->
  forall (apps : list A) (ins : list minput), ins_ok 0 ins ->
  forall k r, In (k, r) (monitor p (length apps) (model_transcript A ops p apps ins)) -> rule_prop r <> PC05.
Proof. exact c05_oracle_sound. Qed.
Print Assumptions C05_oracle_sound.
