(* C09 - Telegram encoding and decoding are mutually inverse.
   Theorem statements only; every proof is `exact <lemma of Proofs/>`. *)
From PB Require Import Common Telegram CodecOracle DecodeSpec C09Proofs.

(* The delimiters the code uses (regenerated from src/consts.rs on every run) are the ones the
   PROFIBUS frame format prescribes. *)
Theorem C09_standard_delimiters :
  SD1 = 16 /\ SD2 = 104 /\ SD3 = 162 /\ SD4 = 220 /\ ED = 22 /\ SC = 229.
Proof. exact standard_delimiters. Qed.
Print Assumptions C09_standard_delimiters.

(* Function codes round-trip for every request/response combination. *)
Theorem C09_fc_roundtrip : forall fc : fcode, fc_from_byte (fc_to_byte fc) = Some fc.
Proof. exact fc_roundtrip. Qed.
Print Assumptions C09_fc_roundtrip.

(* All 256 function code bytes: whatever decodes re-encodes to a byte that decodes to the same
   code; the re-encoded byte is the original one, except that the decoder ignores the reserved
   bit 7 of a response byte (stated, not hidden: DESIGN 4.0). *)
Theorem C09_fc_all_bytes : forall b : Z, 0 <= b < 256 ->
  match fc_from_byte b with
  | None => True
  | Some fc =>
      fc_from_byte (fc_to_byte fc) = Some fc /\
      (fc_to_byte fc = b \/ (fc_to_byte fc = b - 128 /\ Z.land b 64 = 0 /\ 128 <= b))
  end.
Proof. exact fc_all_bytes_prop. Qed.
Print Assumptions C09_fc_all_bytes.

(* Serialisation writes exactly the PROFIBUS frame format (SD1/SD2/SD3 selection, length bytes,
   address extension bits, checksum, end delimiter) and nothing else into the transmit buffer,
   and reports exactly the number of bytes written. *)
Theorem C09_frame_format : forall (h : header) (pdu buf0 : bytes),
  wf_header h -> (length_byte h (length pdu) <= 249)%nat ->
  (telegram_len_data h (length pdu) <= length buf0)%nat ->
  serialize_data h pdu buf0 =
  Ok (frame_spec h pdu ++ skipn (telegram_len_data h (length pdu)) buf0, telegram_len_data h (length pdu)).
Proof. exact serialize_data_spec. Qed.
Print Assumptions C09_frame_format.

Theorem C09_reports_len : forall (h : header) (pdu : bytes),
  length (frame_spec h pdu) = telegram_len_data h (length pdu).
Proof. exact frame_spec_length. Qed.
Print Assumptions C09_reports_len.

Theorem C09_wire_bytes : forall (size : nat) (h : header) (pdu : bytes),
  wf_header h -> (length_byte h (length pdu) <= 249)%nat -> (telegram_len_data h (length pdu) <= size)%nat ->
  encode_data_in size h pdu = Ok (frame_spec h pdu).
Proof. exact encode_data_in_spec. Qed.
Print Assumptions C09_wire_bytes.

(* Decoding what was encoded - whatever follows it in the buffer - yields the identical
   telegram and consumes exactly the bytes written. *)
Theorem C09_data_roundtrip : forall (h : header) (pdu rest : bytes),
  wf_header h -> (length_byte h (length pdu) <= 249)%nat ->
  decode (frame_spec h pdu ++ rest) = Ok (Accept (TData h pdu) (telegram_len_data h (length pdu))).
Proof. exact decode_data_frame. Qed.
Print Assumptions C09_data_roundtrip.

Theorem C09_token_roundtrip : forall (da sa : Z) (rest : bytes),
  decode (encode (TToken da sa) ++ rest) = Ok (Accept (TToken da sa) (telegram_len (TToken da sa))).
Proof. exact decode_token_frame. Qed.
Print Assumptions C09_token_roundtrip.

Theorem C09_sc_roundtrip : forall rest : bytes,
  decode (encode TShortConf ++ rest) = Ok (Accept TShortConf (telegram_len TShortConf)).
Proof. exact decode_sc_frame. Qed.
Print Assumptions C09_sc_roundtrip.

(* Which inputs the real code rejects: beyond the frame limit the encoder panics on its own
   assertion (it never emits a wrong frame). *)
Theorem C09_oversize_rejected : forall (size : nat) (h : header) (pdu : bytes),
  (249 < length_byte h (length pdu))%nat -> (1 <= size)%nat ->
  encode_data_in size h pdu = Panic SiteAssertLen.
Proof. exact encode_oversize. Qed.
Print Assumptions C09_oversize_rejected.

(* Non-vacuity: a concrete header meets the hypotheses, at the frame limit. *)
Example C09_hypotheses_satisfiable :
  let h := mkHeader 125 2 (Some 61) (Some 62) (FcRequest FcbHigh RqSrdLow) in
  wf_header h /\ (length_byte h (length (repeat 7 244)) <= 249)%nat /\
  decode (frame_spec h (repeat 7 244)) = Ok (Accept (TData h (repeat 7 244)) 255).
Proof.
  cbv zeta. split; [|split].
  - unfold wf_header, is_addr7, wf_sap, is_byte. cbn. lia.
  - apply Nat.leb_le. vm_compute. reflexivity.
  - vm_compute. reflexivity.
Qed.
