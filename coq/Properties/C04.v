(* C04 (phase 1): one-step theorems about the process images, over ALL peripheral states. *)
From PB Require Import Peripheral DpStepProofs.

(* pi_i changes only in receive_reply (the only other function, transmit, is covered below), only in the
   data exchange states with no diagnostics request in flight, only for a data response with status
   Ok / DataLow / DataHigh whose PDU has exactly the length of pi_i -- and then equals that PDU, and
   DataExchanged is reported *)
Theorem C04_pi_i_frame : forall p t p' ev,
  p_receive_reply p t = Ok (p', ev) ->
  pe_pi_i p' = pe_pi_i p \/
  ((pe_state p = PsPreDataExchange \/ pe_state p = PsDataExchange) /\ pe_diag_in_flight p = false /\
   exists h pdu st s, t = TData h pdu /\ h_fc h = FcResponse st s /\
     (s = StOk \/ s = StDataLow \/ s = StDataHigh) /\
     length pdu = length (pe_pi_i p) /\ pe_pi_i p' = pdu /\ ev = Some EvDataExchanged).
Proof. exact pi_i_frame. Qed.
Print Assumptions C04_pi_i_frame.

(* every Data_Exchange request carries the current output image in Operate and zeros of that length
   otherwise (Clear) *)
Theorem C04_request_carries_pi_q : forall pa op p p' h pdu,
  p_transmit pa op p = Ok (p', PtxSend h pdu) ->
  h_dsap h = None ->
  (pe_state p = PsPreDataExchange \/ pe_state p = PsDataExchange) /\
  pe_diag_in_flight p' = false /\
  h = mkHeader (pe_addr p) (p_address pa) None None (FcRequest (pe_fcb p) RqSrdHigh) /\
  pdu = (if opstate_eqb op OpOperate then pe_pi_q p else repeat 0 (length (pe_pi_q p))).
Proof. exact dx_request_only_when_ready. Qed.
Print Assumptions C04_request_carries_pi_q.

(* non-vacuity: a 2-byte reply updates a 2-byte input image *)
Example C04_update_example :
  let p := set_state (periph_new 7 default_options [0; 0] [] 0) PsDataExchange in
  let t := TData (mkHeader 2 7 None None (FcResponse RsSlave StDataLow)) [5; 6] in
  exists p', p_receive_reply p t = Ok (p', Some EvDataExchanged) /\ pe_pi_i p' = [5; 6].
Proof. eexists. split; reflexivity. Qed.
