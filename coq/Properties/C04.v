(* C04 (phase 1): one-step theorems about the process images, over ALL peripheral states. *)
From PB Require Import Peripheral DpStepProofs.

(* pi_i changes only in receive_reply (the only other function, transmit, is covered below), only in the
   data exchange states with no diagnostics request in flight, only for a data response with status
   Ok / DataLow / DataHigh whose PDU has exactly the length of pi_i -- and then equals that PDU, and
   DataExchanged is reported *)
Theorem C04_pi_i_frame : forall p t p' ev,
  p_receive_reply p t = Ok (p', ev) ->
  pe_pi_i p' = pe_pi_i p \/
  ((pe_state p = PsPreDataExchange \/ pe_state p = PsDataExchange) /\ pe_diag_in_flight p = false /\
   exists h pdu st s, t = TData h pdu /\ h_fc h = FcResponse st s /\
     (s = StOk \/ s = StDataLow \/ s = StDataHigh) /\
     length pdu = length (pe_pi_i p) /\ pe_pi_i p' = pdu /\ ev = Some EvDataExchanged).
Proof. exact pi_i_frame. Qed.
Print Assumptions C04_pi_i_frame.

(* every Data_Exchange request carries the current output image in Operate and zeros of that length
   otherwise (Clear) *)
Theorem C04_request_carries_pi_q : forall pa op p p' h pdu,
  p_transmit pa op p = Ok (p', PtxSend h pdu) ->
  h_dsap h = None ->
  (pe_state p = PsPreDataExchange \/ pe_state p = PsDataExchange) /\
  pe_diag_in_flight p' = false /\
  h = mkHeader (pe_addr p) (p_address pa) None None (FcRequest (pe_fcb p) RqSrdHigh) /\
  pdu = (if opstate_eqb op OpOperate then pe_pi_q p else repeat 0 (length (pe_pi_q p))).
Proof. exact dx_request_only_when_ready. Qed.
Print Assumptions C04_request_carries_pi_q.

(* non-vacuity: a 2-byte reply updates a 2-byte input image *)
Example C04_update_example :
  let p := set_state (periph_new 7 default_options [0; 0] [] 0) PsDataExchange in
  let t := TData (mkHeader 2 7 None None (FcResponse RsSlave StDataLow)) [5; 6] in
  exists p', p_receive_reply p t = Ok (p', Some EvDataExchanged) /\ pe_pi_i p' = [5; 6].
Proof. eexists. split; reflexivity. Qed.

(* ================================================================================================ *)
(* C04 at the level of the DP master and of histories (Proofs/C04Proofs.v; histories, ghost log and
   `accepts` as in Properties/C14.v).
   dx_accepts p t: peripheral p is in PreDataExchange / DataExchange with no diagnostics request in flight and
   t is a well-formed Data_Exchange reply for its input image (DpOracle.dx_reply_payload -- the predicate of
   the executable monitor: data response with status Ok / DataLow / DataHigh and exactly length pi_i
   bytes), or t is a short confirmation and the peripheral has no inputs. *)
From PB Require Import Fdl FdlProofs C15Proofs.
From PB Require Import DpMaster DpOracle C14History C04Proofs.

(* C04_event_iff, peripheral level, from EVERY peripheral state: DataExchanged is reported iff dx_accepts;
   pi_i is then the payload (dx_new_pi_i; unchanged for the SC of an input-less peripheral) and untouched
   otherwise; pi_q never changes *)
Theorem C04_event_iff : forall p t p' ev,
  p_receive_reply p t = Ok (p', ev) ->
  (ev = Some EvDataExchanged <-> dx_accepts p t = true) /\
  pe_pi_i p' = (if dx_accepts p t then dx_new_pi_i p t else pe_pi_i p) /\
  pe_pi_q p' = pe_pi_q p.
Proof. exact reply_event_iff. Qed.
Print Assumptions C04_event_iff.

(* C04_event_iff + C04_others_untouched, master level, from EVERY master state (reply_spec): a reply is
   handled by the peripheral whose turn is in progress (slot i, address = addr); no other slot changes at all
   (nth_error equal for j <> i: neither images nor anything else); pi_q of slot i is unchanged; pi_i of slot i
   is the payload iff dx_accepts; DataExchanged is in last_events iff dx_accepts, with the handle of slot i *)
Theorem C04_others_untouched : forall m addr t m',
  dp_receive_reply m addr t = Ok m' -> reply_spec m addr t m'.
Proof. exact reply_effect. Qed.
Print Assumptions C04_others_untouched.

(* ... and transmit_telegram, from EVERY master state, changes no process image and reports no peripheral
   event other than Offline (so DataExchanged is reported only as above) *)
Theorem C04_transmit_touches_no_image : forall pa bufsize m now hp m' o,
  dp_transmit pa bufsize m now hp = Ok (m', o) ->
  (forall j, images m' j = images m j) /\
  (forall h e, ev_peripheral (dm_events m') = Some (h, e) -> e = EvOffline).
Proof. exact tx_images. Qed.
Print Assumptions C04_transmit_touches_no_image.

(* ... and over histories (image_step_ok per callback): pi_i of a slot changes only in receive_reply for the
   slot whose turn it is; pi_q of a slot changes only by the user's write to it and then equals what was written *)
Theorem C04_images_history : forall auto pa bufsize m0 cbs tr,
  run_g auto pa bufsize m0 cbs = Ok tr -> Forall image_step_ok tr.
Proof. exact images_history. Qed.
Print Assumptions C04_images_history.

(* C04_wrong_replies_harmless: a reply that is not dx_accepts for the peripheral whose turn it is (wrong
   length, error status, SC although inputs are configured, diagnostics reply, anything in a state other
   than data exchange) changes no image of any peripheral ... *)
Theorem C04_wrong_replies_harmless : forall m addr t m',
  dp_receive_reply m addr t = Ok m' ->
  (forall i r p, pos_rem m = i :: r -> slot m i = Some p -> dx_accepts p t = false) ->
  forall j, images m' j = images m j.
Proof. exact wrong_reply_images. Qed.
Print Assumptions C04_wrong_replies_harmless.

(* ... and never panics: Peripheral::receive_reply is total on every SC / response telegram from every
   peripheral state whose frame count bit is active (invariant of all histories, safe_inv) ... *)
Theorem C04_reply_total_peripheral : forall p t,
  pe_fcb p <> FcbInactive -> reply_shape t -> exists r, p_receive_reply p t = Ok r.
Proof. exact receive_reply_total. Qed.
Print Assumptions C04_reply_total_peripheral.

(* ... DpMaster::receive_reply is total on every admissible reply for the outstanding request ... *)
Theorem C04_reply_total_master : forall m a t own,
  safe_inv m (Some a) -> admissible own a t = true -> exists m', dp_receive_reply m a t = Ok m'.
Proof. exact reply_total. Qed.
Print Assumptions C04_reply_total_master.

(* ... and safe_inv holds after every history that respects the FdlApplication contract (= C14_contract_safe) *)
Theorem C04_no_crash_history : forall auto pa bufsize m0 cbs tr a t,
  safe_init m0 -> run_g auto pa bufsize m0 cbs = Ok tr ->
  pend_run (p_address pa) None tr = Some (Some a) -> admissible (p_address pa) a t = true ->
  exists m', dp_receive_reply (final m0 tr) a t = Ok m'.
Proof. exact contract_safe_history. Qed.
Print Assumptions C04_no_crash_history.

(* C04_pi_q_user_writes (q_item): over arbitrary histories with user writes anywhere, every Data_Exchange
   request carries exactly the output image as the user last wrote it (qs, initially q_of m0) when the master
   is in Operate at the time of the transmit callback, and zeros of the same length in Clear; the master
   itself never changes pi_q (q_inv: the stored pi_q is qs at every callback) *)
Theorem C04_pi_q_user_writes : forall auto pa bufsize m0 qs0 cbs tr,
  q_inv m0 qs0 -> run_g auto pa bufsize m0 cbs = Ok tr ->
  accepts (nat -> bytes) q_inv q_item qs0 m0 tr.
Proof. exact pi_q_history. Qed.
Print Assumptions C04_pi_q_user_writes.

Theorem C04_pi_q_init : forall m, q_inv m (q_of m).
Proof. exact q_inv_init. Qed.
Print Assumptions C04_pi_q_init.

(* C04_end_to_end: composition with the FDL station model (Model/Fdl.v) running DP masters as its
   applications (dp_app_ops).  Whatever is in the receive buffer, at any time, in any station state: every
   telegram the station hands to a DP master's receive_reply is admissible (C15_delivered_reply_shape,
   Proofs/C15Proofs.poll_reply_shape): a short confirmation or a response from the addressed station to this
   master.  Telegrams from another source, to another destination, requests, tokens never reach
   receive_reply ... *)
Theorem C04_end_to_end : forall bufsize (f : fdl) (now : Z) (pin : phy_in) (apps : list dpm)
    (f' : fdl) (o : phy_out) (apps' : list dpm) (calls : list call) (i : nat) (a : Z) (t : telegram),
  poll (dp_app_ops bufsize) f now pin apps = Ok (f', o, apps', calls) ->
  In (CallReceiveReply i a t) calls -> admissible (ts f) a t = true.
Proof. exact end_to_end. Qed.
Print Assumptions C04_end_to_end.

(* ... and a delivered reply is processed by a master that is waiting for it without panic and with the
   effect reply_spec (C04_others_untouched / C04_event_iff) *)
Theorem C04_end_to_end_effect : forall bufsize (f : fdl) (now : Z) (pin : phy_in) (apps : list dpm)
    (f' : fdl) (o : phy_out) (apps' : list dpm) (calls : list call) (i : nat) (a : Z) (t : telegram),
  poll (dp_app_ops bufsize) f now pin apps = Ok (f', o, apps', calls) ->
  In (CallReceiveReply i a t) calls ->
  forall m, safe_inv m (Some a) -> exists m', dp_receive_reply m a t = Ok m' /\ reply_spec m a t m'.
Proof. exact end_to_end_effect. Qed.
Print Assumptions C04_end_to_end_effect.

Theorem C04_reply_ok_is_admissible : forall own a t, reply_ok own a t <-> admissible own a t = true.
Proof. exact reply_ok_admissible. Qed.
Print Assumptions C04_reply_ok_is_admissible.

(* non-vacuity: a wrong-length reply and an error-status reply are not accepted, a well-formed one is; a
   user write between two polls is what the next Data_Exchange request carries *)
Example C04_accept_examples :
  let p := set_state (periph_new 7 default_options [0; 0] [9] 0) PsDataExchange in
  let rsp s pdu := TData (mkHeader 2 7 None None (FcResponse RsSlave s)) pdu in
  dx_accepts p (rsp StDataLow [5; 6]) = true /\ dx_accepts p (rsp StDataLow [5]) = false /\
  dx_accepts p (rsp StNoResources [5; 6]) = false /\ dx_accepts p TShortConf = false /\
  dx_accepts (set_state (periph_new 7 default_options [] [9] 0) PsDataExchange) TShortConf = true.
Proof. repeat split; reflexivity. Qed.

Example C04_user_write_example :
  let p := set_state (periph_new 7 default_options [0; 0] [9] 0) PsDataExchange in
  let m0 := set_op (set_last_gc (set_slots (dp_new 1 false) [Some p]) (Some 0)) OpOperate in
  exists tr, run_g true default_params 256 m0 [CWriteQ (mkHandle 0 7) [42]; CTx 1 false] = Ok tr /\
    map (fun it => map (fun e => match e with GSend i _ _ h pdu => Some (i, is_dx_req h, pdu) | _ => None end)
                       (it_log it)) tr = [[]; [Some (0%nat, true, [42])]].
Proof. cbv zeta. eexists. split; vm_compute; reflexivity. Qed.

(* ====================================================================================================
   C04: ORACLE SOUNDNESS -- the executable monitor DpOracle.c04_monitor, which ocaml/run_dp.ml runs on the
   IMPLEMENTATION's transcripts, accepts every transcript of the MODEL.

   Proofs/DpOracleSound.v.  `model_run s0 ins` is the model side of ocaml/run_dp.ml as a Coq function: for each
   input DpRun.run_in (FdlApplication callbacks transmit_telegram / receive_reply / handle_timeout, a request
   dropped by the FDL, the user calls request_diagnostics(), pi_q writes, enter_state(), take_last_events(),
   add() DURING the history, and the environment steps), then DpRun.auto_take (take_last_events() after every
   callback), then the observables DpRun.observe -- collected into the transcript type DpOracle.tstep the
   monitors read.  A model panic ends the run (`= Ok (s', tr)`: every prefix of every execution up to a panic).
   Hypotheses: `conf_ok c` = the configurations the monitors are run on / the generator produces:
   cf_autotake, DpOracle.conf_sane (distinct addresses), DpOracle.conf_within_limits (frame format),
   max_retry_limit >= 1 (the builder allows 1..15), own address 0..126, pre-placed peripherals in distinct
   storage slots; `contract_ok c tr` = the FdlApplication contract (C15) exactly as run_dp.ml checks it before
   running the monitors; `driver_ok` = the guards of the harness (harness/src/dp.rs): no ill-formed input
   (OutBad), add(k) only for a peripheral that is not yet in the master and only between requests (op ADD<k>).
   Any peripheral set, any storage layout, global control, time-outs, dropped requests, any reply telegram.
   Consequence: on a transcript of the real crate that agrees with the model (0 divergences) a failure code of
   this monitor is never a false alarm of the monitor.
   ==================================================================================================== *)
From PB Require Import DpRun DpOracle DpOracleSound.

(* After phase 1 the user call reset_address was added to the model (input InResetAddr) and the driver runs the
   wrappers DpOracle.c04_monitor_ra, which follow the current station address of every peripheral.  On transcripts
   without a reset_address step (`has_reset l = false`) the wrapper IS the monitor: *)
Theorem C04_oracle_ra_agrees : forall c obs0 l, has_reset l = false -> c04_monitor_ra c obs0 l = c04_monitor c obs0 l.
Proof. exact c04_ra_agrees. Qed.
Print Assumptions C04_oracle_ra_agrees.

(* Soundness of what the driver runs, for histories without reset_address (`no_reset ins`: no InResetAddr input). *)
Theorem C04_oracle_sound : forall c, conf_ok c -> forall s0 ins s' tr,
  init_sys c = Ok s0 -> no_reset ins = true -> model_run s0 ins = Ok (s', tr) ->
  contract_ok c tr = true -> driver_ok (sy_handles s0) tr = true ->
  c04_monitor_ra c (observe s0) tr = None.
Proof. exact c04_oracle_sound_ra0. Qed.
Print Assumptions C04_oracle_sound.

(* the same for the plain monitor *)
Theorem C04_oracle_sound_plain : forall c, conf_ok c -> forall s0 ins s' tr,
  init_sys c = Ok s0 -> no_reset ins = true -> model_run s0 ins = Ok (s', tr) ->
  contract_ok c tr = true -> driver_ok (sy_handles s0) tr = true ->
  c04_monitor c (observe s0) tr = None.
Proof. exact c04_oracle_sound. Qed.
Print Assumptions C04_oracle_sound_plain.

(* non-vacuity: a computed 22-step history of a master with two peripherals (one added by add() during the
   history), max_retry_limit = 1, meets all hypotheses; it contains a global control broadcast, an accepted
   diagnostics reply (Online, completed cycle), a time-out with retransmission, a dropped request, user calls,
   the Offline event after 1 + 1 transmissions, probes, a second completed cycle and a reply that is not
   accepted *)
Example C04_oracle_sound_hypotheses :
  conf_ok ex_conf /\
  exists s0 s' tr, init_sys ex_conf = Ok s0 /\ model_run s0 ex_ins = Ok (s', tr) /\
    no_reset ex_ins = true /\ contract_ok ex_conf tr = true /\ driver_ok (sy_handles s0) tr = true /\ length tr = 22%nat /\
    map step_event tr = [None; None; None; Some (7, EvOnline); None; None; None; None; None; None; None; None; None;
                         Some (7, EvOffline); None; None; None; None; None; None; None; None] /\
    map step_cc tr = [false; false; false; true; false; false; false; false; false; false; false; false; false; false;
                      false; false; true; false; false; false; false; false].
Proof. exact oracle_sound_example. Qed.

(* ----------------------------------------------------------------------------------------------------
   C04: ORACLE SOUNDNESS for histories WITH reset_address.  The monitor the driver runs, c04_monitor_ra, accepts
   every transcript of the model in which reset_address (input InResetAddr k a, any number of times, to the same
   or to another address, also for a peripheral added during the history) is called with a station address
   0..125 and only while no reply of that peripheral is outstanding -- `reset_guard`, i.e. outside the known
   class F22 (DpOracle.known_reset_while_pending, see C04_oracle_reset_guard) -- and every intermediate address
   assignment is duplicate-free (`DpOracle.ra_sane`, the test of run_dp.ml before it runs the monitors).
   At such a step: both process images survive the call; the observation of the peripheral is compared by position, not by address.
   The invariants of Proofs/DpOracleSound.v are stated for the configuration IN FORCE (station addresses as
   changed by the calls), handles are compared by slot index (the address a handle carries is stale afterwards).
   C04_oracle_sound and C04_oracle_sound_plain above are corollaries (no InResetAddr input).
   ---------------------------------------------------------------------------------------------------- *)
Theorem C04_oracle_sound_ra : forall c s0 ins s' tr, conf_ok c ->
  init_sys c = Ok s0 -> model_run s0 ins = Ok (s', tr) ->
  contract_ok c tr = true -> driver_ok (sy_handles s0) tr = true ->
  ra_sane c tr = true -> reset_guard c None tr = true ->
  c04_monitor_ra c (observe s0) tr = None.
Proof. exact c04_oracle_sound_ra. Qed.
Print Assumptions C04_oracle_sound_ra.

(* the guard follows from the driver's own test for the known class F22 and the address range *)
Theorem C04_oracle_reset_guard : forall c l,
  known_reset_while_pending c l = false -> reset_range c l = true -> reset_guard c None l = true.
Proof. exact reset_guard_known. Qed.
Print Assumptions C04_oracle_reset_guard.

(* non-vacuity: a computed 21-step history with four reset_address calls (same address after the bring-up
   started, another address after a time-out, a peripheral just added by add(), back to the first address)
   meets all hypotheses *)
Example C04_oracle_sound_ra_hypotheses :
  conf_ok ex_conf /\
  exists s0 s' tr, init_sys ex_conf = Ok s0 /\ model_run s0 ex_ins_ra = Ok (s', tr) /\
    has_reset tr = true /\ contract_ok ex_conf tr = true /\ driver_ok (sy_handles s0) tr = true /\
    ra_sane ex_conf tr = true /\ known_reset_while_pending ex_conf tr = false /\ reset_range ex_conf tr = true /\
    reset_guard ex_conf None tr = true /\ length tr = 21%nat /\
    map (fun t => match reset_of ex_conf t with Some _ => true | None => false end) tr =
      [false; false; false; false; false; true; false; false; false; true; false; false; false; true; false; false;
       false; true; false; false; false] /\
    map step_event tr = [None; None; None; Some (7, EvOnline); None; None; None; None; None; None; None; None; None;
                         None; None; None; None; None; None; None; None].
Proof. exact oracle_sound_ra_example. Qed.
