From PB Require Import Common TokenRing LasOracle C02Proofs.
