(* C02 (data-structure half) - the list of active stations (LAS) of one station.
   The code under test is src/fdl/token_ring.rs; the model is Model/TokenRing.v (LAS = 128 booleans).
   The GLOBAL half of C02 (N stations on a shared bus converge within a bounded time and pass the token
   once per rotation in address order) is NOT proved here.
   Theorem statements only; every proof is `exact <lemma of Proofs/C02Proofs.v>`. *)
From PB Require Import Common TokenRing LasOracle LasRep C02Proofs.

(* Discovery.  For every ring R (non-empty, strictly increasing, addresses 0..125), every own
   address, every initial content of the 128-entry LAS and of NS/PS: a station in Uninitialized that
   witnesses any passes of which none is a wrap-around (they are ignored), then one wrap-around
   pass, then two full rotations of R in ring order, is Valid (ready_for_ring), its LAS is EXACTLY
   R - its own address TS is a member iff TS is in R: the bit set by `new` is cleared by the
   discovery rotation like every other stale entry -, and NS / PS are the cyclic successor /
   predecessor of TS among R. *)
Theorem C02_las_discovery : forall (R : list Z) (r : ring) (pre : list (Z * Z)) (d : Z * Z),
  is_ring R -> length (r_las r) = 128%nat -> r_state r = LasUninitialized ->
  Forall (fun p => is_wrapb p = false) pre -> is_wrapb d = true ->
  exists r', run_w r (pre ++ d :: rotation R ++ rotation R) = Ok r' /\
             r_state r' = LasValid /\ ready_for_ring r' = true /\
             las_ones (r_las r') = R /\ r_ts r' = r_ts r /\
             cyc_next R (r_ts r) (r_ns r') /\ cyc_prev R (r_ts r) (r_ps r') /\
             length (r_las r') = 128%nat.
Proof. exact las_discovery. Qed.
Print Assumptions C02_las_discovery.

(* Two identical rotations.  Whatever a listening station (Uninitialized or Discovery, any LAS
   content) witnesses: if it ends up Valid, then the FIRST time it became Valid was at the end of a
   verification rotation `ver ++ [v]` that started right after a wrap-around pass d witnessed in
   Discovery, during which the LAS stayed frozen at its value rV after d, every witnessed pass was
   either ignored (address > 125) or a non-wrap pass consistent with that LAS (both ends members,
   nobody in between), and v is the verified wrap-around; the state then is rV with Valid. *)
Theorem C02_las_two_identical : forall (r : ring) (passes : list (Z * Z)) (r' : ring),
  length (r_las r) = 128%nat -> (r_state r = LasUninitialized \/ r_state r = LasDiscovery) ->
  Forall (fun p => 0 <= fst p /\ 0 <= snd p) passes ->
  run_w r passes = Ok r' -> r_state r' = LasValid ->
  exists pre d ver v post rD rV,
    passes = pre ++ d :: ver ++ v :: post /\
    run_w r pre = Ok rD /\ r_state rD = LasDiscovery /\
    is_wrapb d = true /\ witness rD (fst d) (snd d) = Ok rV /\ r_state rV = LasVerification /\
    Forall (fun p => bad_addrb p = true \/ (is_wrapb p = false /\ verifies (r_las rV) (fst p) (snd p))) ver /\
    is_wrapb v = true /\ verifies (r_las rV) (fst v) (snd v) /\
    run_w r (pre ++ d :: ver ++ [v]) = Ok (with_state rV LasValid).
Proof. exact las_two_identical. Qed.
Print Assumptions C02_las_two_identical.

(* Stability.  LAS = R, Valid: every pass of R (in any order, any number of them, including the
   passes in which a ring member itself takes part) leaves LAS and state unchanged and NS/PS are
   recomputed from the same LAS ... *)
Theorem C02_las_stable_step : forall (R : list Z) (r : ring) (sa da : Z),
  is_ring R -> length (r_las r) = 128%nat -> r_state r = LasValid -> las_ones (r_las r) = R ->
  In (sa, da) (rotation R) -> witness r sa da = Ok (update_next_previous r).
Proof. exact las_stable_step. Qed.
Print Assumptions C02_las_stable_step.

(* ... so that, NS/PS being the cyclic neighbours, the whole state is a fixed point. *)
Theorem C02_las_stable : forall (R : list Z) (r : ring) (passes : list (Z * Z)),
  is_ring R -> length (r_las r) = 128%nat -> r_state r = LasValid -> las_ones (r_las r) = R ->
  cyc_next R (r_ts r) (r_ns r) -> cyc_prev R (r_ts r) (r_ps r) ->
  Forall (fun p => In p (rotation R)) passes -> run_w r passes = Ok r.
Proof. exact las_stable. Qed.
Print Assumptions C02_las_stable.

(* Live update in Valid, for every LAS content and every valid pass sa -> da: the GAP [sa, da)
   (cyclically) is cleared, sa is entered, nothing else changes; NS/PS are the neighbours again. *)
Theorem C02_las_update_spec : forall (r : ring) (sa da : Z),
  length (r_las r) = 128%nat -> r_state r = LasValid -> 0 <= sa <= 125 -> 0 <= da <= 125 ->
  exists r', witness r sa da = Ok r' /\ r_state r' = LasValid /\ length (r_las r') = 128%nat /\
             r_ts r' = r_ts r /\
             cyc_next (las_ones (r_las r')) (r_ts r) (r_ns r') /\
             cyc_prev (las_ones (r_las r')) (r_ts r) (r_ps r') /\
             las_ones (r_las r') = las_after_pass (las_ones (r_las r)) sa da /\
             forall x, active (r_las r') x <-> x = sa \/ (active (r_las r) x /\ ~ in_gap sa da x).
Proof. exact valid_pass_spec. Qed.
Print Assumptions C02_las_update_spec.

(* Leave.  A pass a -> c between two members removes exactly the members strictly between them;
   when b is the only one, exactly b. *)
Theorem C02_las_leave : forall (r : ring) (a c : Z),
  length (r_las r) = 128%nat -> r_state r = LasValid -> 0 <= a <= 125 -> 0 <= c <= 125 ->
  active (r_las r) a -> active (r_las r) c ->
  exists r', witness r a c = Ok r' /\ r_state r' = LasValid /\
             las_ones (r_las r') = filter (fun x => negb (strictly_betweenb a c x)) (las_ones (r_las r)) /\
             (forall b, active (r_las r) b -> strictly_between a c b ->
                        (forall x, active (r_las r) x -> strictly_between a c x -> x = b) ->
                        las_ones (r_las r') = filter (fun x => negb (x =? b)) (las_ones (r_las r))) /\
             cyc_next (las_ones (r_las r')) (r_ts r) (r_ns r') /\
             cyc_prev (las_ones (r_las r')) (r_ts r) (r_ps r').
Proof. exact las_leave. Qed.
Print Assumptions C02_las_leave.

(* Join.  A newcomer b between the member a and a's successor: the pass a -> b changes nothing
   (the destination is only entered when it forwards the token itself), the newcomer's own pass
   b -> c adds exactly b. *)
Theorem C02_las_join : forall (r : ring) (a b c : Z),
  length (r_las r) = 128%nat -> r_state r = LasValid ->
  0 <= a <= 125 -> 0 <= b <= 125 -> 0 <= c <= 125 ->
  active (r_las r) a -> ~ active (r_las r) b ->
  (forall x, active (r_las r) x -> ~ strictly_between a b x) ->
  (forall x, active (r_las r) x -> ~ strictly_between b c x) ->
  exists r1 r2, witness r a b = Ok r1 /\ r_state r1 = LasValid /\
                las_ones (r_las r1) = las_ones (r_las r) /\
                witness r1 b c = Ok r2 /\ r_state r2 = LasValid /\
                las_ones (r_las r2) = insert_sorted b (las_ones (r_las r)) /\
                cyc_next (las_ones (r_las r2)) (r_ts r) (r_ns r2) /\
                cyc_prev (las_ones (r_las r2)) (r_ts r) (r_ps r2).
Proof. exact las_join. Qed.
Print Assumptions C02_las_join.

(* Invalid addresses: in every state, a pass with sa > 125 or da > 125 changes nothing at all. *)
Theorem C02_bad_addresses_ignored : forall (r : ring) (sa da : Z),
  125 < sa \/ 125 < da -> witness r sa da = Ok r.
Proof. exact witness_bad. Qed.
Print Assumptions C02_bad_addresses_ignored.

(* No panic: witness_token_pass for any two bytes in any state; set_next_station / remove_station
   for addresses below 128 (and own address below 128); claim_token.  The 128-entry shape is kept. *)
Theorem C02_no_panic : forall r : ring, length (r_las r) = 128%nat ->
  (forall sa da, 0 <= sa < 256 -> 0 <= da < 256 ->
     exists r', witness r sa da = Ok r' /\ length (r_las r') = 128%nat /\ r_ts r' = r_ts r) /\
  (0 <= r_ts r < 128 -> forall a, 0 <= a < 128 ->
     (exists r', set_next_station r a = Ok r' /\ length (r_las r') = 128%nat /\ r_ts r' = r_ts r) /\
     (exists r', remove_station r a = Ok r' /\ length (r_las r') = 128%nat /\ r_ts r' = r_ts r)) /\
  (exists r', step r OpC = Ok r' /\ length (r_las r') = 128%nat /\ r_ts r' = r_ts r).
Proof. exact no_panic_all. Qed.
Print Assumptions C02_no_panic.

(* ... hence no operation sequence in that domain panics, starting from `new`. *)
Theorem C02_no_panic_run : forall (ts : Z) (ops : list op), c02_nopanic_dom ts ops = true ->
  exists r0 r, ring_new ts = Ok r0 /\ run r0 ops = Ok r /\ r_ts r = ts /\ length (r_las r) = 128%nat.
Proof. exact no_panic_run. Qed.
Print Assumptions C02_no_panic_run.

(* The bound is sharp: addresses >= 128 are outside the bit array and do panic (as in the crate). *)
Theorem C02_panics_outside_bit_array : forall (r : ring) (a : Z), ~ 0 <= a < 128 ->
  ring_new a = Panic SiteIndex /\ set_next_station r a = Panic SiteIndex /\ remove_station r a = Panic SiteIndex.
Proof. exact panics_outside. Qed.
Print Assumptions C02_panics_outside_bit_array.

(* update_next_previous yields the cyclic neighbours of TS among the active stations (declarative:
   smallest member above TS, else smallest member; largest member below TS, else largest member;
   TS itself when the LAS is empty) and touches nothing else.  No hypothesis on the state. *)
Theorem C02_next_previous_spec : forall r : ring,
  let r' := update_next_previous r in
  r_las r' = r_las r /\ r_state r' = r_state r /\ r_ts r' = r_ts r /\
  cyc_next (las_ones (r_las r)) (r_ts r) (r_ns r') /\
  cyc_prev (las_ones (r_las r)) (r_ts r) (r_ps r').
Proof. exact next_previous_spec. Qed.
Print Assumptions C02_next_previous_spec.

(* The declarative neighbours are unique, so the spec determines NS and PS. *)
Theorem C02_neighbours_unique : forall (l : list Z) (ts n n' p p' : Z),
  (cyc_next l ts n -> cyc_next l ts n' -> n = n') /\ (cyc_prev l ts p -> cyc_prev l ts p' -> p = p').
Proof. intros l ts n n' p p'. exact (conj (cyc_next_unique l ts n n') (cyc_prev_unique l ts p p')). Qed.
Print Assumptions C02_neighbours_unique.

(* Invariant over every operation history from `new`: NS / PS always are the cyclic neighbours of TS
   in the current LAS (the correspondence oracle checks this on the crate after every operation from
   Discovery on; before discovery starts the LAS content is not judged, see C02_step_oracle_sound). *)
Theorem C02_ns_ps_invariant : forall (ts : Z) (ops : list op) (r0 r : ring),
  ring_new ts = Ok r0 -> run r0 ops = Ok r ->
  r_ts r = ts /\ cyc_next (las_ones (r_las r)) ts (r_ns r) /\ cyc_prev (las_ones (r_las r)) ts (r_ps r).
Proof. exact ns_ps_invariant. Qed.
Print Assumptions C02_ns_ps_invariant.

(* Debug formatting (it copies the LAS into a [u8; 127]): never panics while the own address and
   every set_next_station argument are <= 125 (what the FDL layer guarantees, HSA <= 126) ... *)
Theorem C02_debug_no_panic : forall (ts : Z) (ops : list op) (r0 r : ring),
  0 <= ts <= 125 -> ring_new ts = Ok r0 ->
  Forall (fun o => match o with
                   | OpW sa da => 0 <= sa /\ 0 <= da
                   | OpC => True
                   | OpN a => 0 <= a <= 125
                   | OpR a => True
                   end) ops ->
  run r0 ops = Ok r -> debug_active r = Ok (las_ones (r_las r)).
Proof. exact debug_no_panic. Qed.
Print Assumptions C02_debug_no_panic.

(* ... and does panic with 128 active stations, reachable only via set_next_station(126 / 127)
   (observation, replayed on the crate from corpus/las/witnesses.cases; not reachable through the
   FDL layer). *)
Theorem C02_debug_panics_with_128_stations :
  exists ops r0 r, ring_new 125 = Ok r0 /\ run r0 ops = Ok r /\ debug_active r = Panic SiteIndex.
Proof. exact debug_panic_witness. Qed.
Print Assumptions C02_debug_panics_with_128_stations.

(* The boolean oracles run on the crate's outputs decide the declarative neighbour predicates. *)
Theorem C02_oracle_decides : forall (l : list Z) (ts n p : Z),
  (cyc_nextb l ts n = true <-> cyc_next l ts n) /\ (cyc_prevb l ts p = true <-> cyc_prev l ts p).
Proof. intros l ts n p. exact (conj (cyc_nextb_spec l ts n) (cyc_prevb_spec l ts p)). Qed.
Print Assumptions C02_oracle_decides.

(* The executable per-step oracles run on the crate's outputs are sound for the model: every model
   step passes c02_step_ok, every reachable model state passes c02_nsps_ok.  While a station is
   Uninitialized these oracles only judge the state machine (not LAS / NS / PS content): C02 speaks
   about the LAS from discovery on, and C02_las_discovery holds for every LAS content at its start. *)
Theorem C02_step_oracle_sound : forall (r : ring) (o : op) (r' : ring),
  length (r_las r) = 128%nat -> 0 <= r_ts r < 128 ->
  match o with OpW sa da => 0 <= sa /\ 0 <= da | _ => True end ->
  step r o = Ok r' ->
  c02_step_ok (r_ts r) (observe r) o (observe r') = true.
Proof. exact step_oracle_sound. Qed.
Print Assumptions C02_step_oracle_sound.

Theorem C02_nsps_oracle_sound : forall (ts : Z) (ops : list op) (r0 r : ring),
  ring_new ts = Ok r0 -> run r0 ops = Ok r -> c02_nsps_ok ts (observe r) = true.
Proof. exact nsps_oracle_sound. Qed.
Print Assumptions C02_nsps_oracle_sound.

(* Non-vacuity: the unit-test ring {3, 15, 29} seen from station 7 with stale LAS content. *)
Example C02_discovery_instance :
  is_ring [3; 15; 29] /\
  exists r0 r, ring_new 7 = Ok r0 /\
    run_w r0 ([(15, 29); (200, 3)] ++ (29, 3) :: rotation [3; 15; 29] ++ rotation [3; 15; 29]) = Ok r /\
    las_ones (r_las r) = [3; 15; 29] /\ r_ns r = 15 /\ r_ps r = 3 /\ ready_for_ring r = true.
Proof.
  split; [reflexivity|].
  destruct (ring_new 7) as [r0| |] eqn:E0; try (vm_compute in E0; discriminate).
  vm_compute in E0. inversion E0; subst r0. eexists. eexists. split; [reflexivity|].
  vm_compute. repeat split; reflexivity.
Qed.

(* Non-vacuity of leave / join: station 15 leaves {3, 15, 29}; station 20 joins {3, 29}. *)
Example C02_leave_join_instance :
  exists r0 r r1 r2 r3, ring_new 3 = Ok r0 /\
    run r0 [OpC; OpW 3 15; OpW 15 29; OpW 29 3] = Ok r /\ las_ones (r_las r) = [3; 15; 29] /\
    witness r 3 29 = Ok r1 /\ las_ones (r_las r1) = [3; 29] /\ r_ns r1 = 29 /\
    witness r1 3 20 = Ok r2 /\ las_ones (r_las r2) = [3; 29] /\
    witness r2 20 29 = Ok r3 /\ las_ones (r_las r3) = [3; 20; 29] /\ r_ns r3 = 20 /\ r_ps r3 = 29.
Proof.
  destruct (ring_new 3) as [r0| |] eqn:E0; try (vm_compute in E0; discriminate).
  vm_compute in E0. inversion E0; subst r0.
  do 5 eexists. split; [reflexivity|]. vm_compute. repeat split; reflexivity.
Qed.
