(* C07 (phase 1): one-step theorems used by the recovery argument.  The bounded-recovery theorem over the
   joint master x slave system (with the known class F15 excluded) is proved in a later phase. *)
From PB Require Import Peripheral DpStepProofs.

(* a peripheral that stops answering is reported Offline exactly when the retries have run out, is then no
   longer live, and starts over with a first request (FCV=0/FCB=1), which a slave with retry detection
   always processes afresh *)
Theorem C07_offline_reported : forall pa op p,
  op <> OpStop ->
  dp_retry_exhausted (pe_retry p) (p_max_retry pa) = true ->
  exists p', p_transmit pa op p = Ok (p', PtxSkip (Some EvOffline)) /\
             pe_fcb p' = FcbFirst /\ is_live p' = false /\ pe_retry p' = 0.
Proof. exact offline_declared. Qed.
Print Assumptions C07_offline_reported.

(* no reply handler leaves the retry counter above its old value: only transmissions count up, so an
   unanswered peripheral reaches the limit *)
Theorem C07_reply_never_counts : forall p t p' ev,
  p_receive_reply p t = Ok (p', ev) ->
  (pe_fcb p' = pe_fcb p /\ pe_retry p' = pe_retry p) \/
  (fcbit_fcv (pe_fcb p') = true /\ fcbit_fcb (pe_fcb p') = negb (fcbit_fcb (pe_fcb p)) /\ pe_retry p' = 0).
Proof. exact toggle_after_accept. Qed.
Print Assumptions C07_reply_never_counts.
