(* C07 (phase 1): one-step theorems used by the recovery argument.  The bounded-recovery theorem over the
   joint master x slave system (with the known class F15 excluded) is proved in a later phase. *)
From PB Require Import Peripheral DpStepProofs.

(* a peripheral that stops answering is reported Offline exactly when the retries have run out, is then no
   longer live, and starts over with a first request (FCV=0/FCB=1), which a slave with retry detection
   always processes afresh *)
Theorem C07_offline_reported : forall pa op p,
  op <> OpStop ->
  dp_retry_exhausted (pe_retry p) (p_max_retry pa) = true ->
  exists p', p_transmit pa op p = Ok (p', PtxSkip (Some EvOffline)) /\
             pe_fcb p' = FcbFirst /\ is_live p' = false /\ pe_retry p' = 0.
Proof. exact offline_declared. Qed.
Print Assumptions C07_offline_reported.

(* no reply handler leaves the retry counter above its old value: only transmissions count up, so an
   unanswered peripheral reaches the limit *)
Theorem C07_reply_never_counts : forall p t p' ev,
  p_receive_reply p t = Ok (p', ev) ->
  (pe_fcb p' = pe_fcb p /\ pe_retry p' = pe_retry p) \/
  (fcbit_fcv (pe_fcb p') = true /\ fcbit_fcb (pe_fcb p') = negb (fcbit_fcb (pe_fcb p)) /\ pe_retry p' = 0).
Proof. exact toggle_after_accept. Qed.
Print Assumptions C07_reply_never_counts.

(* ====================================================================================================
   C07 (phase 2): bounded recovery of the joint system peripheral x reference slave.

   The joint system (Proofs/C07Joint.v): ONE peripheral state machine of the DP master, driven directly through
   Peripheral.p_transmit / Peripheral.p_receive_reply, times the reference slave Slave.slave_step.  One DP
   cycle of a master with a single occupied slot = `joint_cycle`: the peripheral's turn (p_transmit); if a
   request was written, its wire bytes (Telegram.frame_spec = what the serializer writes, C09_wire_bytes) go
   to the slave, and the slave's answer - if it decodes completely and passes the FDL admission rule
   DpOracle.admissible - is handed to p_receive_reply, otherwise the turn ends in a timeout.  No telegram is
   lost or corrupted.  `joint_run n` = n cycles, Ok = no panic site was reached.

   `jinv pa p s` are the hypotheses on a joint state: master and device fit together (address, ident number,
   configuration bytes, image lengths: the conditions of DpOracle.healthy), the device is not scripted to
   misbehave (not silent, no forced flags), sizes within the frame format, max_retry_limit 1..15, and the
   range invariants: frame count bit of the peripheral not Inactive, retry counter >= 0, the slave's
   "not ready" delays (sl_ready_delay, sl_not_ready) at most 2 diagnostics cycles (what the generator uses;
   the bound of the theorem is for this range).  Nothing else is assumed about the state: any peripheral
   state, any retry counter, any flags, any process images and diagnostics, any slave state, any stored
   frame count bit, ANY stored response bytes (even undecodable ones), any fault flags.
   ==================================================================================================== *)
From PB Require Import C07Abs C07Joint C07Proofs DpOracle.

(* Main theorem.  From EVERY joint state satisfying jinv that is not in the class of known finding F15, for
   every max_retry_limit 1..15: within max_retry + 11 fault-free cycles the peripheral is in DataExchange
   with the slave in Data_Exch, no cycle panics, and it stays there for ever (every later cycle count). *)
Theorem C07_recovery : forall pa op p s,
  jinv pa p s -> op <> OpStop -> ~ f15_class pa op (p, s) ->
  exists k, (k <= c07_cycles (p_max_retry pa))%nat /\
    forall m, (k <= m)%nat -> exists st' evs, joint_run pa op m (p, s) = Ok (st', evs) /\ in_dx st'.
Proof. exact recovery. Qed.
Print Assumptions C07_recovery.

(* the bound proved, max_retry + 11, is within the bound the monitor DpOracle.c07_monitor checks on
   implementation transcripts (max_retry + 16 completed cycles) *)
Theorem C07_bound_within_monitor : forall max_retry, 0 <= max_retry ->
  c07_cycles max_retry = (Z.to_nat max_retry + 11)%nat /\ (c07_cycles max_retry <= c07_bound max_retry)%nat.
Proof. exact bound_within_monitor. Qed.
Print Assumptions C07_bound_within_monitor.

(* The excluded class is small and explicit: outside `f15_suspect` (slave in Wait_Cfg while the master is
   already past Chk_Cfg, or about to repeat a Chk_Cfg the slave will take for a retransmission) recovery is
   unconditional.  In particular: whenever the slave is in Wait_Prm or Data_Exch, or the master is Offline
   or in WaitForParam. *)
Theorem C07_recovery_explicit : forall pa op p s,
  jinv pa p s -> op <> OpStop -> ~ f15_suspect (p, s) ->
  exists k, (k <= c07_cycles (p_max_retry pa))%nat /\
    forall m, (k <= m)%nat -> exists st' evs, joint_run pa op m (p, s) = Ok (st', evs) /\ in_dx st'.
Proof. exact recovery_explicit. Qed.
Print Assumptions C07_recovery_explicit.

(* Known finding F15, as a theorem about the faithful model: in the F15 configuration the fault-free
   continuation never leaves it - after every number of cycles the master is still in ValidateConfig polling a
   slave that is still in Wait_Cfg; it never reaches data exchange.  Hence the exclusion in C07_recovery is
   exact: a state either recovers within the bound or enters the core within the bound and never recovers. *)
Theorem C07_f15_refuted : forall pa op p s,
  jinv pa p s -> op <> OpStop -> f15_core pa (p, s) ->
  forall n, exists st' evs, joint_run pa op n (p, s) = Ok (st', evs) /\ f15_core pa st' /\ ~ in_dx st'.
Proof. exact f15_refuted. Qed.
Print Assumptions C07_f15_refuted.

Theorem C07_f15_class_never_recovers : forall pa op p s,
  jinv pa p s -> op <> OpStop -> f15_class pa op (p, s) ->
  forall k, exists m st' evs, (k <= m)%nat /\ joint_run pa op m (p, s) = Ok (st', evs) /\ ~ in_dx st'.
Proof. exact f15_class_never. Qed.
Print Assumptions C07_f15_class_never_recovers.

(* the F15 witness, computed: a well-formed pair (master in ValidateConfig, slave in Wait_Cfg) satisfies the
   hypotheses, is in the core, and after 1, 2, 30 cycles is exactly where it was *)
Example C07_f15_witness :
  jinv default_params f15_periph f15_slave /\ f15_core default_params (f15_periph, f15_slave) /\
  map (fun n => pair_states (joint_run default_params OpOperate n (f15_periph, f15_slave))) [1; 2; 30]%nat =
    [Some (PsValidateConfig, SlWaitCfg); Some (PsValidateConfig, SlWaitCfg); Some (PsValidateConfig, SlWaitCfg)].
Proof.
  split; [|split; [|vm_compute; reflexivity]].
  - constructor; cbn; unfold default_address, default_max_retry_limit; try lia;
      try (split; try reflexivity; lia); try discriminate.
    + exists [1; 2; 3]. split; [reflexivity|cbn; lia].
    + exists [17; 33]. split; [reflexivity|]. split; [reflexivity|cbn; lia].
  - cbn. unfold default_max_retry_limit. repeat split; lia.
Qed.

(* non-vacuity of C07_recovery: a fresh peripheral and a fresh device satisfy the hypotheses, are outside the
   suspect class, and the computed run is Offline/Wait_Prm -> ... -> DataExchange/Data_Exch in 5 cycles with
   the events Online, Configured, DataExchanged *)
Example C07_recovery_witness :
  jinv default_params c07_periph0 c07_slave0 /\ ~ f15_suspect (c07_periph0, c07_slave0) /\
  map (fun n => pair_states (joint_run default_params OpOperate n (c07_periph0, c07_slave0))) [0; 1; 2; 3; 4; 5; 6]%nat =
    [Some (PsOffline, SlWaitPrm); Some (PsWaitForParam, SlWaitPrm); Some (PsWaitForConfig, SlWaitCfg);
     Some (PsValidateConfig, SlDataExch); Some (PsPreDataExchange, SlDataExch);
     Some (PsDataExchange, SlDataExch); Some (PsDataExchange, SlDataExch)] /\
  (match joint_run default_params OpOperate 6 (c07_periph0, c07_slave0) with Ok (_, e) => e | _ => [] end) =
    [EvOnline; EvConfigured; EvDataExchanged; EvDataExchanged].
Proof.
  split; [|split; [|split; vm_compute; reflexivity]].
  - constructor; cbn; unfold default_address, default_max_retry_limit; try lia;
      try (split; try reflexivity; lia); try discriminate.
    + exists [1; 2; 3]. split; [reflexivity|cbn; lia].
    + exists [17; 33]. split; [reflexivity|]. split; [reflexivity|cbn; lia].
  - intros [D _]. discriminate D.
Qed.

(* Step 1 of the proof, data independence: the control projection `proj` (master state x frame count bit x
   retry counter x diag_needed/in_flight x slave state x stored bit x class of the stored response x fault
   flags x diag_pending x not-ready counter) of one concrete cycle is one step `astep` of the finite control
   system, whatever the payload bytes are; the cycle does not panic and keeps the hypotheses. *)
Theorem C07_data_independence : forall pa op p s,
  jinv pa p s -> op <> OpStop ->
  exists p' s' evs, joint_cycle pa op (p, s) = Ok ((p', s'), evs) /\ jinv pa p' s' /\ fix_of s' = fix_of s /\
    proj pa (p', s') = astep (fix_of s) (Z.to_nat (p_max_retry pa)) (proj pa (p, s)).
Proof. exact sim_step. Qed.
Print Assumptions C07_data_independence.

(* Step 2, the finite control space: for EVERY control state in range (frame count bit not Inactive,
   not-ready counter <= 2), every retry counter r, every max_retry M >= 1 and every device attribute vector
   in range, within M + 11 steps the control system is in the closed set Good (DataExchange/Data_Exch, in
   sync) or - only from the explicit class suspectb - in the closed set Core (F15).  Proof: the retry
   counter is kept symbolic (a request that is neither accepted nor changes anything is repeated until the
   counter runs out: at most M + 1 steps, charged once), all other components are enumerated completely
   (forallb over 18 x 2 x 122,688 states, vm_compute in Proofs/C07Check0/1/2.v) and lifted with forallb_forall. *)
Theorem C07_control_space : forall fx M u r,
  fx_ok fx -> (1 <= M)%nat -> in_range u ->
  exists k, (k <= M + 11)%nat /\
    (Goodx (aiter fx M k (u, r)) \/ (suspectb u = true /\ Corex M (aiter fx M k (u, r)))).
Proof. exact abs_recovery. Qed.
Print Assumptions C07_control_space.

(* "A peripheral that stops answering is reported Offline": a live peripheral whose pending request has been
   transmitted retry_count times and that gets no reply any more transmits the SAME request (same header,
   same frame count bit, same PDU) in each of its next max_retry + 1 - retry_count turns - from retry_count 0:
   exactly 1 + max_retry transmissions - and in the turn after that sends nothing, raises Offline, is no longer
   live and has its frame count bit reset. *)
Theorem C07_silent_goes_offline : forall pa op p,
  op <> OpStop -> 0 <= p_max_retry pa < 255 -> pe_state p <> PsOffline ->
  (pe_state p = PsWaitForParam -> o_user_prm (pe_opts p) <> None) ->
  (pe_state p = PsWaitForConfig -> o_config (pe_opts p) <> None) ->
  0 <= pe_retry p <= p_max_retry pa ->
  let n := Z.to_nat (p_max_retry pa + 1 - pe_retry p) in
  exists p' h pdu,
    tx_silent pa op n p = Ok (p', repeat (PtxSend h pdu) n) /\
    h_da h = pe_addr p /\ (exists rq, h_fc h = FcRequest (pe_fcb p) rq) /\
    pe_state p' = pe_state p /\ pe_retry p' = p_max_retry pa + 1 /\
    exists p'', p_transmit pa op p' = Ok (p'', PtxSkip (Some EvOffline)) /\ is_live p'' = false /\
                pe_fcb p'' = FcbFirst.
Proof. exact silent_goes_offline. Qed.
Print Assumptions C07_silent_goes_offline.

(* "... and one that answers again is reported Online and Configured again": over EVERY history of one
   peripheral - its turns, replies carrying ANY telegram, timeouts (no call), user requests for diagnostics
   and output writes, in any order, that does not panic - the events handed out are accepted by the life-cycle
   automaton DpOracle.l_step (Off -Online-> On -Configured-> Cfg; Offline / ConfigError / ParameterError lead
   back to Off; DataExchanged and Diagnostics only in Cfg), from any automaton state that fits the peripheral
   to one that fits it afterwards.  (off_inv: an Offline peripheral has not used up its retries - true of a new
   peripheral and preserved.) *)
Theorem C07_life_history : forall pa op, 1 <= p_max_retry pa -> forall ops p l p' evs,
  run_pops pa op p ops = Ok (p', evs) -> off_inv pa p -> life_fits l p ->
  exists l', life_run l evs = Some l' /\ life_fits l' p' /\ off_inv pa p'.
Proof. exact life_history. Qed.
Print Assumptions C07_life_history.

(* consequence for the automaton: after Offline, a DataExchanged event is preceded by Online and then
   Configured *)
Theorem C07_no_data_exchange_before_configured : forall a b l,
  life_run LOff (a ++ EvDataExchanged :: b) = Some l ->
  exists a1 a2 a3, a = a1 ++ EvOnline :: a2 ++ EvConfigured :: a3.
Proof. exact dx_needs_online_configured. Qed.
Print Assumptions C07_no_data_exchange_before_configured.

(* joint form: a peripheral that is reported Offline (from ANY such joint state: the F15 class contains none)
   and whose device answers again is in data exchange within the bound; the events of the run are accepted by
   the automaton from Off to Cfg and contain Online followed by Configured *)
Theorem C07_online_again : forall pa op p s,
  jinv pa p s -> op <> OpStop -> pe_state p = PsOffline -> pe_retry p <= p_max_retry pa ->
  exists k st' evs, (k <= c07_cycles (p_max_retry pa))%nat /\
    joint_run pa op k (p, s) = Ok (st', evs) /\ in_dx st' /\
    life_run LOff evs = Some LCfg /\
    exists a b c, evs = a ++ EvOnline :: b ++ EvConfigured :: c.
Proof. exact online_again. Qed.
Print Assumptions C07_online_again.

(* retry detection of the reference slave (Slave.v) by frame count bit, for every SRD request addressed to it *)
Theorem C07_slave_retry_detection : forall s h pdu f rq,
  sl_silent s = false -> wf_header h -> (length_byte h (length pdu) <= 249)%nat ->
  h_fc h = FcRequest f rq -> (rq = RqSrdLow \/ rq = RqSrdHigh) -> h_da h = sl_addr s ->
  (fcbit_fcv f = true -> sl_fcb s = Some (fcbit_fcb f) -> slave_step s (frame_spec h pdu) = (s, sl_resp s)) /\
  (fcbit_fcv f = true -> sl_fcb s <> Some (fcbit_fcb f) ->
   slave_step s (frame_spec h pdu) =
     (slave_store (fst (slave_process s h pdu)) (Some (fcbit_fcb f)) (snd (slave_process s h pdu)),
      snd (slave_process s h pdu))) /\
  (f = FcbFirst ->
   slave_step s (frame_spec h pdu) =
     (slave_store (fst (slave_process s h pdu)) (Some true) (snd (slave_process s h pdu)),
      snd (slave_process s h pdu))).
Proof. exact slave_retry_detection. Qed.
Print Assumptions C07_slave_retry_detection.

(* non-vacuity of C07_silent_goes_offline and C07_online_again: states meeting the hypotheses *)
Example C07_silent_hypotheses :
  let p := set_state c07_periph0 PsDataExchange in
  pe_state p <> PsOffline /\ 0 <= pe_retry p <= p_max_retry default_params /\
  (match tx_silent default_params OpOperate 3 p with Ok (_, l) => map tx_events l | _ => [] end) =
    [[]; []; [EvOffline]].
Proof. cbv zeta. split; [discriminate|]. split; [vm_compute; split; discriminate|vm_compute; reflexivity]. Qed.

(* ====================================================================================================
   C07 (phase 3): THE BRIDGE to the DP master -- recovery counted in MASTER cycles.

   Proofs/C07Bridge.v.  The fault-free bus with the model of DpMaster (DpMaster.v) and n >= 1 reference slaves
   (Slave.v): `master_visit pa bufsize (m, slaves) now hp` = one token visit: DpMaster.dp_transmit; a Global_Control
   broadcast is seen by every device; a request is seen by the device with the destination address
   (`find_slave`: the first device with that station address), and its answer -- if it decodes completely and
   passes the FDL admission rule (C07Joint.deliver) -- is handed to dp_receive_reply, otherwise dp_handle_timeout:
   nothing is lost.  `master_run` = any schedule of visits (time, HighPrioOnly), Ok = no panic site reached; the
   number it returns counts the visits that reported DpEvents.cycle_completed = completed DP cycles.
   Hypotheses on the start state: not stopped; own address 0..126; transmit buffer >= 255 bytes; the occupied
   slots have distinct station addresses (`addr_inj`); `Ccomp m0` (CycleState::CycleCompleted only with at least
   one peripheral); every occupied slot has a device and the pair satisfies C07Joint.jinv (the hypotheses of
   C07_recovery).  The master may be at ANY position of its cycle (pos_rem m0 = the slots that still have their turn
   in the current cycle; at a cycle boundary, as after DpMaster::new or a completed cycle, pos_rem m0 = occupied m0).
   Any number of slots and peripherals, any storage layout, any visit times (global control interleaved anywhere).
   ==================================================================================================== *)
From PB Require Import DpMaster Slave C14History DpOracleSound C07Bridge.

(* The bridge: after every run with K completed master cycles, the peripheral of every slot and its device are exactly
   where n cycles of the single-peripheral joint system of C07_recovery take the pair they started from (the
   device up to the Global_Control command it recorded, `gceq`: all other fields equal), with n >= K for a slot that
   still had its turn in the cycle in which the run started (vbit m0 i = 0: every slot, if the run starts at a cycle
   boundary) and n + 1 >= K for the others.  So the calls
   Peripheral::transmit_telegram / receive_reply that DpMaster makes for one peripheral over master cycles ARE a run
   of the joint system, at least one joint cycle per master cycle (a retransmission after a time-out happens at the
   next token visit inside the same master cycle). *)
Theorem C07_master_runs_joint_system : forall pa bufsize m0 sl0,
  dm_op m0 <> OpStop -> 0 <= p_address pa <= 126 -> (255 <= bufsize)%nat -> addr_inj m0 ->
  Ccomp m0 ->
  (forall i p0, slot m0 i = Some p0 ->
     exists k s0, find_slave sl0 (pe_addr p0) = Some k /\ nth_error sl0 k = Some s0 /\ jinv pa p0 s0) ->
  forall sched m sl K, master_run pa bufsize (m0, sl0) sched = Ok ((m, sl), K) ->
  forall i p0 k s0, slot m0 i = Some p0 -> find_slave sl0 (pe_addr p0) = Some k -> nth_error sl0 k = Some s0 ->
  exists p s n sx evs,
    slot m i = Some p /\ find_slave sl (pe_addr p) = Some k /\ nth_error sl k = Some s /\
    joint_run pa (dm_op m0) n (p0, s0) = Ok ((p, sx), evs) /\ gceq sx s /\ (K <= n + vbit m0 i)%nat.
Proof. exact master_runs_joint_system. Qed.
Print Assumptions C07_master_runs_joint_system.

(* C07_recovery for the master: if no pair is in the class of known finding F15, then in EVERY run of the fault-free
   bus that has completed at least max_retry + 11 master cycles (one more if the run starts inside a cycle), every
   peripheral is in DataExchange with its device in Data_Exch -- and stays there: the statement holds for every
   longer run as well. *)
Theorem C07_recovery_master : forall pa bufsize m0 sl0,
  dm_op m0 <> OpStop -> 0 <= p_address pa <= 126 -> (255 <= bufsize)%nat -> addr_inj m0 ->
  Ccomp m0 ->
  (forall i p0, slot m0 i = Some p0 ->
     exists k s0, find_slave sl0 (pe_addr p0) = Some k /\ nth_error sl0 k = Some s0 /\ jinv pa p0 s0 /\
                  ~ f15_class pa (dm_op m0) (p0, s0)) ->
  forall sched m sl K, master_run pa bufsize (m0, sl0) sched = Ok ((m, sl), K) ->
  (c07_cycles (p_max_retry pa) + (if list_eq_dec Nat.eq_dec (pos_rem m0) (occupied m0) then 0 else 1) <= K)%nat ->
  forall i p, slot m i = Some p ->
  exists k s, find_slave sl (pe_addr p) = Some k /\ nth_error sl k = Some s /\
              pe_state p = PsDataExchange /\ sl_st s = SlDataExch.
Proof. exact recovery_master. Qed.
Print Assumptions C07_recovery_master.

(* the same with the explicit condition of C07_recovery_explicit *)
Theorem C07_recovery_master_explicit : forall pa bufsize m0 sl0,
  dm_op m0 <> OpStop -> 0 <= p_address pa <= 126 -> (255 <= bufsize)%nat -> addr_inj m0 ->
  Ccomp m0 ->
  (forall i p0, slot m0 i = Some p0 ->
     exists k s0, find_slave sl0 (pe_addr p0) = Some k /\ nth_error sl0 k = Some s0 /\ jinv pa p0 s0 /\
                  ~ f15_suspect (p0, s0)) ->
  forall sched m sl K, master_run pa bufsize (m0, sl0) sched = Ok ((m, sl), K) ->
  (c07_cycles (p_max_retry pa) + (if list_eq_dec Nat.eq_dec (pos_rem m0) (occupied m0) then 0 else 1) <= K)%nat ->
  forall i p, slot m i = Some p ->
  exists k s, find_slave sl (pe_addr p) = Some k /\ nth_error sl k = Some s /\
              pe_state p = PsDataExchange /\ sl_st s = SlDataExch.
Proof. exact recovery_master_explicit. Qed.
Print Assumptions C07_recovery_master_explicit.

(* the engine: one token visit from EVERY state satisfying the bridge invariant preserves it, counting the completed
   cycle (BI m sl K: same occupied slots, addresses and operating state as at the start; every slot's pair is
   reached by n cycles of the joint system with K + [the slot already had its turn in this cycle] <= n + [it
   already had its turn in the cycle in which the run started]) *)
Theorem C07_bridge_step : forall pa bufsize op m0 sl0,
  op <> OpStop -> 0 <= p_address pa <= 126 -> (255 <= bufsize)%nat -> addr_inj m0 ->
  (forall i p0, slot m0 i = Some p0 ->
     exists k s0, find_slave sl0 (pe_addr p0) = Some k /\ nth_error sl0 k = Some s0 /\ jinv pa p0 s0) ->
  forall m sl K now hp m' sl' cc,
  BI pa op m0 sl0 m sl K -> master_visit pa bufsize (m, sl) now hp = Ok ((m', sl'), cc) ->
  BI pa op m0 sl0 m' sl' (K + (if cc then 1 else 0)).
Proof. exact visit_bi. Qed.
Print Assumptions C07_bridge_step.

(* non-vacuity: a master with two fresh peripherals (addresses 5 and 6) and two fresh devices meets all hypotheses;
   40 token visits 1000 us apart (global control broadcasts interleaved: both devices recorded the command)
   complete 13 >= 12 = max_retry + 11 cycles and end with both peripherals in DataExchange, both devices in Data_Exch *)
Example C07_recovery_master_witness :
  dm_op bx_m0 <> OpStop /\ 0 <= p_address default_params <= 126 /\ (255 <= 256)%nat /\ addr_inj bx_m0 /\
  Ccomp bx_m0 /\ pos_rem bx_m0 = occupied bx_m0 /\
  (forall i p0, slot bx_m0 i = Some p0 ->
     exists k s0, find_slave bx_sl0 (pe_addr p0) = Some k /\ nth_error bx_sl0 k = Some s0 /\
                  jinv default_params p0 s0 /\ ~ f15_suspect (p0, s0)) /\
  c07_cycles (p_max_retry default_params) = 12%nat /\
  exists m sl, master_run default_params 256 (bx_m0, bx_sl0) (bx_sched 40) = Ok ((m, sl), 13%nat) /\
    map (fun o => match o with Some p => Some (pe_state p) | None => None end) (dm_slots m) =
      [Some PsDataExchange; Some PsDataExchange] /\
    map sl_st sl = [SlDataExch; SlDataExch] /\ map sl_gc sl = [Some 0; Some 0].
Proof. exact bridge_example. Qed.
