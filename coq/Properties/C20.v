(* C20 - placeholder while the check is being built *)
From PB Require Import Common PrmTables Prm PrmOracle.
