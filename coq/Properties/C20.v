(* C20 - Parameter blocks are packed bit-exactly from the GSD definitions.
   Theorem statements only; every proof is `exact <lemma of Proofs/C20Proofs.v>`.

   Model: Model/Prm.v (gsd-parser/src/lib.rs after the three F9 repairs: Bit can be cleared, Signed16
   goes through i16, bit positions outside the byte are rejected).  Specification: Model/PrmOracle.v
   (`in_type_range`, `in_field`, `field_bit`, `spec_write`, `overlay`, `spec_expect`), which never
   looks at how the crate computes a byte.

   Known finding F9 (known_findings.json "F9-bitarea"): `BitArea(first,last)` assigns the whole byte
   (`s[0] = value << first`).  The known class is exactly: a BitArea field is written into a byte
   that has a bit set outside the area (`known_write`; for new(): `known_new`, some default write
   along the overlay is of that kind).  It cannot be repaired with the test suite unedited (the
   regress_prm snapshot pins the clobbered byte), so the laws are proved for everything outside
   that class and refuted inside it (`C20_bitarea_refuted*`).

   Hypotheses used: `wf_desc` - constant bytes are bytes and bit positions are u8 (type invariants
   of the crate's structs); `covers` - every referenced field lies inside the block (established by
   new(), preserved by every call: `C20_no_panic`, `C20_history`); `all_bytes p`. *)
From PB Require Import Common PrmTables Prm PrmOracle C20Proofs.

(* The generated `size` table is the size the GSD data types have. *)
Theorem C20_size_table : forall dt, dt_size dt = spec_size dt.
Proof. exact dt_size_spec. Qed.
Print Assumptions C20_size_table.

(* What `spec_write` means, bit by bit: same length, and bit k of byte i is the field's bit
   (big endian over the bytes, two's complement = Z.testbit of the value) when (i,k) belongs to the
   field (offset, data type), and the old bit otherwise. *)
Theorem C20_spec_write_exact_bits : forall off dt v p,
  length (spec_write off dt v p) = length p /\ all_bytes (spec_write off dt v p) /\
  forall i k, (i < length p)%nat -> 0 <= k < 8 ->
    Z.testbit (nth i (spec_write off dt v p) 0) k =
    if in_field off dt i k then field_bit off dt v i k else Z.testbit (nth i p 0) k.
Proof. exact spec_write_bits. Qed.
Print Assumptions C20_spec_write_exact_bits.

(* new(): the block is the constants overlaid field by field with the defaults (Err exactly when a
   default lies outside its data type), for every description outside the known class. *)
Theorem C20_new_is_overlay : forall d,
  wf_desc d = true -> known_new d = false -> prm_new d = Ok (overlay d).
Proof. exact new_is_overlay. Qed.
Print Assumptions C20_new_is_overlay.

(* set_prm / set_prm_from_text with a value the specification admits (known name, known text, inside the
   declared range/enumeration and the data type): Ok, and exactly the field's bits change to the
   new value - every data type, every block state, outside the known class. *)
Theorem C20_set_frame : forall d p o off dt v,
  spec_expect d o = ExpAccept off dt v -> covers (refs d) p = true -> all_bytes p ->
  known_write off dt p = false ->
  exists p', step d p o = Ok (SOk, p') /\ length p' = length p /\ all_bytes p' /\
    forall i k, (i < length p)%nat -> 0 <= k < 8 ->
      Z.testbit (nth i p' 0) k = if in_field off dt i k then field_bit off dt v i k else Z.testbit (nth i p 0) k.
Proof. exact set_frame. Qed.
Print Assumptions C20_set_frame.

(* ... and the result is the function `spec_write` the oracle computes. *)
Theorem C20_set_is_spec_write : forall d p o off dt v,
  spec_expect d o = ExpAccept off dt v -> covers (refs d) p = true -> all_bytes p ->
  known_write off dt p = false ->
  step d p o = Ok (SOk, spec_write off dt v p).
Proof. exact step_accept. Qed.
Print Assumptions C20_set_is_spec_write.

(* Unknown name, parameter without texts, unknown text, value outside the range/enumeration or outside
   the data type: Err, no panic, block unchanged.  And whatever is answered with Err left the block unchanged.
   (No known-class exclusion.) *)
Theorem C20_rejects_unchanged : forall d p o,
  wf_refs (refs d) = true -> covers (refs d) p = true ->
  (spec_expect d o = ExpReject -> exists e, step d p o = Ok (SErr e, p)) /\
  (forall e p', step d p o = Ok (SErr e, p') -> p' = p).
Proof. exact rejects_unchanged. Qed.
Print Assumptions C20_rejects_unchanged.

(* write_value_to_slice accepts exactly the values of the data type, for every data type. *)
Theorem C20_type_range_exact : forall dt v s,
  dt_u8 dt = true -> (dt_size dt <= length s)%nat ->
  exists s', write_value dt v s = Ok (in_type_range dt v, s').
Proof. exact type_range_exact. Qed.
Print Assumptions C20_type_range_exact.

(* Signed types accept exactly their signed range (literal bounds). *)
Theorem C20_signed_range : forall v s,
  ((1 <= length s)%nat -> exists s', write_value DtSigned8 v s = Ok (zrange (-128) 127 v, s')) /\
  ((2 <= length s)%nat -> exists s', write_value DtSigned16 v s = Ok (zrange (-32768) 32767 v, s')) /\
  ((4 <= length s)%nat -> exists s', write_value DtSigned32 v s = Ok (zrange (-2147483648) 2147483647 v, s')).
Proof. exact signed_range. Qed.
Print Assumptions C20_signed_range.

(* Never a panic: for EVERY description (any offsets, any bit positions incl. Bit(b) with b > 7 and
   BitArea(f,l) with l < f or l > 7, any constants, any defaults) new() returns Ok or Err, and after
   Ok every sequence of set_prm / set_prm_from_text calls with any names, texts and values runs without panic.
   (Offsets are `nat`: usize overflow of offset+size / allocation failure are outside the model.) *)
Theorem C20_no_panic : forall d ops,
  match prm_new d with
  | Ok None => True
  | Ok (Some p) => exists l, run d p ops = Ok l
  | _ => False
  end.
Proof. exact no_panic. Qed.
Print Assumptions C20_no_panic.

(* Histories: along every call sequence started from new(), every single call either belongs to the
   known class or passes the very oracle the check runs on the crate's outputs (accepted: block =
   spec_write; rejected: block unchanged). *)
Theorem C20_history : forall d ops p0,
  wf_desc d = true -> prm_new d = Ok (Some p0) ->
  exists l, run d p0 ops = Ok l /\ c20_trace_ok d p0 ops l = true.
Proof. exact history. Qed.
Print Assumptions C20_history.

(* Known finding F9, inside the known class the overlay law is false of the code:
   const 0xAA, Bit(0)=1, BitArea(1-2)=1 in one byte gives 0x02 where the overlay is 0xAB. *)
Theorem C20_bitarea_refuted :
  wf_desc f9_witness = true /\ known_new f9_witness = true /\
  prm_new f9_witness = Ok (Some [2]) /\ overlay f9_witness = Some [171].
Proof. exact bitarea_refuted. Qed.
Print Assumptions C20_bitarea_refuted.

(* the mock.gsd layout of the regress_prm test: Bit(0)=1 then BitArea(1-2)=1 gives 0x02, not 0x03 *)
Theorem C20_bitarea_refuted_mock :
  let p1 := [0; 0; 0; 0; 0; 1; 0; 0; 0; 0; 0; 255] in
  wf_desc f9_mock = true /\ covers (refs f9_mock) p1 = true /\
  spec_expect f9_mock (OpText 2 1) = ExpAccept 5%nat (DtBitArea 1 2) 1 /\
  known_write 5%nat (DtBitArea 1 2) p1 = true /\
  step f9_mock p1 (OpText 2 1) = Ok (SOk, [0; 0; 0; 0; 0; 2; 0; 0; 0; 0; 0; 255]) /\
  spec_write 5%nat (DtBitArea 1 2) 1 p1 = [0; 0; 0; 0; 0; 3; 0; 0; 0; 0; 0; 255].
Proof. exact bitarea_refuted_mock. Qed.
Print Assumptions C20_bitarea_refuted_mock.

(* so C20_set_is_spec_write without its known-class hypothesis does not hold *)
Theorem C20_set_frame_unrestricted_refuted :
  ~ (forall d p o off dt v, wf_desc d = true -> spec_expect d o = ExpAccept off dt v ->
       covers (refs d) p = true -> all_bytes p -> step d p o = Ok (SOk, spec_write off dt v p)).
Proof. exact set_frame_unrestricted_refuted. Qed.
Print Assumptions C20_set_frame_unrestricted_refuted.

(* ------------------------------------------------------------------ non-vacuity *)

(* A description with every data type, bit fields sharing a byte over a constant, outside the
   known class: hypotheses of C20_new_is_overlay hold and new() builds the expected block;
   Signed16 := -2 is encoded ff fe; clearing a Bit and a BitArea in a clean byte work. *)
Definition c20_example : desc :=
  mkDesc [(0%nat, [0; 0; 0; 0; 0; 0; 0; 0; 0; 0; 0; 0; 0; 0; 0; 9])]
         [(0%nat, mkDef 1 DtUnsigned8 200 CUnconstrained None);
          (1%nat, mkDef 2 DtUnsigned16 513 (CMinMax 0 1000) None);
          (3%nat, mkDef 3 DtUnsigned32 16909060 CUnconstrained None);
          (7%nat, mkDef 4 DtSigned8 (-1) CUnconstrained None);
          (8%nat, mkDef 5 DtSigned16 (-32768) CUnconstrained (Some [(0, -2); (1, 70000)]));
          (10%nat, mkDef 6 DtSigned32 (-2) (CEnum [-2; 5]) None);
          (14%nat, mkDef 7 (DtBitArea 2 4) 5 CUnconstrained None);
          (14%nat, mkDef 8 (DtBit 0) 1 CUnconstrained None);
          (14%nat, mkDef 9 (DtBit 7) 1 CUnconstrained None)].

Example C20_hypotheses_satisfiable :
  wf_desc c20_example = true /\ known_new c20_example = false /\
  prm_new c20_example = Ok (Some [200; 2; 1; 1; 2; 3; 4; 255; 128; 0; 255; 255; 255; 254; 149; 9]) /\
  (forall p0, prm_new c20_example = Ok (Some p0) ->
     covers (refs c20_example) p0 = true /\
     spec_expect c20_example (OpText 5 0) = ExpAccept 8%nat DtSigned16 (-2) /\
     known_write 8%nat DtSigned16 p0 = false /\
     step c20_example p0 (OpText 5 0) = Ok (SOk, [200; 2; 1; 1; 2; 3; 4; 255; 255; 254; 255; 255; 255; 254; 149; 9]) /\
     spec_expect c20_example (OpText 5 1) = ExpReject /\
     spec_expect c20_example (OpSet 6 4) = ExpReject /\
     step c20_example p0 (OpSet 8 0) = Ok (SOk, [200; 2; 1; 1; 2; 3; 4; 255; 128; 0; 255; 255; 255; 254; 148; 9])).
Proof.
  split; [vm_compute; reflexivity|]. split; [vm_compute; reflexivity|]. split; [vm_compute; reflexivity|].
  intros p0 H. assert (E : prm_new c20_example = Ok (Some [200; 2; 1; 1; 2; 3; 4; 255; 128; 0; 255; 255; 255; 254; 149; 9]))
    by (vm_compute; reflexivity).
  rewrite E in H. inversion H; subst. vm_compute. repeat split; reflexivity.
Qed.
