(* C06 - recovery (station-local, one-step part): the claim after the station's own time-out.
   Planned (DESIGN 4, not yet proved): C06_backoff, C06_collision_leaves, the untimed N-station theorem. *)
From PB Require Import Common Telegram Params Fdl FdlProofs.

(* A station that listens or idles in the ring, has seen no bus activity for its token-lost time-out
   and receives nothing new, transmits the claim token TS -> TS in this very poll. *)
Theorem C06_claim_progress : forall (A : Type) (ops : app_ops A) (f : fdl) (now : Z) (rxb : bytes)
                                    (apps : list A) (l : Z),
  f_conn f = ConnOnline ->
  (exists sr cc, f_state f = ListenToken sr cc) \/ (exists sr nps cc, f_state f = ActiveIdle sr nps cc) ->
  f_lba f = Some l -> time_ok l -> time_ok now ->
  (length rxb <= f_pending f)%nat ->
  token_lost_timeout (f_p f) <= now - l ->
  l + p_bits_to_time (f_p f) sync_pause_bits < now ->
  exists f', poll ops f now (mkPhyIn false rxb) apps =
               Ok (f', mkPhyOut (Some (encode_token (ts f) (ts f))) rxb, apps, []) /\
             f_state f' = ClaimToken StepSecondToken.
Proof. exact claim_progress. Qed.
Print Assumptions C06_claim_progress.

(* ========================================================================================== *)
(* Single-station recovery mechanisms (proofs: Proofs/C06Proofs.v).  Theorems about whole polls
   (`poll`), for ALL station states, parameters, applications, times and inputs that satisfy the stated
   hypotheses.  `predicted f now = false` : `now` is after the recorded end of bus activity;
   `lba_seen f now n` : last_bus_activity as the poll sees it, n new receive bytes counting as activity
   at `now`.  NOT proved here: recovery of an N-station ring (see lib/props.py, partial_gap). *)
From PB Require Import FdlTables Phy TokenRing FdlStepProofs C11Proofs C06Proofs.

(* C06_backoff: a station that holds the token and waits for an answer - of a data request
   (AwaitDataResponse), of a GAP poll (AwaitStatusResponse), of a GAP poll of its post-claim scan
   (ClaimToken/ScanAwaitResponse) - and finds a complete telegram that is not this answer gives the token
   up: ActiveIdle, nothing transmitted in that poll, no application called, ring view unchanged. *)
Theorem C06_backoff : forall (A : Type) (ops : app_ops A) (f : fdl) (now : Z) (pin : phy_in) (apps : list A)
                             (t : telegram) (n : nat) (f' : fdl) (o : phy_out) (a : list A) (c : list call),
  unexpected_for f t -> tx_busy pin = false -> predicted f now = false ->
  DecodeSpec.decode_spec (rx pin) = Accept t n ->
  poll ops f now pin apps = Ok (f', o, a, c) ->
  f_state f' = ActiveIdle None None 0 /\ o = mkPhyOut None (skipn n (rx pin)) /\ c = [] /\ a = apps /\
  f_ring f' = f_ring f /\ f_p f' = f_p f.
Proof. exact backoff. Qed.
Print Assumptions C06_backoff.

(* the hypothesis of C06_backoff is satisfiable: a token telegram is never the awaited answer *)
Example C06_backoff_token_is_unexpected : forall f addr tk fa da sa,
  f_state f = AwaitDataResponse addr tk fa -> unexpected_for f (TToken da sa).
Proof. intros f addr tk fa da sa H. unfold unexpected_for. rewrite H. reflexivity. Qed.

(* C06_backoff, the other token-holding states (UseToken, the transmitting steps of ClaimToken) and
   PassToken do not read the receive buffer: new receive bytes restart the synchronisation pause, so in
   that poll nothing is transmitted, no application is called, the bytes stay buffered, the state is kept. *)
Theorem C06_holding_defers : forall (A : Type) (ops : app_ops A) (f : fdl) (now : Z) (pin : phy_in) (apps : list A)
                                    (f' : fdl) (o : phy_out) (a : list A) (c : list call),
  holds_without_reading (f_state f) = true -> tx_busy pin = false -> predicted f now = false ->
  (f_pending f < length (rx pin))%nat ->
  poll ops f now pin apps = Ok (f', o, a, c) ->
  o = mkPhyOut None (rx pin) /\ a = apps /\ c = [] /\ f_state f' = f_state f /\ f_ring f' = f_ring f.
Proof. exact holding_defers. Qed.
Print Assumptions C06_holding_defers.

(* C06_collision_leaves, as coded.  (1) ActiveIdle, closure level: a token telegram whose source is the
   own address increments the collision counter; the first is tolerated, any further one makes the
   station leave the ring for ListenToken (ring view and connectivity untouched).  Only token telegrams
   are examined in ActiveIdle. *)
Theorem C06_collision_active_idle_step : forall (A : Type) (f : fdl) (w : world A) (now : Z) (sr nps : option Z)
                                                (cc da : Z) (il : bool) (f' : fdl) (w' : world A),
  f_state f = ActiveIdle sr nps cc ->
  handle_telegram A now f w (TToken da (ts f)) il = Ok (f', w') ->
  cc + 1 <= 255 /\ f_ring f' = f_ring f /\ f_conn f' = f_conn f /\
  f_state f' = if cc + 1 =? active_idle_collision_tolerated then ActiveIdle sr nps (cc + 1) else ListenToken None 0.
Proof. exact handle_telegram_collision. Qed.
Print Assumptions C06_collision_active_idle_step.

(* (2) ActiveIdle, two-poll history: own address seen as token source twice in a row => out of the ring. *)
Theorem C06_collision_active_idle : forall (A : Type) (ops : app_ops A) (f : fdl) (now1 : Z) (apps : list A)
    (nps : option Z) (da1 : Z) (f1 : fdl) (o1 : phy_out) (a1 : list A) (c1 : list call),
  f_conn f = ConnOnline -> f_state f = ActiveIdle None nps 0 ->
  (forall l, f_lba f = Some l -> l < now1) -> (f_pending f < 3)%nat -> 0 < token_lost_timeout (f_p f) ->
  poll ops f now1 (mkPhyIn false (encode_token da1 (ts f))) apps = Ok (f1, o1, a1, c1) ->
  (f_state f1 = ActiveIdle None nps 1 /\ is_in_ring f1 = true /\ f_ring f1 = f_ring f /\ o1 = mkPhyOut None [] /\ a1 = apps /\ c1 = []) /\
  forall now2 da2 f2 o2 a2 c2, now1 < now2 ->
    poll ops f1 now2 (mkPhyIn false (encode_token da2 (ts f))) a1 = Ok (f2, o2, a2, c2) ->
    f_state f2 = ListenToken None 0 /\ is_in_ring f2 = false /\ f_ring f2 = f_ring f /\ o2 = mkPhyOut None [] /\ c2 = [].
Proof. exact collision_active_idle. Qed.
Print Assumptions C06_collision_active_idle.

(* (3) ListenToken, closure level: EVERY telegram with the own address as source counts (tokens and data
   telegrams, addressed to anybody); the first is tolerated, the next one takes the station offline: the
   station is re-created from its parameters (connectivity Offline, state Offline, fresh ring view). *)
Theorem C06_collision_listen_step : forall (A : Type) (now : Z) (f : fdl) (w : world A) (t : telegram) (il : bool)
                                           (sr : option Z) (cc : Z) (f' : fdl) (w' : world A) (u : unit),
  f_state f = ListenToken sr cc -> f_conn f <> ConnOffline -> source_address t = Some (ts f) ->
  listen_token_telegram A now (f, w) t il = Ok (f', w', u) ->
  cc + 1 <= 255 /\
  if cc + 1 =? listen_collision_tolerated
  then f_state f' = ListenToken sr (cc + 1) /\ f_conn f' = f_conn f /\ f_ring f' = f_ring f
  else fdl_new (f_p f) = Ok f'.
Proof. exact listen_collision. Qed.
Print Assumptions C06_collision_listen_step.

(* (4) ListenToken, two-poll history: own address seen as source twice => offline. *)
Theorem C06_collision_listen : forall (A : Type) (ops : app_ops A) (f : fdl) (now1 : Z) (apps : list A)
    (buf1 : bytes) (t1 : telegram) (f1 : fdl) (o1 : phy_out) (a1 : list A) (c1 : list call),
  f_conn f = ConnOnline -> f_state f = ListenToken None 0 ->
  (forall l, f_lba f = Some l -> l < now1) -> f_pending f = 0%nat -> 0 < token_lost_timeout (f_p f) ->
  DecodeSpec.decode_spec buf1 = Accept t1 (length buf1) -> source_address t1 = Some (ts f) ->
  poll ops f now1 (mkPhyIn false buf1) apps = Ok (f1, o1, a1, c1) ->
  (f_state f1 = ListenToken None 1 /\ f_conn f1 = ConnOnline /\ f_ring f1 = f_ring f /\ o1 = mkPhyOut None []) /\
  forall now2 buf2 t2 f2 o2 a2 c2, now1 < now2 ->
    DecodeSpec.decode_spec buf2 = Accept t2 (length buf2) -> source_address t2 = Some (ts f) ->
    poll ops f1 now2 (mkPhyIn false buf2) a1 = Ok (f2, o2, a2, c2) ->
    f_conn f2 = ConnOffline /\ f_state f2 = Offline /\ is_in_ring f2 = false /\ o2 = mkPhyOut None [].
Proof. exact collision_listen. Qed.
Print Assumptions C06_collision_listen.

(* C06_garbage_discarded: undecodable bytes newly in the receive buffer, seen in a state that reads the
   buffer (`listens`): the whole buffer is dropped, nothing is transmitted, no application is called, and
   nothing of the station changes but the bus-activity bookkeeping.  (The decoder-level facts - what is
   undecodable, resynchronisation afterwards - are C16.) *)
Theorem C06_garbage_discarded : forall (A : Type) (ops : app_ops A) (f : fdl) (now : Z) (pin : phy_in)
    (apps : list A) (f' : fdl) (o : phy_out) (a : list A) (c : list call),
  listens (f_state f) = true -> f_conn f = ConnOnline ->
  tx_busy pin = false -> predicted f now = false -> (f_pending f < length (rx pin))%nat ->
  DecodeSpec.decode_spec (rx pin) = Reject -> 0 <= slot_time (f_p f) -> 0 < token_lost_timeout (f_p f) ->
  poll ops f now pin apps = Ok (f', o, a, c) ->
  same_but_lba_pending f f' /\ f_pending f' = 0%nat /\ f_lba f' = Some now /\
  o = mkPhyOut None [] /\ a = apps /\ c = [].
Proof. exact garbage_discarded. Qed.
Print Assumptions C06_garbage_discarded.

Example C06_garbage_example : DecodeSpec.decode_spec [0; 17; 255] = Reject.
Proof. reflexivity. Qed.

(* C06_claim_only_after_timeout (= C01_claim_stagger, first half): whatever the state and the input, a
   poll takes the station into ClaimToken only from ListenToken / ActiveIdle (or in the poll that takes
   it online) and only if the bus activity it has recorded - receive bytes of this very poll included -
   lies at least its token-lost time-out in the past. *)
Theorem C06_claim_only_after_timeout : forall (A : Type) (ops : app_ops A) (f : fdl) (now : Z) (pin : phy_in)
    (apps : list A) (f' : fdl) (o : phy_out) (a : list A) (c : list call),
  kind_of (f_state f) <> KClaimToken -> poll ops f now pin apps = Ok (f', o, a, c) ->
  kind_of (f_state f') = KClaimToken ->
  tx_busy pin = false /\ predicted f now = false /\
  token_lost_timeout (f_p f) <= Z.abs (now - lba_seen f now (length (rx pin))) /\
  (kind_of (f_state f) = KListenToken \/ kind_of (f_state f) = KActiveIdle \/
   kind_of (f_state f) = KOffline \/ kind_of (f_state f) = KPassiveIdle).
Proof. exact claim_needs_timeout. Qed.
Print Assumptions C06_claim_only_after_timeout.

(* ... in plain terms for a positive time-out: no new receive bytes in that poll, and the last recorded
   bus activity is at least the time-out old. *)
Theorem C06_claim_needs_silence : forall (A : Type) (ops : app_ops A) (f : fdl) (now : Z) (pin : phy_in)
    (apps : list A) (f' : fdl) (o : phy_out) (a : list A) (c : list call),
  0 < token_lost_timeout (f_p f) ->
  kind_of (f_state f) <> KClaimToken -> poll ops f now pin apps = Ok (f', o, a, c) ->
  kind_of (f_state f') = KClaimToken ->
  (length (rx pin) <= f_pending f)%nat /\
  exists l, f_lba f = Some l /\ l < now /\ token_lost_timeout (f_p f) <= now - l.
Proof. exact claim_needs_silence. Qed.
Print Assumptions C06_claim_needs_silence.

(* C06_claim_stagger (= C01_claim_stagger, second half): the time-out is (6 + 2 * TS) * Tslot (constants
   regenerated from parameters.rs), so for equal bus parameters it grows by at least two slot times per
   address step: two listening stations never reach their time-outs together. *)
Theorem C06_claim_stagger : forall p1 p2 : params,
  p_baud p1 = p_baud p2 -> p_slot_bits p1 = p_slot_bits p2 -> 0 <= p_slot_bits p1 ->
  p_address p1 < p_address p2 ->
  token_lost_timeout p1 + 2 * (p_address p2 - p_address p1) * slot_time p1 <= token_lost_timeout p2.
Proof. exact token_lost_timeout_stagger. Qed.
Print Assumptions C06_claim_stagger.

(* C06_lost_token_recovers_alone, PARTIAL (idle states only).  A station alone on a silent bus,
   listening or idling in its ring with nothing pending, last recorded bus activity at l: under ANY poll
   schedule - polls ts1 before the time-out has run out, in any number and spacing, then a poll at T at
   or after l + token_lost_timeout (and after the synchronisation pause) - no poll panics, the early polls
   transmit nothing and leave the state alone, and the poll at T transmits the claim token TS -> TS: the
   station holds the token again.
   FULL: the same from ANY state with connectivity online.  Not proved for PassToken / CheckTokenPass
   (a stale ring view is worked off by three transmissions per listed station, C11_retry_discipline
   describes each step; the bound over the whole LAS is missing) and for a pending status request; the
   poll that takes the station online is the next theorem; the token-holding states hold the token already. *)
Theorem C06_lost_token_recovers_alone_partial : forall (A : Type) (ops : app_ops A) (ts1 : list Z) (f : fdl)
    (apps : list A) (l T : Z),
  f_conn f = ConnOnline -> idle_state (f_state f) -> f_lba f = Some l -> time_ok l ->
  Forall (fun t => time_ok t /\ l < t /\ t - l < token_lost_timeout (f_p f)) ts1 ->
  time_ok T -> token_lost_timeout (f_p f) <= T - l -> l + p_bits_to_time (f_p f) sync_pause_bits < T ->
  exists pre last,
    run_polls ops f apps (map silent_in (ts1 ++ [T])) = Ok (pre ++ [last]) /\
    Forall (fun s => tx (s_out s) = None /\ f_state (s_f' s) = f_state f) pre /\
    length pre = length ts1 /\
    s_now last = T /\ tx (s_out last) = Some (encode_token (ts f) (ts f)) /\
    f_state (s_f' last) = ClaimToken StepSecondToken /\ have_token (f_state (s_f' last)) = true.
Proof. exact lone_station_claims. Qed.
Print Assumptions C06_lost_token_recovers_alone_partial.

(* ... and from the moment a freshly created station is set online (state Offline, nothing recorded): the
   first poll at t0 takes it to ListenToken and starts the time-out. *)
Theorem C06_lost_token_recovers_alone_fresh_partial : forall (A : Type) (ops : app_ops A) (ts1 : list Z) (f : fdl)
    (apps : list A) (t0 T : Z),
  f_conn f = ConnOnline -> f_state f = Offline -> f_lba f = None -> 0 < token_lost_timeout (f_p f) -> time_ok t0 ->
  Forall (fun t => time_ok t /\ t0 < t /\ t - t0 < token_lost_timeout (f_p f)) ts1 ->
  time_ok T -> token_lost_timeout (f_p f) <= T - t0 -> t0 + p_bits_to_time (f_p f) sync_pause_bits < T ->
  exists first pre last,
    run_polls ops f apps (map silent_in (t0 :: ts1 ++ [T])) = Ok (first :: pre ++ [last]) /\
    tx (s_out first) = None /\ f_state (s_f' first) = ListenToken None 0 /\
    Forall (fun s => tx (s_out s) = None /\ f_state (s_f' s) = ListenToken None 0) pre /\
    length pre = length ts1 /\
    s_now last = T /\ tx (s_out last) = Some (encode_token (ts f) (ts f)) /\
    f_state (s_f' last) = ClaimToken StepSecondToken /\ have_token (f_state (s_f' last)) = true.
Proof. exact fresh_station_claims. Qed.
Print Assumptions C06_lost_token_recovers_alone_fresh_partial.

Example C06_lone_station_example :
  ex_lone_trace = Ok [(KListenToken, None, 0%nat); (KListenToken, None, 0%nat); (KClaimToken, Some [220; 1; 1], 0%nat)].
Proof. vm_compute. reflexivity. Qed.


(* ------------------------------------------------------------------------------------------ *)
(* ORACLE SOUNDNESS, PARTIAL (see Properties/C01.v for model_transcript and the hypotheses; all input
   histories): the monitor rule R06_no_claim_after_timeout ("a listening / idle station that
   has certainly seen nothing for its time-out claims the token in this poll") is never reported on a
   transcript of the model.  NOT covered: R06_no_backoff.
   FULL: forall r, In (k, r) (monitor ..) -> rule_prop r <> PC06. *)
From PB Require Import Params C05Proofs FdlOracle FdlOracleSound1 FdlOracleSound3.

Theorem C06_oracle_sound_partial : forall (A : Type) (ops : app_ops A) (p : params),
  apps_total A ops -> builder_valid p ->
  forall (apps : list A) (ins : list minput),
  ins_ok 0 ins ->
  forall k r, In (k, r) (monitor p (length apps) (model_transcript A ops p apps ins)) -> r <> R06_no_claim_after_timeout.
Proof. exact c06_claim_oracle_sound. Qed.
Print Assumptions C06_oracle_sound_partial.

(* ORACLE SOUNDNESS, FULL (Proofs/FdlOracleSound8.v, FdlOracleSoundAll.v): no rule of C06 - R06_no_claim_after_timeout, R06_no_backoff
   (the executable form of theorem C06_backoff) - is reported on a transcript of the model, for ALL input
   histories and applications that hand data telegrams to the PHY (app_sends_data, see Properties/C13.v). *)
From PB Require Import FdlOracleSound5 FdlOracleSoundAll.

Theorem C06_oracle_sound : forall (A : Type) (ops : app_ops A) (p : params),
  apps_total A ops -> builder_valid p -> app_sends_data A ops ->
  forall (apps : list A) (ins : list minput), ins_ok 0 ins ->
  forall k r, In (k, r) (monitor p (length apps) (model_transcript A ops p apps ins)) -> rule_prop r <> PC06.
Proof. exact c06_oracle_sound. Qed.
Print Assumptions C06_oracle_sound.

(* ========================================================================================== *)
(* C06_lost_token_recovers_alone, from EVERY state (Proofs/C06Recover.v).
   A lone online station on a silent bus: the receive buffer is empty in every poll, the PHY reports busy at
   most while the station itself still predicts the end of its own transmission (`lone_ok`, which also says:
   poll times increase with gaps of at most P).  From every station state f that satisfies the
   representation invariant Rep of C05 (any state: also PassToken / CheckTokenPass with a stale ring view,
   AwaitStatusResponse, AwaitDataResponse, UseToken, ClaimToken, a status request pending; any applications
   that are total) and records some bus activity unless it has just been set online (`f_lba f = None ->
   f_state f = Offline`: invariant ti_some of every reachable state, Proofs/FdlOracleSound3.v):
   no poll of the schedule panics, and the station is in a token-holding state (have_token: UseToken,
   ClaimToken, AwaitDataResponse, AwaitStatusResponse - it has claimed the token or kept it) after some poll
   at or before `recover_bound P f t1` - unless the schedule ends before that time minus one poll period
   (`reached`).  t1 is the time of the first poll, L the last recorded bus activity (t1 if none).
     idle chain  (Offline/ListenToken/ActiveIdle):
        max(t1, L + Ttimeout(TS) + P) + r * (T(6 bytes) + Ttimeout(TS) + P),   r <= 2
     token chain (the other states):
        max(t1, L + Tslot + P) + k * (T(3 bytes) + Tslot + P),   k <= 3 * (LAS entries other than TS) + 5
   (k counts polls that make progress: three passes per stale LAS entry - C11_retry_discipline -, the removal
   happens with the third expiry; `mu_B`).  The proof is a ranking argument over (LAS entries other than TS,
   attempt) with `others_witness` / `others_remove`; between two progress polls the station provably only
   waits (state, ring view and last_bus_activity unchanged), at most until L' + Tslot (+ P for the next poll). *)
From PB Require Import C05Proofs FdlOracleSound2 C06Recover.

Theorem C06_lost_token_recovers_alone : forall (A : Type) (ops : app_ops A) (P : Z), apps_total A ops ->
  forall (ins : list (Z * bool)) (f : fdl) (apps : list A) (tprev : Z),
  0 <= P -> Rep (length apps) f -> f_conn f = ConnOnline -> (f_lba f = None -> f_state f = Offline) ->
  lone_ok A ops P f apps tprev ins ->
  exists steps, run_polls ops f apps (map silent_in2 ins) = Ok steps /\
    match ins with [] => steps = [] | (t1, _) :: _ => reached P (recover_bound P f t1) steps end.
Proof. exact lost_token_recovers_alone. Qed.
Print Assumptions C06_lost_token_recovers_alone.

(* ... in the form "if the schedule goes on long enough": it has a poll later than the bound minus one period *)
Theorem C06_lost_token_recovers_alone_by : forall (A : Type) (ops : app_ops A) (P : Z), apps_total A ops ->
  forall (ins : list (Z * bool)) (f : fdl) (apps : list A) (tprev t1 : Z) (b : bool) (rest : list (Z * bool)) (t : Z),
  0 <= P -> Rep (length apps) f -> f_conn f = ConnOnline -> (f_lba f = None -> f_state f = Offline) ->
  ins = (t1, b) :: rest -> lone_ok A ops P f apps tprev ins ->
  In t (map fst ins) -> recover_bound P f t1 - P < t ->
  exists steps, run_polls ops f apps (map silent_in2 ins) = Ok steps /\
    Exists (fun s => have_token (f_state (s_f' s)) = true /\ C11Proofs.s_now s <= recover_bound P f t1) steps.
Proof. exact lost_token_recovers_alone_by. Qed.
Print Assumptions C06_lost_token_recovers_alone_by.

(* a closed form above the bound, for all states: (3 * stale entries + 5) steps of at most
   Ttimeout(TS) + T(6 bytes) + P each; the LAS has 128 entries, so at most 3 * 128 + 5 steps *)
Theorem C06_recover_bound_explicit : forall (P : Z) (f : fdl) (t1 : Z) (n : nat), 0 <= P -> Rep n f ->
  recover_bound P f t1 <=
  Z.max t1 (gv t1 (f_lba f) + token_lost_timeout (f_p f) + P) +
  (3 * Z.of_nat (others (f_ring f) (ts f)) + 5) * (dur (f_p f) 6 + token_lost_timeout (f_p f) + P).
Proof. exact recover_bound_le. Qed.
Print Assumptions C06_recover_bound_explicit.

Theorem C06_stale_entries_bound : forall (r : ring) (a : Z), C02Proofs.wf r -> (others r a <= 128)%nat.
Proof. exact others_bound. Qed.
Print Assumptions C06_stale_entries_bound.

(* non-vacuity: the default parameters, station created, set online, polled every 50 ms on a silent bus *)
Example C06_recover_example : forall f0 f, fdl_new default_params = Ok f0 -> set_online f0 = Ok f ->
  exists steps, run_polls unit_app_ops f [tt] (map silent_in2 ex_sched) = Ok steps /\
    Exists (fun s => have_token (f_state (s_f' s)) = true /\ C11Proofs.s_now s <= 291872) steps.
Proof. exact ex_recover_fresh. Qed.
