(* C06 - recovery (station-local, one-step part): the claim after the station's own time-out.
   Planned (DESIGN 4, not yet proved): C06_backoff, C06_collision_leaves, the untimed N-station theorem. *)
From PB Require Import Common Telegram Params Fdl FdlProofs.

(* A station that listens or idles in the ring, has seen no bus activity for its token-lost time-out
   and receives nothing new, transmits the claim token TS -> TS in this very poll. *)
Theorem C06_claim_progress : forall (A : Type) (ops : app_ops A) (f : fdl) (now : Z) (rxb : bytes)
                                    (apps : list A) (l : Z),
  f_conn f = ConnOnline ->
  (exists sr cc, f_state f = ListenToken sr cc) \/ (exists sr nps cc, f_state f = ActiveIdle sr nps cc) ->
  f_lba f = Some l -> time_ok l -> time_ok now ->
  (length rxb <= f_pending f)%nat ->
  token_lost_timeout (f_p f) <= now - l ->
  l + p_bits_to_time (f_p f) sync_pause_bits < now ->
  exists f', poll ops f now (mkPhyIn false rxb) apps =
               Ok (f', mkPhyOut (Some (encode_token (ts f) (ts f))) rxb, apps, []) /\
             f_state f' = ClaimToken StepSecondToken.
Proof. exact claim_progress. Qed.
Print Assumptions C06_claim_progress.
