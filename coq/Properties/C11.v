(* C11 - token acceptance rule (station-local, one-step part at the level of handle_telegram).
   Planned on top of the same model (not yet proved): C11_supervise, C11_retry_discipline, C11_heard_not_removed. *)
From PB Require Import Common Telegram TokenRing Params Fdl FdlProofs FdlStepProofs.

(* In ActiveIdle, a token addressed to this station from another station, received as the last
   buffered telegram, is accepted in that step iff the sender is the registered predecessor or the
   pending new predecessor (its second offer); otherwise the sender becomes pending, the station
   stays in ActiveIdle and its ring view is unchanged.  For all states, parameters and worlds. *)
Theorem C11_accept_iff : forall (A : Type) (f : fdl) (w : world A) (now : Z) (sr nps : option Z) (cc sa : Z)
                                (f' : fdl) (w' : world A),
  f_state f = ActiveIdle sr nps cc -> sa <> ts f ->
  handle_telegram A now f w (TToken (ts f) sa) true = Ok (f', w') ->
  (sa = r_ps (f_ring f) \/ nps = Some sa -> f_state f' = UseToken now None false) /\
  (~ (sa = r_ps (f_ring f) \/ nps = Some sa) ->
     f_state f' = ActiveIdle sr (Some sa) 0 /\ f_ring f' = f_ring f).
Proof. exact handle_telegram_accept_iff. Qed.
Print Assumptions C11_accept_iff.

(* A token carrying the station's own address as source is the collision branch: never accepted. *)
Theorem C11_own_address_never_accepts : forall (A : Type) (f : fdl) (w : world A) (now : Z) (sr nps : option Z)
                                               (cc da : Z) (is_last : bool) (f' : fdl) (w' : world A),
  f_state f = ActiveIdle sr nps cc ->
  handle_telegram A now f w (TToken da (ts f)) is_last = Ok (f', w') ->
  have_token (f_state f') = false.
Proof. exact handle_telegram_own_address_never_accepts. Qed.
Print Assumptions C11_own_address_never_accepts.

(* A token that is not the last buffered telegram, or that is for somebody else, is only witnessed. *)
Theorem C11_not_last_only_witnessed : forall (A : Type) (f : fdl) (w : world A) (now : Z) (sr nps : option Z)
                                             (cc da sa : Z) (is_last : bool) (f' : fdl) (w' : world A),
  f_state f = ActiveIdle sr nps cc -> sa <> ts f -> (da <> ts f \/ is_last = false) ->
  handle_telegram A now f w (TToken da sa) is_last = Ok (f', w') ->
  f_state f' = ActiveIdle sr nps 0 /\ witness (f_ring f) sa da = Ok (f_ring f').
Proof. exact handle_telegram_not_last_only_witnessed. Qed.
Print Assumptions C11_not_last_only_witnessed.

(* C11_listen_never_accepts: one step of do_listen_token - whatever is in the receive buffer (tokens
   addressed to the station included), whatever the time - leaves the station listening (or offline after
   a second address collision), takes it into ActiveIdle by answering a status request, or makes it claim
   the token, the latter only when its own silence time-out has expired.  It never ends in UseToken,
   PassToken, CheckTokenPass, AwaitDataResponse or AwaitStatusResponse. *)
Theorem C11_listen_never_accepts : forall (A : Type) (f : fdl) (now : Z) (w : world A) (f' : fdl) (w' : world A),
  do_listen_token A f now w = Ok (f', w') ->
  kind_of (f_state f') = KListenToken \/ kind_of (f_state f') = KOffline \/
  kind_of (f_state f') = KActiveIdle \/
  (kind_of (f_state f') = KClaimToken /\
   exists l, (f_lba f = Some l \/ (f_lba f = None /\ l = now)) /\ token_lost_timeout (f_p f) <= Z.abs (now - l)).
Proof. exact do_listen_token_never_accepts. Qed.
Print Assumptions C11_listen_never_accepts.
