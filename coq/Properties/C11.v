(* C11 - token acceptance rule (station-local, one-step part at the level of handle_telegram).
   Planned on top of the same model (not yet proved): C11_supervise, C11_retry_discipline, C11_heard_not_removed. *)
From PB Require Import Common Telegram TokenRing Params Fdl FdlProofs FdlStepProofs.

(* In ActiveIdle, a token addressed to this station from another station, received as the last
   buffered telegram, is accepted in that step iff the sender is the registered predecessor or the
   pending new predecessor (its second offer); otherwise the sender becomes pending, the station
   stays in ActiveIdle and its ring view is unchanged.  For all states, parameters and worlds. *)
Theorem C11_accept_iff : forall (A : Type) (f : fdl) (w : world A) (now : Z) (sr nps : option Z) (cc sa : Z)
                                (f' : fdl) (w' : world A),
  f_state f = ActiveIdle sr nps cc -> sa <> ts f ->
  handle_telegram A now f w (TToken (ts f) sa) true = Ok (f', w') ->
  (sa = r_ps (f_ring f) \/ nps = Some sa -> f_state f' = UseToken now None false) /\
  (~ (sa = r_ps (f_ring f) \/ nps = Some sa) ->
     f_state f' = ActiveIdle sr (Some sa) 0 /\ f_ring f' = f_ring f).
Proof. exact handle_telegram_accept_iff. Qed.
Print Assumptions C11_accept_iff.

(* A token carrying the station's own address as source is the collision branch: never accepted. *)
Theorem C11_own_address_never_accepts : forall (A : Type) (f : fdl) (w : world A) (now : Z) (sr nps : option Z)
                                               (cc da : Z) (is_last : bool) (f' : fdl) (w' : world A),
  f_state f = ActiveIdle sr nps cc ->
  handle_telegram A now f w (TToken da (ts f)) is_last = Ok (f', w') ->
  have_token (f_state f') = false.
Proof. exact handle_telegram_own_address_never_accepts. Qed.
Print Assumptions C11_own_address_never_accepts.

(* A token that is not the last buffered telegram, or that is for somebody else, is only witnessed. *)
Theorem C11_not_last_only_witnessed : forall (A : Type) (f : fdl) (w : world A) (now : Z) (sr nps : option Z)
                                             (cc da sa : Z) (is_last : bool) (f' : fdl) (w' : world A),
  f_state f = ActiveIdle sr nps cc -> sa <> ts f -> (da <> ts f \/ is_last = false) ->
  handle_telegram A now f w (TToken da sa) is_last = Ok (f', w') ->
  f_state f' = ActiveIdle sr nps 0 /\ witness (f_ring f) sa da = Ok (f_ring f').
Proof. exact handle_telegram_not_last_only_witnessed. Qed.
Print Assumptions C11_not_last_only_witnessed.

(* C11_listen_never_accepts: one step of do_listen_token - whatever is in the receive buffer (tokens
   addressed to the station included), whatever the time - leaves the station listening (or offline after
   a second address collision), takes it into ActiveIdle by answering a status request, or makes it claim
   the token, the latter only when its own silence time-out has expired.  It never ends in UseToken,
   PassToken, CheckTokenPass, AwaitDataResponse or AwaitStatusResponse. *)
Theorem C11_listen_never_accepts : forall (A : Type) (f : fdl) (now : Z) (w : world A) (f' : fdl) (w' : world A),
  do_listen_token A f now w = Ok (f', w') ->
  kind_of (f_state f') = KListenToken \/ kind_of (f_state f') = KOffline \/
  kind_of (f_state f') = KActiveIdle \/
  (kind_of (f_state f') = KClaimToken /\
   exists l, (f_lba f = Some l \/ (f_lba f = None /\ l = now)) /\ token_lost_timeout (f_p f) <= Z.abs (now - l)).
Proof. exact do_listen_token_never_accepts. Qed.
Print Assumptions C11_listen_never_accepts.

(* ========================================================================================== *)
(* Supervision, retry, heard-successor rule, second offer (proofs: Proofs/C11Proofs.v).
   All theorems are about whole polls (`poll`), for ALL station states, parameters, inputs, times and
   applications unless a hypothesis says otherwise.
   `slot_expired f now pin` is the boolean that check_slot_expired computes in that poll: PHY not
   transmitting, `now` after the recorded end of bus activity, and
   now > last_bus_activity + slot time, where new bytes in the receive buffer count as activity at `now`. *)
From PB Require Import FdlTables Phy C11Proofs.

(* C11_supervise (1): a poll in PassToken transmits nothing (PHY busy / synchronisation pause), or a GAP
   poll, or the token to NS = the successor of its ring view; after the token transmission the station
   is in CheckTokenPass with the same attempt label - or uses the token itself when its (updated) ring
   view says NS = TS. *)
Theorem C11_supervise : forall (A : Type) (ops : app_ops A) (f : fdl) (now : Z) (pin : phy_in) (apps : list A)
                               (f' : fdl) (o : phy_out) (a : list A) (c : list call) (dg : bool) (att : attempt),
  f_state f = PassToken dg att -> poll ops f now pin apps = Ok (f', o, a, c) ->
  a = apps /\ c = [] /\ rx_left o = rx pin /\ f_p f' = f_p f /\
  ((tx o = None /\ f_state f' = PassToken dg att /\ f_ring f' = f_ring f) \/
   (exists addr, dg = true /\ tx o <> None /\ f_state f' = AwaitStatusResponse addr /\ f_ring f' = f_ring f) \/
   (exists r', witness (f_ring f) (ts f) (r_ns (f_ring f)) = Ok r' /\ f_ring f' = r' /\
               tx o = Some (encode_token (r_ns (f_ring f)) (ts f)) /\
               f_state f' = if r_ns r' =? ts f then UseToken now None false else CheckTokenPass att)).
Proof. exact pass_token_poll. Qed.
Print Assumptions C11_supervise.

(* C11_supervise (2): in CheckTokenPass the station transmits again only in a poll in which the slot
   timer has run out. *)
Theorem C11_supervise_silent_until_slot : forall (A : Type) (ops : app_ops A) (f : fdl) (now : Z) (pin : phy_in)
    (apps : list A) (f' : fdl) (o : phy_out) (a : list A) (c : list call) (att : attempt),
  f_state f = CheckTokenPass att -> poll ops f now pin apps = Ok (f', o, a, c) ->
  tx o <> None -> slot_expired f now pin = true.
Proof. exact supervise_tx_only_expired. Qed.
Print Assumptions C11_supervise_silent_until_slot.

(* what slot_expired means for non-negative slot times (every builder-valid parameter set) *)
Theorem C11_slot_expired_meaning : forall (f : fdl) (now : Z) (pin : phy_in), 0 <= slot_time (f_p f) ->
  (slot_expired f now pin = true <->
   tx_busy pin = false /\ (length (rx pin) <= f_pending f)%nat /\
   exists l, f_lba f = Some l /\ l + slot_time (f_p f) < now).
Proof. exact slot_expired_iff. Qed.
Print Assumptions C11_slot_expired_meaning.

(* The complete behaviour of a poll in CheckTokenPass.  Slot timer run out: attempts First and Second
   are followed by a retry to the same ring view (table check_pass_next), after attempt Third
   remove_station NS is applied and the pass goes to the new NS of the reduced ring view (UseToken when
   that is TS itself); `tx o = None` in this branch only when the synchronisation pause after the last
   bus activity is longer than the slot time.  Otherwise nothing is transmitted, the ring view changes
   by witnessed passes only, and the station waits on or has heard a telegram. *)
Theorem C11_check_pass_poll : forall (A : Type) (ops : app_ops A) (f : fdl) (now : Z) (pin : phy_in) (apps : list A)
                                     (f' : fdl) (o : phy_out) (a : list A) (c : list call) (att : attempt),
  f_state f = CheckTokenPass att -> poll ops f now pin apps = Ok (f', o, a, c) ->
  a = apps /\ c = [] /\ f_p f' = f_p f /\
  if slot_expired f now pin then
    rx_left o = rx pin /\
    exists r1, (if check_pass_removes att then remove_station (f_ring f) (r_ns (f_ring f)) = Ok r1 else r1 = f_ring f) /\
      ((tx o = None /\ f_state f' = PassToken false (check_pass_next att) /\ f_ring f' = r1) \/
       (exists r', witness r1 (ts f) (r_ns r1) = Ok r' /\ f_ring f' = r' /\ tx o = Some (encode_token (r_ns r1) (ts f)) /\
                   f_state f' = if r_ns r' =? ts f then UseToken now None false else CheckTokenPass (check_pass_next att)))
  else
    tx o = None /\ ring_witnessed (f_ring f) (f_ring f') /\
    (if tx_busy pin || predicted f now then f_state f' = CheckTokenPass att /\ f_ring f' = f_ring f /\ rx_left o = rx pin
     else match DecodeSpec.decode_spec (rx pin) with
          | Accept _ _ => heard_kind (f_state f')
          | Reject => f_state f' = CheckTokenPass att /\ f_ring f' = f_ring f /\ rx_left o = []
          | NeedMore => f_state f' = CheckTokenPass att /\ f_ring f' = f_ring f /\ rx_left o = rx pin
          end).
Proof. exact check_pass_poll. Qed.
Print Assumptions C11_check_pass_poll.

(* C11_retry_discipline: history theorem.  Over ANY run of polls (any inputs, times, applications) from
   ANY station state f0 whose attempt label agrees with the initial ghost count c0 (ghost_ok; e.g. any
   state outside PassToken / CheckTokenPass with c0 = 0), with the ghost counter of token transmissions
   of the current hand-over advanced by observation only (ghost_next), every poll satisfies retry_step_ok:
   - the count never exceeds three;
   - while supervising (CheckTokenPass att) the count equals the attempt label (1, 2, 3); when the slot
     timer has run out the station retries on the unchanged ring view if the count is below three, and
     applies remove_station NS exactly if the count is three, then passes to the new NS, or keeps the
     token (UseToken) if the new NS is TS; when the slot timer has not run out nothing is transmitted
     and the ring view changes by witnessed passes only (no removal);
   - in PassToken the ring view changes at most by witnessing the own pass. *)
Theorem C11_retry_discipline : forall (A : Type) (ops : app_ops A) (ins : list (Z * phy_in)) (f0 : fdl)
                                      (apps0 : list A) (c0 : nat) (steps : list step_rec),
  ghost_ok c0 f0 -> run_polls ops f0 apps0 ins = Ok steps -> retry_ok c0 steps.
Proof. exact retry_discipline. Qed.
Print Assumptions C11_retry_discipline.

(* non-vacuity: a freshly created station satisfies ghost_ok with count 0 ... *)
Example C11_ghost_initial : forall p f, fdl_new p = Ok f -> ghost_ok 0 f.
Proof.
  intros p f H. unfold fdl_new in H. destruct (negb _); [discriminate H|]. destruct (negb _); [discriminate H|].
  destruct (ring_new _); try discriminate H. injection H as <-. reflexivity.
Qed.
(* ... and a concrete run: station 1 passes to 5, nobody answers: three transmissions to 5, then 5 is
   removed and the station, alone, sends the token to itself and uses it (polls 4 and 5 come too early) *)
Example C11_retry_example :
  ex_trace = Ok [(KCheckTokenPass, Some [220; 5; 1], 1%nat); (KCheckTokenPass, Some [220; 5; 1], 2%nat);
                 (KCheckTokenPass, Some [220; 5; 1], 3%nat); (KCheckTokenPass, None, 3%nat);
                 (KCheckTokenPass, None, 3%nat); (KUseToken, Some [220; 1; 1], 0%nat)].
Proof. vm_compute. reflexivity. Qed.

(* C11_heard_not_removed: if the poll sees bus activity (new bytes in the receive buffer) while the pass
   is supervised, nothing is transmitted and nobody is removed, for every input: a complete telegram
   takes the station to ActiveIdle (from where the buffered telegrams are handled: the state afterwards
   is ActiveIdle, UseToken or ListenToken); an incomplete telegram restarts the timer; undecodable
   bytes are dropped. *)
Theorem C11_heard_not_removed : forall (A : Type) (ops : app_ops A) (f : fdl) (now : Z) (pin : phy_in) (apps : list A)
                                       (f' : fdl) (o : phy_out) (a : list A) (c : list call) (att : attempt),
  f_state f = CheckTokenPass att -> 0 <= slot_time (f_p f) ->
  tx_busy pin = false -> predicted f now = false -> (f_pending f < length (rx pin))%nat ->
  poll ops f now pin apps = Ok (f', o, a, c) ->
  tx o = None /\ c = [] /\ ring_witnessed (f_ring f) (f_ring f') /\
  match DecodeSpec.decode_spec (rx pin) with
  | Accept _ _ => heard_kind (f_state f')
  | Reject => f_state f' = CheckTokenPass att /\ f_ring f' = f_ring f /\ rx_left o = []
  | NeedMore => f_state f' = CheckTokenPass att /\ f_ring f' = f_ring f /\ rx_left o = rx pin
  end.
Proof. exact heard_not_removed. Qed.
Print Assumptions C11_heard_not_removed.

(* C11_accept_second_offer: two-poll history.  A ring member idling without pending status request gets
   the token from a stranger sa (not itself, not PS, not the pending one) as the only new telegram:
   the offer is only recorded (nothing transmitted, ring view unchanged).  In the next poll that finds
   a token: the same stranger again - accepted (UseToken); a different stranger sb - sb replaces the
   pending sa (so, by the first part, a later offer of sa is again only recorded). *)
Theorem C11_accept_second_offer : forall (A : Type) (ops : app_ops A) (f : fdl) (now1 : Z) (apps : list A)
    (nps : option Z) (cc sa : Z) (f1 : fdl) (o1 : phy_out) (a1 : list A) (c1 : list call),
  f_conn f = ConnOnline -> f_state f = ActiveIdle None nps cc ->
  (forall l, f_lba f = Some l -> l < now1) -> (f_pending f < 3)%nat -> 0 < token_lost_timeout (f_p f) ->
  sa <> ts f -> sa <> r_ps (f_ring f) -> nps <> Some sa ->
  poll ops f now1 (mkPhyIn false (encode_token (ts f) sa)) apps = Ok (f1, o1, a1, c1) ->
  (f_state f1 = ActiveIdle None (Some sa) 0 /\ f_ring f1 = f_ring f /\ o1 = mkPhyOut None [] /\ a1 = apps /\ c1 = []) /\
  forall now2, now1 < now2 ->
    (forall f2 o2 a2 c2, poll ops f1 now2 (mkPhyIn false (encode_token (ts f) sa)) a1 = Ok (f2, o2, a2, c2) ->
       f_state f2 = UseToken now2 None false /\ o2 = mkPhyOut None [] /\ c2 = []) /\
    (forall sb f2 o2 a2 c2, sb <> sa -> sb <> ts f -> sb <> r_ps (f_ring f) ->
       poll ops f1 now2 (mkPhyIn false (encode_token (ts f) sb)) a1 = Ok (f2, o2, a2, c2) ->
       f_state f2 = ActiveIdle None (Some sb) 0 /\ f_ring f2 = f_ring f /\ o2 = mkPhyOut None [] /\ c2 = []).
Proof. exact accept_second_offer. Qed.
Print Assumptions C11_accept_second_offer.


(* ------------------------------------------------------------------------------------------ *)
(* ORACLE SOUNDNESS, PARTIAL (Proofs/FdlOracleSound9.v, FdlOracleSound10.v, FdlOracleSoundAll.v; see
   Properties/C01.v for model_transcript and the hypotheses): on a transcript of the model - ALL input histories,
   any number of total applications that hand data telegrams to the PHY - the only rule of C11 that the monitors
   can report is the liveness rule R11_supervision_never_ends; i.e. R11_accept_while_listening,
   R11_accept_without_token, R11_accept_from_stranger, R11_offer_changes_ring_view, R11_retry_too_early,
   R11_too_many_retries, R11_removed_too_early and R11_heard_but_supervising are never reported.
   The proofs use: with builder-valid parameters the slot time covers the synchronisation pause, so a poll in
   CheckTokenPass whose slot timer has run out transmits in that very poll (FdlOracleSound9.check_pass_no_wait) and
   the monitor's count of transmissions to NS agrees with the attempt label of the code; the telegrams the
   monitors see delivered are the ones the receive loops hand to handle_telegram, with the same is_last flags
   (FdlOracleSound10.receive_all_delivered); the monitor's pending offer m_cand is the code's
   new_previous_station.
   NOT covered: R11_supervision_never_ends. *)
From PB Require Import Params C05Proofs FdlOracle FdlOracleSound1 FdlOracleSound5 FdlOracleSoundAll.

Theorem C11_oracle_sound_partial : forall (A : Type) (ops : app_ops A) (p : params),
  apps_total A ops -> builder_valid p -> app_sends_data A ops ->
  forall (apps : list A) (ins : list minput), ins_ok 0 ins ->
  forall k r, In (k, r) (monitor p (length apps) (model_transcript A ops p apps ins)) -> rule_prop r = PC11 ->
  r = R11_supervision_never_ends.
Proof. exact c11_open. Qed.
Print Assumptions C11_oracle_sound_partial.

(* ------------------------------------------------------------------------------------------ *)
(* ORACLE SOUNDNESS of the liveness rule (Proofs/C11Liveness.v), same hypotheses as above: the rule
   R11_supervision_never_ends - "a poll in CheckTokenPass that looks at the receive buffer, sees nothing new and
   comes later than one slot time after the last instant at which the station can have seen anything happen
   must retry, remove or leave" - is never reported on a transcript of the model, for ALL input histories.
   The proof keeps, while the pass is supervised, an exact account of the station's bookkeeping against the
   monitor's (invariant LV): last_bus_activity <= l_ref and >= l_txend, and pending_bytes covers the receive
   buffer unless the monitor itself expects a spurious growth (l_spur); it is established by every poll that
   transmits and ends in CheckTokenPass (enter_ctp_covered) and kept by every poll that stays there
   (stay_ctp: exact last_bus_activity / pending_bytes after such a poll); with LV the monitor's "expired"
   implies C11Proofs.slot_expired, and C11_check_pass_poll then forces a retry / removal in that poll. *)
From PB Require Import C11Liveness.

Theorem C11_supervision_liveness_sound : forall (A : Type) (ops : app_ops A) (p : params),
  apps_total A ops -> builder_valid p -> app_sends_data A ops ->
  forall (apps : list A) (ins : list minput), ins_ok 0 ins ->
  forall k r, In (k, r) (monitor p (length apps) (model_transcript A ops p apps ins)) -> r <> R11_supervision_never_ends.
Proof. exact supervision_liveness_sound. Qed.
Print Assumptions C11_supervision_liveness_sound.

(* ORACLE SOUNDNESS, FULL for C11: no rule of C11 is reported on a transcript of the model. *)
Theorem C11_oracle_sound : forall (A : Type) (ops : app_ops A) (p : params),
  apps_total A ops -> builder_valid p -> app_sends_data A ops ->
  forall (apps : list A) (ins : list minput), ins_ok 0 ins ->
  forall k r, In (k, r) (monitor p (length apps) (model_transcript A ops p apps ins)) -> rule_prop r <> PC11.
Proof. exact c11_oracle_sound. Qed.
Print Assumptions C11_oracle_sound.


(* ------------------------------------------------------------------------------------------ *)
(* ORACLE SOUNDNESS of the ring-view monitor (Model/FdlRing.v: rmonitor, ring_poll, rule
   P11_removal_passes_to_next - "after the removal of the silent successor the token goes to the cyclic
   successor of the station in what is left of the previous list of active stations"; proofs in
   Proofs/FdlRingSound.v).

   ONE STEP, all station states, times, inputs, applications: whenever a poll of the model returns, the rule is
   silent on the event the driver builds from it (poll_event) against the view of the state before the poll
   (view_of).  The only hypothesis on the state: the ring bookkeeping runs under the station's own address
   (r_ts = ts: a conjunct of the representation invariant Rep of C05, second statement).  No hypothesis on the
   parameters, on the consistency of NS / PS with the LAS, or on the length of the LAS bit list. *)
From PB Require Import FdlRing FdlRingSound.

Theorem C11_ring_monitor_step_sound : forall (A : Type) (ops : app_ops A) (f : fdl) (now : Z) (busy : bool)
    (rxb : bytes) (apps : list A) (f' : fdl) (o : phy_out) (apps' : list A) (calls : list call),
  r_ts (f_ring f) = ts f ->
  poll ops f now (mkPhyIn busy rxb) apps = Ok (f', o, apps', calls) ->
  ring_poll (ts f) (view_of f) (poll_event now busy rxb f' o calls) = [].
Proof. exact ring_step_sound. Qed.
Print Assumptions C11_ring_monitor_step_sound.

Theorem C11_ring_monitor_step_sound_rep : forall (A : Type) (ops : app_ops A) (n : nat) (f : fdl) (now : Z)
    (busy : bool) (rxb : bytes) (apps : list A) (f' : fdl) (o : phy_out) (apps' : list A) (calls : list call),
  Rep n f ->
  poll ops f now (mkPhyIn busy rxb) apps = Ok (f', o, apps', calls) ->
  ring_poll (ts f) (view_of f) (poll_event now busy rxb f' o calls) = [].
Proof. exact ring_step_sound_rep. Qed.
Print Assumptions C11_ring_monitor_step_sound_rep.

(* TRANSCRIPTS: the monitor as the check runs it reports nothing on a transcript of the model - ALL parameters
   (rmonitor itself only looks at builder-valid ones), any number of total applications, ALL admissible input
   histories (API calls and polls in any order, strictly increasing times in range, received bytes are bytes).
   Fewer hypotheses than C11_oracle_sound: neither builder_valid p nor app_sends_data is needed. *)
Theorem C11_ring_monitor_sound : forall (A : Type) (ops : app_ops A) (p : params),
  apps_total A ops ->
  forall (apps : list A) (ins : list minput), ins_ok 0 ins ->
  rmonitor p (model_transcript A ops p apps ins) = [].
Proof. exact ring_monitor_sound. Qed.
Print Assumptions C11_ring_monitor_sound.

(* non-vacuity, computed: station 7 (builder-valid parameters, state satisfying Rep) with ring view {2, 7, 15}
   supervises its third pass to 15; the poll after the slot time removes 15 and transmits the token 7 -> 2 (the
   wrap-around).  The monitor accepts that event, and rejects the same event with the token 7 -> 7 (a
   remove_station without the wrap-around); a further retry 7 -> 15 is not this rule's business. *)
Example C11_ring_monitor_example :
  builder_validb ex_ring_params = true /\ Rep 0 ex_ring_station /\
  kind_of (f_state ex_ring_station) = KCheckTokenPass /\
  v_active (view_of ex_ring_station) = [2; 7; 15] /\ v_ns (view_of ex_ring_station) = 15 /\
  match poll unit_app_ops ex_ring_station 100000 (mkPhyIn false []) [] with
  | Ok (f', o, _, calls) =>
      tx o = Some (encode_token 2 7) /\ f_state f' = CheckTokenPass AttFirst /\
      v_active (view_of f') = [2; 7] /\ v_ns (view_of f') = 2 /\
      ring_poll 7 (view_of ex_ring_station) (poll_event 100000 false [] f' o calls) = [] /\
      ring_poll 7 (view_of ex_ring_station)
        (mkPStep 100000 false [] (Some (encode_token 7 7)) 0 [] (view_of f')) = [P11_removal_passes_to_next] /\
      ring_poll 7 (view_of ex_ring_station)
        (mkPStep 100000 false [] (Some (encode_token 15 7)) 0 [] (view_of f')) = []
  | _ => False
  end.
Proof. exact ring_example. Qed.
