(* C03 (phase 1): one-step theorems about the requests of the bring-up, over ALL peripheral states.
   The history theorem C03_order (monitor DpOracle.c03_monitor accepts every history of the model) is
   proved in a later phase on top of these. *)
From PB Require Import Peripheral DpStepProofs WatchdogProofs.

(* Set_Prm is byte for byte: Lock_Req|Sync|Freeze|WD_On, WD factors, min Tsdr, ident hi/lo, groups, user
   parameters; to DSAP 61 from SSAP 62, SRD low, with the current frame count bit *)
Theorem C03_set_prm_bytes : forall pa op p user,
  op <> OpStop ->
  dp_retry_exhausted (pe_retry p) (p_max_retry pa) = false ->
  pe_retry p < 255 ->
  pe_state p = PsWaitForParam ->
  o_user_prm (pe_opts p) = Some user ->
  p_transmit pa op p =
    Ok (set_retry p (pe_retry p + 1),
        PtxSend (mkHeader (pe_addr p) (p_address pa) (Some 61) (Some 62) (FcRequest (pe_fcb p) RqSrdLow))
                ([128 + (if o_sync (pe_opts p) then 32 else 0) + (if o_freeze (pe_opts p) then 16 else 0)
                      + (match p_watchdog pa with Some _ => 8 | None => 0 end);
                  match p_watchdog pa with Some (f1, _) => f1 | None => 0 end;
                  match p_watchdog pa with Some (_, f2) => f2 | None => 0 end;
                  p_min_tsdr_bits pa; o_ident (pe_opts p) / 256; o_ident (pe_opts p) mod 256;
                  o_groups (pe_opts p)] ++ user)).
Proof. exact set_prm_bytes. Qed.
Print Assumptions C03_set_prm_bytes.

(* Chk_Cfg carries exactly the configured bytes, to DSAP 62 from SSAP 62 *)
Theorem C03_chk_cfg_bytes : forall pa op p cfg,
  op <> OpStop ->
  dp_retry_exhausted (pe_retry p) (p_max_retry pa) = false ->
  pe_retry p < 255 ->
  pe_state p = PsWaitForConfig ->
  o_config (pe_opts p) = Some cfg ->
  p_transmit pa op p =
    Ok (set_retry p (pe_retry p + 1),
        PtxSend (mkHeader (pe_addr p) (p_address pa) (Some 62) (Some 62) (FcRequest (pe_fcb p) RqSrdLow)) cfg).
Proof. exact chk_cfg_bytes. Qed.
Print Assumptions C03_chk_cfg_bytes.

(* a Data_Exchange request (default SAP) leaves the peripheral only in the two data exchange states, with
   no diagnostics request latched, as SRD high, and carries the output image or zeros *)
Theorem C03_dx_only_in_data_exchange : forall pa op p p' h pdu,
  p_transmit pa op p = Ok (p', PtxSend h pdu) ->
  h_dsap h = None ->
  (pe_state p = PsPreDataExchange \/ pe_state p = PsDataExchange) /\
  pe_diag_in_flight p' = false /\
  h = mkHeader (pe_addr p) (p_address pa) None None (FcRequest (pe_fcb p) RqSrdHigh) /\
  pdu = (if opstate_eqb op OpOperate then pe_pi_q p else repeat 0 (length (pe_pi_q p))).
Proof. exact dx_request_only_when_ready. Qed.
Print Assumptions C03_dx_only_in_data_exchange.

(* for every watchdog time the builder admits (10 ms .. 650 s, in ms) the factor search succeeds (so the
   builder's unwrap cannot fail) with 1 <= f1, f2 <= 255, f1 * f2 * 10 ms >= floor(ms/10) * 10 ms (the request is
   truncated to 10 ms, observation O3), and f1 is the smallest first factor that works *)
Theorem C03_watchdog_factors : forall ms,
  10 <= ms <= 650000 ->
  exists f1 f2, watchdog_factors (ms * 1000) = Some (Some (f1, f2)) /\
    1 <= f1 <= 255 /\ 1 <= f2 <= 255 /\ ms / 10 <= f1 * f2 /\
    (forall g, 1 <= g < f1 -> 256 <= (ms / 10 + g - 1) / g).
Proof. exact watchdog_factors_spec. Qed.
Print Assumptions C03_watchdog_factors.

(* non-vacuity: a peripheral waiting for parameters with a watchdog configured *)
Example C03_set_prm_example :
  let pa := mkParams 2 B19200 100 32436 10 126 1 11 (Some (1, 100)) in
  let p := set_state (periph_new 7 (mkOpts 4660 true false 3 100 false (Some [170; 187]) (Some [17])) [0] [0] 0)
                     PsWaitForParam in
  p_transmit pa OpOperate p =
    Ok (set_retry p 1,
        PtxSend (mkHeader 7 2 (Some 61) (Some 62) (FcRequest FcbFirst RqSrdLow))
                [168; 1; 100; 11; 18; 52; 3; 170; 187]).
Proof. reflexivity. Qed.

(* ====================================================================================================
   C03 (phase 2): HISTORY theorems.

   Histories: `history pa a o tr` (Proofs/DpHistory.v) = tr is the wire trace of ANY sequence of calls on a
   freshly constructed peripheral with address a and options o -- transmit_telegram, receive_reply with ANY
   telegram (every response status, wrong SAPs, short PDUs, SC), time-out / abandoned request (lost request
   or lost reply), request_diagnostics(), pi_q writes, in any order -- that does not panic and respects the
   FdlApplication contract projected to one peripheral (`contract_p`).  A power cycle of the device is, for
   the master, a stretch of time-outs and/or diagnostics replies with Prm_Req.
   Bring-up monitors, functions of the wire trace alone (Proofs/C03Proofs.v):
   - `bringup_phase` = DpOracle.c03_step per peripheral (the oracle run on the implementation's transcripts):
     NeedDiag -accepted Slave_Diag reply-> DiagAnswered -Set_Prm acknowledged (SC)-> PrmAcked -Chk_Cfg
     acknowledged (SC)-> CfgAcked -accepted diagnostics reply without Prm_Fault 0x40, Cfg_Fault 0x04,
     Station_Not_Ready 0x02 (and without Prm_Req)-> Ready; an accepted diagnostics reply carrying Prm_Req 0x100
     sets DiagAnswered from every phase, also from Ready (fix F16: the reply that asks IS the answered
     diagnostics request of the restarted bring-up, DESIGN 4.0); "considered offline" = the events Offline
     (retry exhaustion), ParameterError, ConfigError reset to NeedDiag;
   - `strict_phase`: wire and Offline event only -- the faults are read from the flags of the diagnostics reply
     that validates the configuration -- and with one more reset: a Data_Exchange reply "service not activated"
     sends Ready back to CfgAcked.  The invariant of DpHistory.v ties pe_state to strict_phase EXACTLY
     (Offline/NeedDiag, WaitForParam/DiagAnswered, WaitForConfig/PrmAcked, ValidateConfig/CfgAcked,
     PreDataExchange and DataExchange/Ready) and bringup_phase to it (equal, or Ready while strict is CfgAcked). *)
From PB Require Import DpOracle DpHistory C03Proofs.

(* Whenever a Data_Exchange request (a request on the default SAP) is emitted, the bring-up monitor is in
   Ready -- both versions --, and the request is an SRD-high request from the master to the peripheral *)
Theorem C03_order : forall pa a o tr,
  1 <= p_max_retry pa -> history pa a o tr ->
  forall pre h pdu post,
  tr = pre ++ WReq h pdu :: post ->
  h_dsap h = None ->
  bringup_phase pre = PhReady /\ strict_phase pre = PhReady /\
  h = mkHeader a (p_address pa) None None (h_fc h) /\ (exists f, h_fc h = FcRequest f RqSrdHigh).
Proof. exact order. Qed.
Print Assumptions C03_order.

(* stronger: EVERY request is the one its phase calls for: Slave_Diag (60) only in NeedDiag, CfgAcked (readiness
   check) and Ready (user-requested / announced diagnostics); Set_Prm (61) only in DiagAnswered; Chk_Cfg (62)
   only in PrmAcked; Data_Exchange only in Ready *)
Theorem C03_each_request_in_order : forall pa a o tr,
  1 <= p_max_retry pa -> history pa a o tr ->
  forall pre h pdu post,
  tr = pre ++ WReq h pdu :: post ->
  match h_dsap h with
  | None => strict_phase pre = PhReady
  | Some d =>
      (d = 60 /\ (strict_phase pre = PhNeedDiag \/ strict_phase pre = PhCfgAcked \/ strict_phase pre = PhReady)) \/
      (d = 61 /\ strict_phase pre = PhDiagAnswered) \/
      (d = 62 /\ strict_phase pre = PhPrmAcked)
  end.
Proof. exact each_request_in_order. Qed.
Print Assumptions C03_each_request_in_order.

(* the monitors of the statements above are the ghost fields of the invariant *)
Theorem C03_monitors_are_ghost : forall tr,
  bringup_phase tr = gh_text (ghost_of tr) /\ strict_phase tr = gh_phase (ghost_of tr).
Proof. exact monitors_are_ghost. Qed.
Print Assumptions C03_monitors_are_ghost.

(* Every request goes to the standard service access points, LITERALLY: Slave_Diag DSAP 60, Set_Prm DSAP 61,
   Chk_Cfg DSAP 62, each from the master's SSAP 62 as SRD low; Data_Exchange on the default SAP as SRD high;
   always from the master's address to the peripheral's.  (A changed constant in consts.rs / peripheral.rs
   regenerates Generated/Consts.v + DpTables.v and breaks this proof.)  History form ... *)
Theorem C03_requests_use_standard_saps : forall pa a o tr,
  1 <= p_max_retry pa -> history pa a o tr ->
  forall pre h pdu post,
  tr = pre ++ WReq h pdu :: post ->
  h_da h = a /\ h_sa h = p_address pa /\
  exists f,
    (h_dsap h = Some 60 /\ h_ssap h = Some 62 /\ h_fc h = FcRequest f RqSrdLow /\ pdu = []) \/
    (h_dsap h = Some 61 /\ h_ssap h = Some 62 /\ h_fc h = FcRequest f RqSrdLow) \/
    (h_dsap h = Some 62 /\ h_ssap h = Some 62 /\ h_fc h = FcRequest f RqSrdLow) \/
    (h_dsap h = None /\ h_ssap h = None /\ h_fc h = FcRequest f RqSrdHigh).
Proof. exact history_saps. Qed.
Print Assumptions C03_requests_use_standard_saps.

(* ... and one-step form over ALL peripheral states, reachable or not: which SAPs in which state *)
Theorem C03_standard_saps_all_states : forall pa op p p' h pdu,
  p_transmit pa op p = Ok (p', PtxSend h pdu) ->
  h_da h = pe_addr p /\ h_sa h = p_address pa /\
  match pe_state p with
  | PsOffline | PsValidateConfig =>
      h_dsap h = Some 60 /\ h_ssap h = Some 62 /\ h_fc h = FcRequest (pe_fcb p) RqSrdLow /\ pdu = []
  | PsWaitForParam => h_dsap h = Some 61 /\ h_ssap h = Some 62 /\ h_fc h = FcRequest (pe_fcb p) RqSrdLow
  | PsWaitForConfig => h_dsap h = Some 62 /\ h_ssap h = Some 62 /\ h_fc h = FcRequest (pe_fcb p) RqSrdLow
  | PsPreDataExchange | PsDataExchange =>
      (h_dsap h = Some 60 /\ h_ssap h = Some 62 /\ h_fc h = FcRequest (pe_fcb p) RqSrdLow /\ pdu = []) \/
      (h_dsap h = None /\ h_ssap h = None /\ h_fc h = FcRequest (pe_fcb p) RqSrdHigh)
  end.
Proof. exact transmit_saps. Qed.
Print Assumptions C03_standard_saps_all_states.

(* Global_Control goes to the broadcast address 127, DSAP 58 from SSAP 62, unacknowledged (SDN low) *)
Theorem C03_global_control_saps : forall pa,
  gc_header pa = mkHeader 127 (p_address pa) (Some 58) (Some 62) (FcRequest FcbInactive RqSdnLow).
Proof. exact gc_saps. Qed.
Print Assumptions C03_global_control_saps.

(* and a diagnostics reply is accepted only from the peripheral's SSAP 60 to the master's DSAP 62 *)
Theorem C03_diag_reply_saps : forall p t p1 d,
  p_handle_diag p t = Ok (p1, Some d) ->
  exists h pdu, t = TData h pdu /\ h_dsap h = Some 62 /\ h_ssap h = Some 60 /\ (6 <= length pdu)%nat.
Proof. exact diag_reply_saps. Qed.
Print Assumptions C03_diag_reply_saps.

(* The Set_Prm PDU for ALL option values and parameters: Lock_Req 0x80 | Sync_Req 0x20 | Freeze_Req 0x10 |
   WD_On 0x08, the two watchdog factors, min Tsdr, ident number high / low, group mask, then the user
   parameters (extends C03_set_prm_bytes, which fixes the peripheral state) ... *)
Theorem C03_set_prm_layout : forall pa o user,
  set_prm_pdu pa o user =
  [128 + (if o_sync o then 32 else 0) + (if o_freeze o then 16 else 0)
       + (match p_watchdog pa with Some _ => 8 | None => 0 end);
   match p_watchdog pa with Some (f1, _) => f1 | None => 0 end;
   match p_watchdog pa with Some (_, f2) => f2 | None => 0 end;
   p_min_tsdr_bits pa; o_ident o / 256; o_ident o mod 256; o_groups o] ++ user.
Proof. exact set_prm_layout. Qed.
Print Assumptions C03_set_prm_layout.

(* ... and in EVERY history, for all option values: every Set_Prm request carries exactly that PDU for the
   configured options and user parameters, every Chk_Cfg request exactly the configured bytes, every
   Slave_Diag request no payload *)
Theorem C03_options_faithful : forall pa a o tr,
  1 <= p_max_retry pa -> history pa a o tr ->
  forall pre h pdu post,
  tr = pre ++ WReq h pdu :: post ->
  (h_dsap h = Some 61 ->
     exists user, o_user_prm o = Some user /\
       pdu = [128 + (if o_sync o then 32 else 0) + (if o_freeze o then 16 else 0)
                  + (match p_watchdog pa with Some _ => 8 | None => 0 end);
              match p_watchdog pa with Some (f1, _) => f1 | None => 0 end;
              match p_watchdog pa with Some (_, f2) => f2 | None => 0 end;
              p_min_tsdr_bits pa; o_ident o / 256; o_ident o mod 256; o_groups o] ++ user) /\
  (h_dsap h = Some 62 -> exists cfg, o_config o = Some cfg /\ pdu = cfg) /\
  (h_dsap h = Some 60 -> pdu = []).
Proof. exact options_faithful. Qed.
Print Assumptions C03_options_faithful.

(* the Set_Prm PDU is a byte string for ident < 2^16, byte-sized group mask, min Tsdr and watchdog factors
   (C03_watchdog_factors: the factors the builder computes are 1..255) *)
Theorem C03_set_prm_is_bytes : forall pa o user,
  0 <= o_ident o < 65536 -> is_byte (o_groups o) -> is_byte (p_min_tsdr_bits pa) ->
  match p_watchdog pa with Some (f1, f2) => is_byte f1 /\ is_byte f2 | None => True end ->
  all_bytes user ->
  all_bytes (set_prm_pdu pa o user).
Proof. exact set_prm_is_bytes. Qed.
Print Assumptions C03_set_prm_is_bytes.

(* non-vacuity: a complete bring-up (watchdog 1 x 100 x 10 ms, sync, groups 3), one data exchange, a
   user-requested diagnostics request whose reply carries Prm_Req (F16), and the Set_Prm that follows; the
   monitors before each event *)
Example C03_history_example :
  let pa := mkParams 2 B19200 100 32436 10 126 1 11 (Some (1, 100)) in
  let o := mkOpts 4660 true false 3 100 false (Some [170]) (Some [17]) in
  let dh := mkHeader 2 7 (Some 62) (Some 60) (FcResponse RsSlave StDataLow) in
  let rq d f := mkHeader 7 2 d (match d with Some _ => Some 62 | None => None end)
                         (FcRequest f (match d with Some _ => RqSrdLow | None => RqSrdHigh end)) in
  let tr :=
    [WReq (rq (Some 60) FcbFirst) []; WReply (TData dh [0; 0; 0; 2; 18; 52]) (Some EvOnline);
     WReq (rq (Some 61) FcbLow) [168; 1; 100; 11; 18; 52; 3; 170]; WReply TShortConf None;
     WReq (rq (Some 62) FcbHigh) [17]; WReply TShortConf None;
     WReq (rq (Some 60) FcbLow) []; WReply (TData dh [0; 0; 0; 2; 18; 52]) (Some EvConfigured);
     WReq (rq None FcbHigh) [9];
     WReply (TData (mkHeader 2 7 None None (FcResponse RsSlave StDataLow)) [5]) (Some EvDataExchanged);
     WUser;
     WReq (rq (Some 60) FcbLow) []; WReply (TData dh [0; 1; 0; 2; 18; 52]) (Some EvDiagnostics);
     WReq (rq (Some 61) FcbHigh) [168; 1; 100; 11; 18; 52; 3; 170]] in
  history pa 7 o tr /\
  map (fun n => bringup_phase (firstn n tr)) [0; 2; 4; 6; 8; 13]%nat =
    [PhNeedDiag; PhDiagAnswered; PhPrmAcked; PhCfgAcked; PhReady; PhDiagAnswered] /\
  map (fun n => strict_phase (firstn n tr)) [0; 2; 4; 6; 8; 13]%nat =
    [PhNeedDiag; PhDiagAnswered; PhPrmAcked; PhCfgAcked; PhReady; PhDiagAnswered].
Proof.
  split; [|split; vm_compute; reflexivity].
  exists [0], [9], 0%nat,
    [PcTransmit OpOperate;
     PcReply (TData (mkHeader 2 7 (Some 62) (Some 60) (FcResponse RsSlave StDataLow)) [0; 0; 0; 2; 18; 52]);
     PcTransmit OpOperate; PcReply TShortConf; PcTransmit OpOperate; PcReply TShortConf; PcTransmit OpOperate;
     PcReply (TData (mkHeader 2 7 (Some 62) (Some 60) (FcResponse RsSlave StDataLow)) [0; 0; 0; 2; 18; 52]);
     PcTransmit OpOperate; PcReply (TData (mkHeader 2 7 None None (FcResponse RsSlave StDataLow)) [5]); PcReqDiag;
     PcTransmit OpOperate;
     PcReply (TData (mkHeader 2 7 (Some 62) (Some 60) (FcResponse RsSlave StDataLow)) [0; 1; 0; 2; 18; 52]);
     PcTransmit OpOperate].
  eexists. split; vm_compute; reflexivity.
Qed.

(* ====================================================================================================
   C03 (phase 3): at the level of the DP MASTER (1..n peripherals, any storage layout).
   Proofs/DpMasterHistory.v (see Properties/C08.v, C08_master_histories_project): every history of the DP
   master -- any calls of transmit_telegram / receive_reply / handle_timeout / request_diagnostics() / pi_q
   writes / enter_state() / take_last_events() respecting the FdlApplication contract `contract_m`, from any
   master state -- projects for every slot k to a `history` of that slot's peripheral (`proj k log`), so
   C03_order, C03_each_request_in_order, C03_requests_use_standard_saps and C03_options_faithful hold for
   every peripheral of every master history.  Spelled out for C03_order: *)
From PB Require Import DpMaster DpMasterHistory.

Theorem C03_order_master : forall pa bufsize m0 cs m' outs log,
  1 <= p_max_retry pa ->
  d_run pa bufsize m0 cs [] = Ok (m', outs, log) ->
  contract_m None outs = true ->
  forall k a o i q d, slot m0 k = Some (periph_new a o i q d) ->
  forall pre h pdu post,
  proj k log = pre ++ WReq h pdu :: post ->
  h_dsap h = None ->
  bringup_phase pre = PhReady /\ strict_phase pre = PhReady /\
  h = mkHeader a (p_address pa) None None (h_fc h) /\ (exists f, h_fc h = FcRequest f RqSrdHigh).
Proof. exact order_master. Qed.
Print Assumptions C03_order_master.

(* the invariant behind all of it, and its step: EVERY peripheral call from EVERY state satisfying the
   invariant preserves it and emits an event the monitors accept (the same engine as C08_invariant_step);
   the invariant ties pe_state to the strict phase exactly *)
Theorem C03_invariant_relates_state_and_phase : forall pa a o p g,
  Inv pa a o p g ->
  gh_phase g = match pe_state p with
               | PsOffline => PhNeedDiag
               | PsWaitForParam => PhDiagAnswered
               | PsWaitForConfig => PhPrmAcked
               | PsValidateConfig => PhCfgAcked
               | PsPreDataExchange | PsDataExchange => PhReady
               end /\
  (gh_text g = gh_phase g \/ (gh_phase g = PhCfgAcked /\ gh_text g = PhReady)).
Proof. exact state_phase_invariant. Qed.
Print Assumptions C03_invariant_relates_state_and_phase.

(* ====================================================================================================
   C03: ORACLE SOUNDNESS -- the executable monitor DpOracle.c03_monitor, which ocaml/run_dp.ml runs on the
   IMPLEMENTATION's transcripts, accepts every transcript of the MODEL.

   Proofs/DpOracleSound.v.  `model_run s0 ins` is the model side of ocaml/run_dp.ml as a Coq function: for each
   input DpRun.run_in (FdlApplication callbacks transmit_telegram / receive_reply / handle_timeout, a request
   dropped by the FDL, the user calls request_diagnostics(), pi_q writes, enter_state(), take_last_events(),
   add() DURING the history, and the environment steps), then DpRun.auto_take (take_last_events() after every
   callback), then the observables DpRun.observe -- collected into the transcript type DpOracle.tstep the
   monitors read.  A model panic ends the run (`= Ok (s', tr)`: every prefix of every execution up to a panic).
   Hypotheses: `conf_ok c` = the configurations the monitors are run on / the generator produces:
   cf_autotake, DpOracle.conf_sane (distinct addresses), DpOracle.conf_within_limits (frame format),
   max_retry_limit >= 1 (the builder allows 1..15), own address 0..126, pre-placed peripherals in distinct
   storage slots; `contract_ok c tr` = the FdlApplication contract (C15) exactly as run_dp.ml checks it before
   running the monitors; `driver_ok` = the guards of the harness (harness/src/dp.rs): no ill-formed input
   (OutBad), add(k) only for a peripheral that is not yet in the master and only between requests (op ADD<k>).
   Any peripheral set, any storage layout, global control, time-outs, dropped requests, any reply telegram.
   Consequence: on a transcript of the real crate that agrees with the model (0 divergences) a failure code of
   this monitor is never a false alarm of the monitor.
   ==================================================================================================== *)
From PB Require Import DpRun DpOracle DpOracleSound.

(* After phase 1 the user call reset_address was added to the model (input InResetAddr) and the driver runs the
   wrappers DpOracle.c03_monitor_ra, which follow the current station address of every peripheral.  On transcripts
   without a reset_address step (`has_reset l = false`) the wrapper IS the monitor: *)
Theorem C03_oracle_ra_agrees : forall c l, has_reset l = false -> c03_monitor_ra c l = c03_monitor c l.
Proof. exact c03_ra_agrees. Qed.
Print Assumptions C03_oracle_ra_agrees.

(* Soundness of what the driver runs, for histories without reset_address (`no_reset ins`: no InResetAddr input). *)
Theorem C03_oracle_sound : forall c, conf_ok c -> forall s0 ins s' tr,
  init_sys c = Ok s0 -> no_reset ins = true -> model_run s0 ins = Ok (s', tr) ->
  contract_ok c tr = true -> driver_ok (sy_handles s0) tr = true ->
  c03_monitor_ra c tr = None.
Proof. exact c03_oracle_sound_ra0. Qed.
Print Assumptions C03_oracle_sound.

(* the same for the plain monitor *)
Theorem C03_oracle_sound_plain : forall c, conf_ok c -> forall s0 ins s' tr,
  init_sys c = Ok s0 -> no_reset ins = true -> model_run s0 ins = Ok (s', tr) ->
  contract_ok c tr = true -> driver_ok (sy_handles s0) tr = true ->
  c03_monitor c tr = None.
Proof. exact c03_oracle_sound. Qed.
Print Assumptions C03_oracle_sound_plain.

(* non-vacuity: a computed 22-step history of a master with two peripherals (one added by add() during the
   history), max_retry_limit = 1, meets all hypotheses; it contains a global control broadcast, an accepted
   diagnostics reply (Online, completed cycle), a time-out with retransmission, a dropped request, user calls,
   the Offline event after 1 + 1 transmissions, probes, a second completed cycle and a reply that is not
   accepted *)
Example C03_oracle_sound_hypotheses :
  conf_ok ex_conf /\
  exists s0 s' tr, init_sys ex_conf = Ok s0 /\ model_run s0 ex_ins = Ok (s', tr) /\
    no_reset ex_ins = true /\ contract_ok ex_conf tr = true /\ driver_ok (sy_handles s0) tr = true /\ length tr = 22%nat /\
    map step_event tr = [None; None; None; Some (7, EvOnline); None; None; None; None; None; None; None; None; None;
                         Some (7, EvOffline); None; None; None; None; None; None; None; None] /\
    map step_cc tr = [false; false; false; true; false; false; false; false; false; false; false; false; false; false;
                      false; false; true; false; false; false; false; false].
Proof. exact oracle_sound_example. Qed.

(* ----------------------------------------------------------------------------------------------------
   C03: ORACLE SOUNDNESS for histories WITH reset_address.  The monitor the driver runs, c03_monitor_ra, accepts
   every transcript of the model in which reset_address (input InResetAddr k a, any number of times, to the same
   or to another address, also for a peripheral added during the history) is called with a station address
   0..125 and only while no reply of that peripheral is outstanding -- `reset_guard`, i.e. outside the known
   class F22 (DpOracle.known_reset_while_pending, see C03_oracle_reset_guard) -- and every intermediate address
   assignment is duplicate-free (`DpOracle.ra_sane`, the test of run_dp.ml before it runs the monitors).
   At such a step: its phase goes back to NeedDiag under the old and the new address.
   The invariants of Proofs/DpOracleSound.v are stated for the configuration IN FORCE (station addresses as
   changed by the calls), handles are compared by slot index (the address a handle carries is stale afterwards).
   C03_oracle_sound and C03_oracle_sound_plain above are corollaries (no InResetAddr input).
   ---------------------------------------------------------------------------------------------------- *)
Theorem C03_oracle_sound_ra : forall c s0 ins s' tr, conf_ok c ->
  init_sys c = Ok s0 -> model_run s0 ins = Ok (s', tr) ->
  contract_ok c tr = true -> driver_ok (sy_handles s0) tr = true ->
  ra_sane c tr = true -> reset_guard c None tr = true ->
  c03_monitor_ra c tr = None.
Proof. exact c03_oracle_sound_ra. Qed.
Print Assumptions C03_oracle_sound_ra.

(* the guard follows from the driver's own test for the known class F22 and the address range *)
Theorem C03_oracle_reset_guard : forall c l,
  known_reset_while_pending c l = false -> reset_range c l = true -> reset_guard c None l = true.
Proof. exact reset_guard_known. Qed.
Print Assumptions C03_oracle_reset_guard.

(* non-vacuity: a computed 21-step history with four reset_address calls (same address after the bring-up
   started, another address after a time-out, a peripheral just added by add(), back to the first address)
   meets all hypotheses *)
Example C03_oracle_sound_ra_hypotheses :
  conf_ok ex_conf /\
  exists s0 s' tr, init_sys ex_conf = Ok s0 /\ model_run s0 ex_ins_ra = Ok (s', tr) /\
    has_reset tr = true /\ contract_ok ex_conf tr = true /\ driver_ok (sy_handles s0) tr = true /\
    ra_sane ex_conf tr = true /\ known_reset_while_pending ex_conf tr = false /\ reset_range ex_conf tr = true /\
    reset_guard ex_conf None tr = true /\ length tr = 21%nat /\
    map (fun t => match reset_of ex_conf t with Some _ => true | None => false end) tr =
      [false; false; false; false; false; true; false; false; false; true; false; false; false; true; false; false;
       false; true; false; false; false] /\
    map step_event tr = [None; None; None; Some (7, EvOnline); None; None; None; None; None; None; None; None; None;
                         None; None; None; None; None; None; None; None].
Proof. exact oracle_sound_ra_example. Qed.
