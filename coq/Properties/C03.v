(* C03 (phase 1): one-step theorems about the requests of the bring-up, over ALL peripheral states.
   The history theorem C03_order (monitor DpOracle.c03_monitor accepts every history of the model) is
   proved in a later phase on top of these. *)
From PB Require Import Peripheral DpStepProofs WatchdogProofs.

(* Set_Prm is byte for byte: Lock_Req|Sync|Freeze|WD_On, WD factors, min Tsdr, ident hi/lo, groups, user
   parameters; to DSAP 61 from SSAP 62, SRD low, with the current frame count bit *)
Theorem C03_set_prm_bytes : forall pa op p user,
  op <> OpStop ->
  dp_retry_exhausted (pe_retry p) (p_max_retry pa) = false ->
  pe_retry p < 255 ->
  pe_state p = PsWaitForParam ->
  o_user_prm (pe_opts p) = Some user ->
  p_transmit pa op p =
    Ok (set_retry p (pe_retry p + 1),
        PtxSend (mkHeader (pe_addr p) (p_address pa) (Some 61) (Some 62) (FcRequest (pe_fcb p) RqSrdLow))
                ([128 + (if o_sync (pe_opts p) then 32 else 0) + (if o_freeze (pe_opts p) then 16 else 0)
                      + (match p_watchdog pa with Some _ => 8 | None => 0 end);
                  match p_watchdog pa with Some (f1, _) => f1 | None => 0 end;
                  match p_watchdog pa with Some (_, f2) => f2 | None => 0 end;
                  p_min_tsdr_bits pa; o_ident (pe_opts p) / 256; o_ident (pe_opts p) mod 256;
                  o_groups (pe_opts p)] ++ user)).
Proof. exact set_prm_bytes. Qed.
Print Assumptions C03_set_prm_bytes.

(* Chk_Cfg carries exactly the configured bytes, to DSAP 62 from SSAP 62 *)
Theorem C03_chk_cfg_bytes : forall pa op p cfg,
  op <> OpStop ->
  dp_retry_exhausted (pe_retry p) (p_max_retry pa) = false ->
  pe_retry p < 255 ->
  pe_state p = PsWaitForConfig ->
  o_config (pe_opts p) = Some cfg ->
  p_transmit pa op p =
    Ok (set_retry p (pe_retry p + 1),
        PtxSend (mkHeader (pe_addr p) (p_address pa) (Some 62) (Some 62) (FcRequest (pe_fcb p) RqSrdLow)) cfg).
Proof. exact chk_cfg_bytes. Qed.
Print Assumptions C03_chk_cfg_bytes.

(* a Data_Exchange request (default SAP) leaves the peripheral only in the two data exchange states, with
   no diagnostics request latched, as SRD high, and carries the output image or zeros *)
Theorem C03_dx_only_in_data_exchange : forall pa op p p' h pdu,
  p_transmit pa op p = Ok (p', PtxSend h pdu) ->
  h_dsap h = None ->
  (pe_state p = PsPreDataExchange \/ pe_state p = PsDataExchange) /\
  pe_diag_in_flight p' = false /\
  h = mkHeader (pe_addr p) (p_address pa) None None (FcRequest (pe_fcb p) RqSrdHigh) /\
  pdu = (if opstate_eqb op OpOperate then pe_pi_q p else repeat 0 (length (pe_pi_q p))).
Proof. exact dx_request_only_when_ready. Qed.
Print Assumptions C03_dx_only_in_data_exchange.

(* for every watchdog time the builder admits (10 ms .. 650 s, in ms) the factor search succeeds (so the
   builder's unwrap cannot fail) with 1 <= f1, f2 <= 255, f1 * f2 * 10 ms >= floor(ms/10) * 10 ms (the request is
   truncated to 10 ms, observation O3), and f1 is the smallest first factor that works *)
Theorem C03_watchdog_factors : forall ms,
  10 <= ms <= 650000 ->
  exists f1 f2, watchdog_factors (ms * 1000) = Some (Some (f1, f2)) /\
    1 <= f1 <= 255 /\ 1 <= f2 <= 255 /\ ms / 10 <= f1 * f2 /\
    (forall g, 1 <= g < f1 -> 256 <= (ms / 10 + g - 1) / g).
Proof. exact watchdog_factors_spec. Qed.
Print Assumptions C03_watchdog_factors.

(* non-vacuity: a peripheral waiting for parameters with a watchdog configured *)
Example C03_set_prm_example :
  let pa := mkParams 2 B19200 100 32436 10 126 1 11 (Some (1, 100)) in
  let p := set_state (periph_new 7 (mkOpts 4660 true false 3 100 false (Some [170; 187]) (Some [17])) [0] [0] 0)
                     PsWaitForParam in
  p_transmit pa OpOperate p =
    Ok (set_retry p 1,
        PtxSend (mkHeader 7 2 (Some 61) (Some 62) (FcRequest FcbFirst RqSrdLow))
                [168; 1; 100; 11; 18; 52; 3; 170; 187]).
Proof. reflexivity. Qed.
