(* C16 - placeholder while the proofs are being written *)
From PB Require Import Common Telegram Phy.
Theorem C16_placeholder : decode [] = Ok NeedMore.
Proof. reflexivity. Qed.
Print Assumptions C16_placeholder.
