(* C16 - The receive path reassembles the byte stream independent of chunking.
   Theorem statements only; every proof is `exact <lemma of Proofs/C16Proofs.v>`.

   Vocabulary (coq/Model):  receive_all / receive_telegram (Phy.v) model the trait's default
   methods over a receive buffer; receive_all_phy / receive_telegram_phy model them over an
   abstract PHY (view/drop), instantiated by buf_phy (harness PHY) and sim_phy (SimulatorPhy).
   poll_all / poll_single are one poll with the recording callback, run_polls feeds chunk after
   chunk (PhyRx.v).  stream ts = concatenation of the frames of ts, frame_len, take_frames,
   spec_polls, feed, delivered, final_buffer, history_ok, short (PhyRxOracle.v) are the
   decoder-free specification. *)
From PB Require Import Common Telegram DecodeSpec Params Phy SimBus PhyRx PhyRxOracle C16Proofs.

(* ------------------------------------------------------------------ termination, no panic *)

(* For EVERY byte string and EVERY callback that itself terminates: the loop of
   receive_all_telegrams ends within |buf|+1 iterations. *)
Theorem C16_terminates : forall (St R : Type) (f : St -> telegram -> bool -> res (St * R)),
  (forall s t l, f s t l <> OutOfFuel) ->
  forall (fuel : nat) (buf : bytes) (s : St), (length buf < fuel)%nat -> receive_all f fuel s buf <> OutOfFuel.
Proof. exact @receive_all_terminates. Qed.
Print Assumptions C16_terminates.

(* ... because every iteration that continues has consumed at least one byte, and never more
   than the PHY showed (the PHYs' assertion `drop <= pending.len()` cannot fire). *)
Theorem C16_progress : forall (buf : bytes) (t : telegram) (n : nat), decode buf = Ok (Accept t n) ->
  (1 <= n <= length buf)%nat /\
  (length (skipn n buf) < length buf)%nat /\ (length (skipn n buf) + n = length buf)%nat.
Proof. exact progress_all. Qed.
Print Assumptions C16_progress.

(* No panic in the helpers themselves, whatever the buffer holds. *)
Theorem C16_no_panic : forall (St R : Type) (f : St -> telegram -> bool -> res (St * R)),
  (forall s t l, is_panic (f s t l) = false) ->
  forall (fuel : nat) (buf : bytes) (s : St), is_panic (receive_all f fuel s buf) = false.
Proof. exact @receive_all_no_panic. Qed.
Print Assumptions C16_no_panic.

Theorem C16_no_panic_single : forall (R : Type) (f : telegram -> R) (buf : bytes),
  exists y, receive_telegram f buf = Ok y.
Proof. exact @receive_telegram_total. Qed.
Print Assumptions C16_no_panic_single.

(* ------------------------------------------------------------------ a partial frame waits *)

Theorem C16_prefix_needmore : forall (t : telegram) (k : nat), valid_telegram t -> (k < frame_len t)%nat ->
  decode (firstn k (encode t)) = Ok NeedMore.
Proof. exact c16_prefix_needmore. Qed.
Print Assumptions C16_prefix_needmore.

(* ------------------------------------------------------------------ one poll, any callback
   buf is what has arrived of the frames of ts and not been consumed yet (fut is still to
   come).  One receive_all_telegrams call invokes the callback for exactly the frames that are
   complete (take_frames: in order, each once, flag = frame ends the buffer), returns the result
   of the flagged call, and leaves exactly the incomplete tail. *)
Theorem C16_one_poll : forall (St R : Type) (f : St -> telegram -> bool -> res (St * R))
    (ts : list telegram) (buf fut : bytes) (fuel : nat) (s : St),
  Forall valid_telegram ts -> buf ++ fut = stream ts -> (length buf < fuel)%nat ->
  receive_all f fuel s buf =
  let '(d, rem, r) := take_frames ts (length buf) in
  let* x := feed f s d in
  let '(s', ro) := x in
  Ok (s', skipn (length buf - r) buf, ro).
Proof. exact @receive_all_stream. Qed.
Print Assumptions C16_one_poll.

(* ------------------------------------------------------------------ reassembly
   For all valid telegram lists and all chunkings: feeding chunk after chunk and calling
   receive_all_telegrams after each delivers exactly ts, in order, each once, and ends with an
   empty buffer; every poll shows exactly what the frame-length specification says. *)
Theorem C16_reassembly : forall (ts : list telegram) (cs : list bytes),
  Forall valid_telegram ts -> concat cs = stream ts ->
  exists outs, run_polls poll_all [] cs = Ok outs /\
    delivered outs = ts /\ final_buffer [] outs = [] /\
    map obs_of outs = spec_polls true ts 0 (map (@length Z) cs).
Proof. exact reassembly_all. Qed.
Print Assumptions C16_reassembly.

(* The same from any intermediate state (buffer buf holding the start of stream ts). *)
Theorem C16_reassembly_from : forall (cs : list bytes) (ts : list telegram) (buf : bytes),
  Forall valid_telegram ts -> buf ++ concat cs = stream ts ->
  exists outs, run_polls poll_all buf cs = Ok outs /\
    map obs_of outs = spec_polls true ts (length buf) (map (@length Z) cs) /\
    history_ok ts buf cs outs /\
    (short ts buf -> delivered outs = ts /\ final_buffer buf outs = []).
Proof. exact run_polls_all_stream. Qed.
Print Assumptions C16_reassembly_from.

(* ------------------------------------------------------------------ is_last
   Every buffer, every callback: the flag handed to the callback is true exactly when no byte
   is buffered behind the telegram being delivered; in that case its result is returned. *)
Theorem C16_is_last : forall (St R : Type) (f : St -> telegram -> bool -> res (St * R))
    (fuel : nat) (s : St) (buf : bytes) (t : telegram) (n : nat),
  decode buf = Ok (Accept t n) ->
  receive_all f (S fuel) s buf =
  let* x := f s t (is_nil (skipn n buf)) in
  let '(s', r) := x in
  if is_nil (skipn n buf) then Ok (s', [], Some r) else receive_all f fuel s' (skipn n buf).
Proof. exact @receive_all_is_last. Qed.
Print Assumptions C16_is_last.

(* ------------------------------------------------------------------ incomplete data is untouched
   (a) every buffer: when the decoder wants more bytes nothing is dropped and nothing delivered;
   (b) fault-free stream, after every poll: delivered frames ++ remaining buffer = everything
       that has arrived, and the remaining buffer is shorter than the next outstanding frame. *)
Theorem C16_incomplete_untouched : forall (St R : Type) (f : St -> telegram -> bool -> res (St * R))
    (fuel : nat) (s : St) (buf : bytes),
  decode buf = Ok NeedMore -> receive_all f (S fuel) s buf = Ok (s, buf, None).
Proof. exact @receive_all_needmore. Qed.
Print Assumptions C16_incomplete_untouched.

Theorem C16_incomplete_untouched_history : forall (ts : list telegram) (cs : list bytes),
  Forall valid_telegram ts -> concat cs = stream ts ->
  exists outs, run_polls poll_all [] cs = Ok outs /\ history_ok ts [] cs outs.
Proof. exact history_all. Qed.
Print Assumptions C16_incomplete_untouched_history.

(* ------------------------------------------------------------------ resynchronisation
   Undecodable data: the whole buffer is dropped, nothing is delivered; whatever valid
   telegrams arrive afterwards, in whatever chunks, are received exactly. *)
Theorem C16_resync : forall (garbage : bytes) (cs : list bytes) (ts : list telegram),
  decode garbage = Ok Reject -> Forall valid_telegram ts -> concat cs = stream ts ->
  exists outs, run_polls poll_all [] (garbage :: cs) = Ok (mkPO [] None [] :: outs) /\
    delivered outs = ts /\ final_buffer [] outs = [] /\
    map obs_of outs = spec_polls true ts 0 (map (@length Z) cs).
Proof. exact resync_all. Qed.
Print Assumptions C16_resync.

Theorem C16_resync_any_callback : forall (St R : Type) (f : St -> telegram -> bool -> res (St * R))
    (fuel : nat) (s : St) (buf : bytes),
  decode buf = Ok Reject -> receive_all f (S fuel) s buf = Ok (s, [], None).
Proof. exact @receive_all_reject. Qed.
Print Assumptions C16_resync_any_callback.

Theorem C16_resync_single : forall (garbage : bytes) (cs : list bytes) (ts : list telegram),
  decode garbage = Ok Reject -> Forall valid_telegram ts -> concat cs = stream ts ->
  exists outs, run_polls poll_single [] (garbage :: cs ++ repeat [] (length ts)) = Ok (mkPO [] None [] :: outs) /\
    delivered outs = ts /\ final_buffer [] outs = [].
Proof. exact resync_single. Qed.
Print Assumptions C16_resync_single.

(* ------------------------------------------------------------------ receive_telegram
   One call per poll: every poll shows what the specification (take_one) says, nothing is ever
   lost, and calling it once more per outstanding telegram drains the buffer. *)
Theorem C16_single : forall (cs : list bytes) (ts : list telegram),
  Forall valid_telegram ts -> concat cs = stream ts ->
  exists outs, run_polls poll_single [] (cs ++ repeat [] (length ts)) = Ok outs /\
    delivered outs = ts /\ final_buffer [] outs = [].
Proof. exact run_polls_single_complete. Qed.
Print Assumptions C16_single.

Theorem C16_single_every_poll : forall (cs : list bytes) (ts : list telegram) (buf : bytes),
  Forall valid_telegram ts -> buf ++ concat cs = stream ts ->
  exists outs, run_polls poll_single buf cs = Ok outs /\
    map obs_of outs = spec_polls false ts (length buf) (map (@length Z) cs) /\
    exists rem, ts = delivered outs ++ rem /\ final_buffer buf outs = stream rem.
Proof. exact run_polls_single_stream. Qed.
Print Assumptions C16_single_every_poll.

(* The boolean oracle that the check runs on the implementation's outputs accepts the model's. *)
Theorem C16_oracle_accepts_model : forall (all : bool) (cs : list bytes) (ts : list telegram),
  Forall valid_telegram ts -> concat cs = stream ts ->
  exists outs, run_polls (if all then poll_all else poll_single) [] cs = Ok outs /\
    c16_clean_ok all ts (map (@length Z) cs) (map obs_of outs) = true.
Proof. exact oracle_accepts_model. Qed.
Print Assumptions C16_oracle_accepts_model.

(* ------------------------------------------------------------------ over a PHY
   The helpers as written (one receive_data call per loop iteration) over any PHY whose
   receive_data shows the same bytes minus what was dropped (coherent) behave exactly like the
   helpers over the byte list it shows; SimulatorPhy and the harness PHY are coherent. *)
Theorem C16_phy_refines : forall (P St R : Type) (ops : phy_ops P) (f : St -> telegram -> bool -> res (St * R)),
  phy_coherent ops ->
  forall (fuel : nat) (s : St) (p : P) (buf : bytes), phy_view ops p = Ok buf ->
  match receive_all f fuel s buf with
  | Ok (s', rest, r) => exists p', receive_all_phy ops f fuel s p = Ok (s', p', r) /\ phy_view ops p' = Ok rest
  | Panic e => receive_all_phy ops f fuel s p = Panic e
  | OutOfFuel => receive_all_phy ops f fuel s p = OutOfFuel
  end.
Proof. exact @receive_all_phy_refines. Qed.
Print Assumptions C16_phy_refines.

Theorem C16_phy_refines_single : forall (P R : Type) (ops : phy_ops P) (f : telegram -> R),
  phy_coherent ops ->
  forall (p : P) (buf : bytes), phy_view ops p = Ok buf ->
  exists rest r p', receive_telegram f buf = Ok (rest, r) /\
    receive_telegram_phy ops f p = Ok (p', r) /\ phy_view ops p' = Ok rest.
Proof. exact @receive_telegram_phy_refines. Qed.
Print Assumptions C16_phy_refines_single.

Theorem C16_sim_phy_coherent : forall bus : simbus, phy_coherent (sim_phy bus).
Proof. exact sim_phy_coherent. Qed.
Print Assumptions C16_sim_phy_coherent.

Theorem C16_buf_phy_coherent : phy_coherent buf_phy.
Proof. exact buf_phy_coherent. Qed.
Print Assumptions C16_buf_phy_coherent.

(* ------------------------------------------------------------------ simulator byte availability
   From the start of the last transmission on (and below the u64 overflow point of
   time_to_bits) the number of visible bytes grows monotonically with the bus time, the
   visible bytes are a prefix of the stream, everything before the last transmission is always
   visible, and after the transmission time the whole stream is visible.  enqueue only appends. *)
Theorem C16_sim_monotone : forall (bus : simbus) (c : captured) (rest : list captured) (t1 t2 : Z),
  sb_telegrams bus = c :: rest -> bus_wf bus -> c_ts c <= t1 <= t2 -> no_overflow bus c t2 ->
  exists a1 a2, avail bus t1 = Ok a1 /\ avail bus t2 = Ok a2 /\
    (length (sb_stream bus) - c_len c <= a1 <= a2)%nat /\ (a2 <= length (sb_stream bus))%nat /\
    firstn a1 (firstn a2 (sb_stream bus)) = firstn a1 (sb_stream bus).
Proof. exact sim_monotone. Qed.
Print Assumptions C16_sim_monotone.

Theorem C16_sim_reaches_all : forall (bus : simbus) (c : captured) (rest : list captured) (t : Z),
  sb_telegrams bus = c :: rest -> bus_wf bus ->
  c_ts c + bits_to_time (sb_baud bus) (11 * Z.of_nat (c_len c)) + 1 <= t -> no_overflow bus c t ->
  avail bus t = Ok (length (sb_stream bus)).
Proof. exact sim_reaches_all. Qed.
Print Assumptions C16_sim_reaches_all.

Theorem C16_sim_appends : forall (bus : simbus) (name : Z) (data : bytes) (bus' : simbus),
  enqueue bus name data = Ok bus' ->
  sb_stream bus' = sb_stream bus ++ data /\ (bus_wf bus -> bus_wf bus').
Proof. exact enqueue_appends. Qed.
Print Assumptions C16_sim_appends.

(* ------------------------------------------------------------------ non-vacuity *)

(* a token, an SD2 telegram with both SAPs at the frame limit, an SC and an SD1 telegram are
   valid; their 265 byte stream cut after 2, 100 and 263 bytes meets the hypotheses, and the
   polls deliver: nothing (2 bytes wait) / the token, not last (97 bytes wait) / SD2 and SC, not last
   (4 bytes wait) / SD1, last (buffer empty). *)
Example C16_hypotheses_satisfiable :
  let h := mkHeader 125 2 (Some 61) (Some 62) (FcRequest FcbHigh RqSrdLow) in
  let ts := [TToken 3 2; TData h (repeat 7 244); TShortConf; TData (mkHeader 1 2 None None (FcRequest FcbFirst RqFdlStatus)) []] in
  let s := stream ts in
  let cs := [firstn 2 s; firstn 98 (skipn 2 s); firstn 163 (skipn 100 s); skipn 263 s] in
  Forall valid_telegram ts /\ concat cs = s /\
  map (fun o => (length (po_deliv o), map snd (po_deliv o), length (po_rest o)))
      (match run_polls poll_all [] cs with Ok o => o | _ => [] end) =
  [(0, [], 2); (1, [false], 97); (2, [false; false], 4); (1, [true], 0)]%nat.
Proof.
  cbv zeta. split; [|split].
  - apply valid_all_sound. vm_compute. reflexivity.
  - vm_compute. reflexivity.
  - vm_compute. reflexivity.
Qed.

(* undecodable data exists: a byte that is no start delimiter *)
Example C16_garbage_exists : decode [0; 1; 2] = Ok Reject.
Proof. reflexivity. Qed.

(* a well-formed simulator bus with a telegram on the wire: 3 bytes at 19200 baud sent at
   t = 1000 us; at 1600 us one byte is visible, at 2800 us all three *)
Example C16_sim_example :
  let bus := mkBus B19200 [mkCap 1 1000 0 3] [220; 3; 2] 1000 (Some 3) in
  bus_wf bus /\ avail bus 1600 = Ok 1%nat /\ avail bus 2800 = Ok 3%nat /\ no_overflow bus (mkCap 1 1000 0 3) 2800.
Proof. cbv zeta. split; [|split; [|split]]; try (vm_compute; reflexivity). - cbn. lia. - unfold no_overflow. cbn. lia. Qed.

(* ------------------------------------------------------------------ idle transmit calls
   A transmit call of a PHY whose closure sends nothing (transmit_telegram(now, |_| None), i.e.
   transmit_data with length 0) leaves the bus and the PHY as they are: receive_data shows the
   same bytes afterwards - nothing unread is dropped, also not the start of an incomplete telegram.
   It is accepted whenever nobody is sending. *)
Theorem C16_sim_idle_transmit_noop : forall (bus : simbus) (p : simphy) (bus' : simbus) (p' : simphy),
  sim_transmit bus p [] = Ok (bus', p') ->
  bus' = bus /\ p' = p /\ phy_view (sim_phy bus') p' = phy_view (sim_phy bus) p.
Proof. exact sim_idle_transmit_noop. Qed.
Print Assumptions C16_sim_idle_transmit_noop.

Theorem C16_sim_idle_transmit_ok : forall (bus : simbus) (p : simphy),
  is_active bus = Ok None -> sim_transmit bus p [] = Ok (bus, p).
Proof. exact sim_idle_transmit_ok. Qed.
Print Assumptions C16_sim_idle_transmit_ok.
