(* C12 - GAP maintenance polls exactly the own GAP and status replies are truthful.
   Theorem statements only; every proof is `exact <lemma>`.  First the function-level theorems (Proofs/FdlProofs.v,
   Proofs/FdlStepProofs.v), then - second half of the file - the whole-poll, history and timing theorems of DESIGN 4
   (Proofs/C12Proofs.v): C12_poll_transmissions, C12_poll_in_gap, C12_one_per_visit, C12_sweep_bound,
   C12_found_becomes_successor, C12_status_reply_truth, C12_status_reply_in_slot and their companions. *)
From PB Require Import Common Fdl FdlProofs FdlStepProofs.

(* The next GAP address is always strictly between TS and NS (cyclically) - in particular never the
   station's own address - and below HSA whenever the cursor was; for ALL (TS, NS, HSA, cursor). *)
Theorem C12_next_gap_poll_in_gap : forall (f : fdl) (cur a : Z),
  next_gap_poll f cur = Ok (GapDoPoll a) ->
  in_gap (ts f) (r_ns (f_ring f)) a /\ a <> ts f /\
  (0 <= cur < p_hsa (f_p f) -> 0 <= a < p_hsa (f_p f)).
Proof. exact next_gap_poll_in_gap. Qed.
Print Assumptions C12_next_gap_poll_in_gap.

(* The boolean used by the code (and by the monitor) is the declarative GAP. *)
Theorem C12_in_gapb_spec : forall ts ns a : Z, in_gapb ts ns a = true <-> in_gap ts ns a.
Proof. exact in_gapb_spec. Qed.
Print Assumptions C12_in_gapb_spec.

(* When the sweep ends the wait counter starts at zero. *)
Theorem C12_sweep_end_resets_wait : forall (f : fdl) (cur n : Z),
  next_gap_poll f cur = Ok (GapWaiting n) -> n = 0.
Proof. exact next_gap_poll_waiting. Qed.
Print Assumptions C12_sweep_end_resets_wait.

(* Non-vacuity and the two overrun corners of the property text (defect F1 on the unfixed tree):
   successor found at HSA-1, successor found at TS-1: the sweep ends instead of running on. *)
Example C12_corner_successor_at_hsa_minus_1 :
  forall f, ts f = 7 -> r_ns (f_ring f) = 15 -> p_hsa (f_p f) = 16 -> next_gap_poll f 14 = Ok (GapWaiting 0).
Proof. exact gap_corner_hsa_minus_1. Qed.
Example C12_corner_successor_at_ts_minus_1 :
  forall f, ts f = 7 -> r_ns (f_ring f) = 6 -> p_hsa (f_p f) = 16 -> next_gap_poll f 5 = Ok (GapWaiting 0).
Proof. exact gap_corner_ts_minus_1. Qed.

(* C12_poll_in_gap for the two places that issue GAP requests (the only callers of
   transmit_gap_poll_if_pending).  do_pass_token: the state AwaitStatusResponse{a} is entered only from
   PassToken{do_gap = Yes}, together with a transmission, and a is strictly inside the GAP of the ring
   view the station had on entry; never the own address. *)
Theorem C12_pass_token_polls_in_gap : forall (A : Type) (f : fdl) (now : Z) (w : world A) (f' : fdl) (w' : world A) (a : Z),
  do_pass_token A f now w = Ok (f', w') ->
  f_state f' = AwaitStatusResponse a ->
  in_gap (ts f) (r_ns (f_ring f)) a /\ a <> ts f /\ f_gap f' = GapDoPoll a /\
  w_tx w = None /\ (exists wire, w_tx w' = Some wire) /\
  (exists att, f_state f = PassToken true att).
Proof. exact do_pass_token_gap_poll. Qed.
Print Assumptions C12_pass_token_polls_in_gap.

(* do_claim_token (post-claim scan, including the immediate next request after an unanswered one):
   whenever it newly enters ScanAwaitResponse{a}, a request went out and a is in the GAP. *)
Theorem C12_claim_scan_polls_in_gap : forall (A : Type) (f : fdl) (now : Z) (w : world A) (f' : fdl) (w' : world A) (a : Z),
  do_claim_token A f now w = Ok (f', w') ->
  f_state f' = ClaimToken (StepScanAwaitResponse a) -> f_state f <> f_state f' ->
  in_gap (ts f) (r_ns (f_ring f)) a /\ a <> ts f /\ f_gap f' = GapDoPoll a /\ (exists wire, w_tx w' = Some wire).
Proof. exact do_claim_token_gap_poll. Qed.
Print Assumptions C12_claim_scan_polls_in_gap.

(* ============================================================================================ *)
(* Whole-poll, history and timing theorems (Proofs/C12Proofs.v).  `poll ops f now pin apps` is one *)
(* call of FdlActiveStation::poll_multi on station state f at time now with the PHY snapshot pin  *)
(* (tx_busy, receive buffer) and the applications apps; all theorems quantify over ALL station    *)
(* states (reachable or not), all inputs and all applications.                                    *)
(* ============================================================================================ *)
From PB Require Import Tables FdlTables Telegram Phy TokenRing Params C12Proofs.
From PB Require LasOracle.

(* C12_poll_transmissions - every transmission of a poll is exactly one of:
   (app)   the telegram an application handed over in this poll (last entry of the call log), from UseToken /
           AwaitDataResponse (time-out);
   (token) a token from this station: the claim token TS -> TS (after the silence time-out, or the second one
           of the claim), or the token pass out of PassToken / AwaitStatusResponse (time-out) / CheckTokenPass (retry)
           or - since the F20 repair (do_use_token ends in do_pass_token) - out of the token-use states UseToken /
           AwaitDataResponse (time-out) in the very poll that finds nothing (more) to send;
   (gap)   an FDL status request of GAP maintenance: sent from PassToken{do_gap}, from a token-use state in the poll
           that finds nothing (more) to send (F20 repair), or from the post-claim scan, to an address strictly inside
           the GAP, after which the station waits for the reply (AwaitStatusResponse a / ClaimToken::ScanAwaitResponse a);
   (reply) a status reply to the requester recorded in ListenToken / ActiveIdle.
   In the last three cases no application has SENT anything in this poll: the call log consists of declined
   transmit requests (and the time-out callback that may precede them), and is empty unless the poll began in a
   token-use state (before the F20 repair: always empty).
   So a status request that is not an application's is always of kind (gap): "gap_request" below is
   complete as the definition of "the poll transmits a status request as part of GAP maintenance". *)
Theorem C12_poll_transmissions : forall (A : Type) (ops : app_ops A) (f : fdl) (now : Z) (pin : phy_in) (apps : list A)
    (f' : fdl) (o : phy_out) (apps' : list A) (calls : list call) (wire : bytes),
  poll ops f now pin apps = Ok (f', o, apps', calls) -> tx o = Some wire ->
  (* app *)
  (exists cs i hp er, calls = cs ++ [CallTransmit i hp (Some (wire, er))] /\
     (kind_of (f_state f) = KUseToken \/ kind_of (f_state f) = KAwaitDataResponse) /\
     (kind_of (f_state f') = KUseToken \/ kind_of (f_state f') = KAwaitDataResponse)) \/
  ((exists l, calls = l /\
      Forall (fun c => match c with CallTransmit _ _ (Some _) => False | _ => True end) l /\
      (l <> [] -> kind_of (f_state f) = KUseToken \/ kind_of (f_state f) = KAwaitDataResponse)) /\
   ((* token *)
    (exists da, wire = encode_token da (ts f) /\
       ((da = ts f /\
         ((f_state f' = ClaimToken StepSecondToken /\
           ((kind_of (f_state f) = KListenToken \/ kind_of (f_state f) = KActiveIdle \/
             online_entry_kind (kind_of (f_state f)) = true) \/ f_state f = ClaimToken StepFirstToken)) \/
          (f_state f' = ClaimToken StepScan /\ f_state f = ClaimToken StepSecondToken))) \/
        ((f_state f' = UseToken now None false \/ exists att, f_state f' = CheckTokenPass att) /\
         (kind_of (f_state f) = KPassToken \/ kind_of (f_state f) = KAwaitStatusResponse \/
          kind_of (f_state f) = KCheckTokenPass \/
          (kind_of (f_state f) = KUseToken \/ kind_of (f_state f) = KAwaitDataResponse))))) \/
    (* gap *)
    (exists a, wire = encode (TData (status_request_header a (ts f)) []) /\ in_gap (ts f) (r_ns (f_ring f)) a /\
       ((0 <= ts f < p_hsa (f_p f) /\ (forall c, f_gap f = GapDoPoll c -> 0 <= c < p_hsa (f_p f))) -> 0 <= a < p_hsa (f_p f)) /\
       f_ring f' = f_ring f /\ f_gap f' = GapDoPoll a /\
       ((f_state f' = AwaitStatusResponse a /\
         ((exists att, f_state f = PassToken true att) \/
          (kind_of (f_state f) = KUseToken \/ kind_of (f_state f) = KAwaitDataResponse))) \/
        (f_state f' = ClaimToken (StepScanAwaitResponse a) /\
         (f_state f = ClaimToken StepScan \/ exists a0, f_state f = ClaimToken (StepScanAwaitResponse a0))))) \/
    (* reply *)
    (exists src st, wire = encode (TData (status_response_header src (ts f) st status_reply_status) []) /\
       reply_sent f f' src st))).
Proof. exact poll_transmissions. Qed.
Print Assumptions C12_poll_transmissions.

(* C12_poll_in_gap (whole poll).  If a poll transmits and ends waiting for a status reply from a - which by
   C12_poll_transmissions is what every GAP maintenance request looks like, from PassToken's GAP branch and from
   the post-claim scan alike - then a is strictly between TS and NS (cyclically), hence a <> TS and a <> NS, below
   HSA whenever TS and the GAP cursor were; the wire is the status request TS -> a, no application has sent anything
   (before the F20 repair: none was asked; now the request goes out in the poll in which all declined), the
   ring view is unchanged.  For ALL (TS, NS, HSA, cursor): NS = TS, NS = TS-1, NS = HSA-1, TS = HSA-1, TS = 0 included. *)
Theorem C12_poll_in_gap : forall (A : Type) (ops : app_ops A) (f : fdl) (now : Z) (pin : phy_in) (apps : list A)
    (f' : fdl) (o : phy_out) (apps' : list A) (calls : list call) (a : Z),
  poll ops f now pin apps = Ok (f', o, apps', calls) ->
  tx o <> None /\ (f_state f' = AwaitStatusResponse a \/ f_state f' = ClaimToken (StepScanAwaitResponse a)) ->
  in_gap (ts f) (r_ns (f_ring f)) a /\ a <> ts f /\ a <> r_ns (f_ring f) /\
  ((0 <= ts f < p_hsa (f_p f) /\ (forall c, f_gap f = GapDoPoll c -> 0 <= c < p_hsa (f_p f))) -> 0 <= a < p_hsa (f_p f)) /\
  tx o = Some (encode (TData (status_request_header a (ts f)) [])) /\
  (Forall (fun c => match c with CallTransmit _ _ (Some _) => False | _ => True end) calls /\
   (calls <> [] -> kind_of (f_state f) = KUseToken \/ kind_of (f_state f) = KAwaitDataResponse)) /\
  f_ring f' = f_ring f /\ f_gap f' = GapDoPoll a /\
  ((f_state f' = AwaitStatusResponse a /\
    ((exists att, f_state f = PassToken true att) \/
     (kind_of (f_state f) = KUseToken \/ kind_of (f_state f) = KAwaitDataResponse))) \/
   (f_state f' = ClaimToken (StepScanAwaitResponse a) /\
    (f_state f = ClaimToken StepScan \/ exists a0, f_state f = ClaimToken (StepScanAwaitResponse a0)))).
Proof. exact poll_gap_request_in_gap. Qed.
Print Assumptions C12_poll_in_gap.

(* C12_one_per_visit, one-step half.  After the GAP request of a visit (state AwaitStatusResponse) and after the
   post-claim scan (PassToken{do_gap: No}) the station transmits nothing but the token, to its NS; until then it
   stays in this phase, asks no application and leaves the GAP state alone; it leaves the phase without the token
   transmission only by giving the token up (unexpected telegram -> ActiveIdle). *)
Theorem C12_after_gap_request_only_the_token : forall (A : Type) (ops : app_ops A) (f : fdl) (now : Z) (pin : phy_in)
    (apps : list A) (f' : fdl) (o : phy_out) (apps' : list A) (calls : list call),
  poll ops f now pin apps = Ok (f', o, apps', calls) ->
  (match f_state f with AwaitStatusResponse _ => true | PassToken false _ => true | _ => false end) = true ->
  calls = [] /\ f_gap f' = f_gap f /\
  ((tx o = None /\
    (f_state f' = f_state f \/ f_state f' = PassToken false AttFirst \/ f_state f' = ActiveIdle None None 0)) \/
   (tx o = Some (encode_token (r_ns (f_ring f)) (ts f)) /\
    witness (f_ring f) (ts f) (r_ns (f_ring f)) = Ok (f_ring f') /\
    (f_state f' = UseToken now None false \/ exists att, f_state f' = CheckTokenPass att))).
Proof. exact after_gap_request_step. Qed.
Print Assumptions C12_after_gap_request_only_the_token.

(* C12_one_per_visit, history half, with a ghost counter over any sequence of polls (any times, PHY snapshots and
   applications): c counts the GAP requests of the token-passing kind (poll transmits and ends in
   AwaitStatusResponse) and is reset when the station is outside the phase {AwaitStatusResponse, PassToken{do_gap: No}}
   - which by the theorem above it leaves only by transmitting the token or giving it up.  The counter never
   exceeds 1: at most one GAP request between two token transmissions of a visit.  (The requests of the post-claim
   scan are not counted: that is the exception of the property text, see C12_claim_scan_back_to_back.) *)
Theorem C12_one_per_visit : forall (A : Type) (ops : app_ops A) (ins : list (Z * phy_in * list A)) (f : fdl) (c : nat),
  c = 0%nat \/ (c = 1%nat /\ gap_done (f_state f) = true) ->
  Forall (fun x => (x <= 1)%nat) (gap_counters ops f c ins).
Proof. exact one_gap_request_per_visit. Qed.
Print Assumptions C12_one_per_visit.

(* The GAP step of a token visit.  Since the F20 repair the step is normally taken at the end of the last poll of the
   token-use states (do_use_token ends in do_pass_token: C12_poll_transmissions / C12_gap_state_frame cover that poll);
   the state PassToken{do_gap: Yes} is only left standing when that poll had to wait for the synchronisation pause.
   A poll in PassToken{do_gap: Yes} either does nothing (PHY busy / pause not over) or
   performs exactly gap_visit_step (advance the cursor / count a rotation / restart the sweep), transmits the status
   request iff the new GAP state is DoPoll a, and passes the token otherwise. *)
Theorem C12_visit_performs_gap_step : forall (A : Type) (ops : app_ops A) (f : fdl) (now : Z) (pin : phy_in)
    (apps : list A) (f' : fdl) (o : phy_out) (apps' : list A) (calls : list call) (att : attempt),
  poll ops f now pin apps = Ok (f', o, apps', calls) -> f_state f = PassToken true att ->
  (tx o = None /\ f_state f' = f_state f /\ f_gap f' = f_gap f /\ f_ring f' = f_ring f) \/
  (gap_visit_step f = Ok (f_gap f') /\
   ((exists a, f_gap f' = GapDoPoll a /\ f_state f' = AwaitStatusResponse a /\
        tx o = Some (encode (TData (status_request_header a (ts f)) [])) /\ f_ring f' = f_ring f) \/
    (exists n, f_gap f' = GapWaiting n /\ tx o = Some (encode_token (r_ns (f_ring f)) (ts f)) /\
        witness (f_ring f) (ts f) (r_ns (f_ring f)) = Ok (f_ring f') /\
        (f_state f' = UseToken now None false \/ f_state f' = CheckTokenPass att)))).
Proof. exact pass_token_performs_gap_step. Qed.
Print Assumptions C12_visit_performs_gap_step.

(* ... and nothing else touches the GAP state: any poll leaves it unchanged except the GAP step above - taken from
   PassToken{do_gap}, or (F20 repair) at the end of the poll of a token-use state that finds nothing (more) to send -,
   the claim phase (ClaimToken), a claim after the silence time-out and the reset after an address collision. *)
Theorem C12_gap_state_frame : forall (A : Type) (ops : app_ops A) (f : fdl) (now : Z) (pin : phy_in) (apps : list A)
    (f' : fdl) (o : phy_out) (apps' : list A) (calls : list call),
  poll ops f now pin apps = Ok (f', o, apps', calls) ->
  f_gap f' = f_gap f \/
  (((exists att, f_state f = PassToken true att) \/
    (kind_of (f_state f) = KUseToken \/ kind_of (f_state f) = KAwaitDataResponse)) /\
   gap_visit_step f = Ok (f_gap f')) \/
  kind_of (f_state f) = KClaimToken \/
  (f_state f' = ClaimToken StepSecondToken /\ f_gap f' = GapDoPoll (ts f)) \/
  (f_state f' = Offline /\ f_conn f' = ConnOffline).
Proof. exact poll_gap_state_frame. Qed.
Print Assumptions C12_gap_state_frame.

(* The post-claim scan ("the whole GAP at once right after claiming"): in ClaimToken::Scan / ScanAwaitResponse every
   transmission is a GAP request (subject to C12_poll_in_gap); the phase ends only with GAP state Waiting, into
   PassToken{do_gap: No} - from where only the token follows - or by giving the token up. *)
Theorem C12_claim_scan_back_to_back : forall (A : Type) (ops : app_ops A) (f : fdl) (now : Z) (pin : phy_in)
    (apps : list A) (f' : fdl) (o : phy_out) (apps' : list A) (calls : list call),
  poll ops f now pin apps = Ok (f', o, apps', calls) ->
  (f_state f = ClaimToken StepScan \/ exists a0, f_state f = ClaimToken (StepScanAwaitResponse a0)) ->
  calls = [] /\
  ((tx o = None /\
    (f_state f' = f_state f \/ f_state f' = ClaimToken StepScan \/ f_state f' = ActiveIdle None None 0 \/
     (f_state f' = PassToken false AttFirst /\ exists n, f_gap f' = GapWaiting n))) \/
   (exists a, (tx o <> None /\ (f_state f' = AwaitStatusResponse a \/ f_state f' = ClaimToken (StepScanAwaitResponse a))) /\
              tx o = Some (encode (TData (status_request_header a (ts f)) [])))).
Proof. exact claim_scan_step. Qed.
Print Assumptions C12_claim_scan_back_to_back.

(* C12_sweep_bound.  visit_gaps f m = the GAP states after each of the next m GAP steps (one per token visit, by
   C12_visit_performs_gap_step / C12_gap_state_frame / C12_one_per_visit) while NS and the parameters stay as they
   are.  For all 0 <= TS, NS < HSA <= 126, all gap_wait_rotations 0..254 and ANY current GAP state (cursor anywhere
   below HSA, any wait count): every address a of the GAP is polled within |GAP| + gap_wait_rotations + 2 visits,
   and none of the steps panics.  gap_size is |GAP| (C12_gap_size_counts).  Ranking function: visits_until. *)
Theorem C12_sweep_bound : forall (f : fdl) (a : Z),
  (0 <= ts f < p_hsa (f_p f) /\ 0 <= r_ns (f_ring f) < p_hsa (f_p f) /\ p_hsa (f_p f) <= 126 /\
   0 <= p_gap_wait (f_p f) <= 254) ->
  (match f_gap f with GapDoPoll c => 0 <= c < p_hsa (f_p f) | GapWaiting rc => 0 <= rc end) ->
  in_gap (ts f) (r_ns (f_ring f)) a -> 0 <= a < p_hsa (f_p f) ->
  exists (m : nat) (l : list gap_state), (1 <= m)%nat /\
    Z.of_nat m <= gap_size (ts f) (r_ns (f_ring f)) (p_hsa (f_p f)) + p_gap_wait (f_p f) + 2 /\
    visit_gaps f m = Ok (l ++ [GapDoPoll a]).
Proof. exact sweep_bound. Qed.
Print Assumptions C12_sweep_bound.

(* gap_size TS NS HSA is the number of GAP addresses: they are exactly the addresses at the (cyclic) offsets
   1 .. gap_size from TS, and every such offset is taken by exactly one address below HSA. *)
Theorem C12_gap_size_counts : forall t n H : Z, 0 <= t < H -> 0 <= n < H ->
  (forall x, 0 <= x < H -> (in_gap t n x <-> 1 <= off t H x <= gap_size t n H)) /\
  (forall k, 1 <= k <= gap_size t n H -> exists x, 0 <= x < H /\ off t H x = k /\ in_gap t n x) /\
  (forall x y, 0 <= x < H -> 0 <= y < H -> off t H x = off t H y -> x = y).
Proof. exact gap_size_counts. Qed.
Print Assumptions C12_gap_size_counts.

Example C12_gap_size_corners :
  gap_size 7 15 16 = 7 /\ gap_size 7 6 16 = 14 /\ gap_size 7 7 16 = 15 /\ gap_size 15 3 16 = 3 /\
  gap_size 0 15 16 = 14 /\ gap_size 0 1 16 = 0 /\ gap_size 125 0 126 = 0.
Proof. repeat split; reflexivity. Qed.

(* C12_found_becomes_successor.  A poll in AwaitStatusResponse a0 / ClaimToken::ScanAwaitResponse a0 that gets as far
   as its state function (online, PHY idle, last own transmission over) and finds, first in the receive buffer, a
   response telegram a0 -> TS with status Ok and station state "master ready to enter" or "master in ring" (what the
   code accepts): set_next_station(a0) is applied to the ring view, nothing is transmitted in this poll, the telegram
   is consumed, and the station goes on to pass the token (or continues the scan). *)
Theorem C12_found_becomes_successor : forall (A : Type) (ops : app_ops A) (f : fdl) (now : Z) (pin : phy_in)
    (apps : list A) (f' : fdl) (o : phy_out) (apps' : list A) (calls : list call) (a0 : Z) (t : telegram) (n : nat),
  poll ops f now pin apps = Ok (f', o, apps', calls) ->
  (f_state f = AwaitStatusResponse a0 \/ f_state f = ClaimToken (StepScanAwaitResponse a0)) ->
  f_conn f = ConnOnline -> tx_busy pin = false -> (forall l, f_lba f = Some l -> l < now) ->
  decode (rx pin) = Ok (Accept t n) ->
  (exists h pdu st, t = TData h pdu /\ h_fc h = FcResponse st StOk /\
     (st = RsMasterWithoutToken \/ st = RsMasterInRing) /\ h_sa h = a0 /\ h_da h = ts f) ->
  a0 <> ts f /\ set_next_station (f_ring f) a0 = Ok (f_ring f') /\ tx o = None /\ rx_left o = skipn n (rx pin) /\
  f_gap f' = f_gap f /\ calls = [] /\ f_p f' = f_p f /\
  (f_state f = AwaitStatusResponse a0 -> f_state f' = PassToken false AttFirst) /\
  (f_state f = ClaimToken (StepScanAwaitResponse a0) -> f_state f' = ClaimToken StepScan).
Proof. exact found_becomes_successor. Qed.
Print Assumptions C12_found_becomes_successor.

(* What set_next_station(a) does to a well-formed ring view (128 LAS bits, TS inside): NS := a, a is in the LAS,
   everything strictly between TS and a is out of it, everything else is unchanged ("LAS updated"). *)
Theorem C12_set_next_station_effect : forall (r : ring) (a : Z) (r' : ring),
  length (r_las r) = 128%nat -> 0 <= r_ts r < 128 -> a <> r_ts r -> set_next_station r a = Ok r' ->
  0 <= a < 128 /\ r_ns r' = a /\ r_ts r' = r_ts r /\ r_state r' = r_state r /\ length (r_las r') = 128%nat /\
  (forall x, LasOracle.activeb (r_las r') x =
             (x =? r_ts r) || (((x =? a) || LasOracle.activeb (r_las r) x) && negb (in_gapb (r_ts r) a x))).
Proof. exact set_next_station_effect. Qed.
Print Assumptions C12_set_next_station_effect.

(* ... and the found station gets the next token: whatever the following poll of the station transmits is the
   token TS -> a0 (by C12_after_gap_request_only_the_token it transmits nothing else before). *)
Theorem C12_found_gets_next_token : forall (A : Type) (ops : app_ops A) (f : fdl) (now : Z) (pin : phy_in)
    (apps : list A) (f' : fdl) (o : phy_out) (apps' : list A) (calls : list call) (a0 : Z) (t : telegram) (n : nat)
    (now2 : Z) (pin2 : phy_in) (apps2 : list A) (f'' : fdl) (o2 : phy_out) (apps2' : list A) (calls2 : list call)
    (wire : bytes),
  poll ops f now pin apps = Ok (f', o, apps', calls) -> f_state f = AwaitStatusResponse a0 ->
  f_conn f = ConnOnline -> tx_busy pin = false -> (forall l, f_lba f = Some l -> l < now) ->
  decode (rx pin) = Ok (Accept t n) -> is_master_ready_reply (ts f) a0 t ->
  length (r_las (f_ring f)) = 128%nat -> r_ts (f_ring f) = ts f -> 0 <= ts f < 128 ->
  poll ops f' now2 pin2 apps2 = Ok (f'', o2, apps2', calls2) -> tx o2 = Some wire ->
  r_ns (f_ring f') = a0 /\ wire = encode_token a0 (ts f).
Proof. exact found_gets_next_token. Qed.
Print Assumptions C12_found_gets_next_token.

(* Any other reply, a reply from or to another address, garbage, a time-out, or a poll that does not get as far:
   the ring view - NS in particular - is unchanged, except that the time-out in AwaitStatusResponse goes straight on
   to pass the token, to the unchanged NS, and records that pass in the ring view. *)
Theorem C12_successor_unchanged_otherwise : forall (A : Type) (ops : app_ops A) (f : fdl) (now : Z) (pin : phy_in)
    (apps : list A) (f' : fdl) (o : phy_out) (apps' : list A) (calls : list call) (a0 : Z),
  poll ops f now pin apps = Ok (f', o, apps', calls) ->
  (f_state f = AwaitStatusResponse a0 \/ f_state f = ClaimToken (StepScanAwaitResponse a0)) ->
  ~ (exists t n, decode (rx pin) = Ok (Accept t n) /\ is_master_ready_reply (ts f) a0 t) ->
  f_ring f' = f_ring f \/
  (f_state f = AwaitStatusResponse a0 /\ tx o = Some (encode_token (r_ns (f_ring f)) (ts f)) /\
   witness (f_ring f) (ts f) (r_ns (f_ring f)) = Ok (f_ring f')).
Proof. exact successor_unchanged_otherwise. Qed.
Print Assumptions C12_successor_unchanged_otherwise.

(* C12_status_reply_truth (1): a listening or idle station transmits nothing but the claim token after its silence
   time-out and the status reply to the requester it has recorded (marker = ListenToken/ActiveIdle.status_request),
   with source TS, status Ok and the state given by reply_sent: in ListenToken "ready" (MasterWithoutToken) iff the
   LAS is valid and the requester is PS, else "not ready", entering the ring (ActiveIdle) iff the LAS is valid; in
   ActiveIdle "in ring".  Together with C12_poll_transmissions: no status reply is ever sent from any other state. *)
Theorem C12_status_reply_truth : forall (A : Type) (ops : app_ops A) (f : fdl) (now : Z) (pin : phy_in) (apps : list A)
    (f' : fdl) (o : phy_out) (apps' : list A) (calls : list call) (wire : bytes),
  poll ops f now pin apps = Ok (f', o, apps', calls) ->
  kind_of (f_state f) = KListenToken \/ kind_of (f_state f) = KActiveIdle -> tx o = Some wire ->
  calls = [] /\
  ((wire = encode_token (ts f) (ts f) /\ f_state f' = ClaimToken StepSecondToken) \/
   (exists src st, marker (f_state f) = Some src /\
      wire = encode (TData (status_response_header src (ts f) st status_reply_status) []) /\
      ((exists cc, f_state f = ListenToken (Some src) cc /\
          st = (if ready_for_ring (f_ring f) && (src =? r_ps (f_ring f)) then listen_reply_ready else listen_reply_not_ready) /\
          f_state f' = (if ready_for_ring (f_ring f) then ActiveIdle None None 0 else ListenToken None cc)) \/
       (exists nps cc, f_state f = ActiveIdle (Some src) nps cc /\ st = active_idle_reply /\
          f_state f' = ActiveIdle None nps cc)))).
Proof. exact listen_idle_transmissions. Qed.
Print Assumptions C12_status_reply_truth.

(* (2) the reported state, in the words of the property: "in ring" exactly in the ring state ActiveIdle, "ready" iff
   listening with a valid LAS (two identical rotations seen, C02) and the requester is the predecessor, "not ready"
   otherwise while listening; never "slave". *)
Theorem C12_reply_state_truth : forall (f f' : fdl) (src : Z) (st : resp_state), reply_sent f f' src st ->
  (st = RsMasterInRing <-> exists nps cc, f_state f = ActiveIdle (Some src) nps cc) /\
  (st = RsMasterWithoutToken <->
     (exists cc, f_state f = ListenToken (Some src) cc) /\ ready_for_ring (f_ring f) = true /\ src = r_ps (f_ring f)) /\
  (st = RsMasterNotReady <->
     (exists cc, f_state f = ListenToken (Some src) cc) /\ ~ (ready_for_ring (f_ring f) = true /\ src = r_ps (f_ring f))) /\
  st <> RsSlave.
Proof. exact reply_state_truth. Qed.
Print Assumptions C12_reply_state_truth.

(* (3) a requester gets recorded only by an FDL status request addressed to TS that is the LAST telegram of the
   receive buffer of that poll (everything before it is consumed first; requests to other addresses and requests
   followed by further traffic never lead to a reply); the buffer is then empty and last_bus_activity = the time of
   that poll - the instant the synchronisation pause before the reply is measured from. *)
Theorem C12_status_request_must_be_last : forall (A : Type) (ops : app_ops A) (f : fdl) (now : Z) (pin : phy_in)
    (apps : list A) (f' : fdl) (o : phy_out) (apps' : list A) (calls : list call) (src : Z),
  poll ops f now pin apps = Ok (f', o, apps', calls) -> marker (f_state f') = Some src ->
  marker (f_state f) = Some src \/
  ((exists pre suf t, rx pin = pre ++ suf /\ decode suf = Ok (Accept t (length suf)) /\
      exists h pdu, t = TData h pdu /\ is_fdl_status_request h = true /\ h_da h = ts f /\ h_sa h = src) /\
   rx_left o = [] /\ f_pending f' = 0%nat /\ f_lba f' = Some now).
Proof. exact poll_marks_last_request. Qed.
Print Assumptions C12_status_request_must_be_last.

(* C12_status_reply_in_slot.  The station has a recorded requester and last_bus_activity = l (the time of the poll
   that received the request, by (3)); it is online and is polled at the times waits ++ [tk], at most P apart, with
   an idle PHY and nothing further in the receive buffer; tk is the first of these later than l + 33 bit.  Then all
   earlier polls do nothing at all, the poll at tk transmits the reply, tk <= l + 33 bit + P, and if the request
   ended at t_end, at most one poll period before l: tk <= t_end + 2P + 33 bit and the first byte of the reply
   (11 bit, rounded up to whole microseconds, plus 1 us for the rounding of the requester's own time stamp) is
   complete before t_end + Tslot - for every parameter set the builder accepts and every poll period P <= Tslot/4.
   The requester tests its slot timer only after looking for new bytes, so its own poll period does not enter. *)
Theorem C12_status_reply_in_slot : forall (A : Type) (ops : app_ops A) (f : fdl) (src l P : Z) (waits : list Z) (tk : Z)
    (apps : list A),
  builder_valid (f_p f) -> f_conn f = ConnOnline ->
  ((exists cc, f_state f = ListenToken (Some src) cc) \/ (exists nps cc, f_state f = ActiveIdle (Some src) nps cc)) ->
  f_lba f = Some l -> 0 <= l < 4611686018427387904 -> 0 <= tk < 4611686018427387904 ->
  0 <= P -> 4 * P <= slot_time (f_p f) ->
  spaced l P (waits ++ [tk]) ->
  Forall (fun t => t <= l + p_bits_to_time (f_p f) sync_pause_bits) waits ->
  l + p_bits_to_time (f_p f) sync_pause_bits < tk ->
  (forall t, In t waits -> poll ops f t (mkPhyIn false []) apps = Ok (f, mkPhyOut None [], apps, [])) /\
  (exists f' st, poll ops f tk (mkPhyIn false []) apps =
                   Ok (f', mkPhyOut (Some (encode (TData (status_response_header src (ts f) st status_reply_status) []))) [], apps, []) /\
                 reply_sent f f' src st) /\
  tk <= l + p_bits_to_time (f_p f) sync_pause_bits + P /\
  (forall t_end, t_end <= l <= t_end + P ->
     tk <= t_end + 2 * P + p_bits_to_time (f_p f) sync_pause_bits /\
     tk + bits_to_time_up (p_baud (f_p f)) bits_per_byte + 1 <= t_end + slot_time (f_p f)).
Proof. exact status_reply_in_slot. Qed.
Print Assumptions C12_status_reply_in_slot.

(* the inequality behind it, for every baud rate and every builder-valid slot time (regenerated min_slot_bits table;
   bits_to_time rounds down to whole microseconds, bits_to_time_up rounds up): 2P + 33 bit + 11 bit + 1 us <= Tslot
   whenever P <= Tslot / 4.  No baud rate fails; the tightest case is 12 Mbit/s. *)
Theorem C12_slot_time_covers_reply : forall (p : params) (P : Z),
  builder_valid p -> 0 <= P -> 4 * P <= slot_time p ->
  2 * P + p_bits_to_time p sync_pause_bits + bits_to_time_up (p_baud p) bits_per_byte + 1 <= slot_time p.
Proof. exact slot_time_covers_reply. Qed.
Print Assumptions C12_slot_time_covers_reply.

Example C12_slot_numbers_12M :
  bits_to_time B12000000 1000 = 83 /\ bits_to_time B12000000 33 = 2 /\ bits_to_time_up B12000000 11 = 1 /\
  bits_to_time B9600 100 = 10416 /\ bits_to_time B9600 33 = 3437 /\ bits_to_time_up B9600 11 = 1146.
Proof. repeat split; reflexivity. Qed.

(* The requester's side of "within the slot time": a station waiting for the status reply does not time out in a poll
   that finds new bytes in its receive buffer (however late that poll is: new bytes restart the timer before it is
   tested), nor in any poll up to Tslot after its last_bus_activity (the predicted end of its request); it keeps
   waiting, transmits nothing, consumes nothing.  With C12_status_reply_in_slot: the first byte of the reply is in the
   requester's buffer before its slot timer can fire, whatever the requester's own poll period. *)
Theorem C12_requester_keeps_waiting : forall (A : Type) (ops : app_ops A) (f : fdl) (now : Z) (pin : phy_in)
    (apps : list A) (a0 l : Z),
  f_conn f = ConnOnline -> f_state f = AwaitStatusResponse a0 -> f_gap f = GapDoPoll a0 -> a0 <> ts f ->
  tx_busy pin = false -> f_lba f = Some l -> 0 <= l < 4611686018427387904 -> 0 <= now < 4611686018427387904 -> l < now ->
  0 <= slot_time (f_p f) <= 100000 * 1000000 ->
  decode (rx pin) = Ok NeedMore ->
  ((f_pending f < length (rx pin))%nat \/ now <= l + slot_time (f_p f)) ->
  exists f', poll ops f now pin apps = Ok (f', mkPhyOut None (rx pin), apps, []) /\ f_state f' = f_state f.
Proof. exact requester_keeps_waiting. Qed.
Print Assumptions C12_requester_keeps_waiting.

(* Non-vacuity: concrete polls of station 7 (HSA 16, 19200 baud, alone in its ring, so the GAP is everything but 7)
   that satisfy the hypotheses of the theorems above - a GAP request to 8, the wrap HSA-1 -> 0, the end of the sweep
   at TS-1 (token instead of a request), the two status replies of a listening station, a found successor; and a
   builder-valid parameter set. *)
Example C12_instance_gap_request :
  exists f' o, poll unit_app_ops (ex_station (PassToken true AttFirst) (GapDoPoll 7) 7) 10000 (mkPhyIn false []) [tt]
               = Ok (f', o, [tt], []) /\
    tx o = Some (encode (TData (status_request_header 8 7) [])) /\ f_state f' = AwaitStatusResponse 8 /\ f_gap f' = GapDoPoll 8.
Proof. exact example_gap_request. Qed.
Example C12_instance_gap_request_wrap :
  exists f' o, poll unit_app_ops (ex_station (PassToken true AttFirst) (GapDoPoll 15) 7) 10000 (mkPhyIn false []) [tt]
               = Ok (f', o, [tt], []) /\
    tx o = Some (encode (TData (status_request_header 0 7) [])) /\ f_state f' = AwaitStatusResponse 0.
Proof. exact example_gap_request_wrap. Qed.
Example C12_instance_sweep_end :
  exists f' o, poll unit_app_ops (ex_station (PassToken true AttFirst) (GapDoPoll 6) 7) 10000 (mkPhyIn false []) [tt]
               = Ok (f', o, [tt], []) /\
    tx o = Some (encode_token 7 7) /\ f_gap f' = GapWaiting 0.
Proof. exact example_sweep_end. Qed.
Example C12_instance_status_reply_ready :
  exists f' o, poll unit_app_ops (ex_station (ListenToken (Some 3) 0) (GapDoPoll 7) 3) 10000 (mkPhyIn false []) [tt]
               = Ok (f', o, [tt], []) /\
    tx o = Some (encode (TData (status_response_header 3 7 RsMasterWithoutToken StOk) [])) /\ f_state f' = ActiveIdle None None 0.
Proof. exact example_status_reply. Qed.
Example C12_instance_status_reply_not_ready :
  exists f' o, poll unit_app_ops (ex_station (ListenToken (Some 4) 0) (GapDoPoll 7) 3) 10000 (mkPhyIn false []) [tt]
               = Ok (f', o, [tt], []) /\
    tx o = Some (encode (TData (status_response_header 4 7 RsMasterNotReady StOk) [])).
Proof. exact example_status_reply_not_ready. Qed.
Example C12_instance_found :
  exists f' o, poll unit_app_ops (ex_station (AwaitStatusResponse 9) (GapDoPoll 9) 7) 10000
                 (mkPhyIn false (encode (TData (status_response_header 7 9 RsMasterWithoutToken StOk) []))) [tt]
               = Ok (f', o, [tt], []) /\
    tx o = None /\ r_ns (f_ring f') = 9 /\ f_state f' = PassToken false AttFirst.
Proof. exact example_found. Qed.
Example C12_instance_builder_valid : builder_valid ex_params.
Proof. exact example_params_builder_valid. Qed.

(* ------------------------------------------------------------------------------------------ *)
(* ORACLE SOUNDNESS, PARTIAL (Proofs/FdlOracleSound1-7.v; see Properties/C01.v for model_transcript): on a
   transcript of the model - ALL input histories, any number of total applications that hand data telegrams to
   the PHY - the monitors never report one of the rules
     R12_gap_poll_outside_gap, R12_two_gap_polls_per_visit (C12_poll_in_gap / C12_one_per_visit),
     R12_found_not_successor, R12_found_not_next_token, R12_successor_changed_without_ready_reply
     (C12_found_becomes_successor).
   NOT covered by this theorem (see lib/props.py): R12_reply_without_request, R12_reply_untruthful,
   R12_reply_from_wrong_state, R12_sweep_bound, R12_post_claim_scan_incomplete, R12_gap_wait_never_ends. *)
From PB Require Import Params C05Proofs FdlOracle FdlOracleSound1 FdlOracleSound5 FdlOracleSound7.

Theorem C12_oracle_sound_partial : forall (A : Type) (ops : app_ops A) (p : params),
  apps_total A ops -> builder_valid p -> app_sends_data A ops ->
  forall (apps : list A) (ins : list minput), ins_ok 0 ins ->
  forall k r, In (k, r) (monitor p (length apps) (model_transcript A ops p apps ins)) ->
  ~ In r [R12_gap_poll_outside_gap; R12_two_gap_polls_per_visit;
          R12_found_not_successor; R12_found_not_next_token; R12_successor_changed_without_ready_reply].
Proof. exact c12_oracle_sound_partial. Qed.
Print Assumptions C12_oracle_sound_partial.

(* ORACLE SOUNDNESS, PARTIAL, second part (Proofs/FdlOracleSound10-11.v, FdlOracleSoundAll.v): the status-reply rules.
   For applications that transmit REQUEST telegrams (`app_sends_requests`: what an application hands to the PHY
   decodes as a data telegram with a request function code - the monitor takes a response telegram with the own
   source address for a status reply of the station) the only rules of C12 that can be reported on a transcript
   of the model are R12_sweep_bound, R12_post_claim_scan_incomplete and the liveness rule R12_gap_wait_never_ends;
   i.e. in addition to the rules of C12_oracle_sound_partial also R12_reply_without_request, R12_reply_untruthful
   and R12_reply_from_wrong_state are never reported.  (The request the station has pending is the one the
   monitor recorded from the last delivered telegram: invariant RQ of FdlOracleSound11.) *)
From PB Require Import FdlOracleSound11 FdlOracleSoundAll.

Theorem C12_oracle_sound_partial_req : forall (A : Type) (ops : app_ops A) (p : params),
  apps_total A ops -> builder_valid p -> app_sends_data A ops ->
  forall (apps : list A) (ins : list minput), app_sends_requests A ops -> ins_ok 0 ins ->
  forall k r, In (k, r) (monitor p (length apps) (model_transcript A ops p apps ins)) -> rule_prop r = PC12 ->
  In r [R12_sweep_bound; R12_post_claim_scan_incomplete; R12_gap_wait_never_ends].
Proof. exact c12_open_req. Qed.
Print Assumptions C12_oracle_sound_partial_req.

(* ORACLE SOUNDNESS, the sweep bound and the post-claim scan (Proofs/C12OracleSound.v).  On every transcript of the
   MODEL - any API calls and polls, any times (increasing), busy flags and received bytes, applications that hand
   data telegrams to the PHY - the executable rules R12_sweep_bound and R12_post_claim_scan_incomplete of
   Model/FdlOracle.v are never reported.
   R12_sweep_bound is the end-to-end, history-level form of C12_sweep_bound: the second monitor counts the token
   visits of the station (token transmissions out of PassToken / AwaitStatusResponse / the token-use states), keeps
   for every address the count at its last GAP request (or at the last restart: NS changed, claim token, back to
   listening / offline) and demands at every visit that no address of the current GAP has gone without a request
   for more than |GAP| + gap_wait_rotations + 2 visits.  The proof is a simulation: for every GAP address a,
   (visits since the last request to a) + visits_until a (GAP state of the model) <= |GAP| + gap_wait_rotations + 2
   (+ 1 while the GAP step of the current visit is still due), maintained poll by poll with the relation
   C12Proofs.poll_sweep_rel (one GAP step per GAP request / per token of a visit, none otherwise) - for NS anywhere
   in 0..127 (also at or above HSA) and for successors that change during a sweep (every change restarts the
   window, from whatever GAP state the model is in).
   R12_post_claim_scan_incomplete: the list of GAP addresses the monitor still expects from the post-claim scan is
   always ahead of the model's GAP cursor, so it is empty (within the current GAP) when the scan ends. *)
From PB Require Import C12OracleSound.

Theorem C12_oracle_sound_sweep : forall (A : Type) (ops : app_ops A) (p : params),
  apps_total A ops -> builder_valid p -> app_sends_data A ops ->
  forall (apps : list A) (ins : list minput), ins_ok 0 ins ->
  forall k r, In (k, r) (monitor p (length apps) (model_transcript A ops p apps ins)) -> r <> R12_sweep_bound.
Proof. exact c12_oracle_sound_sweep. Qed.
Print Assumptions C12_oracle_sound_sweep.

Theorem C12_oracle_sound_claim_scan : forall (A : Type) (ops : app_ops A) (p : params),
  apps_total A ops -> builder_valid p -> app_sends_data A ops ->
  forall (apps : list A) (ins : list minput), ins_ok 0 ins ->
  forall k r, In (k, r) (monitor p (length apps) (model_transcript A ops p apps ins)) ->
  r <> R12_post_claim_scan_incomplete.
Proof. exact c12_oracle_sound_claim_scan. Qed.
Print Assumptions C12_oracle_sound_claim_scan.

(* all safety rules of C12 together: for applications that transmit request telegrams the only rule of C12 that can
   be reported on a model transcript is the liveness rule R12_gap_wait_never_ends *)
Theorem C12_oracle_sound_safety : forall (A : Type) (ops : app_ops A) (p : params),
  apps_total A ops -> builder_valid p -> app_sends_data A ops ->
  forall (apps : list A) (ins : list minput), app_sends_requests A ops -> ins_ok 0 ins ->
  forall k r, In (k, r) (monitor p (length apps) (model_transcript A ops p apps ins)) -> rule_prop r = PC12 ->
  r = R12_gap_wait_never_ends.
Proof. exact c12_oracle_sound_safety. Qed.
Print Assumptions C12_oracle_sound_safety.

(* the poll-by-poll relation behind the simulation, for ALL station states and inputs *)
Theorem C12_poll_sweep_rel : forall (A : Type) (ops : app_ops A) (f : fdl) (now : Z) (pin : phy_in) (apps : list A)
    (f' : fdl) (o : phy_out) (apps' : list A) (calls : list call),
  poll ops f now pin apps = Ok (f', o, apps', calls) -> sw_rel f f' [] calls (tx o).
Proof. exact poll_sweep_rel. Qed.
Print Assumptions C12_poll_sweep_rel.

(* ORACLE SOUNDNESS, the liveness rule (Proofs/C12OracleSound.v, part 3).  R12_gap_wait_never_ends - "while the bus
   brings nothing new, a wait for a GAP reply (AwaitStatusResponse, the post-claim scan) ends at the first poll
   later than one slot time after the last instant at which the station can have seen anything happen" - is
   never reported on a transcript of the MODEL.  The proof tracks last_bus_activity and pending_bytes EXACTLY in the
   waiting states (C12Proofs-style case analysis of poll: await_poll_exact; every entry into a waiting state is a
   transmission that leaves pending_bytes >= the bytes in the buffer: entry_plb) and keeps the simulation LW:
   last_bus_activity <= l_ref of the monitor, the predicted end of the last transmission <= last_bus_activity,
   last_bus_activity is that end or not later than the previous poll, and pending_bytes = buffer length unless the
   monitor's flag l_spur announces a spurious growth.  Under LW a poll that the monitor calls quiet, expired and
   inactive is a poll in which the model looks at the buffer, sees no activity and finds the slot timer run out -
   so it leaves the waiting state (or transmits the next request). *)
Theorem C12_oracle_sound_gap_wait : forall (A : Type) (ops : app_ops A) (p : params),
  apps_total A ops -> builder_valid p -> app_sends_data A ops ->
  forall (apps : list A) (ins : list minput), ins_ok 0 ins ->
  forall k r, In (k, r) (monitor p (length apps) (model_transcript A ops p apps ins)) ->
  r <> R12_gap_wait_never_ends.
Proof. exact c12_oracle_sound_gap_wait. Qed.
Print Assumptions C12_oracle_sound_gap_wait.

(* ORACLE SOUNDNESS OF C12, COMPLETE: for applications that transmit request telegrams NO rule of C12 is reported on
   a transcript of the model (all eleven executable rules R12_* of Model/FdlOracle.v). *)
Theorem C12_oracle_sound : forall (A : Type) (ops : app_ops A) (p : params),
  apps_total A ops -> builder_valid p -> app_sends_data A ops ->
  forall (apps : list A) (ins : list minput), app_sends_requests A ops -> ins_ok 0 ins ->
  forall k r, In (k, r) (monitor p (length apps) (model_transcript A ops p apps ins)) -> rule_prop r <> PC12.
Proof. exact c12_oracle_sound. Qed.
Print Assumptions C12_oracle_sound.

(* ------------------------------------------------------------------------------------------ *)
(* ORACLE SOUNDNESS of the sweep-order / restart monitor (Model/FdlSweep.v: smonitor, sweep_poll, rules
   P12_sweep_order - "while the GAP cursor stays in its polling phase two consecutive GAP requests of the station go
   to consecutive addresses" - and P12_offline_forgets_ring - "the view right after set_offline / new is that of a
   fresh station"; proofs in Proofs/FdlSweepSound.v).  UNCONDITIONAL: every model transcript.

   The monitor state (k0 = state kind of the previous view, last = address of the last own GAP request of the
   current polling phase) is tied to the station by sweep_inv f k0 last :=
     k0 = kind_of (f_state f) /\ forall a0, last = Some a0 -> f_gap f = GapDoPoll a0 /\ f_state f <> Offline.

   (A first version of the monitor kept `last` over a poll that ends Offline and had a false positive - the station
   re-creates itself INSIDE a poll on the second address collision while listening, no API event, cursor back to
   DoPoll{TS}; found while proving this, reproduced on the unmodified crate, witness
   corpus/fdl/sweep-recreated-in-poll.cases; sweep_poll forgets `last` after such a poll now, and
   C12_sweep_monitor_recreated_in_poll is the model transcript of that history, accepted.)

   ONE STEP, all station states satisfying Rep and sweep_inv, all times in range, inputs, total applications:
   whenever a poll of the model returns, the rule is silent on the event the driver builds from it, and Rep, the
   parameters and sweep_inv hold again for the new station and the new monitor state.  No hypothesis on what the
   applications transmit (app_sends_data is NOT needed: a transmission in a poll with a transmitting application
   call is not counted by the monitor, and a GAP request of do_pass_token / do_claim_token never comes with one). *)
From PB Require Import FdlSweep FdlRingSound FdlSweepSound.

Theorem C12_sweep_monitor_step_sound : forall (A : Type) (ops : app_ops A) (p : params), apps_total A ops ->
  forall (f : fdl) (now : Z) (busy : bool) (rxb : bytes) (apps : list A) (f' : fdl) (o : phy_out) (apps' : list A)
         (calls : list call) (k0 : state_kind) (last : option Z),
  Rep (length apps) f -> f_p f = p -> time_ok now -> all_bytes rxb -> sweep_inv f k0 last ->
  poll ops f now (mkPhyIn busy rxb) apps = Ok (f', o, apps', calls) ->
  let s := poll_event now busy rxb f' o calls in
  snd (sweep_poll p k0 last s) = [] /\
  Rep (length apps') f' /\ f_p f' = p /\ sweep_inv f' (v_kind (s_view s)) (fst (sweep_poll p k0 last s)).
Proof. exact sweep_step_sound. Qed.
Print Assumptions C12_sweep_monitor_step_sound.

(* the rule of set_offline / new, one call: the view of the station that set_offline (= FdlActiveStation::new with
   the station's parameters) returns is a fresh view - LAS not valid and = {TS}, NS = PS = TS *)
Theorem C12_offline_view_is_fresh : forall (p : params) (f0 : fdl),
  fdl_new p = Ok f0 -> fresh_view (p_address p) (view_of f0) = true.
Proof. exact fdl_new_fresh. Qed.
Print Assumptions C12_offline_view_is_fresh.

(* HISTORIES.  The monitor as the check runs it (all parameters; it only looks at builder-valid ones), all total
   applications, all admissible input histories (API calls and polls in any order, strictly increasing times in
   range, received bytes are bytes): silent.  Neither builder_valid p nor app_sends_data is needed. *)
Theorem C12_sweep_monitor_sound : forall (A : Type) (ops : app_ops A) (p : params),
  apps_total A ops ->
  forall (apps : list A) (ins : list minput), ins_ok 0 ins ->
  smonitor p (model_transcript A ops p apps ins) = [].
Proof. exact sweep_monitor_sound. Qed.
Print Assumptions C12_sweep_monitor_sound.

(* non-vacuity, computed.  Station 3 alone on the bus, HSA = 5 (GAP = {4, 0, 1, 2}), 120 polls 2 ms apart: it claims
   the token, scans 4 0 1 2 in ClaimToken and then polls 4, 0, 1, 2 in CONSECUTIVE token visits, twice over; the
   monitor accepts. *)
Example C12_sweep_monitor_example_accepted :
  builder_validb ex_sweep_params = true /\
  gap_polls_in KClaimToken 3 ex_sweep_tr = [4; 0; 1; 2] /\
  gap_polls_in KAwaitStatusResponse 3 ex_sweep_tr = [4; 0; 1; 2; 4; 0; 1; 2] /\
  smonitor ex_sweep_params ex_sweep_tr = [].
Proof. exact sweep_example_accepted. Qed.
Print Assumptions C12_sweep_monitor_example_accepted.

(* hand-made events: 4 then 0 (= successor of 4 below HSA 5) is accepted; 4 then 4 again (the cursor thrown back,
   seeded change R5-C12-2) and 4 then 1 (an address skipped) are rejected with P12_sweep_order; a view with a valid
   LAS right after set_offline (R5-C12-1) is rejected with P12_offline_forgets_ring, the fresh view accepted *)
Example C12_sweep_monitor_example_rejected :
  smonitor ex_sweep_params [EApi ApiNew ex_fresh; ex_gap_request 1000 4; ex_gap_request 9000 0] = [] /\
  smonitor ex_sweep_params [EApi ApiNew ex_fresh; ex_gap_request 1000 4; ex_gap_request 9000 4] = [(2%nat, P12_sweep_order)] /\
  smonitor ex_sweep_params [EApi ApiNew ex_fresh; ex_gap_request 1000 4; ex_gap_request 9000 1] = [(2%nat, P12_sweep_order)] /\
  smonitor ex_sweep_params [EApi ApiNew ex_fresh; EApi ApiOnline ex_fresh; EApi ApiOffline ex_stale] = [(2%nat, P12_offline_forgets_ring)] /\
  smonitor ex_sweep_params [EApi ApiNew ex_fresh; EApi ApiOnline ex_fresh; EApi ApiOffline ex_fresh] = [].
Proof. exact sweep_example_rejected. Qed.
Print Assumptions C12_sweep_monitor_example_rejected.

(* the corner of the first version, computed: an admissible input history whose MODEL transcript contains a poll that
   ends Offline out of ListenToken (views 6..8: ActiveIdle, ListenToken, Offline - the station re-created inside the
   poll), with the GAP request to 4 = TS + 1 both before it (post-claim scan) and after the new entry into the ring;
   accepted. *)
Example C12_sweep_monitor_recreated_in_poll :
  builder_validb ex_fp_params = true /\ ins_ok 0 ex_fp_ins /\
  gap_polls_in KClaimToken 3 ex_fp_tr = [4] /\ gap_polls_in KAwaitStatusResponse 3 ex_fp_tr = [4] /\
  firstn 3 (skipn 6 (view_kinds ex_fp_tr)) = [KActiveIdle; KListenToken; KOffline] /\
  smonitor ex_fp_params ex_fp_tr = [].
Proof. exact sweep_recreated_in_poll_accepted. Qed.
Print Assumptions C12_sweep_monitor_recreated_in_poll.
