(* C12 - GAP maintenance polls exactly the own GAP (station-local, one-step part).
   Theorem statements only; every proof is `exact <lemma of Proofs/FdlProofs.v>`.
   Planned on top of the same model (DESIGN 4, not yet proved): C12_one_per_visit, C12_sweep_bound, C12_found_becomes_successor, C12_status_reply_truth. *)
From PB Require Import Common Fdl FdlProofs FdlStepProofs.

(* The next GAP address is always strictly between TS and NS (cyclically) - in particular never the
   station's own address - and below HSA whenever the cursor was; for ALL (TS, NS, HSA, cursor). *)
Theorem C12_next_gap_poll_in_gap : forall (f : fdl) (cur a : Z),
  next_gap_poll f cur = Ok (GapDoPoll a) ->
  in_gap (ts f) (r_ns (f_ring f)) a /\ a <> ts f /\
  (0 <= cur < p_hsa (f_p f) -> 0 <= a < p_hsa (f_p f)).
Proof. exact next_gap_poll_in_gap. Qed.
Print Assumptions C12_next_gap_poll_in_gap.

(* The boolean used by the code (and by the monitor) is the declarative GAP. *)
Theorem C12_in_gapb_spec : forall ts ns a : Z, in_gapb ts ns a = true <-> in_gap ts ns a.
Proof. exact in_gapb_spec. Qed.
Print Assumptions C12_in_gapb_spec.

(* When the sweep ends the wait counter starts at zero. *)
Theorem C12_sweep_end_resets_wait : forall (f : fdl) (cur n : Z),
  next_gap_poll f cur = Ok (GapWaiting n) -> n = 0.
Proof. exact next_gap_poll_waiting. Qed.
Print Assumptions C12_sweep_end_resets_wait.

(* Non-vacuity and the two overrun corners of the property text (defect F1 on the unfixed tree):
   successor found at HSA-1, successor found at TS-1: the sweep ends instead of running on. *)
Example C12_corner_successor_at_hsa_minus_1 :
  forall f, ts f = 7 -> r_ns (f_ring f) = 15 -> p_hsa (f_p f) = 16 -> next_gap_poll f 14 = Ok (GapWaiting 0).
Proof. exact gap_corner_hsa_minus_1. Qed.
Example C12_corner_successor_at_ts_minus_1 :
  forall f, ts f = 7 -> r_ns (f_ring f) = 6 -> p_hsa (f_p f) = 16 -> next_gap_poll f 5 = Ok (GapWaiting 0).
Proof. exact gap_corner_ts_minus_1. Qed.

(* C12_poll_in_gap for the two places that issue GAP requests (the only callers of
   transmit_gap_poll_if_pending).  do_pass_token: the state AwaitStatusResponse{a} is entered only from
   PassToken{do_gap = Yes}, together with a transmission, and a is strictly inside the GAP of the ring
   view the station had on entry; never the own address. *)
Theorem C12_pass_token_polls_in_gap : forall (A : Type) (f : fdl) (now : Z) (w : world A) (f' : fdl) (w' : world A) (a : Z),
  do_pass_token A f now w = Ok (f', w') ->
  f_state f' = AwaitStatusResponse a ->
  in_gap (ts f) (r_ns (f_ring f)) a /\ a <> ts f /\ f_gap f' = GapDoPoll a /\
  w_tx w = None /\ (exists wire, w_tx w' = Some wire) /\
  (exists att, f_state f = PassToken true att).
Proof. exact do_pass_token_gap_poll. Qed.
Print Assumptions C12_pass_token_polls_in_gap.

(* do_claim_token (post-claim scan, including the immediate next request after an unanswered one):
   whenever it newly enters ScanAwaitResponse{a}, a request went out and a is in the GAP. *)
Theorem C12_claim_scan_polls_in_gap : forall (A : Type) (f : fdl) (now : Z) (w : world A) (f' : fdl) (w' : world A) (a : Z),
  do_claim_token A f now w = Ok (f', w') ->
  f_state f' = ClaimToken (StepScanAwaitResponse a) -> f_state f <> f_state f' ->
  in_gap (ts f) (r_ns (f_ring f)) a /\ a <> ts f /\ f_gap f' = GapDoPoll a /\ (exists wire, w_tx w' = Some wire).
Proof. exact do_claim_token_gap_poll. Qed.
Print Assumptions C12_claim_scan_polls_in_gap.
