(* Extraction of the FDL station model and its monitors.  ExtrOcamlBasic only. *)
Require Extraction.
Require ExtrOcamlBasic.
From PB Require Telegram Phy TokenRing Params Fdl FdlOracle FdlPrompt FdlRing FdlSweep StdRates.
Extraction Language OCaml.
Extraction "model_fdl.ml"
  Fdl.poll_traced Fdl.poll Fdl.fdl_new Fdl.set_online Fdl.set_offline Fdl.set_passive
  Fdl.is_in_ring Fdl.kind_of Fdl.have_token Fdl.unit_app_ops Fdl.next_gap_poll Fdl.in_gapb
  TokenRing.las_ones TokenRing.ready_for_ring
  Telegram.decode Telegram.encode_data_in Telegram.encode Telegram.tx_expects_reply
  StdRates.rates_standard_ok StdRates.expects_reply_standard_ok
  FdlPrompt.pmonitor FdlPrompt.prule_prop
  FdlRing.rmonitor FdlRing.rrule_prop
  FdlSweep.smonitor FdlSweep.srule_prop
  FdlOracle.monitor FdlOracle.rule_prop FdlOracle.mon_poll FdlOracle.delivered
  Tables.req_from_byte Tables.resp_state_from_byte Tables.resp_status_from_byte
  Tables.req_to_byte Tables.resp_state_to_byte Tables.resp_status_to_byte
  Params.slot_time Params.token_lost_timeout Params.p_bits_to_time Params.token_rotation_time.
