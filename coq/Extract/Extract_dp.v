(* Extraction of the DP master model, the reference slave, the replay step function and the
   property monitors.  ExtrOcamlBasic only. *)
Require Extraction.
Require ExtrOcamlBasic.
From PB Require Telegram Params Peripheral DpMaster Slave DpRun DpOracle.
Extraction Language OCaml.
Extraction "model_dp.ml"
  DpRun.init_sys DpRun.run_in DpRun.auto_take DpRun.observe DpRun.observe_op DpRun.mkConf DpRun.mkPconf
  DpRun.is_callback
  Peripheral.mkOpts Peripheral.pe_state Peripheral.pe_retry Peripheral.pe_fcb
  DpMaster.dm_slots DpMaster.dm_cycle
  Slave.slave_new Slave.slave_conforming
  Params.mkParams Params.watchdog_factors Params.default_params Params.slot_time
  Tables.all_baudrates Tables.baud_to_rate
  DpTables.pevent_code DpTables.pstate_code DpTables.opstate_code DpTables.all_pevents
  Telegram.decode Telegram.fc_to_byte
  DpOracle.mkStep DpOracle.contract_ok DpOracle.conf_sane DpOracle.c03_monitor DpOracle.c04_monitor
  DpOracle.c07_monitor DpOracle.c08_monitor DpOracle.c14_monitor DpOracle.c07_cycles_needed DpOracle.c07_bound DpOracle.c07_known_f15
  DpOracle.c03_monitor_ra DpOracle.c04_monitor_ra DpOracle.c07_monitor_ra DpOracle.c08_monitor_ra DpOracle.c14_monitor_ra
  DpOracle.ra_sane DpOracle.has_reset DpOracle.conf_after DpOracle.known_reset_while_pending
  DpOracle.c07_monitor_slow DpOracle.c07_no_offline_monitor DpOracle.max_ready_delay DpOracle.c14_silent_none_monitor.
