(* Extraction of the live list / DP scanner models and the C18 oracles. *)
Require Extraction.
Require ExtrOcamlBasic.
From PB Require Telegram ScanBase LiveList Scan ScanOracle ScanTruth.
Extraction Language OCaml.
Extraction "model_scan.ml"
  Telegram.decode Telegram.fc_to_byte
  Tables.resp_state_to_byte
  ScanBase.bs_ones ScanBase.addr_list
  LiveList.ll_new LiveList.ll_run LiveList.ll_abs LiveList.ll_iter_stations
  Scan.sc_new Scan.sc_run Scan.sc_abs Scan.sc_parse
  ScanOracle.cursor_walk ScanOracle.probed ScanOracle.evs_matchb ScanOracle.alt_walk ScanOracle.no_other ScanOracle.no_silent
  ScanOracle.converge_scan ScanOracle.resp_state_eqb ScanOracle.sc_pay_eqb ScanOracle.sweep_polls
  ScanOracle.last_bits ScanTruth.truth_bad ScanTruth.truth_ok ScanTruth.explained.
