(* Extraction of the parameter-block model, the C20 specification/oracles and the known class. *)
Require Extraction.
Require ExtrOcamlBasic.
From PB Require PrmTables Prm PrmOracle.
Extraction Language OCaml.
Extraction "model_prm.ml"
  PrmTables.dt_size PrmTables.dt_int
  Prm.write_value Prm.prm_new Prm.set_prm Prm.set_prm_from_text Prm.step Prm.run Prm.as_bytes Prm.find_ref
  PrmOracle.overlay PrmOracle.spec_write PrmOracle.spec_expect PrmOracle.in_type_range
  PrmOracle.known_write PrmOracle.known_new
  PrmOracle.c20_new_ok PrmOracle.c20_step_ok PrmOracle.c20_step_known PrmOracle.c20_step_known_ok
  PrmOracle.covers PrmOracle.wf_consts.
