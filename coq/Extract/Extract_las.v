(* Extraction of the token-ring (LAS) model and the C02 oracles. *)
Require Extraction.
Require ExtrOcamlBasic.
From PB Require TokenRing LasOracle.
Extraction Language OCaml.
Extraction "model_las.ml"
  TokenRing.ring_new TokenRing.step TokenRing.run TokenRing.observe TokenRing.witness
  LasOracle.c02_nsps_ok LasOracle.c02_step_ok LasOracle.c02_monitor LasOracle.only_witness
  LasOracle.c02_disc_shape LasOracle.c02_discovery_ok LasOracle.c02_nopanic_dom LasOracle.obs_eqb
  LasOracle.rotation.
