(* Extraction of the bus-trace monitors (bus-level halves of C01 / C02 / C06 / C13). *)
Require Extraction.
Require ExtrOcamlBasic.
From PB Require Bus BusOracle.
Extraction Language OCaml.
Extraction "model_bus.ml"
  Tables.all_baudrates Bus.mkTx Bus.mkCfg Bus.mkView Bus.scale Bus.rate Bus.start_sc Bus.end_sc Bus.tel_of
  Bus.passes Bus.visits Bus.w0 Bus.w_step Bus.t_conv_bits Bus.t_rec_bits Bus.t_lost_bits
  Bus.c13_C_bits Bus.c13_O_bits
  BusOracle.c01_no_overlap_b BusOracle.c01_idle_b BusOracle.c01_who_b BusOracle.who_first_bad
  BusOracle.who_classes BusOracle.classify BusOracle.c01_cut
  BusOracle.c02_rot_b BusOracle.view_okb BusOracle.window BusOracle.clean_suffix
  BusOracle.c13_hold_b BusOracle.c13_bound_b BusOracle.c13_served_b BusOracle.c13_bound_sc
  BusOracle.sc_bits BusOracle.collisions BusOracle.succ_in BusOracle.two_self_holders_b.
