(* Extraction of the GSD interpretation model and the shape checker (domain gsd, property C19). *)
Require Extraction.
Require ExtrOcamlBasic.
From PB Require GsdGrammar GsdTables GsdInterp GsdShape GsdRender Peg.
Extraction Language OCaml.
Extraction "model_gsd.ml"
  GsdGrammar.all_rules GsdGrammar.rule_name GsdGrammar.grammar
  GsdTables.all_nfields GsdTables.all_sfields GsdTables.all_bfields GsdTables.setting_table
  GsdInterp.interp GsdInterp.to_res
  GsdShape.shapeb GsdShape.tree_size GsdShape.child_rx GsdShape.implicit_silent
  GsdRender.decode_settings GsdRender.settings_tree GsdRender.settings_okb GsdRender.tree_eqb
  GsdRender.decode_file GsdRender.file_okb GsdRender.file_says GsdRender.file_tree
  GsdRender.ids_unique GsdRender.modules_first GsdRender.set_targets GsdRender.sets_of GsdRender.nodupb
  Peg.peg_parse.
