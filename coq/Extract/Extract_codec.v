(* Extraction of the executable models and oracles.  ExtrOcamlBasic only: bool, option,
   unit, list, prod, sumbool map to OCaml's; numbers stay Coq's positive/N/Z/nat. *)
Require Extraction.
Require ExtrOcamlBasic.
From PB Require Telegram CodecOracle.
Extraction Language OCaml.
Extraction "model_codec.ml"
  Telegram.decode Telegram.encode_data_in Telegram.encode Telegram.fc_from_byte Telegram.fc_to_byte
  Telegram.tx_expects_reply Telegram.telegram_len Telegram.all_fcodes
  Tables.req_from_byte Tables.resp_state_from_byte Tables.resp_status_from_byte
  Tables.req_to_byte Tables.resp_state_to_byte Tables.resp_status_to_byte
  CodecOracle.c09_domainb CodecOracle.c09_fc_ok CodecOracle.c09_enc_ok CodecOracle.c09_tok_ok
  CodecOracle.c09_sc_ok CodecOracle.c10_dec_ok CodecOracle.c10_mut_ok CodecOracle.subst.
