(* Extraction of the FDL station with the real applications attached (Model/AppsGlue.v).  ExtrOcamlBasic only. *)
Require Extraction.
Require ExtrOcamlBasic.
From PB Require Telegram Params Fdl Peripheral DpMaster ScanBase LiveList Scan AppsGlue.
Extraction Language OCaml.
Extraction "model_apps.ml"
  AppsGlue.any_app_ops AppsGlue.dp_app_ops AppsGlue.ll_app_ops AppsGlue.sc_app_ops
  Fdl.poll Fdl.fdl_new Fdl.set_online Fdl.set_offline Fdl.kind_of
  DpMaster.dp_new DpMaster.dp_add DpMaster.dp_enter_state DpMaster.dp_take_last_events DpMaster.slot
  Peripheral.periph_new Peripheral.mkOpts Peripheral.is_live Peripheral.is_running Peripheral.pe_pi_i
  LiveList.ll_new LiveList.ll_take LiveList.ll_stations
  Scan.sc_new Scan.sc_take Scan.sc_stations
  Params.mkParams Params.slot_time
  Tables.all_baudrates Tables.resp_state_to_byte Tables.default_min_tsdr_bits
  DpTables.pevent_code DpTables.opstate_code
  Telegram.decode.
