(* Extraction of the receive-path models and the C16 oracles (domain phyrx). *)
Require Extraction.
Require ExtrOcamlBasic.
From PB Require Telegram Phy SimBus PhyRx PhyRxOracle.
Extraction Language OCaml.
Extraction "model_phyrx.ml"
  Telegram.decode Telegram.encode Telegram.fc_from_byte Telegram.fc_to_byte Telegram.telegram_len
  Tables.req_from_byte Tables.resp_state_from_byte Tables.resp_status_from_byte
  Tables.req_to_byte Tables.resp_state_to_byte Tables.resp_status_to_byte Tables.all_baudrates Tables.baud_to_rate
  PhyRx.poll_all PhyRx.poll_single PhyRx.run_polls PhyRx.run_sim PhyRx.sim_init PhyRx.stream
  PhyRxOracle.valid_telegramb PhyRxOracle.obs_of PhyRxOracle.c16_case_ok PhyRxOracle.c16_resyncs
  PhyRxOracle.c16_clean_ok PhyRxOracle.c16_sim_walk PhyRxOracle.sim_mon_init PhyRxOracle.frame_len.
