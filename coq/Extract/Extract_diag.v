(* Extraction of the diagnostics model and the C17 oracles (domain `diag`). *)
Require Extraction.
Require ExtrOcamlBasic.
From PB Require Diag DiagOracle.
Extraction Language OCaml.
Extraction "model_diag.ml"
  Diag.parse_diag Diag.ext_default Diag.ext_from_buffer Diag.ext_cap Diag.ext_fill Diag.ext_raw
  Diag.blocks Diag.ext_blocks Diag.ext_debug Diag.ident_ones Diag.decode_channel
  Diag.pstate_init Diag.diag_reply Diag.scan_reply
  DiagTables.blk_len0_guard
  DiagOracle.c17_header_ok DiagOracle.c17_fill_ok DiagOracle.c17_tiles_ok DiagOracle.c17_ones_ok
  DiagOracle.c17_reply_ok DiagOracle.c17_scan_ok DiagOracle.ext_visible DiagOracle.reply_accepted.
