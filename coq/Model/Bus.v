(* Bus-level (multi-station) layer: bus traces and the DECLARATIVE predicates of the bus-level
   halves of C01 / C02 / C06 / C13.  A bus trace is the list of transmissions on the shared medium
   in the order in which they were handed to the PHYs; the harness domain `bus` records it from N
   real FdlActiveStations (harness/src/bus.rs).  The executable monitors are in BusOracle.v, their
   soundness w.r.t. the predicates of this file in Proofs/BusProofs.v.  No proofs here.

   Time.  The harness reports times in microseconds (the stack's clock).  All comparisons are exact:
   the driver turns the trace into a SCALED trace once (`scale`: every time multiplied by the bit
   rate, unit = microsecond * bit/s) and a number of bit times n is compared as n * 10^6, so that
   no rounding enters the monitors; "up to the 1 us clock resolution" of the property text is the
   explicit slack `rate c` (= 1 us, scaled). *)
From PB Require Export Common Telegram Params Rotation.

Record btx : Set := mkTx {
  tx_sender : Z;       (* address of the station that transmitted *)
  tx_start : Z;        (* time of the poll in which the bytes were handed to the PHY *)
  tx_online : Z;       (* time of the first poll of the sender after it (last) went online *)
  tx_bytes : bytes }.
Definition trace := list btx.

Record buscfg : Set := mkCfg {
  c_baud : baudrate;
  c_slot : Z;          (* Tslot in bits *)
  c_hsa : Z;
  c_gap : Z;           (* gap_wait_rotations *)
  c_ttr : Z;           (* TTR in bits *)
  c_n : Z;             (* number of configured stations *)
  c_msg : Z;           (* 11 * (longest request + longest reply), bits; 0 without applications *)
  c_apps : bool }.     (* some station has a traffic-generating application *)

Definition rate (c : buscfg) : Z := baud_to_rate (c_baud c).
Definition M : Z := 1000000.

(* The harness reports times in microseconds.  `scale` turns such a trace into a SCALED trace
   (tx_start and tx_online multiplied by the bit rate, once); every predicate and monitor below is
   about scaled traces. *)
Definition scale_tx (c : buscfg) (x : btx) : btx :=
  mkTx (tx_sender x) (tx_start x * rate c) (tx_online x * rate c) (tx_bytes x).
Definition scale (c : buscfg) (tr : trace) : trace := map (scale_tx c) tr.

Definition start_sc (x : btx) : Z := tx_start x.
Definition dur_sc (x : btx) : Z := 11 * Zlen (tx_bytes x) * M.
Definition end_sc (x : btx) : Z := start_sc x + dur_sc x.

(* ------------------------------------------------------------------ what a transmission is *)

(* exactly one decodable telegram *)
Definition tel_of (x : btx) : option telegram :=
  match decode (tx_bytes x) with
  | Ok (Accept t n) => if Nat.eqb n (length (tx_bytes x)) then Some t else None
  | _ => None
  end.

(* x is a request that expects a reply from station d; result: the requester *)
Definition request_to (x : btx) (d : Z) : option Z :=
  match tel_of x with
  | Some (TData h _) =>
      match h_fc h with
      | FcRequest _ r => if req_expects_reply r && (h_da h =? d) then Some (h_sa h) else None
      | FcResponse _ _ => None
      end
  | _ => None
  end.

(* y is the reply of its sender to the request x *)
Definition is_reply_to (x y : btx) : bool :=
  match request_to x (tx_sender y) with
  | None => false
  | Some rq =>
      match tel_of y with
      | Some TShortConf => true
      | Some (TData h _) =>
          match h_fc h with
          | FcResponse _ _ => (h_sa h =? tx_sender y) && (h_da h =? rq)
          | FcRequest _ _ => false
          end
      | _ => false
      end
  end.

Definition is_claim (y : btx) : bool :=
  match tel_of y with Some (TToken da sa) => (da =? tx_sender y) && (sa =? tx_sender y) | _ => false end.

(* ------------------------------------------------------------------ C01: overlap and idle times *)

Definition disjoint (a b : Z * Z) : Prop := snd a <= fst b \/ snd b <= fst a.
Definition interval (x : btx) : Z * Z := (start_sc x, end_sc x).

Definition no_overlap (tr : trace) : Prop :=
  forall i j x y, i <> j -> nth_error tr i = Some x -> nth_error tr j = Some y ->
  disjoint (interval x) (interval y).

(* the transmission before position j *)
Definition prev_of (tr : trace) (j : nat) : option btx :=
  match j with O => None | S k => nth_error tr k end.

(* idle time a transmission has to leave (scaled): min Tsdr = 11 bit for the reply to the request
   that precedes it, the synchronisation pause of 33 bit for everything else *)
Definition idle_need (prev : option btx) (y : btx) : Z :=
  match prev with
  | Some x => if is_reply_to x y then 11 * M else 33 * M
  | None => 33 * M
  end.

(* every transmission starts at least its idle time (minus 1 us) after the END OF EVERY EARLIER
   transmission of the trace *)
Definition idle_times (c : buscfg) (tr : trace) : Prop :=
  forall i j x y, (i < j)%nat -> nth_error tr i = Some x -> nth_error tr j = Some y ->
  end_sc x + idle_need (prev_of tr j) y <= start_sc y + rate c.

(* ------------------------------------------------------------------ C01: who may transmit *)

Inductive tx_class : Set := ClHolder | ClPass | ClRetry | ClReply | ClClaim.

(* abstract state of the medium derived from a trace prefix: who holds the token (entitled to
   initiate), the last transmission, the latest end of a transmission (scaled) *)
Record wstate : Set := mkW { w_holder : option Z; w_prev : option btx; w_maxend : option Z }.
Definition w0 : wstate := mkW None None None.

(* Ttimeout of the property text: 6 Tslot + 2 * address * Tslot (the STANDARD's values, not read
   from the code: a changed factor in parameters.rs must be reported, not followed) *)
Definition t_lost_bits (c : buscfg) (a : Z) : Z := c_slot c * (6 + 2 * a).

(* the medium has been silent for `bits` before y starts (up to 1 us) *)
Definition silent_for (c : buscfg) (st : wstate) (y : btx) (bits : Z) : Prop :=
  forall m, w_maxend st = Some m -> m + bits * M <= start_sc y + rate c.
(* the sender has been listening for `bits` *)
Definition online_for (c : buscfg) (y : btx) (bits : Z) : Prop :=
  tx_online y + bits * M <= start_sc y + rate c.

Inductive justified (c : buscfg) (st : wstate) (y : btx) : tx_class -> Prop :=
| J_holder : forall h pdu f r,         (* a request / SDN of the token holder *)
    tel_of y = Some (TData h pdu) -> h_sa h = tx_sender y -> h_fc h = FcRequest f r ->
    w_holder st = Some (tx_sender y) -> justified c st y ClHolder
| J_pass : forall da,                  (* the token holder passes the token *)
    tel_of y = Some (TToken da (tx_sender y)) -> w_holder st = Some (tx_sender y) ->
    justified c st y ClPass
| J_retry : forall da x da',           (* retry of the own token pass: nothing else in between, a slot time of silence *)
    tel_of y = Some (TToken da (tx_sender y)) ->
    w_prev st = Some x -> tx_sender x = tx_sender y -> tel_of x = Some (TToken da' (tx_sender y)) ->
    silent_for c st y (c_slot c) -> justified c st y ClRetry
| J_reply : forall x,                  (* answer to the request, addressed to the sender, that precedes it *)
    w_prev st = Some x -> is_reply_to x y = true -> justified c st y ClReply
| J_claim :                            (* claim after the station's own silence time-out *)
    tel_of y = Some (TToken (tx_sender y) (tx_sender y)) ->
    silent_for c st y (t_lost_bits c (tx_sender y)) -> online_for c y (t_lost_bits c (tx_sender y)) ->
    justified c st y ClClaim.

(* token holder after y: a token telegram hands it to its destination, everything else leaves it *)
Definition holder_after (st : wstate) (y : btx) : option Z :=
  match tel_of y with
  | Some (TToken da _) => Some da
  | _ => w_holder st
  end.
Definition w_step (st : wstate) (y : btx) : wstate :=
  mkW (holder_after st y) (Some y)
      (Some (match w_maxend st with None => end_sc y | Some m => Z.max m (end_sc y) end)).
Definition w_after (tr : trace) : wstate := fold_left w_step tr w0.

Definition who_may_transmit (c : buscfg) (tr : trace) : Prop :=
  forall k y, nth_error tr k = Some y -> exists cl, justified c (w_after (firstn k tr)) y cl.

(* The excluded cold-start claim race (DESIGN section 5), made precise on the trace: two claim
   telegrams of DIFFERENT stations, adjacent in the trace, the second starting less than one
   character time (11 bit) after the first - its sender cannot have received a single byte of the
   first -, each sent after its sender's own silence time-out, and at least one of the two stations
   has been online for less time than the medium has been silent (its timer runs from its own
   start, not from an event both have seen: "unsynchronised"). *)
Definition unsynchronised (st : wstate) (y : btx) : Prop :=
  forall m, w_maxend st = Some m -> m < tx_online y.
Definition claim_race (c : buscfg) (st : wstate) (x y : btx) : Prop :=
  is_claim x = true /\ is_claim y = true /\ tx_sender x <> tx_sender y /\
  start_sc x <= start_sc y < start_sc x + 11 * M /\
  silent_for c st x (t_lost_bits c (tx_sender x)) /\ online_for c x (t_lost_bits c (tx_sender x)) /\
  silent_for c st y (t_lost_bits c (tx_sender y)) /\ online_for c y (t_lost_bits c (tx_sender y)) /\
  (unsynchronised st x \/ unsynchronised st y).

(* Finding F20 (earlier F12 of the bus layer: a token hand-over took THREE polls of a receiver that has
   nothing to send, so that for 3 P + 44 bit >= Tslot the previous holder's retry collided) is repaired in
   the crate: the receiver passes the token in the poll that finds nothing to send, the hand-over takes
   two polls (2 P + 44 bit <= Tslot for every P <= Tslot/4 and Tslot >= 100 bit).  There is no known
   class for it any more; corpus/bus/f20.cases are regression witnesses that must pass. *)

(* ------------------------------------------------------------------ C02 / C06: rotations *)

(* token passes (SA, DA) of a trace, in order *)
Definition pass_of (x : btx) : option (Z * Z) :=
  match tel_of x with Some (TToken da sa) => Some (sa, da) | _ => None end.
Fixpoint passes (tr : trace) : list (Z * Z) :=
  match tr with
  | [] => []
  | x :: r => match pass_of x with Some p => p :: passes r | None => passes r end
  end.

(* The token passes form rotations of the population S (ascending list of the online stations):
   from some position k0 of S on, pass number i goes from the (k0+i)-th to the (k0+i+1)-th member,
   cyclically: every member once per rotation, in ascending address order, nobody else. *)
Definition rotations_of (S : list Z) (ps : list (Z * Z)) : Prop :=
  ps = [] \/
  exists k0, forall i sa da, nth_error ps i = Some (sa, da) ->
    nth_error S ((k0 + i) mod length S) = Some sa /\
    nth_error S ((k0 + i + 1) mod length S) = Some da.

(* KNOWN FINDING F13 (status finding): two stations that each believe to be alone in the ring (both
   pass the token to themselves) keep colliding for ever when the medium delivers collided bytes as
   garbage: neither reads back what it sent, each takes the garbage tail of the other's
   transmission as bus activity and waits its idle time from the same instant, so they stay in
   lock-step.  Signature on the trace: token telegrams X -> X of two different stations X. *)
Definition two_self_holders (ps : list (Z * Z)) : Prop :=
  exists a b, a <> b /\ In (a, a) ps /\ In (b, b) ps.

(* a sampled view of one station agrees with the population *)
Record view : Set := mkView {
  v_addr : Z; v_in_ring : bool; v_las : list Z; v_ns : Z; v_ps : Z }.
Definition cyc_succ (S : list Z) (a d : Z) : Prop :=
  exists k, nth_error S k = Some a /\ nth_error S ((k + 1) mod length S) = Some d.
Definition view_agrees (S : list Z) (v : view) : Prop :=
  v_in_ring v = true /\ v_las v = S /\ cyc_succ S (v_addr v) (v_ns v) /\ cyc_succ S (v_ps v) (v_addr v).

(* DESIGN 5.4, in bits.  T_rot = N (3 Tslot + 400) + traffic, where traffic = 0 without
   applications and TTR + N * c13_C otherwise (the rotation bound of C13). *)
Definition c13_C_bits (c : buscfg) : Z := c_msg c + 4 * c_slot c + 300.
Definition c13_O_bits : Z := 33.
Definition traffic_bits (c : buscfg) : Z :=
  if c_apps c then c_ttr c + c_n c * (c13_C_bits c + c13_O_bits) else 0.
Definition t_rot_bits (c : buscfg) : Z := c_n c * (3 * c_slot c + 400) + traffic_bits c.
Definition t_conv_bits (c : buscfg) : Z :=
  (c_hsa c + 3 * c_n c + 6) * (c_gap c + 2) * t_rot_bits c + 2 * t_lost_bits c (c_hsa c - 1).
(* recovery bound of C06: the same function of T_lost(HSA-1), HSA and the gap factor *)
Definition t_rec_bits (c : buscfg) : Z := t_conv_bits c.

(* ------------------------------------------------------------------ C13: visits and the hold rule *)

(* a visit = one token telegram of a stable ring: (start, end), scaled.  The token ARRIVES at the
   end of the telegram; it is HELD until the next token telegram starts. *)
Definition visit := (Z * Z)%type.
Definition visit_of (x : btx) : option visit :=
  match pass_of x with Some _ => Some (start_sc x, end_sc x) | None => None end.
Fixpoint visits (tr : trace) : list visit :=
  match tr with
  | [] => []
  | x :: r => match visit_of x with Some v => v :: visits r | None => visits r end
  end.

Definition v_end (vs : list visit) (v : nat) : Z := snd (nth v vs (0, 0)).
Definition v_start (vs : list visit) (v : nat) : Z := fst (nth v vs (0, 0)).

(* the rotation trace (Model/Rotation.v) of a list of visits of a ring of n stations; constant
   after the last visit *)
Definition rt_of (n : nat) (vs : list visit) : rotation_trace :=
  mkTrace n
    (fun v => v_end vs (Nat.min v (length vs - 1)))
    (fun v => if Nat.ltb (S v) (length vs) then v_start vs (S v) - v_end vs v else 0)
    (fun v => if Nat.ltb (S v) (length vs) then v_end vs (S v) - v_start vs (S v) else 0).

(* the conclusion of C13 on the visits: every station has the token back within TTR + N (C + O) *)
Definition rotation_bounded (n : nat) (vs : list visit) (TTR C O : Z) : Prop :=
  forall v, (n <= v)%nat -> (v + n < length vs)%nat ->
  v_end vs (v + n) - v_end vs v <= TTR + Z.of_nat n * (C + O).
