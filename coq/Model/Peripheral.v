(* Model of src/dp/peripheral.rs: one DP peripheral as seen by the DP master.
   - PeripheralOptions, DiagnosticsInfo, the ExtendedDiagnostics buffer (src/dp/diagnostics.rs: fill,
     raw_diag_buffer), the Peripheral record and its public getters;
   - Peripheral::transmit_telegram  = p_transmit   (which request is sent in which state, retry counter,
     Offline detection), requests are produced as (header, pdu) and serialised by DpMaster.v with the
     Telegram model;
   - Peripheral::receive_reply      = p_receive_reply (reply handling per state, events, process image);
   - handle_diagnostics_response    = p_handle_diag.
   The model is of the code AFTER the fixes F6 (frame count bit reset on retry exhaustion), F10 (the kind
   of request in flight is latched in `pe_diag_in_flight` when a new request starts), F12 (a diagnostics reply
   during data exchange that carries Prm_Req restarts the bring-up) F13 (ValidateConfig keeps the retry
   counter when the reply is not a diagnostics reply) and F14 (an unanswered probe of an offline peripheral
   resets the frame count bit).
   Every panic site of the Rust code is explicit: debug_assert on the operating state, u8 overflow of the
   retry counter, FrameCountBit::cycle on Inactive, is_response().unwrap(), unreachable!() on a token
   telegram, copy_from_slice length mismatch.  Tables and constants come from Generated/DpTables.v.
   No proofs here. *)
From PB Require Export Common Consts Tables DpTables Telegram Params.

(* ------------------------------------------------------------------ data *)

(* PeripheralOptions *)
Record poptions : Set := mkOpts {
  o_ident : Z;                    (* ident_number : u16 *)
  o_sync : bool;
  o_freeze : bool;
  o_groups : Z;                   (* u8 *)
  o_max_tsdr : Z;                 (* u16, only used by ParametersBuilder::build_verified *)
  o_fail_safe : bool;             (* unused by the code *)
  o_user_prm : option bytes;      (* user_parameters *)
  o_config : option bytes }.

Definition default_options : poptions := mkOpts 0 false false 0 0 false None None.

(* DiagnosticsInfo: flags (u16, PERMANENT_BIT already removed), ident, master address *)
Record diaginfo : Set := mkDiag { d_flags : Z; d_ident : Z; d_master : option Z }.

(* ExtendedDiagnostics: a buffer of x_size bytes of which the first `length x_data` are valid *)
Record extdiag : Set := mkExt { x_size : nat; x_data : bytes }.
Definition ext_default : extdiag := mkExt 0 [].

(* ExtendedDiagnostics::fill *)
Definition ext_fill (x : extdiag) (buf : bytes) : extdiag * bool :=
  if Nat.eqb (x_size x) 0 then (x, false)
  else if Nat.ltb (x_size x) (length buf) then (x, false)
  else (mkExt (x_size x) buf, true).

(* ExtendedDiagnostics::raw_diag_buffer *)
Definition ext_raw (x : extdiag) : option bytes :=
  if Nat.eqb (x_size x) 0 then None else Some (x_data x).

Record periph : Set := mkPeriph {
  pe_addr : Z;                    (* address : u8 *)
  pe_state : pstate;
  pe_retry : Z;                   (* retry_count : u8 *)
  pe_fcb : fcbit;
  pe_pi_i : bytes;
  pe_pi_q : bytes;
  pe_diag : option diaginfo;
  pe_ext : extdiag;
  pe_diag_needed : bool;
  pe_diag_in_flight : bool;       (* F10 fix: the request in flight is a diagnostics request *)
  pe_opts : poptions }.

(* Peripheral::new(address, options, pi_i, pi_q).with_diag_buffer(size) *)
Definition periph_new (a : Z) (o : poptions) (pi_i pi_q : bytes) (diag_size : nat) : periph :=
  mkPeriph a pstate_default 0 fcbit_default pi_i pi_q None (mkExt diag_size []) false false o.

Definition set_state (p : periph) (s : pstate) : periph :=
  mkPeriph (pe_addr p) s (pe_retry p) (pe_fcb p) (pe_pi_i p) (pe_pi_q p) (pe_diag p) (pe_ext p)
           (pe_diag_needed p) (pe_diag_in_flight p) (pe_opts p).
Definition set_retry (p : periph) (r : Z) : periph :=
  mkPeriph (pe_addr p) (pe_state p) r (pe_fcb p) (pe_pi_i p) (pe_pi_q p) (pe_diag p) (pe_ext p)
           (pe_diag_needed p) (pe_diag_in_flight p) (pe_opts p).
Definition set_fcb (p : periph) (f : fcbit) : periph :=
  mkPeriph (pe_addr p) (pe_state p) (pe_retry p) f (pe_pi_i p) (pe_pi_q p) (pe_diag p) (pe_ext p)
           (pe_diag_needed p) (pe_diag_in_flight p) (pe_opts p).
Definition set_pi_i (p : periph) (d : bytes) : periph :=
  mkPeriph (pe_addr p) (pe_state p) (pe_retry p) (pe_fcb p) d (pe_pi_q p) (pe_diag p) (pe_ext p)
           (pe_diag_needed p) (pe_diag_in_flight p) (pe_opts p).
Definition set_pi_q (p : periph) (d : bytes) : periph :=
  mkPeriph (pe_addr p) (pe_state p) (pe_retry p) (pe_fcb p) (pe_pi_i p) d (pe_diag p) (pe_ext p)
           (pe_diag_needed p) (pe_diag_in_flight p) (pe_opts p).
Definition set_diag (p : periph) (d : option diaginfo) (x : extdiag) : periph :=
  mkPeriph (pe_addr p) (pe_state p) (pe_retry p) (pe_fcb p) (pe_pi_i p) (pe_pi_q p) d x
           (pe_diag_needed p) (pe_diag_in_flight p) (pe_opts p).
Definition set_diag_needed (p : periph) (b : bool) : periph :=
  mkPeriph (pe_addr p) (pe_state p) (pe_retry p) (pe_fcb p) (pe_pi_i p) (pe_pi_q p) (pe_diag p) (pe_ext p)
           b (pe_diag_in_flight p) (pe_opts p).
Definition set_diag_in_flight (p : periph) (b : bool) : periph :=
  mkPeriph (pe_addr p) (pe_state p) (pe_retry p) (pe_fcb p) (pe_pi_i p) (pe_pi_q p) (pe_diag p) (pe_ext p)
           (pe_diag_needed p) b (pe_opts p).

(* public getters *)
Definition is_live (p : periph) : bool := pstate_is_live (pe_state p).
Definition is_running (p : periph) : bool := pstate_is_running (pe_state p).
(* last_diagnostics(): flags, ident, master address, raw extended diagnostics *)
Definition last_diagnostics (p : periph) : option (diaginfo * option bytes) :=
  match pe_diag p with Some d => Some (d, ext_raw (pe_ext p)) | None => None end.
(* request_diagnostics() *)
Definition p_request_diagnostics (p : periph) : periph := set_diag_needed p true.

(* ------------------------------------------------------------------ helpers *)

Definition flags_contains (f m : Z) : bool := Z.land f m =? m.
Definition flags_remove (f m : Z) : Z := Z.ldiff f m.

(* FrameCountBit::cycle, panics on Inactive *)
Definition fcb_cycle (f : fcbit) : res fcbit :=
  match fcbit_cycle f with Some f' => Ok f' | None => Panic SiteFcbCycle end.

(* dst.copy_from_slice(src): panics unless the lengths agree *)
Definition copy_from_slice (dst src : bytes) : res bytes :=
  if Nat.eqb (length dst) (length src) then Ok src else Panic SiteIndex.

Definition srd_req (high : bool) : req_type := if high then RqSrdHigh else RqSrdLow.

Definition opstate_eqb (a b : opstate) : bool := opstate_code a =? opstate_code b.
Definition pstate_eqb (a b : pstate) : bool := pstate_code a =? pstate_code b.
Definition pevent_eqb (a b : pevent) : bool := pevent_code a =? pevent_code b.

(* ------------------------------------------------------------------ request construction *)

(* result of Peripheral::transmit_telegram: Ok(tx response) = a request was written;
   Err((tx, event)) = nothing to send, possibly an event *)
Inductive ptx : Set :=
| PtxSend (h : header) (pdu : bytes)
| PtxSkip (ev : option pevent).

(* send_diagnostics_request: Slave_Diag, empty PDU *)
Definition diag_request (pa : params) (p : periph) : ptx :=
  PtxSend (mkHeader (pe_addr p) (p_address pa) dp_diag_dsap dp_diag_ssap
                    (FcRequest (pe_fcb p) (srd_req dp_diag_high))) [].

(* Set_Prm PDU: station status, watchdog factors, min Tsdr, ident (big endian), groups, user prm *)
Definition set_prm_pdu (pa : params) (o : poptions) (user : bytes) : bytes :=
  let status :=
    Z.lor (Z.lor (Z.lor dp_prm_lock_req (if o_sync o then dp_prm_sync_req else 0))
                 (if o_freeze o then dp_prm_freeze_req else 0))
          (match p_watchdog pa with Some _ => dp_prm_wd_on | None => 0 end) in
  let f1 := match p_watchdog pa with Some (f1, _) => f1 | None => 0 end in
  let f2 := match p_watchdog pa with Some (_, f2) => f2 | None => 0 end in
  [status; f1; f2; p_min_tsdr_bits pa; o_ident o / 256; o_ident o mod 256; o_groups o] ++ user.

Definition prm_request (pa : params) (p : periph) (user : bytes) : ptx :=
  PtxSend (mkHeader (pe_addr p) (p_address pa) dp_prm_dsap dp_prm_ssap
                    (FcRequest (pe_fcb p) (srd_req dp_prm_high)))
          (set_prm_pdu pa (pe_opts p) user).

Definition cfg_request (pa : params) (p : periph) (cfg : bytes) : ptx :=
  PtxSend (mkHeader (pe_addr p) (p_address pa) dp_cfg_dsap dp_cfg_ssap
                    (FcRequest (pe_fcb p) (srd_req dp_cfg_high))) cfg.

(* Data_Exchange: the output image in Operate, zeros of the same length otherwise (Clear) *)
Definition dx_pdu (op : opstate) (p : periph) : bytes :=
  if opstate_eqb op OpOperate then pe_pi_q p else repeat 0 (length (pe_pi_q p)).

Definition dx_request (pa : params) (op : opstate) (p : periph) : ptx :=
  PtxSend (mkHeader (pe_addr p) (p_address pa) dp_dx_dsap dp_dx_ssap
                    (FcRequest (pe_fcb p) (srd_req dp_dx_high))) (dx_pdu op p).

(* the `match self.state` of transmit_telegram, without the retry bookkeeping that follows it *)
Definition p_transmit_select (pa : params) (op : opstate) (p : periph) : periph * ptx :=
  if dp_retry_exhausted (pe_retry p) (p_max_retry pa) then
    (* F6 fix: self.fcb.reset() *)
    (set_state (set_fcb p fcbit_reset) PsOffline, PtxSkip (Some EvOffline))
  else
    match pe_state p with
    | PsOffline =>
        if pe_retry p =? dp_offline_probe_retry then (p, diag_request pa p)
        else
          (* F14 fix: the probe went unanswered, the next one is a first request again *)
          (set_fcb p fcbit_reset, PtxSkip None)
    | PsWaitForParam =>
        match o_user_prm (pe_opts p) with
        | Some user => (p, prm_request pa p user)
        | None => (p, PtxSkip None)
        end
    | PsWaitForConfig =>
        match o_config (pe_opts p) with
        | Some cfg => (p, cfg_request pa p cfg)
        | None => (p, PtxSkip None)
        end
    | PsValidateConfig => (p, diag_request pa p)
    | PsDataExchange | PsPreDataExchange =>
        (* F10 fix: a new request (retry_count == 0) latches which service is sent; a
           retransmission repeats the latched one *)
        let p1 := if pe_retry p =? 0 then set_diag_in_flight p (pe_diag_needed p) else p in
        if pe_diag_in_flight p1 then (p1, diag_request pa p1) else (p1, dx_request pa op p1)
    end.

(* Peripheral::transmit_telegram *)
Definition p_transmit (pa : params) (op : opstate) (p : periph) : res (periph * ptx) :=
  (* debug_assert!(operating_state.is_operate() || operating_state.is_clear()) *)
  if opstate_eqb op OpStop then Panic SiteAssert else
  let (p1, r) := p_transmit_select pa op p in
  match r with
  | PtxSend _ _ =>
      (* self.retry_count += 1 on a u8 *)
      if 255 <=? pe_retry p1 then Panic SiteArith else Ok (set_retry p1 (pe_retry p1 + 1), r)
  | PtxSkip _ => Ok (set_retry p1 0, r)
  end.

(* ------------------------------------------------------------------ reply handling *)

(* handle_diagnostics_response: Some diag = accepted (frame count bit cycled, diag stored) *)
Definition p_handle_diag (p : periph) (t : telegram) : res (periph * option diaginfo) :=
  match t with
  | TData h pdu =>
      if negb (opt_eqb (h_dsap h) dp_diag_reply_dsap) then Ok (p, None) else
      if negb (opt_eqb (h_ssap h) dp_diag_reply_ssap) then Ok (p, None) else
      if Nat.ltb (length pdu) dp_diag_min_len then Ok (p, None) else
      let* b0 := get pdu 0 in
      let* b1 := get pdu 1 in
      let* bm := get pdu dp_diag_master_pos in
      let* b4 := get pdu 4 in
      let* b5 := get pdu 5 in
      let master := if bm =? dp_diag_no_master then None else Some bm in
      let flags := flags_remove (b0 + 256 * b1) DF_PERMANENT_BIT in
      let d := mkDiag flags (256 * b4 + b5) master in
      let* x := (if flags_contains flags DF_EXT_DIAG
                 then let* tail := slice_from pdu 6 in Ok (fst (ext_fill (pe_ext p) tail))
                 else Ok (pe_ext p)) in
      let* f := fcb_cycle (pe_fcb p) in
      Ok (set_diag (set_fcb p f) (Some d) x, Some d)
  | _ => Ok (p, None)
  end.

(* the new state / event decided from the diagnostics flags in ValidateConfig *)
Definition validate_outcome (flags : Z) : pstate * option pevent :=
  if flags_contains flags DF_PARAMETER_FAULT then (PsOffline, Some EvParameterError)
  else if flags_contains flags DF_CONFIGURATION_FAULT then (PsOffline, Some EvConfigError)
  else if flags_contains flags DF_PARAMETER_REQUIRED then (PsWaitForParam, None)
  else if negb (flags_contains flags DF_STATION_NOT_READY) then (PsPreDataExchange, Some EvConfigured)
  else (PsValidateConfig, None).

Definition is_sc (t : telegram) : bool := match t with TShortConf => true | _ => false end.

(* the Data_Exchange reply branch (diag not in flight) up to, not including, the final
   retry_count = 0; fcb.cycle() *)
Definition p_receive_dx (p : periph) (t : telegram) : res (periph * option pevent) :=
  match t with
  | TData h pdu =>
      match h_fc h with
      | FcRequest _ _ => Panic SiteUnwrap                 (* t.is_response().unwrap() *)
      | FcResponse _ status =>
          let '(p1, data_ok) :=
            match status with
            | StSapNotEnabled => (set_state p PsValidateConfig, false)
            | StOk => (p, true)
            | StDataLow => (p, true)
            | StDataHigh => (set_diag_needed p true, true)
            | _ => (p, false)
            end in
          if data_ok then
            if Nat.eqb (length pdu) (length (pe_pi_i p1)) then
              let* d := copy_from_slice (pe_pi_i p1) pdu in
              Ok (set_state (set_pi_i p1 d) PsDataExchange, Some EvDataExchanged)
            else Ok (p1, None)
          else Ok (p1, None)
      end
  | TShortConf =>
      if negb (Nat.eqb (length (pe_pi_i p)) 0) then Ok (p, None)
      else Ok (set_state p PsDataExchange, Some EvDataExchanged)
  | TToken _ _ => Panic SiteUnreachable
  end.

(* Peripheral::receive_reply *)
Definition p_receive_reply (p : periph) (t : telegram) : res (periph * option pevent) :=
  match pe_state p with
  | PsOffline =>
      let* (p1, d) := p_handle_diag p t in
      match d with
      | Some _ => Ok (set_state (set_retry p1 0) PsWaitForParam, Some EvOnline)
      | None => Ok (p1, None)
      end
  | PsWaitForParam =>
      if is_sc t then
        let* f := fcb_cycle (pe_fcb p) in
        Ok (set_retry (set_state (set_fcb p f) PsWaitForConfig) 0, None)
      else Ok (p, None)
  | PsWaitForConfig =>
      if is_sc t then
        let* f := fcb_cycle (pe_fcb p) in
        Ok (set_retry (set_state (set_fcb p f) PsValidateConfig) 0, None)
      else Ok (p, None)
  | PsValidateConfig =>
      let p0 := set_retry p 0 in
      let* (p1, d) := p_handle_diag p0 t in
      match d with
      | Some di => let (s, ev) := validate_outcome (d_flags di) in Ok (set_state p1 s, ev)
      | None =>
          (* F13 fix: a reply that is no diagnostics reply leaves the request unanswered *)
          Ok (set_state (set_retry p1 (pe_retry p)) PsValidateConfig, None)
      end
  | PsDataExchange | PsPreDataExchange =>
      if pe_diag_in_flight p then
        let* (p1, d) := p_handle_diag p t in
        match d with
        | Some di =>
            let p2 := set_diag_needed (set_retry p1 0) false in
            (* F12 fix: Prm_Req during data exchange restarts the bring-up *)
            let p3 := if flags_contains (d_flags di) DF_PARAMETER_REQUIRED
                      then set_state p2 PsWaitForParam else p2 in
            Ok (p3, Some EvDiagnostics)
        | None => Ok (p1, None)
        end
      else
        let* (p1, ev) := p_receive_dx p t in
        let p2 := set_retry p1 0 in
        let* f := fcb_cycle (pe_fcb p2) in
        Ok (set_fcb p2 f, ev)
  end.

(* ------------------------------------------------------------------ well-formedness (for theorems) *)

Definition wf_options (o : poptions) : Prop :=
  0 <= o_ident o < 65536 /\ is_byte (o_groups o) /\ 0 <= o_max_tsdr o < 65536 /\
  (match o_user_prm o with Some u => all_bytes u | None => True end) /\
  (match o_config o with Some c => all_bytes c | None => True end).

Definition wf_periph (p : periph) : Prop :=
  0 <= pe_addr p < 128 /\ is_byte (pe_retry p) /\ all_bytes (pe_pi_i p) /\ all_bytes (pe_pi_q p) /\
  wf_options (pe_opts p).

(* ------------------------------------------------------------------ reset_address (added after phase 1)
   Peripheral::reset_address(new_address): `*self = Self::new(new_address, options, pi_i, pi_q)
   .with_diag_buffer(diag_buffer)`.  Everything is reset (state Offline, retry counter 0, frame count bit
   First, stored diagnostics gone, both diagnostics flags false) except the options, the two process images
   (contents kept) and the extended diagnostics buffer (kept, its length set to 0).  No event is raised.
   It does so for every argument, also when new_address is the current address. *)
Definition p_reset_address (p : periph) (new_address : Z) : periph :=
  mkPeriph new_address pstate_default 0 fcbit_default (pe_pi_i p) (pe_pi_q p) None
           (mkExt (x_size (pe_ext p)) []) false false (pe_opts p).
