(* Reference PROFIBUS-DP slave (environment model, not part of the crate): the DP slave state machine
   Wait_Prm / Wait_Cfg / Data_Exch with the 6-byte diagnostics header, ident and configuration check,
   and FDL retry detection by frame count bit (a request with FCV=1 and the stored FCB is a
   retransmission and is answered with the stored response without being processed again; FCV=0/FCB=1
   resets the stored bit).  The service access points and layouts in this file are the numbers of the
   PROFIBUS standard written as literals ON PURPOSE: the slave is the specification side, a changed
   constant in the crate must not change it.
   The harness contains a Rust twin of this file which plays the environment for the real master; the
   twin's replies are re-derived with `slave_step` during transcript replay.  No proofs here. *)
From PB Require Export Common Tables Telegram.

(* literal service access points of the standard *)
Definition STD_SAP_MS0 : Z := 62.         (* master side SAP of the MS0 services *)
Definition STD_SAP_GLOBAL_CONTROL : Z := 58.
Definition STD_SAP_DIAG : Z := 60.
Definition STD_SAP_SET_PRM : Z := 61.
Definition STD_SAP_CHK_CFG : Z := 62.
Definition STD_BROADCAST : Z := 127.

Inductive sl_state : Set := SlWaitPrm | SlWaitCfg | SlDataExch.

Record slave : Set := mkSlave {
  (* fixed properties of the device *)
  sl_addr : Z;
  sl_ident : Z;
  sl_exp_cfg : bytes;           (* the configuration the device accepts *)
  sl_in_len : nat;              (* bytes it sends in Data_Exchange *)
  sl_out_len : nat;             (* bytes it expects in Data_Exchange *)
  (* scripted behaviour *)
  sl_silent : bool;             (* powered off / unplugged: sees nothing, answers nothing *)
  sl_ready_delay : nat;         (* diagnostics replies after Chk_Cfg that still say "not ready" *)
  sl_stat_diag : bool;          (* static diagnostics: flag set, Data_Exchange replies are high prio *)
  sl_force1 : Z;                (* extra bits ORed into status byte 1 (scripted fault flags) *)
  sl_force2 : Z;                (* extra bits ORed into status byte 2 *)
  sl_ext : bytes;               (* extended diagnostics to report (EXT_DIAG set when non-empty) *)
  (* dynamic state *)
  sl_st : sl_state;
  sl_master : option Z;         (* master that parameterised us *)
  sl_fcb : option bool;         (* stored frame count bit *)
  sl_resp : option bytes;       (* stored response (wire bytes); None = no response was sent *)
  sl_prm_fault : bool;
  sl_cfg_fault : bool;
  sl_wd_on : bool; sl_freeze : bool; sl_sync : bool;
  sl_not_ready : nat;           (* remaining "not ready" diagnostics replies *)
  sl_diag_pending : bool;       (* wants to be asked for diagnostics (Data_Exchange replies high prio) *)
  sl_outputs : bytes;
  sl_counter : Z;               (* input data generator *)
  sl_gc : option Z }.           (* last Global_Control command byte seen *)

Definition slave_new (addr ident : Z) (cfg : bytes) (in_len out_len : nat) : slave :=
  mkSlave addr ident cfg in_len out_len false 0 false 0 0 []
          SlWaitPrm None None None false false false false false 0 false (repeat 0 out_len) 0 None.

(* scripted behaviour change (keeps the dynamic state) *)
Definition slave_set (s : slave) (silent : bool) (ready_delay : nat) (stat_diag diag_pending : bool)
           (force1 force2 : Z) (ext : bytes) (ident : Z) : slave :=
  mkSlave (sl_addr s) ident (sl_exp_cfg s) (sl_in_len s) (sl_out_len s) silent ready_delay stat_diag
          force1 force2 ext
          (sl_st s) (sl_master s) (sl_fcb s) (sl_resp s) (sl_prm_fault s) (sl_cfg_fault s)
          (sl_wd_on s) (sl_freeze s) (sl_sync s) (sl_not_ready s) (diag_pending || sl_diag_pending s)
          (sl_outputs s) (sl_counter s) (sl_gc s).

(* power cycle: all dynamic state is lost *)
Definition slave_power_cycle (s : slave) : slave :=
  mkSlave (sl_addr s) (sl_ident s) (sl_exp_cfg s) (sl_in_len s) (sl_out_len s) (sl_silent s)
          (sl_ready_delay s) (sl_stat_diag s) (sl_force1 s) (sl_force2 s) (sl_ext s)
          SlWaitPrm None None None false false false false false 0 false
          (repeat 0 (sl_out_len s)) (sl_counter s) None.

(* dynamic state update *)
Definition slave_dyn (s : slave) (st : sl_state) (master : option Z) (prm_fault cfg_fault wd fr sy : bool)
           (not_ready : nat) (diag_pending : bool) (outputs : bytes) (counter : Z) (gc : option Z) : slave :=
  mkSlave (sl_addr s) (sl_ident s) (sl_exp_cfg s) (sl_in_len s) (sl_out_len s) (sl_silent s)
          (sl_ready_delay s) (sl_stat_diag s) (sl_force1 s) (sl_force2 s) (sl_ext s)
          st master (sl_fcb s) (sl_resp s) prm_fault cfg_fault wd fr sy not_ready diag_pending
          outputs counter gc.

Definition slave_store (s : slave) (fcb : option bool) (resp : option bytes) : slave :=
  mkSlave (sl_addr s) (sl_ident s) (sl_exp_cfg s) (sl_in_len s) (sl_out_len s) (sl_silent s)
          (sl_ready_delay s) (sl_stat_diag s) (sl_force1 s) (sl_force2 s) (sl_ext s)
          (sl_st s) (sl_master s) fcb resp (sl_prm_fault s) (sl_cfg_fault s)
          (sl_wd_on s) (sl_freeze s) (sl_sync s) (sl_not_ready s) (sl_diag_pending s)
          (sl_outputs s) (sl_counter s) (sl_gc s).

Definition bit (b : bool) (v : Z) : Z := if b then v else 0.

(* input image: a counter pattern, so that every new exchange carries new data *)
Fixpoint pattern (n : nat) (c : Z) : bytes :=
  match n with O => [] | S n' => (c mod 256) :: pattern n' (c + 1) end.

Definition sl_state_eqb (a b : sl_state) : bool :=
  match a, b with
  | SlWaitPrm, SlWaitPrm | SlWaitCfg, SlWaitCfg | SlDataExch, SlDataExch => true
  | _, _ => false
  end.

(* the 6-byte diagnostics header + extended diagnostics *)
Definition slave_diag_pdu (s : slave) : bytes :=
  let not_ready := negb (sl_state_eqb (sl_st s) SlDataExch) || negb (Nat.eqb (sl_not_ready s) 0) in
  let st1 := Z.lor (bit not_ready 2 + bit (sl_cfg_fault s) 4 +
                    bit (negb (Nat.eqb (length (sl_ext s)) 0)) 8 + bit (sl_prm_fault s) 64)
                   (sl_force1 s) in
  let st2 := Z.lor (bit (sl_state_eqb (sl_st s) SlWaitPrm) 1 + bit (sl_stat_diag s) 2 + 4 +
                    bit (sl_wd_on s) 8 + bit (sl_freeze s) 16 + bit (sl_sync s) 32)
                   (sl_force2 s) in
  [st1; st2; 0; (match sl_master s with Some m => m | None => 255 end);
   sl_ident s / 256; sl_ident s mod 256] ++ sl_ext s.

Definition resp_header (s : slave) (req : header) (status : resp_status) : header :=
  mkHeader (h_sa req) (sl_addr s) (h_ssap req) (h_dsap req) (FcResponse RsSlave status).

(* negative acknowledgement "service not activated" *)
Definition resp_rs (s : slave) (req : header) : option bytes :=
  Some (frame_spec (resp_header s req StSapNotEnabled) []).

(* process a NEW request (not a retransmission); returns the new slave and the response *)
Definition slave_process (s : slave) (h : header) (pdu : bytes) : slave * option bytes :=
  let dsap := h_dsap h in
  let ssap := h_ssap h in
  if opt_eqb dsap (Some STD_SAP_DIAG) && opt_eqb ssap (Some STD_SAP_MS0) then
    (* Slave_Diag *)
    let reply := frame_spec (resp_header s h StDataLow) (slave_diag_pdu s) in
    let s1 := slave_dyn s (sl_st s) (sl_master s) (sl_prm_fault s) (sl_cfg_fault s) (sl_wd_on s)
                        (sl_freeze s) (sl_sync s) (Nat.pred (sl_not_ready s)) false
                        (sl_outputs s) (sl_counter s) (sl_gc s) in
    (s1, Some reply)
  else if opt_eqb dsap (Some STD_SAP_SET_PRM) && opt_eqb ssap (Some STD_SAP_MS0) then
    (* Set_Prm: acknowledged with SC, faults are reported through diagnostics *)
    let status := nth 0 pdu 0 in
    let ident := 256 * nth 4 pdu 0 + nth 5 pdu 0 in
    if Nat.leb 7 (length pdu) && (ident =? sl_ident s) then
      (slave_dyn s SlWaitCfg (Some (h_sa h)) false false
                 (negb (Z.land status 8 =? 0)) (negb (Z.land status 16 =? 0)) (negb (Z.land status 32 =? 0))
                 0 (sl_diag_pending s) (sl_outputs s) (sl_counter s) (sl_gc s), Some encode_sc)
    else
      (slave_dyn s SlWaitPrm None true false false false false 0 (sl_diag_pending s)
                 (sl_outputs s) (sl_counter s) (sl_gc s), Some encode_sc)
  else if opt_eqb dsap (Some STD_SAP_CHK_CFG) && opt_eqb ssap (Some STD_SAP_MS0) then
    (* Chk_Cfg *)
    if sl_state_eqb (sl_st s) SlWaitPrm then (s, resp_rs s h)
    else if bytes_eqb pdu (sl_exp_cfg s) then
      (slave_dyn s SlDataExch (sl_master s) (sl_prm_fault s) false (sl_wd_on s) (sl_freeze s) (sl_sync s)
                 (sl_ready_delay s) (sl_diag_pending s) (sl_outputs s) (sl_counter s) (sl_gc s),
       Some encode_sc)
    else
      (slave_dyn s SlWaitPrm None (sl_prm_fault s) true false false false 0 (sl_diag_pending s)
                 (sl_outputs s) (sl_counter s) (sl_gc s), Some encode_sc)
  else if opt_eqb dsap None && opt_eqb ssap None then
    (* Data_Exchange *)
    if sl_state_eqb (sl_st s) SlDataExch && Nat.eqb (sl_not_ready s) 0 &&
       Nat.eqb (length pdu) (sl_out_len s) then
      let c := sl_counter s + 1 in
      let s1 := slave_dyn s SlDataExch (sl_master s) (sl_prm_fault s) (sl_cfg_fault s) (sl_wd_on s)
                          (sl_freeze s) (sl_sync s) 0 (sl_diag_pending s) pdu c (sl_gc s) in
      if Nat.eqb (sl_in_len s) 0 then (s1, Some encode_sc)
      else
        let status := if sl_diag_pending s || sl_stat_diag s then StDataHigh else StDataLow in
        (s1, Some (frame_spec (resp_header s h status) (pattern (sl_in_len s) c)))
    else (s, resp_rs s h)
  else (s, resp_rs s h).

(* one request on the wire, as seen by this slave: new slave state and the bytes it answers with *)
Definition slave_step (s : slave) (wire : bytes) : slave * option bytes :=
  if sl_silent s then (s, None) else
  match decode wire with
  | Ok (Accept (TData h pdu) n) =>
      if negb (Nat.eqb n (length wire)) then (s, None) else
      match h_fc h with
      | FcResponse _ _ => (s, None)
      | FcRequest f r =>
          if (h_da h =? STD_BROADCAST) || (h_da h =? sl_addr s) then
            match r with
            | RqSdnLow | RqSdnHigh =>
                (* unacknowledged: Global_Control *)
                if opt_eqb (h_dsap h) (Some STD_SAP_GLOBAL_CONTROL) then
                  (slave_dyn s (sl_st s) (sl_master s) (sl_prm_fault s) (sl_cfg_fault s) (sl_wd_on s)
                             (sl_freeze s) (sl_sync s) (sl_not_ready s) (sl_diag_pending s)
                             (sl_outputs s) (sl_counter s) (Some (nth 0 pdu 0)), None)
                else (s, None)
            | RqSrdLow | RqSrdHigh =>
                if negb (h_da h =? sl_addr s) then (s, None) else
                if fcbit_fcv f then
                  if (match sl_fcb s with Some b => Bool.eqb b (fcbit_fcb f) | None => false end) then
                    (* retransmission: repeat the stored response, do not process *)
                    (s, sl_resp s)
                  else
                    let (s1, resp) := slave_process s h pdu in
                    (slave_store s1 (Some (fcbit_fcb f)) resp, resp)
                else
                  let (s1, resp) := slave_process s h pdu in
                  (* FCV=0: FCB=1 = first request, stores the bit; FCB=0 = no frame counting *)
                  (slave_store s1 (if fcbit_fcb f then Some true else None) resp, resp)
            | _ => (s, None)
            end
          else (s, None)
      end
  | _ => (s, None)
  end.

(* a slave is healthy for the master's configuration when it is not scripted to misbehave *)
Definition slave_conforming (s : slave) : bool :=
  negb (sl_silent s) && (sl_force1 s =? 0) && (sl_force2 s =? 0).
