(* Model of src/fdl/telegram.rs: function codes, data / token / SC telegram codec,
   TelegramTx.  No proofs here. *)
From PB Require Export Common Consts Tables.

(* ---------------------------------------------------------------- function code *)

Inductive fcode : Set :=
| FcRequest (f : fcbit) (r : req_type)
| FcResponse (st : resp_state) (s : resp_status).

(* FunctionCode::to_byte:
   (1 << 6) | req as u8 | ((fcv as u8) << 4) | ((fcb as u8) << 5)    resp: (state << 4) | status *)
Definition fc_to_byte (fc : fcode) : Z :=
  match fc with
  | FcRequest f r =>
      Z.lor (Z.lor (Z.lor (Z.shiftl 1 6) (req_to_byte r)) (Z.shiftl (b2z (fcbit_fcv f)) 4))
            (Z.shiftl (b2z (fcbit_fcb f)) 5)
  | FcResponse st s => Z.lor (Z.shiftl (resp_state_to_byte st) 4) (resp_status_to_byte s)
  end.

(* FunctionCode::from_byte *)
Definition fc_from_byte (b : Z) : option fcode :=
  if negb (Z.land b (Z.shiftl 1 6) =? 0) then
    let fcv := negb (Z.land b (Z.shiftl 1 4) =? 0) in
    let fcb := negb (Z.land b (Z.shiftl 1 5) =? 0) in
    match req_from_byte (Z.land b 143) with
    | Some r => Some (FcRequest (fcbit_from_fcv_fcb fcv fcb) r)
    | None => None
    end
  else
    match resp_state_from_byte (Z.shiftr (Z.land b 48) 4) with
    | None => None
    | Some st =>
        match resp_status_from_byte (Z.land b 15) with
        | None => None
        | Some s => Some (FcResponse st s)
        end
    end.

Definition all_fcodes : list fcode :=
  flat_map (fun f => map (FcRequest f) all_req_types) all_fcbits ++
  flat_map (fun st => map (FcResponse st) all_resp_statuss) all_resp_states.

Definition fcbit_eqb (a b : fcbit) : bool :=
  match a, b with
  | FcbFirst, FcbFirst | FcbHigh, FcbHigh | FcbLow, FcbLow | FcbInactive, FcbInactive => true
  | _, _ => false
  end.
Definition fcode_eqb (a b : fcode) : bool := fc_to_byte a =? fc_to_byte b.

(* ---------------------------------------------------------------- telegrams *)

Record header : Set := mkHeader {
  h_da : Z; h_sa : Z; h_dsap : option Z; h_ssap : option Z; h_fc : fcode }.

Inductive telegram : Set :=
| TData (h : header) (pdu : bytes)
| TToken (da sa : Z)
| TShortConf.

(* result of Telegram::deserialize: None / Some(Err) / Some(Ok((t, n))) *)
Inductive dres : Set :=
| NeedMore
| Reject
| Accept (t : telegram) (n : nat).

Definition has_sap (o : option Z) : nat := match o with Some _ => 1%nat | None => 0%nat end.

(* length_byte = pdu_len + dsap? + ssap? + 3 *)
Definition length_byte (h : header) (pdu_len : nat) : nat :=
  (pdu_len + has_sap (h_dsap h) + has_sap (h_ssap h) + 3)%nat.

(* DataTelegramHeader::telegram_len *)
Definition telegram_len_data (h : header) (pdu_len : nat) : nat :=
  let lb := length_byte h pdu_len in
  if (Nat.eqb lb 3 || Nat.eqb lb 11)%bool then (lb + 3)%nat else (lb + 6)%nat.

Definition telegram_len (t : telegram) : nat :=
  match t with
  | TData h pdu => telegram_len_data h (length pdu)
  | TToken _ _ => 3%nat
  | TShortConf => 1%nat
  end.

(* buffer write: buffer[i] = v ; the transmit buffer has a fixed size *)
Definition put (buf : bytes) (i : nat) (v : Z) : res bytes :=
  if Nat.ltb i (length buf) then Ok (firstn i buf ++ v :: skipn (S i) buf) else Panic SiteIndex.

Fixpoint put_all (buf : bytes) (i : nat) (vs : bytes) : res bytes :=
  match vs with
  | [] => Ok buf
  | v :: vs' => let* b := put buf i v in put_all b (S i) vs'
  end.

(* DataTelegramHeader::serialize into `buf` (cursor style). Returns the buffer and the
   number of bytes written.  `pdu` plays the role of the write_pdu closure writing its
   bytes into the zero-filled PDU slice. *)
Definition serialize_data (h : header) (pdu : bytes) (buf : bytes) : res (bytes * nat) :=
  let pdu_len := length pdu in
  let lb := length_byte h pdu_len in
  let sd := if Nat.eqb lb 3 then SD1 else if Nat.eqb lb 11 then SD3 else SD2 in
  let* buf := put buf 0 sd in
  let* (buf, cursor) :=
    (if sd =? SD2 then
       if Nat.ltb 249 lb then Panic SiteAssertLen else
       if Nat.ltb 255 lb then Panic SiteTryFrom else
       let* buf := put buf 1 (Z.of_nat lb) in
       let* buf := put buf 2 (Z.of_nat lb) in
       let* buf := put buf 3 sd in
       Ok (buf, 4%nat)
     else Ok (buf, 1%nat)) in
  let checksum_start := cursor in
  let da_ext := match h_dsap h with Some _ => 128 | None => 0 end in
  let* buf := put buf cursor (Z.lor (h_da h) da_ext) in
  let sa_ext := match h_ssap h with Some _ => 128 | None => 0 end in
  let* buf := put buf (cursor + 1) (Z.lor (h_sa h) sa_ext) in
  let* buf := put buf (cursor + 2) (fc_to_byte (h_fc h)) in
  let cursor := (cursor + 3)%nat in
  let* (buf, cursor) :=
    (match h_dsap h with
     | Some d => let* b := put buf cursor d in Ok (b, S cursor)
     | None => Ok (buf, cursor)
     end) in
  let* (buf, cursor) :=
    (match h_ssap h with
     | Some s => let* b := put buf cursor s in Ok (b, S cursor)
     | None => Ok (buf, cursor)
     end) in
  (* &mut buffer[cursor..cursor + pdu_len] *)
  if Nat.ltb (length buf) (cursor + pdu_len) then Panic SiteIndex else
  let* buf := put_all buf cursor pdu in
  let cursor := (cursor + pdu_len)%nat in
  let cks := sum8 (firstn (cursor - checksum_start) (skipn checksum_start buf)) in
  let* buf := put buf cursor cks in
  let* buf := put buf (cursor + 1) ED in
  let cursor := (cursor + 2)%nat in
  if negb (Nat.eqb cursor (telegram_len_data h pdu_len)) then Panic SiteAssert else
  Ok (buf, cursor).

Definition tx_buffer_size : nat := 256.

(* What ends up on the wire when `send_data_telegram` is used with a fresh buffer of the
   given size: the first `bytes_sent` bytes. *)
Definition encode_data_in (size : nat) (h : header) (pdu : bytes) : res bytes :=
  let* (buf, n) := serialize_data h pdu (repeat 0 size) in
  Ok (firstn n buf).
Definition encode_data := encode_data_in tx_buffer_size.

Definition encode_token (da sa : Z) : bytes := [SD4; da; sa].
Definition encode_sc : bytes := [SC].

(* TelegramTx::send_data_telegram: expects_reply *)
Definition tx_expects_reply (h : header) : option Z :=
  match h_fc h with
  | FcRequest _ r => if req_expects_reply r then Some (h_da h) else None
  | FcResponse _ _ => None
  end.

(* Declarative frame format (the PROFIBUS frame layout, independent of the cursor code). *)
Definition frame_body (h : header) (pdu : bytes) : bytes :=
  [ h_da h + (match h_dsap h with Some _ => 128 | None => 0 end);
    h_sa h + (match h_ssap h with Some _ => 128 | None => 0 end);
    fc_to_byte (h_fc h) ]
  ++ (match h_dsap h with Some d => [d] | None => [] end)
  ++ (match h_ssap h with Some s => [s] | None => [] end)
  ++ pdu.

Definition frame_spec (h : header) (pdu : bytes) : bytes :=
  let body := frame_body h pdu in
  let lb := length body in
  (if Nat.eqb lb 3 then [SD1]
   else if Nat.eqb lb 11 then [SD3]
   else [SD2; Z.of_nat lb; Z.of_nat lb; SD2])
  ++ body ++ [sum8 body; ED].

Definition encode (t : telegram) : bytes :=
  match t with
  | TData h pdu => frame_spec h pdu
  | TToken da sa => encode_token da sa
  | TShortConf => encode_sc
  end.

(* ---------------------------------------------------------------- decoder *)

(* DataTelegram::deserialize, index for index.  Split in two only for readability:
   decode_header is the `match buffer[0]` block, decode_body everything after it. *)
Definition decode_header (buffer0 : bytes) : res (option (bytes * nat * nat)) :=
  let* b0 := get buffer0 0 in
  if b0 =? SD1 then Ok (Some (buffer0, 0%nat, 6%nat))
  else if b0 =? SD2 then
    let* l1 := get buffer0 1 in
    let* l2 := get buffer0 2 in
    let* sd_repeated := get buffer0 3 in
    let* buffer := slice_from buffer0 3 in
    if negb (l1 =? l2) then Ok None
    else if negb (sd_repeated =? SD2) then Ok None
    else if l1 <? 3 then Ok None
    else Ok (Some (buffer, Z.to_nat (l1 - 3), (Z.to_nat l1 + 6)%nat))
  else if b0 =? SD3 then Ok (Some (buffer0, 8%nat, 14%nat))
  else Ok None.

Definition decode_body (buffer : bytes) (length0 buffer_length : nat) : res dres :=
  if Nat.ltb (length buffer) (length0 + 6) then Ok NeedMore else
  let* buffer_checksum := slice_from buffer 1 in
  let checksum_length := (length0 + 3)%nat in
  let* da := get buffer 1 in
  let has_dsap := negb (Z.land da 128 =? 0) in
  let da := if has_dsap then Z.land da 127 else da in
  let* sa := get buffer 2 in
  let has_ssap := negb (Z.land sa 128 =? 0) in
  let sa := if has_ssap then Z.land sa 127 else sa in
  let* fcb := get buffer 3 in
  match fc_from_byte fcb with
  | None => Ok Reject
  | Some fc =>
      let* buffer := slice_from buffer 4 in
      let* r1 :=
        (if has_dsap then
           let* d := get buffer 0 in
           if Nat.ltb length0 1 then Ok None
           else let* b := slice_from buffer 1 in Ok (Some (Some d, (length0 - 1)%nat, b))
         else Ok (Some (None, length0, buffer))) in
      match r1 with
      | None => Ok Reject
      | Some (dsap, length1, buffer) =>
          let* r2 :=
            (if has_ssap then
               let* s := get buffer 0 in
               if Nat.ltb length1 1 then Ok None
               else let* b := slice_from buffer 1 in Ok (Some (Some s, (length1 - 1)%nat, b))
             else Ok (Some (None, length1, buffer))) in
          match r2 with
          | None => Ok Reject
          | Some (ssap, length2, buffer) =>
              let* pdu := slice_to buffer length2 in
              let* checksum_received := get buffer length2 in
              let* cs := slice_to buffer_checksum checksum_length in
              let checksum_calculated := sum8 cs in
              if negb (checksum_received =? checksum_calculated) then Ok Reject else
              let* e := get buffer (length2 + 1) in
              if negb (e =? ED) then Ok Reject else
              Ok (Accept (TData (mkHeader da sa dsap ssap fc) pdu) buffer_length)
          end
      end
  end.

Definition decode_data (buffer0 : bytes) : res dres :=
  if Nat.ltb (length buffer0) 6 then Ok NeedMore else
  let* hdr := decode_header buffer0 in
  match hdr with
  | None => Ok Reject
  | Some (buffer, length0, buffer_length) => decode_body buffer length0 buffer_length
  end.

(* Telegram::deserialize *)
Definition decode (buffer : bytes) : res dres :=
  match buffer with
  | [] => Ok NeedMore
  | b0 :: _ =>
      if b0 =? SC then Ok (Accept TShortConf 1)
      else if b0 =? SD4 then
        if Nat.ltb (length buffer) 3 then Ok NeedMore else
        let* da := get buffer 1 in
        let* sa := get buffer 2 in
        Ok (Accept (TToken da sa) 3)
      else if (b0 =? SD1) || (b0 =? SD2) || (b0 =? SD3) then decode_data buffer
      else Ok Reject
  end.

(* ---------------------------------------------------------------- well-formedness *)

Definition is_addr7 (a : Z) : Prop := 0 <= a < 128.
Definition wf_sap (o : option Z) : Prop := match o with Some s => is_byte s | None => True end.
Definition wf_header (h : header) : Prop :=
  is_addr7 (h_da h) /\ is_addr7 (h_sa h) /\ wf_sap (h_dsap h) /\ wf_sap (h_ssap h).

Definition wf_headerb (h : header) : bool :=
  (0 <=? h_da h) && (h_da h <? 128) && (0 <=? h_sa h) && (h_sa h <? 128) &&
  (match h_dsap h with Some s => is_byteb s | None => true end) &&
  (match h_ssap h with Some s => is_byteb s | None => true end).

Definition header_eqb (a b : header) : bool :=
  (h_da a =? h_da b) && (h_sa a =? h_sa b) && opt_eqb (h_dsap a) (h_dsap b) &&
  opt_eqb (h_ssap a) (h_ssap b) && fcode_eqb (h_fc a) (h_fc b).

Definition telegram_eqb (a b : telegram) : bool :=
  match a, b with
  | TData h p, TData h' p' => header_eqb h h' && bytes_eqb p p'
  | TToken d s, TToken d' s' => (d =? d') && (s =? s')
  | TShortConf, TShortConf => true
  | _, _ => false
  end.
