(* Executable runs of the receive helpers (Phy.v) poll by poll, as the harness domain `phyrx`
   drives the real code: (a) over the harness PHY whose receive buffer grows chunk by chunk,
   (b) over SimulatorPhy / SimulatorBus with timed transmissions.  The callback records every
   delivery (telegram, is_last) and returns the telegram, so the value returned by the helper is
   observable as well.  No proofs here. *)
From PB Require Export Phy SimBus.

Definition rlog : Set := list (telegram * bool).

(* FnMut(Telegram, bool) -> R of the harness: push (telegram, is_last), return the telegram *)
Definition rec_cb (log : rlog) (t : telegram) (l : bool) : res (rlog * telegram) := Ok (log ++ [(t, l)], t).

(* what one poll shows to the caller *)
Record poll_out : Set := mkPO {
  po_deliv : rlog;                 (* callback invocations of this poll, in order *)
  po_ret : option telegram;        (* value returned by the helper *)
  po_rest : bytes }.               (* receive buffer afterwards (poll_pending_received_bytes = its length) *)

(* one poll with receive_all_telegrams on the buffer `buf` *)
Definition poll_all (buf : bytes) : res poll_out :=
  let* x := receive_all rec_cb (receive_all_fuel buf) [] buf in
  let '(log, rest, r) := x in
  Ok (mkPO log r rest).

(* one poll with receive_telegram (a single call) *)
Definition poll_single (buf : bytes) : res poll_out :=
  let* x := receive_telegram (fun t => t) buf in
  let '(rest, r) := x in
  Ok (mkPO (match r with Some t => [(t, false)] | None => [] end) r rest).

(* harness PHY: chunk c arrives (is appended to the receive buffer), then one poll *)
Fixpoint run_polls (poll : bytes -> res poll_out) (buf : bytes) (cs : list bytes) : res (list poll_out) :=
  match cs with
  | [] => Ok []
  | c :: cs' =>
      let* o := poll (buf ++ c) in
      let* os := run_polls poll (po_rest o) cs' in
      Ok (o :: os)
  end.

Definition stream (ts : list telegram) : bytes := concat (map encode ts).

(* ------------------------------------------------------------------ simulator runs *)

Inductive tx_payload : Set :=
| PayTelegram (rq : tx_request)      (* through transmit_telegram + TelegramTx *)
| PayRaw (data : bytes).             (* through transmit_data *)

Inductive sim_op : Set :=
| OpTx (by_rx : bool) (t : Z) (p : tx_payload)   (* set_bus_time t; the sender PHY (or the receiver itself) transmits *)
| OpTxNone (by_rx : bool) (t : Z)                 (* set_bus_time t; transmit_telegram(now, |_| None): the closure decides
                                                     to send nothing, transmit_data gets length 0 (an empty enqueue) *)
| OpPoll (t : Z).                                 (* set_bus_time t; the receiver polls *)

Inductive sim_out : Set :=
| SoTx (n : nat) (exp : option Z)                 (* bytes_sent, expects_reply *)
| SoRaw (n : nat)
| SoNone                                          (* transmit_telegram returned None *)
| SoPoll (d : rlog) (r : option telegram) (pending : nat).

Record sim_state : Set := mkSim { ss_bus : simbus; ss_tx : simphy; ss_rx : simphy }.

Definition sim_init (b : baudrate) : sim_state := mkSim (bus_new b) (mkSimPhy 0 1) (mkSimPhy 0 2).

Definition sim_poll (all : bool) (bus : simbus) (p : simphy) : res (simphy * sim_out) :=
  let ops := sim_phy bus in
  let* x :=
    (if all then
       let* buf := phy_view ops p in           (* only to size the fuel *)
       let* y := receive_all_phy ops rec_cb (receive_all_fuel buf) [] p in
       let '(log, p', r) := y in Ok (p', log, r)
     else
       let* y := receive_telegram_phy ops (fun t => t) p in
       let '(p', r) := y in Ok (p', match r with Some t => [(t, false)] | None => [] end, r)) in
  let '(p', log, r) := x in
  let* z := pending_bytes_phy ops p' in
  let '(p'', n) := z in
  Ok (p'', SoPoll log r n).

Definition sim_step (all : bool) (st : sim_state) (op : sim_op) : res (sim_state * sim_out) :=
  match op with
  | OpTx by_rx t pay =>
      let bus := set_bus_time (ss_bus st) t in
      let p := if by_rx then ss_rx st else ss_tx st in
      let* x :=
        (match pay with
         | PayTelegram rq =>
             let* y := transmit sim_tx_buffer rq in
             let '(w, exp) := y in Ok (w, SoTx (length w) exp)
         | PayRaw data => Ok (data, SoRaw (length data))
         end) in
      let '(w, out) := x in
      let* y := sim_transmit bus p w in
      let '(bus', p') := y in
      Ok (if by_rx then mkSim bus' (ss_tx st) p' else mkSim bus' p' (ss_rx st), out)
  | OpTxNone by_rx t =>
      let bus := set_bus_time (ss_bus st) t in
      let p := if by_rx then ss_rx st else ss_tx st in
      let* y := sim_transmit bus p [] in
      let '(bus', p') := y in
      Ok (if by_rx then mkSim bus' (ss_tx st) p' else mkSim bus' p' (ss_rx st), SoNone)
  | OpPoll t =>
      let bus := set_bus_time (ss_bus st) t in
      let* x := sim_poll all bus (ss_rx st) in
      let '(p', out) := x in
      Ok (mkSim bus (ss_tx st) p', out)
  end.

(* outputs up to the first panic (the simulator's mutex is poisoned afterwards); true = panicked *)
Fixpoint run_sim (all : bool) (st : sim_state) (ops : list sim_op) : list sim_out * bool :=
  match ops with
  | [] => ([], false)
  | op :: ops' =>
      match sim_step all st op with
      | Ok (st', out) => let '(outs, p) := run_sim all st' ops' in (out :: outs, p)
      | _ => ([], true)
      end
  end.
