(* C18 ground truth: the decision rule of the check's ground-truth oracle (converges_to_population),
   as a function of the abstract transcript.  The case line of the check says WHO IS ON THE BUS as
   a function of time; the driver (ocaml/run_scan.ml: ground_truth) only parses it - population
   `pop` after the last change, `window` = call number of the last change - and, when at least two
   sweeps of calls follow the last change and nothing was lost or forged, calls `truth_bad`:

     for every address a in 0..125 that is expected to be listed (a member of pop, a <> ts), the
     LAST probe of a inside the stable window [window, end) decides: never probed - failure;
     class CValid - a must be in the final station set; any other class - no demand (whether a
     station that answers with something else, or whose answer does not decode, is listed is left
     open);  and every address in the final station set (all 128 bits of the array) must be
     expected.

   Soundness for both models: Proofs/C18Truth.v (C18_ground_truth_sound, .._scanner).  No proofs here. *)
From PB Require Export ScanOracle.

Inductive truth_reason : Set :=
| TNeverProbed          (* "#a never probed" (during the stable window) *)
| TValidNotListed       (* "#a answers validly, not listed" *)
| TListedNotOnBus.      (* "#a listed, not on the bus" *)

(* the size of the station bit array of both applications (LL_BITS = SC_BITS = 128) *)
Definition truth_bits : nat := 128.

Section Truth.
  Variable P : Type.

  (* a is expected in the station list: on the bus and not the scanning station itself (O5) *)
  Definition expected (ts : Z) (pop : list Z) (a : Z) : bool :=
    negb (a =? ts) && existsb (Z.eqb a) pop.

  (* class of the last probe of address a in w (acc: nothing seen yet) *)
  Fixpoint last_probe (a : Z) (acc : option (cls P)) (w : list (apoll P)) : option (cls P) :=
    match w with
    | [] => acc
    | p :: r =>
        last_probe a (match ap_da p with
                      | Some b => if b =? a then Some (ap_cls p) else acc
                      | None => acc
                      end) r
    end.

  Definition member_check (ts : Z) (pop : list Z) (final : Z) (w : list (apoll P)) (a : Z)
    : list (Z * truth_reason) :=
    if expected ts pop a then
      match last_probe a None w with
      | None => [(a, TNeverProbed)]
      | Some (CValid _) => if Z.testbit final a then [] else [(a, TValidNotListed)]
      | Some _ => []
      end
    else [].

  Definition listed_check (ts : Z) (pop : list Z) (final : Z) (a : Z) : list (Z * truth_reason) :=
    if Z.testbit final a && negb (expected ts pop a) then [(a, TListedNotOnBus)] else [].

  (* the offending addresses, with the reason; `final` = station set after the last poll *)
  Definition truth_bad (ts : Z) (pop : list Z) (window : nat) (final : Z) (tr : list (apoll P))
    : list (Z * truth_reason) :=
    let w := skipn window tr in
    flat_map (member_check ts pop final w) (addr_list sweep_len) ++
    flat_map (listed_check ts pop final) (addr_list truth_bits).

  Definition truth_ok (ts : Z) (pop : list Z) (window : nat) (final : Z) (tr : list (apoll P)) : bool :=
    match truth_bad ts pop window final tr with [] => true | _ :: _ => false end.

  (* ENVIRONMENT HYPOTHESIS of the soundness theorems, read off the transcript: the window w is
     explained by the population - every probe of an address that is not expected (not in pop, or
     the own address) timed out.  Nothing is said about the members: they may answer validly,
     with something else, or not at all. *)
  Definition explained (ts : Z) (pop : list Z) (w : list (apoll P)) : bool :=
    forallb (fun p =>
      match ap_da p with
      | None => true
      | Some a => expected ts pop a || match ap_cls p with CTimeout => true | _ => false end
      end) w.
End Truth.

Arguments last_probe {P}.
Arguments member_check {P}.
Arguments truth_bad {P}.
Arguments truth_ok {P}.
Arguments explained {P}.
