(* Model of src/dp/scan.rs: `DpScanner` and its `FdlApplication` impl.  No proofs.
   Only the part of the diagnostics reply the scanner reads is modelled here (SAPs, the
   two status bytes, master address, ident number); the full decoding of diagnostics is
   the subject of C17. *)
From PB Require Export ScanBase.

(* DpPeripheralDescription { address, ident, master_address } *)
Record sc_desc : Set := mkDesc { sd_address : Z; sd_ident : Z; sd_master : option Z }.

(* DpScanEvent *)
Inductive sc_event : Set :=
| ScFound (d : sc_desc)
| ScRequery (d : sc_desc)
| ScLost (a : Z).

Record scanner : Set := mkSc {
  sc_stations : Z;
  sc_cursor : Z;
  sc_pending : option sc_event;
  sc_done : bool }.

Definition sc_new : scanner := mkSc 0 SC_FIRST None false.

Definition sc_take (s : scanner) : scanner * option sc_event :=
  (mkSc (sc_stations s) (sc_cursor s) None (sc_done s), sc_pending s).

(* crate::dp::DiagnosticsInfo as far as the scanner fills it *)
Record sc_diag : Set := mkDiag { dg_flags : Z; dg_master : option Z; dg_ident : Z }.

(* &pdu[a..b] *)
Definition slice_range (l : bytes) (a b : nat) : res bytes :=
  if Nat.ltb b a then Panic SiteIndex else
  if Nat.ltb (length l) b then Panic SiteIndex else Ok (firstn (b - a) (skipn a l)).

(* <[u8; 2]>::try_from(slice).unwrap() *)
Definition two_bytes (l : bytes) : res (Z * Z) :=
  match l with
  | [a; b] => Ok (a, b)
  | _ => Panic SiteUnwrap
  end.

(* DpScanner::parse_diag_response *)
Definition sc_parse (t : telegram) : res (option sc_diag) :=
  match t with
  | TData h pdu =>
      if negb (opt_eqb (h_dsap h) SAP_MASTER_MS0) then Ok None else
      if negb (opt_eqb (h_ssap h) SAP_SLAVE_DIAGNOSIS) then Ok None else
      if Nat.ltb (length pdu) SC_MIN_DIAG_LEN then Ok None else
      let* m := get pdu SC_MASTER_IDX in
      let master := if m =? SC_NO_MASTER then None else Some m in
      let* fl := slice_range pdu SC_FLAGS_LO SC_FLAGS_HI in
      let* (f0, f1) := two_bytes fl in                       (* u16::from_le_bytes *)
      let* idb := slice_range pdu SC_IDENT_LO SC_IDENT_HI in
      let* (i0, i1) := two_bytes idb in                      (* u16::from_be_bytes *)
      let flags := f0 + 256 * f1 in
      let ident := 256 * i0 + i1 in
      (* flags.remove(PERMANENT_BIT) *)
      let flags' := Z.land flags (Z.lxor 65535 SC_FLAG_PERMANENT_BIT) in
      (* if flags.contains(EXT_DIAG) { log::debug!(.., &t.pdu[6..]) } *)
      let* _ := (if negb (Z.land flags' SC_FLAG_EXT_DIAG =? 0) then slice_from pdu SC_EXT_FROM else Ok []) in
      Ok (Some (mkDiag flags' master ident))
  | _ => Ok None
  end.

Definition sc_request (ts address : Z) : header :=
  mkHeader address ts SAP_SLAVE_DIAGNOSIS SAP_MASTER_MS0 (FcRequest FcbFirst RqSrdLow).

(* transmit_telegram: same sweep as the live list, the request is Slave_Diag *)
Definition sc_transmit (ts : Z) (s : scanner) : res (scanner * option txout) :=
  let address := sc_cursor s in
  if sc_done s then
    Ok (mkSc (sc_stations s)
             (if sc_cursor s <? SC_LAST then sc_cursor s + 1 else SC_FIRST)
             (sc_pending s) false, None)
  else
    let* t := send_request (sc_request ts address) in
    Ok (s, Some t).

(* receive_reply *)
Definition sc_receive (s : scanner) (address : Z) (t : telegram) : res scanner :=
  match bs_get SC_BITS (sc_stations s) address with
  | None => Panic SiteUnwrap
  | Some known =>
      let station_unknown := negb known in
      let* d := sc_parse t in
      let event :=
        match d with
        | Some diag =>
            let desc := mkDesc address (dg_ident diag) (dg_master diag) in
            if station_unknown then Some (ScFound desc) else Some (ScRequery desc)
        | None => None
        end in
      let* st' := (if station_unknown && (match event with Some _ => true | None => false end)
                   then bs_set SC_BITS (sc_stations s) address true
                   else Ok (sc_stations s)) in
      Ok (mkSc st' (sc_cursor s) event true)
  end.

(* handle_timeout *)
Definition sc_timeout (s : scanner) (address : Z) : res scanner :=
  match bs_get SC_BITS (sc_stations s) address with
  | None => Panic SiteUnwrap
  | Some known =>
      if known then
        let* st' := bs_set SC_BITS (sc_stations s) address false in
        Ok (mkSc st' (sc_cursor s) (Some (ScLost address)) true)
      else Ok (mkSc (sc_stations s) (sc_cursor s) (sc_pending s) true)
  end.

Definition sc_poll := poll sc_transmit sc_receive sc_timeout sc_take sc_stations.
Definition sc_run := run sc_transmit sc_receive sc_timeout sc_take sc_stations.

(* abstraction for the C18 oracles: a valid answer is one the scanner's parser accepts;
   payload = (ident, master address).  A reply on which the parser would panic does not
   exist (C18_no_panic); it is classified COther. *)
Definition sc_classify (t : telegram) : cls (Z * option Z) :=
  match sc_parse t with
  | Ok (Some d) => CValid (dg_ident d, dg_master d)
  | _ => COther
  end.

Definition sc_abs_ev (e : sc_event) : aev (Z * option Z) :=
  match e with
  | ScFound d => AUp (sd_address d) (sd_ident d, sd_master d)
  | ScRequery d => ARe (sd_address d) (sd_ident d, sd_master d)
  | ScLost a => ADown a
  end.

Definition sc_abs := abs_poll sc_classify sc_abs_ev.
