(* Model of the diagnostics decoding of profirust (property C17):
     src/dp/peripheral.rs  Peripheral::handle_diagnostics_response  (6-byte header, ext-diag storing)
     src/dp/scan.rs        DpScanner::parse_diag_response           (same header decoding)
     src/dp/diagnostics.rs ExtendedDiagnostics::{from_buffer, fill, raw_diag_buffer, is_available, Debug},
                           ExtDiagBlockIter::next, ChannelDataType/ChannelError::from_diag_byte2
   Masks, shifts, positions and the match tables come from Generated/DiagTables.v (gen/tr_diag.py);
   `blk_len0_guard` there says whether the code rejects a block length field of 0 before slicing
   (false on the unfixed tree: finding F5).  No proofs in this file. *)
From PB Require Import Common Consts DiagTables.

(* &l[a..b] : panics when a > b or b > len *)
Definition slice_range (l : bytes) (a b : nat) : res bytes :=
  if Nat.leb a b && Nat.leb b (length l) then Ok (firstn (b - a) (skipn a l)) else Panic SiteIndex.

(* ------------------------------------------------------------------ diagnostics header *)

Record diag_info := mkDiag { d_flags : Z; d_ident : Z; d_master : option Z }.

(* bitflags `contains` *)
Definition flag_set (flags mask : Z) : bool := Z.land flags mask =? mask.

(* The body of handle_diagnostics_response / parse_diag_response after the SAP checks.
   None: "response is too short". *)
Definition parse_diag (pdu : bytes) : res (option diag_info) :=
  if Nat.ltb (length pdu) diag_min_len then Ok None else
  let* m := get pdu diag_master_pos in
  let master := if m =? diag_master_none then None else Some m in
  let* fb := slice_range pdu diag_flags_pos (diag_flags_pos + 2) in      (* t.pdu[0..2].try_into().unwrap() *)
  let* f0 := get fb 0 in
  let* f1 := get fb 1 in
  let flags := f0 + 256 * f1 in                                          (* u16::from_le_bytes *)
  let* ib := slice_range pdu diag_ident_pos (diag_ident_pos + 2) in
  let* i0 := get ib 0 in
  let* i1 := get ib 1 in
  let ident := 256 * i0 + i1 in                                          (* u16::from_be_bytes *)
  (* diag.flags.remove(PERMANENT_BIT): bits & !mask *)
  Ok (Some (mkDiag (Z.ldiff flags FLAG_PERMANENT_BIT) ident master)).

(* ------------------------------------------------------------------ ExtendedDiagnostics buffer *)

(* buffer (its length is the capacity; `Default`/no buffer = empty slice) and the valid length *)
Record ext_diag := mkExt { e_buf : bytes; e_len : nat }.

Definition ext_default : ext_diag := mkExt [] 0.
Definition ext_from_buffer (buf : bytes) : ext_diag := mkExt buf 0.
Definition ext_cap (e : ext_diag) : nat := length (e_buf e).
Definition ext_available (e : ext_diag) : bool := negb (Nat.eqb (ext_cap e) 0).

(* raw_diag_buffer: Some(&self.buffer[..self.length]) *)
Definition ext_raw (e : ext_diag) : res (option bytes) :=
  if ext_available e then let* s := slice_to (e_buf e) (e_len e) in Ok (Some s) else Ok None.

(* fill: (new state, return value) *)
Definition ext_fill (e : ext_diag) (ext : bytes) : res (ext_diag * bool) :=
  if Nat.eqb (ext_cap e) 0 then Ok (e, false)
  else if Nat.ltb (ext_cap e) (length ext) then Ok (e, false)
  else
    let* _ := slice_to (e_buf e) (length ext) in                         (* self.buffer[..buf.len()] *)
    Ok (mkExt (ext ++ skipn (length ext) (e_buf e)) (length ext), true).

(* ------------------------------------------------------------------ blocks *)

Record chan_diag := mkChan {
  c_module : Z; c_channel : Z; c_input : bool; c_output : bool;
  c_dtype : chan_dtype; c_error : chan_error }.

Inductive block :=
| BIdent (d : bytes)          (* Identifier(BitSlice over these bytes) *)
| BChannel (c : chan_diag)
| BDevice (d : bytes).

(* a yielded block with the cursor at which it starts (header byte) and the bytes it covers *)
Record lblock := mkL { l_off : nat; l_len : nat; l_blk : block }.

Definition dtype_from_byte2 (b : Z) : chan_dtype := chan_dtype_from_bits (Z.shiftr b chan_dtype_shift).
Definition error_from_byte2 (b : Z) : chan_error := chan_error_from_code (Z.land b chan_error_mask).

Definition decode_channel (b0 b1 b2 : Z) : chan_diag :=
  mkChan (Z.land b0 chan_module_mask) (Z.land b1 chan_channel_mask)
         (negb (Z.land b1 chan_input_mask =? 0)) (negb (Z.land b1 chan_output_mask =? 0))
         (dtype_from_byte2 b2) (error_from_byte2 b2).

(* one call of ExtDiagBlockIter::next: the item and the new cursor *)
Inductive step := Yield (b : lblock) (cur' : nat) | Stop (cur' : nat).

Definition blk_next_g (guard0 : bool) (raw : bytes) (cur : nat) : res step :=
  if Nat.leb (length raw) cur then Ok (Stop cur) else
  let* rem := slice_from raw cur in
  let* header := get rem 0 in
  let ty := Z.shiftr header blk_type_shift in
  let sized (mk : bytes -> block) : res step :=
    let len := Z.to_nat (Z.land header blk_len_mask) in
    if guard0 && Nat.eqb len 0 then Ok (Stop (length raw))               (* the F5 fix *)
    else if Nat.ltb (length rem) len then Ok (Stop (length raw))         (* "Diagnostics cut off" *)
    else
      let* d := slice_range rem 1 len in                                 (* &remainder[1..length] *)
      Ok (Yield (mkL cur len (mk d)) (cur + len)) in
  if ty =? blk_type_ident then sized BIdent
  else if ty =? blk_type_channel then
    if Nat.ltb (length rem) blk_channel_len then Ok (Stop (length raw))
    else
      let* b0 := get rem 0 in
      let* b1 := get rem 1 in
      let* b2 := get rem 2 in
      Ok (Yield (mkL cur blk_channel_len (BChannel (decode_channel b0 b1 b2))) (cur + blk_channel_len))
  else if ty =? blk_type_device then sized BDevice
  else if ty =? blk_type_reserved then Ok (Stop (length raw))            (* "Unexpected ext diag block" *)
  else Panic SiteUnreachable.

(* `for block in iter` / collect(): call next until it returns None *)
Fixpoint blocks_from_g (guard0 : bool) (raw : bytes) (cur : nat) (fuel : nat) : res (list lblock) :=
  match fuel with
  | O => OutOfFuel
  | S f =>
      let* s := blk_next_g guard0 raw cur in
      match s with
      | Stop _ => Ok []
      | Yield b cur' => let* r := blocks_from_g guard0 raw cur' f in Ok (b :: r)
      end
  end.

Definition blk_next : bytes -> nat -> res step := blk_next_g blk_len0_guard.
Definition blocks_from : bytes -> nat -> nat -> res (list lblock) := blocks_from_g blk_len0_guard.
Definition blocks (raw : bytes) (fuel : nat) : res (list lblock) := blocks_from raw 0 fuel.

(* iter_diag_blocks() on the container: next() does raw_diag_buffer().unwrap() *)
Definition ext_blocks (e : ext_diag) : res (list lblock) :=
  let* r := ext_raw e in
  match r with
  | None => Panic SiteUnwrap
  | Some raw => blocks raw (S (length raw))
  end.

(* Debug for ExtendedDiagnostics: iterates the blocks when a buffer is available *)
Definition ext_debug (e : ext_diag) : res unit :=
  if ext_available e then let* _ := ext_blocks e in Ok tt else Ok tt.

(* indices of the set bits of an identifier block (BitSlice<u8, Lsb0>::iter_ones) *)
Definition ident_ones (d : bytes) : list nat :=
  filter (fun i => Z.testbit (nth (i / 8) d 0) (Z.of_nat (i mod 8))) (seq 0 (8 * length d)).

(* ------------------------------------------------------------------ a reply to Slave_Diag *)

Inductive reply :=
| RData (dsap ssap : option Z) (pdu : bytes)
| RShortConf.

(* what last_diagnostics() shows *)
Record pstate := mkP { p_diag : option diag_info; p_ext : ext_diag }.
Definition pstate_init (buf : bytes) : pstate := mkP None (ext_from_buffer buf).

(* handle_diagnostics_response with logging enabled (the debug log formats the ext diag buffer).
   Result: new state, and whether the reply was accepted as diagnostics. *)
Definition diag_reply (s : pstate) (r : reply) : res (pstate * bool) :=
  match r with
  | RShortConf => Ok (s, false)
  | RData dsap ssap pdu =>
      if negb (opt_eqb dsap SAP_MASTER_MS0) then Ok (s, false)
      else if negb (opt_eqb ssap SAP_SLAVE_DIAGNOSIS) then Ok (s, false)
      else
        let* o := parse_diag pdu in
        match o with
        | None => Ok (s, false)
        | Some d =>
            if flag_set (d_flags d) FLAG_EXT_DIAG then
              let* ext := slice_from pdu diag_ext_pos in
              let* fr := ext_fill (p_ext s) ext in
              let* _ := (if snd fr then ext_debug (fst fr) else Ok tt) in
              Ok (mkP (Some d) (fst fr), true)
            else Ok (mkP (Some d) (p_ext s), true)
        end
  end.

Fixpoint diag_replies (s : pstate) (rs : list reply) : res (list (pstate * bool)) :=
  match rs with
  | [] => Ok []
  | r :: rs' =>
      let* sa := diag_reply s r in
      let* rest := diag_replies (fst sa) rs' in
      Ok (sa :: rest)
  end.

(* DpScanner: the description it reports (ident, master address) *)
Definition scan_reply (r : reply) : res (option (Z * option Z)) :=
  match r with
  | RShortConf => Ok None
  | RData dsap ssap pdu =>
      if negb (opt_eqb dsap SAP_MASTER_MS0) then Ok None
      else if negb (opt_eqb ssap SAP_SLAVE_DIAGNOSIS) then Ok None
      else
        let* o := parse_diag pdu in
        match o with
        | None => Ok None
        | Some d => Ok (Some (d_ident d, d_master d))
        end
  end.
