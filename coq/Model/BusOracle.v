(* Executable (boolean) monitors over bus traces for the bus-level halves of C01 / C02 / C06 / C13.
   They are extracted (Extract/Extract_bus.v) and run on the traces of N real stations; their
   soundness w.r.t. the declarative predicates of Bus.v is proved in Proofs/BusProofs.v.
   No proofs here. *)
From PB Require Export Bus.

(* ------------------------------------------------------------------ C01: gaps (overlap, idle) *)

(* one pass over the trace with the latest end so far and the previous transmission: every
   transmission starts at least `need prev y` (scaled) minus `slack` after the latest end *)
Fixpoint gaps_go (need : option btx -> btx -> Z) (slack : Z)
         (maxend : option Z) (prev : option btx) (tr : trace) : bool :=
  match tr with
  | [] => true
  | y :: r =>
      (match maxend with None => true | Some m => m + need prev y <=? start_sc y + slack end)
      && gaps_go need slack
           (Some (match maxend with None => end_sc y | Some m => Z.max m (end_sc y) end))
           (Some y) r
  end.

Definition need0 (_ : option btx) (_ : btx) : Z := 0.
Definition c01_no_overlap_b (tr : trace) : bool := gaps_go need0 0 None None tr.
Definition c01_idle_b (c : buscfg) (tr : trace) : bool := gaps_go idle_need (rate c) None None tr.

(* ------------------------------------------------------------------ C01: who may transmit *)

Definition silent_forb (c : buscfg) (st : wstate) (y : btx) (bits : Z) : bool :=
  match w_maxend st with None => true | Some m => m + bits * M <=? start_sc y + rate c end.
Definition online_forb (c : buscfg) (y : btx) (bits : Z) : bool :=
  tx_online y + bits * M <=? start_sc y + rate c.

Definition own_token_before (st : wstate) (s : Z) : bool :=
  match w_prev st with
  | Some x => (tx_sender x =? s) &&
              match tel_of x with Some (TToken _ sa) => sa =? s | _ => false end
  | None => false
  end.

Definition reply_before (st : wstate) (y : btx) : bool :=
  match w_prev st with Some x => is_reply_to x y | None => false end.

Definition classify (c : buscfg) (st : wstate) (y : btx) : option tx_class :=
  let s := tx_sender y in
  match tel_of y with
  | Some (TToken da sa) =>
      if negb (sa =? s) then None
      else if opt_eqb (w_holder st) (Some s) then Some ClPass
      else if own_token_before st s && silent_forb c st y (c_slot c) then Some ClRetry
      else if (da =? s) && silent_forb c st y (t_lost_bits c s) && online_forb c y (t_lost_bits c s)
      then Some ClClaim
      else None
  | Some (TData h _) =>
      if negb (h_sa h =? s) then None
      else match h_fc h with
           | FcRequest _ _ => if opt_eqb (w_holder st) (Some s) then Some ClHolder else None
           | FcResponse _ _ => if reply_before st y then Some ClReply else None
           end
  | Some TShortConf => if reply_before st y then Some ClReply else None
  | None => None
  end.

Fixpoint who_go (c : buscfg) (st : wstate) (tr : trace) : bool :=
  match tr with
  | [] => true
  | y :: r => match classify c st y with
              | Some _ => who_go c (w_step st y) r
              | None => false
              end
  end.
Definition c01_who_b (c : buscfg) (tr : trace) : bool := who_go c w0 tr.

(* position and state of the first transmission that nothing justifies (for the report) *)
Fixpoint who_first_bad (c : buscfg) (st : wstate) (tr : trace) (k : nat) : option (nat * wstate) :=
  match tr with
  | [] => None
  | y :: r => match classify c st y with
              | Some _ => who_first_bad c (w_step st y) r (S k)
              | None => Some (k, st)
              end
  end.

(* class counts, for the distribution printed by the driver *)
Definition class_index (cl : tx_class) : nat :=
  match cl with ClHolder => 0 | ClPass => 1 | ClRetry => 2 | ClReply => 3 | ClClaim => 4 end.
Fixpoint who_classes (c : buscfg) (st : wstate) (tr : trace) : list nat :=
  match tr with
  | [] => []
  | y :: r => match classify c st y with
              | Some cl => class_index cl :: who_classes c (w_step st y) r
              | None => []
              end
  end.

(* ------------------------------------------------------------------ C01: the excluded claim race *)

Definition unsynchronisedb (st : wstate) (y : btx) : bool :=
  match w_maxend st with None => true | Some m => m <? tx_online y end.

Definition claim_raceb (c : buscfg) (st : wstate) (x y : btx) : bool :=
  is_claim x && is_claim y && negb (tx_sender x =? tx_sender y) &&
  (start_sc x <=? start_sc y) && (start_sc y <? start_sc x + 11 * M) &&
  silent_forb c st x (t_lost_bits c (tx_sender x)) && online_forb c x (t_lost_bits c (tx_sender x)) &&
  silent_forb c st y (t_lost_bits c (tx_sender y)) && online_forb c y (t_lost_bits c (tx_sender y)) &&
  (unsynchronisedb st x || unsynchronisedb st y).

(* the trace up to (excluding) the first excused claim race, and whether there was one.
   x = last transmission seen, stx = state before x, acc = transmissions before x, reversed *)
Fixpoint cut_go (c : buscfg) (stx : wstate) (x : btx) (acc : trace) (tr : trace) : trace * bool :=
  match tr with
  | [] => (rev_append (x :: acc) [], false)
  | y :: r => if claim_raceb c stx x y then (rev_append acc [], true)
              else cut_go c (w_step stx x) y (x :: acc) r
  end.
Definition c01_cut (c : buscfg) (tr : trace) : trace * bool :=
  match tr with [] => ([], false) | x :: r => cut_go c w0 x [] r end.

(* ------------------------------------------------------------------ C02 / C06: rotations *)

Fixpoint index_of (a : Z) (l : list Z) : option nat :=
  match l with
  | [] => None
  | x :: r => if x =? a then Some O else option_map S (index_of a r)
  end.

Definition succ_in (S : list Z) (a : Z) : option Z :=
  match index_of a S with
  | Some k => nth_error S ((k + 1) mod length S)
  | None => None
  end.

Fixpoint ascb (l : list Z) : bool :=
  match l with
  | [] => true
  | a :: t => match t with [] => true | b :: _ => (a <? b) && ascb t end
  end.

Fixpoint rot_go (S : list Z) (expect : option Z) (ps : list (Z * Z)) : bool :=
  match ps with
  | [] => true
  | (sa, da) :: r =>
      (match expect with None => true | Some e => sa =? e end)
      && opt_eqb (succ_in S sa) (Some da)
      && rot_go S (Some da) r
  end.
Definition c02_rot_b (S : list Z) (ps : list (Z * Z)) : bool := ascb S && rot_go S None ps.

(* known class F13: self-passes of two different stations *)
Fixpoint first_self (ps : list (Z * Z)) : option Z :=
  match ps with
  | [] => None
  | (sa, da) :: r => if sa =? da then Some sa else first_self r
  end.
Definition two_self_holders_b (ps : list (Z * Z)) : bool :=
  match first_self ps with
  | Some a => existsb (fun p => (fst p =? snd p) && negb (fst p =? a)) ps
  | None => false
  end.

Fixpoint list_eqb (a b : list Z) : bool :=
  match a, b with
  | [], [] => true
  | x :: a', y :: b' => (x =? y) && list_eqb a' b'
  | _, _ => false
  end.

Definition view_okb (S : list Z) (v : view) : bool :=
  v_in_ring v && list_eqb (v_las v) S &&
  opt_eqb (succ_in S (v_addr v)) (Some (v_ns v)) && opt_eqb (succ_in S (v_ps v)) (Some (v_addr v)).

(* transmissions inside [lo, hi] (scaled) *)
Definition in_window (lo hi : Z) (x : btx) : bool :=
  (lo <=? start_sc x) && (end_sc x <=? hi).
Definition window (lo hi : Z) (tr : trace) : trace := filter (in_window lo hi) tr.

(* the longest suffix of a (reversed) trace whose token passes are rotations of S; forward order *)
Fixpoint clean_go (S : list Z) (later_sa : option Z) (rtr : trace) (acc : trace) : trace :=
  match rtr with
  | [] => acc
  | x :: r =>
      match pass_of x with
      | None => clean_go S later_sa r (x :: acc)
      | Some (sa, da) =>
          if opt_eqb (succ_in S sa) (Some da) &&
             (match later_sa with None => true | Some l => l =? da end)
          then clean_go S (Some sa) r (x :: acc)
          else acc
      end
  end.
Definition clean_suffix (S : list Z) (tr : trace) : trace := clean_go S None (rev_append tr []) [].

(* ------------------------------------------------------------------ C13 *)

Definition hold_check (TTR C O : Z) (e_old e1 s2 e2 : Z) : bool :=
  (s2 - e1 <=? Z.max 0 (TTR - (e1 - e_old)) + C) && (e2 - s2 <=? O).

(* old = visits from 0, cur = visits from n: visit v of cur is compared with visit v of old *)
Fixpoint hold_go (TTR C O : Z) (old cur : list visit) : bool :=
  match old, cur with
  | (_, eo) :: old', (_, e1) :: cur' =>
      match cur' with
      | (s2, e2) :: _ => hold_check TTR C O eo e1 s2 e2 && hold_go TTR C O old' cur'
      | [] => true
      end
  | _, _ => true
  end.

(* arrival <= next start <= next arrival, all along *)
Fixpoint wf_go (vs : list visit) : bool :=
  match vs with
  | (_, e1) :: (((s2, e2) :: _) as r) => (e1 <=? s2) && (s2 <=? e2) && wf_go r
  | _ => true
  end.

(* the hold-rule monitor: from its second visit on every station passes the token on at most
   max 0 (TTR - time since its previous receipt) + C after receiving it; a pass costs at most O *)
Definition c13_hold_b (n : nat) (TTR C O : Z) (vs : list visit) : bool :=
  Nat.leb 1 n && wf_go vs && hold_go TTR C O vs (skipn n vs).

Fixpoint bound_go (B : Z) (old cur : list visit) : bool :=
  match old, cur with
  | (_, eo) :: old', (_, e1) :: cur' => (e1 - eo <=? B) && bound_go B old' cur'
  | _, _ => true
  end.
(* the conclusion, checked directly: arrival (v+n) - arrival v <= B for n <= v *)
Definition c13_bound_b (n : nat) (B : Z) (vs : list visit) : bool :=
  bound_go B (skipn n vs) (skipn (n + n) vs).

(* no starvation: a station with an always-ready application sends at least one data telegram
   in every token visit.  holder = destination of the last pass seen, sent = it has sent data *)
Fixpoint served_go (hungry : list Z) (holder : option Z) (sent : bool) (tr : trace) : bool :=
  match tr with
  | [] => true
  | x :: r =>
      match pass_of x with
      | Some (sa, da) =>
          (match holder with
           | Some h => negb ((h =? sa) && existsb (Z.eqb sa) hungry && negb sent)
           | None => true
           end) && served_go hungry (Some da) false r
      | None =>
          served_go hungry holder
            (sent || match holder with Some h => tx_sender x =? h | None => false end) r
      end
  end.
Definition c13_served_b (hungry : list Z) (tr : trace) : bool := served_go hungry None false tr.

(* scaled constants of a configuration *)
Definition sc_bits (bits : Z) : Z := bits * M.
Definition c13_bound_sc (c : buscfg) (n : nat) : Z :=
  sc_bits (c_ttr c) + Z.of_nat n * (sc_bits (c13_C_bits c) + sc_bits c13_O_bits).

(* start times (scaled) of the transmissions that begin before the latest end so far: collisions
   on the medium, which C06 counts among the disturbances *)
Fixpoint collisions (maxend : option Z) (tr : trace) : list Z :=
  match tr with
  | [] => []
  | y :: r =>
      let rest := collisions
        (Some (match maxend with None => end_sc y | Some m => Z.max m (end_sc y) end)) r in
      match maxend with
      | Some m => if start_sc y <? m then start_sc y :: rest else rest
      | None => rest
      end
  end.
