(* C19 - a fuelled interpreter for PEGs with the extensions of pest, producing the pair tree of pest.
   VALIDATED ONLY: the correspondence driver compares it with the real pest parser (harness, same gsd.pest) at tree
   level on every case of a run; no theorem of C19 depends on it (the proved claims start at the pair tree).

   Semantics follow pest_generator 2.9 (generator.rs) and ParserState of pest:
     - sequence a b     in a non-atomic context: a, implicit skip, b;   atomic: a, b
     - repetition of e  optional(e, then repeat(skip, e));  one-or-more is unrolled to e followed by repetition of e
     - skip             only when the current atomicity is NonAtomic: repeat WHITESPACE, then repeat (COMMENT, repeat WHITESPACE)
     - rule call        a pair is produced unless inside a lookahead, or the atomicity at entry is Atomic, or the rule
                        is silent;  an atomic rule runs its body atomically (inner rules produce no pairs); compound-atomic
                        and non-atomic modifiers set the atomicity before entry; the bodies of WHITESPACE / COMMENT are
                        always atomic
     - predicates       lookahead: no input consumed, no pairs
     - insensitive str  ASCII case-insensitive;  NEWLINE = LF | CR LF | CR;  ANY = one scalar value;  SOI; EOI (a pair)
   A failing expression consumes nothing and produces no pairs (the functional result is simply dropped).
   Text is a list of Unicode scalar values; positions are only used for SOI. The pair text is kept for pairs
   without inner pairs (the harness dumps exactly that). *)
From PB Require Import Common GsdGrammar GsdInterp GsdShape.

Inductive mode : Set := MdNonAtomic | MdAtomic | MdCompound.

Definition mode_is_atomic (m : mode) : bool := match m with MdAtomic => true | _ => false end.
Definition mode_is_nonatomic (m : mode) : bool := match m with MdNonAtomic => true | _ => false end.

(* the steps that are repeated *)
Inductive loopk : Set :=
| LkBody (a : expr)      (* skip, a  (in a repetition) *)
| LkWs                   (* WHITESPACE *)
| LkCm                   (* COMMENT *)
| LkCmWs.                (* COMMENT, repeat WHITESPACE *)

Inductive task : Set :=
| TExpr (e : expr)
| TCall (r : rule)
| TStep (k : loopk)
| TLoop (k : loopk)
| TSkip.

(* remaining input, position, pairs produced (in order) *)
Definition pout : Type := str * Z * list tree.
Definition pres : Type := res (option pout).

Definition ci_eqb (a b : Z) : bool := lower_char a =? lower_char b.     (* u8::eq_ignore_ascii_case *)

Fixpoint strip_prefix (ci : bool) (p s : str) : option str :=
  match p with
  | [] => Some s
  | x :: p' =>
      match s with
      | [] => None
      | y :: s' => if (if ci then ci_eqb x y else x =? y) then strip_prefix ci p' s' else None
      end
  end.

Definition match_range (a b : Z) (inp : str) (pos : Z) : option pout :=
  match inp with
  | c :: r => if (a <=? c) && (c <=? b) then Some (r, pos + 1, []) else None
  | [] => None
  end.

Definition or_else (x y : option pout) : option pout := match x with Some _ => x | None => y end.

Definition match_builtin (b : builtin) (inp : str) (pos : Z) : option pout :=
  match b with
  | B_ANY => match inp with _ :: r => Some (r, pos + 1, []) | [] => None end
  | B_SOI => if pos =? 0 then Some (inp, pos, []) else None
  | B_EOI => None                                   (* handled by the interpreter: it produces a pair *)
  | B_NEWLINE =>
      match inp with
      | 10 :: r => Some (r, pos + 1, [])
      | 13 :: 10 :: r => Some (r, pos + 2, [])
      | 13 :: r => Some (r, pos + 1, [])
      | _ => None
      end
  | B_ASCII_DIGIT => match_range 48 57 inp pos
  | B_ASCII_NONZERO_DIGIT => match_range 49 57 inp pos
  | B_ASCII_BIN_DIGIT => match_range 48 49 inp pos
  | B_ASCII_OCT_DIGIT => match_range 48 55 inp pos
  | B_ASCII_HEX_DIGIT => or_else (match_range 48 57 inp pos) (or_else (match_range 97 102 inp pos) (match_range 65 70 inp pos))
  | B_ASCII_ALPHA_LOWER => match_range 97 122 inp pos
  | B_ASCII_ALPHA_UPPER => match_range 65 90 inp pos
  | B_ASCII_ALPHA => or_else (match_range 97 122 inp pos) (match_range 65 90 inp pos)
  | B_ASCII_ALPHANUMERIC =>
      or_else (match_range 97 122 inp pos) (or_else (match_range 65 90 inp pos) (match_range 48 57 inp pos))
  | B_ASCII => match_range 0 127 inp pos
  end.

Definition has_rule (g : list (rule * modifier * expr)) (r : rule) : bool :=
  match lookup_rule r g with Some _ => true | None => false end.

Definition is_implicit (r : rule) : bool := rule_eqb r R_WHITESPACE || rule_eqb r R_COMMENT.

(* sequencing of two results *)
Definition then_ (x : pres) (k : str -> Z -> pres) : pres :=
  match x with
  | Ok (Some (i1, p1, t1)) =>
      match k i1 p1 with
      | Ok (Some (i2, p2, t2)) => Ok (Some (i2, p2, t1 ++ t2))
      | other => other
      end
  | other => other
  end.

Fixpoint run (g : list (rule * modifier * expr)) (fuel : nat) (m : mode) (la : bool) (t : task)
             (inp : str) (pos : Z) {struct fuel} : pres :=
  match fuel with
  | O => OutOfFuel
  | S f =>
      let skip_if_nonatomic (i : str) (p : Z) : pres :=
        if mode_is_nonatomic m then run g f m la TSkip i p else Ok (Some (i, p, [])) in
      match t with
      | TExpr e =>
          match e with
          | EStr s =>
              Ok (match strip_prefix false s inp with Some r => Some (r, pos + Z.of_nat (length s), []) | None => None end)
          | EInsens s =>
              Ok (match strip_prefix true s inp with Some r => Some (r, pos + Z.of_nat (length s), []) | None => None end)
          | ERange a b => Ok (match_range a b inp pos)
          | EBuiltin B_EOI =>
              (* state.rule(Rule::EOI, |state| state.end_of_input()) *)
              match inp with
              | [] => Ok (Some (inp, pos, if negb la && negb (mode_is_atomic m) then [Node R_EOI [] []] else []))
              | _ :: _ => Ok None
              end
          | EBuiltin b => Ok (match_builtin b inp pos)
          | ERule r => run g f m la (TCall r) inp pos
          | ESeq a b =>
              then_ (run g f m la (TExpr a) inp pos) (fun i1 p1 =>
              then_ (skip_if_nonatomic i1 p1) (fun i2 p2 =>
              run g f m la (TExpr b) i2 p2))
          | EChoice a b =>
              match run g f m la (TExpr a) inp pos with
              | Ok None => run g f m la (TExpr b) inp pos
              | other => other
              end
          | EOpt a =>
              match run g f m la (TExpr a) inp pos with
              | Ok None => Ok (Some (inp, pos, []))
              | other => other
              end
          | ERep a =>
              match run g f m la (TExpr a) inp pos with
              | Ok None => Ok (Some (inp, pos, []))
              | Ok (Some (i1, p1, t1)) =>
                  then_ (Ok (Some (i1, p1, t1))) (fun i p => run g f m la (TLoop (LkBody a)) i p)
              | other => other
              end
          | ERepPlus a => run g f m la (TExpr (ESeq a (ERep a))) inp pos
          | EPos a =>
              match run g f m true (TExpr a) inp pos with
              | Ok (Some _) => Ok (Some (inp, pos, []))
              | other => other
              end
          | ENeg a =>
              match run g f m true (TExpr a) inp pos with
              | Ok (Some _) => Ok None
              | Ok None => Ok (Some (inp, pos, []))
              | other => other
              end
          end
      | TCall r =>
          match lookup_rule r g with
          | None => Ok None
          | Some (md, body) =>
              let entry_mode := match md with MCompound => MdCompound | MNonAtomic => MdNonAtomic | _ => m end in
              let body_mode :=
                match md with
                | MAtomic => MdAtomic
                | MCompound => MdCompound
                | MNonAtomic => MdNonAtomic
                | _ => if is_implicit r then MdAtomic else m
                end in
              match run g f body_mode la (TExpr body) inp pos with
              | Ok (Some (i1, p1, toks)) =>
                  match md with
                  | MSilent => Ok (Some (i1, p1, toks))
                  | _ =>
                      if negb la && negb (mode_is_atomic entry_mode) then
                        let txt := match toks with [] => firstn (Z.to_nat (p1 - pos)) inp | _ :: _ => [] end in
                        Ok (Some (i1, p1, [Node r txt toks]))
                      else Ok (Some (i1, p1, []))
                  end
              | other => other
              end
          end
      | TStep k =>
          match k with
          | LkBody a =>
              then_ (skip_if_nonatomic inp pos) (fun i1 p1 => run g f m la (TExpr a) i1 p1)
          | LkWs => run g f m la (TCall R_WHITESPACE) inp pos
          | LkCm => run g f m la (TCall R_COMMENT) inp pos
          | LkCmWs =>
              then_ (run g f m la (TCall R_COMMENT) inp pos) (fun i1 p1 => run g f m la (TLoop LkWs) i1 p1)
          end
      | TLoop k =>
          match run g f m la (TStep k) inp pos with
          | Ok None => Ok (Some (inp, pos, []))
          | Ok (Some (i1, p1, t1)) =>
              then_ (Ok (Some (i1, p1, t1))) (fun i p => run g f m la (TLoop k) i p)
          | other => other
          end
      | TSkip =>
          match has_rule g R_WHITESPACE, has_rule g R_COMMENT with
          | false, false => Ok (Some (inp, pos, []))
          | true, false => run g f m la (TLoop LkWs) inp pos
          | false, true => run g f m la (TLoop LkCm) inp pos
          | true, true =>
              then_ (run g f m la (TLoop LkWs) inp pos) (fun i1 p1 => run g f m la (TLoop LkCmWs) i1 p1)
          end
      end
  end.

(* GsdParser::parse(Rule::gsd, text): the pair of the start rule, or None for a syntax error *)
Definition peg_fuel (text : str) : nat := (4 * length text + 400)%nat.

Definition peg_parse (text : str) : res (option tree) :=
  match run grammar (peg_fuel text) MdNonAtomic false (TCall R_gsd) text 0 with
  | Ok (Some (_, _, [t])) => Ok (Some t)
  | Ok _ => Ok None
  | Panic s => Panic s
  | OutOfFuel => OutOfFuel
  end.

(* the whole model of gsd_parser::parser::parse at text level: PEG model of pest, then the interpretation step.
   Ok (Some (d, w)) = description and number of warnings, Ok None = Err (syntax error or error of parser.rs) *)
Definition gsd_model (text : str) : res (option (desc * Z)) :=
  match peg_parse text with
  | Ok (Some t) => to_res (interp t)
  | Ok None => Ok None
  | Panic s => Panic s
  | OutOfFuel => OutOfFuel
  end.
