(* C19 - model of the INTERPRETATION step of gsd-parser/src/parser.rs (after the F8 repairs):
   the walk over pest's pair tree that builds the GenericStationDescription.

   The pair tree itself is produced by the pest library from gsd.pest (trusted, see C19 trusted base);
   the correspondence driver feeds the REAL pair tree (dumped by the harness's own pest parser, compiled
   from the same grammar file) to `interp` and compares with the real parser's result.

   Every panic-capable construct of parser.rs (unwrap / expect / assert! / unreachable! / panic!) is an
   explicit `PPanic` here; the parser's error return is `PErr`.  All recursion is structural: no fuel.

   Text is a list of Unicode scalar values.  Rule names, the key -> action table of the top-level
   `setting` match, the scalar fields with their integer types and defaults, and the data type names come
   from coq/Generated (gen/tr_gsd.py). *)
From PB Require Import Common GsdGrammar GsdTables.

Definition str := list Z.

Inductive tree : Type := Node (r : rule) (txt : str) (cs : list tree).
Definition root (t : tree) : rule := match t with Node r _ _ => r end.
Definition text (t : tree) : str := match t with Node _ s _ => s end.
Definition kids (t : tree) : list tree := match t with Node _ _ cs => cs end.

(* result of the parser: Ok / Err(ParseError) / panic *)
Inductive pr (A : Type) : Type :=
| POk (a : A)
| PErr
| PPanic (s : site).
Arguments POk {A} a.
Arguments PErr {A}.
Arguments PPanic {A} s.

Definition pbind {A B} (r : pr A) (f : A -> pr B) : pr B :=
  match r with
  | POk a => f a
  | PErr => PErr
  | PPanic s => PPanic s
  end.
Notation "'let+' x ':=' r 'in' k" := (pbind r (fun x => k))
  (at level 200, x pattern, r at level 100, k at level 200, right associativity).

Definition of_opt {A} (o : option A) : pr A := match o with Some a => POk a | None => PErr end.

(* the conventions of Common.v: Ok (Some d) = description, Ok None = the parser's Err, Panic = panic *)
Definition to_res {A} (r : pr A) : res (option A) :=
  match r with
  | POk a => Ok (Some a)
  | PErr => Ok None
  | PPanic s => Panic s
  end.

(* ------------------------------------------------------------------------------------------ strings *)

Fixpoint str_eqb (a b : str) : bool :=
  match a, b with
  | [], [] => true
  | x :: a', y :: b' => (x =? y) && str_eqb a' b'
  | _, _ => false
  end.

(* Ord for String: lexicographic on bytes of the UTF-8 encoding = lexicographic on scalar values *)
Fixpoint str_compare (a b : str) : comparison :=
  match a, b with
  | [], [] => Eq
  | [], _ :: _ => Lt
  | _ :: _, [] => Gt
  | x :: a', y :: b' =>
      match Z.compare x y with
      | Eq => str_compare a' b'
      | c => c
      end
  end.

(* str::to_lowercase restricted to what can matter here: the result is only compared with ASCII literals,
   and the texts it is applied to are `identifier` pairs (ASCII by the grammar). *)
Definition lower_char (c : Z) : Z := if (65 <=? c) && (c <=? 90) then c + 32 else c.
Definition to_lower (s : str) : str := map lower_char s.

Fixpoint assoc_str {A} (k : str) (l : list (str * A)) : option A :=
  match l with
  | [] => None
  | (k', v) :: r => if str_eqb k k' then Some v else assoc_str k r
  end.

(* let mut chars = s.chars(); chars.next(); chars.next_back(); chars.as_str() *)
Definition drop_first_last (s : str) : str := removelast (tl s).

(* s.replace("\\\r\n", "") and s.replace("\\\n", ""): non-overlapping matches, left to right *)
Fixpoint remove_bs_crlf (s : str) : str :=
  match s with
  | [] => []
  | c :: r =>
      match r with
      | c1 :: c2 :: r2 =>
          if (c =? 92) && (c1 =? 13) && (c2 =? 10) then remove_bs_crlf r2 else c :: remove_bs_crlf r
      | _ => c :: remove_bs_crlf r
      end
  end.
Fixpoint remove_bs_lf (s : str) : str :=
  match s with
  | [] => []
  | c :: r =>
      match r with
      | c1 :: r1 => if (c =? 92) && (c1 =? 10) then remove_bs_lf r1 else c :: remove_bs_lf r
      | [] => [c]
      end
  end.
Definition unquote (s : str) : str := remove_bs_lf (remove_bs_crlf (drop_first_last s)).

(* ------------------------------------------------------------------------------------------ numbers *)

Definition u8_max : Z := 255.
Definition u16_max : Z := 65535.
Definition u32_max : Z := 4294967295.
Definition i64_min : Z := -9223372036854775808.
Definition i64_max : Z := 9223372036854775807.

(* char::to_digit(radix) for radix 10 / 16 *)
Definition digit_val (radix c : Z) : option Z :=
  if (48 <=? c) && (c <=? 57) then Some (c - 48)
  else if (radix =? 16) && (97 <=? c) && (c <=? 102) then Some (c - 87)
  else if (radix =? 16) && (65 <=? c) && (c <=? 70) then Some (c - 55)
  else None.

Fixpoint digits_val (radix acc : Z) (s : str) : option Z :=
  match s with
  | [] => Some acc
  | c :: r =>
      match digit_val radix c with
      | Some d => digits_val radix (acc * radix + d) r
      | None => None
      end
  end.

(* <int>::from_str_radix: empty -> Err, a lone sign -> Err, optional '+', '-' only for signed types,
   every other character must be a digit, the value must fit the type.  (All error kinds are mapped to
   the same ParseError by parser.rs.) *)
Definition from_str_radix (signed : bool) (lo hi radix : Z) (s : str) : option Z :=
  let in_range (v : Z) := if (lo <=? v) && (v <=? hi) then Some v else None in
  match s with
  | [] => None
  | [c] => if (c =? 43) || (c =? 45) then None
           else match digits_val radix 0 s with Some v => in_range v | None => None end
  | c :: rest =>
      if c =? 43 then match digits_val radix 0 rest with Some v => in_range v | None => None end
      else if (c =? 45) && signed then match digits_val radix 0 rest with Some v => in_range (- v) | None => None end
      else match digits_val radix 0 s with Some v => in_range v | None => None end
  end.

(* str::trim_start_matches("0x"): strips the prefix repeatedly *)
Fixpoint trim_0x (s : str) : str :=
  match s with
  | c1 :: r1 =>
      match r1 with
      | c2 :: r2 => if (c1 =? 48) && (c2 =? 120) then trim_0x r2 else s
      | [] => s
      end
  | [] => s
  end.

(* fn parse_number<T: TryFrom<u32>>: the text is parsed as u32 (decimal or hexadecimal), then converted
   to T (tmax = T::MAX; usize is 64 bit in the harness, so usize::try_from(u32) cannot fail).
   After the repair the catch-all arm returns Err instead of panicking. *)
Definition parse_number (tmax : Z) (p : tree) : pr Z :=
  match root p with
  | R_dec_number =>
      match from_str_radix false 0 u32_max 10 (text p) with
      | Some v => if v <=? tmax then POk v else PErr
      | None => PErr
      end
  | R_hex_number =>
      match from_str_radix false 0 u32_max 16 (trim_0x (text p)) with
      | Some v => if v <=? tmax then POk v else PErr
      | None => PErr
      end
  | _ => PErr
  end.

(* fn parse_signed_number -> i64; its catch-all arm still panics (it is unreachable for pest's trees) *)
Definition parse_signed (p : tree) : pr Z :=
  match root p with
  | R_dec_number => of_opt (from_str_radix true i64_min i64_max 10 (text p))
  | R_hex_number => of_opt (from_str_radix true i64_min i64_max 16 (trim_0x (text p)))
  | _ => PPanic SiteUnreachable
  end.

(* .map(parse).collect::<ParseResult<Vec<_>>>(): stops at the first error *)
Fixpoint map_pr {A B} (f : A -> pr B) (l : list A) : pr (list B) :=
  match l with
  | [] => POk []
  | a :: r => let+ b := f a in let+ bs := map_pr f r in POk (b :: bs)
  end.

Definition parse_number_list (tmax : Z) (p : tree) : pr (list Z) :=
  match root p with
  | R_number_list => map_pr (parse_number tmax) (kids p)
  | R_dec_number | R_hex_number => let+ v := parse_number tmax p in POk [v]
  | _ => PErr
  end.

Definition parse_bool (p : tree) : pr bool :=
  let+ v := parse_number u32_max p in POk (negb (v =? 0)).

Definition parse_string (p : tree) : pr str :=
  match root p with
  | R_string_literal => POk (unquote (text p))
  | _ => PErr
  end.

(* `iter.next().unwrap()` *)
Definition next_unwrap (l : list tree) : pr (tree * list tree) :=
  match l with
  | p :: r => POk (p, r)
  | [] => PPanic SiteUnwrap
  end.

(* `indexed_value(&mut pairs, span)?` (after the repair: a missing third pair is an error) *)
Definition next_indexed (l : list tree) : pr (tree * list tree) :=
  match l with
  | p :: r => POk (p, r)
  | [] => PErr
  end.

(* ------------------------------------------------------------------------------------------ result data (lib.rs) *)

Inductive dtype : Type :=
| DNamed (n : dtname)
| DBit (n : Z)
| DBitArea (a b : Z).

Inductive constraint : Type :=
| CNone
| CMinMax (a b : Z)
| CEnum (l : list Z).

Record prmdef : Type := mkDef {
  pd_name : str;
  pd_type : dtype;
  pd_default : Z;
  pd_constraint : constraint;
  pd_text : option (list (str * Z));     (* BTreeMap<String, i64>: sorted by key *)
  pd_changeable : bool;
  pd_visible : bool }.

Record userprm : Type := mkPrm {
  up_len : Z;
  up_const : list (Z * list Z);
  up_ref : list (Z * prmdef) }.
Definition prm_default : userprm := mkPrm 0 [] [].

Record module : Type := mkModule {
  m_name : str;
  m_info : option str;
  m_config : list Z;
  m_ref : option Z;
  m_prm : userprm }.

(* Arc<Module> of a slot = index into available_modules (modules are only ever appended) *)
Record slot : Type := mkSlot {
  sl_name : str;
  sl_number : Z;
  sl_default : nat;
  sl_allowed : list nat }.

Record diagbit : Type := mkDiagBit { db_text : str; db_help : option str }.

Record area : Type := mkArea { ar_first : Z; ar_last : Z; ar_values : list (Z * str) }.

Record desc : Type := mkDesc {
  d_num : nfield -> Z;
  d_str : sfield -> str;
  d_flag : bfield -> bool;
  d_speeds : Z;
  d_modules : list module;
  d_slots : list slot;
  d_prm : userprm;
  d_bits : list (Z * diagbit);       (* BTreeMap<u32, UnitDiagBitInfo> *)
  d_notbits : list (Z * diagbit);
  d_areas : list area }.

Definition desc_default : desc :=
  mkDesc nfield_default (fun _ => []) (fun _ => false) 0 [] [] prm_default [] [] [].

Definition nfield_eqb (a b : nfield) : bool := Nat.eqb (nfield_index a) (nfield_index b).
Definition sfield_eqb (a b : sfield) : bool := Nat.eqb (sfield_index a) (sfield_index b).
Definition bfield_eqb (a b : bfield) : bool := Nat.eqb (bfield_index a) (bfield_index b).

Definition set_num (f : nfield) (v : Z) (d : desc) : desc :=
  mkDesc (fun g => if nfield_eqb f g then v else d_num d g) (d_str d) (d_flag d) (d_speeds d)
         (d_modules d) (d_slots d) (d_prm d) (d_bits d) (d_notbits d) (d_areas d).
Definition set_str (f : sfield) (v : str) (d : desc) : desc :=
  mkDesc (d_num d) (fun g => if sfield_eqb f g then v else d_str d g) (d_flag d) (d_speeds d)
         (d_modules d) (d_slots d) (d_prm d) (d_bits d) (d_notbits d) (d_areas d).
Definition set_flag (f : bfield) (v : bool) (d : desc) : desc :=
  mkDesc (d_num d) (d_str d) (fun g => if bfield_eqb f g then v else d_flag d g) (d_speeds d)
         (d_modules d) (d_slots d) (d_prm d) (d_bits d) (d_notbits d) (d_areas d).
Definition set_speeds (v : Z) (d : desc) : desc :=
  mkDesc (d_num d) (d_str d) (d_flag d) v (d_modules d) (d_slots d) (d_prm d) (d_bits d) (d_notbits d) (d_areas d).
Definition set_modules (v : list module) (d : desc) : desc :=
  mkDesc (d_num d) (d_str d) (d_flag d) (d_speeds d) v (d_slots d) (d_prm d) (d_bits d) (d_notbits d) (d_areas d).
Definition set_slots (v : list slot) (d : desc) : desc :=
  mkDesc (d_num d) (d_str d) (d_flag d) (d_speeds d) (d_modules d) v (d_prm d) (d_bits d) (d_notbits d) (d_areas d).
Definition set_prm (v : userprm) (d : desc) : desc :=
  mkDesc (d_num d) (d_str d) (d_flag d) (d_speeds d) (d_modules d) (d_slots d) v (d_bits d) (d_notbits d) (d_areas d).
Definition set_bits (v : list (Z * diagbit)) (d : desc) : desc :=
  mkDesc (d_num d) (d_str d) (d_flag d) (d_speeds d) (d_modules d) (d_slots d) (d_prm d) v (d_notbits d) (d_areas d).
Definition set_notbits (v : list (Z * diagbit)) (d : desc) : desc :=
  mkDesc (d_num d) (d_str d) (d_flag d) (d_speeds d) (d_modules d) (d_slots d) (d_prm d) (d_bits d) v (d_areas d).
Definition set_areas (v : list area) (d : desc) : desc :=
  mkDesc (d_num d) (d_str d) (d_flag d) (d_speeds d) (d_modules d) (d_slots d) (d_prm d) (d_bits d) (d_notbits d) v.

(* BTreeMap with integer keys: sorted association list, insert replaces *)
Fixpoint zmap_insert {A} (k : Z) (v : A) (l : list (Z * A)) : list (Z * A) :=
  match l with
  | [] => [(k, v)]
  | (k', v') :: r =>
      if k <? k' then (k, v) :: l
      else if k =? k' then (k, v) :: r
      else (k', v') :: zmap_insert k v r
  end.
Fixpoint zmap_get {A} (k : Z) (l : list (Z * A)) : option A :=
  match l with
  | [] => None
  | (k', v) :: r => if k =? k' then Some v else zmap_get k r
  end.
(* BTreeMap<String, _> *)
Fixpoint smap_insert {A} (k : str) (v : A) (l : list (str * A)) : list (str * A) :=
  match l with
  | [] => [(k, v)]
  | (k', v') :: r =>
      match str_compare k k' with
      | Lt => (k, v) :: l
      | Eq => (k, v) :: r
      | Gt => (k', v') :: smap_insert k v r
      end
  end.

(* equality of modules by content (Arc<Module>: PartialEq compares the pointees) - used by
   `allowed_modules.contains(&default)` *)
Fixpoint list_eqb {A} (eqb : A -> A -> bool) (a b : list A) : bool :=
  match a, b with
  | [], [] => true
  | x :: a', y :: b' => eqb x y && list_eqb eqb a' b'
  | _, _ => false
  end.
Definition option_eqb {A} (eqb : A -> A -> bool) (a b : option A) : bool :=
  match a, b with
  | None, None => true
  | Some x, Some y => eqb x y
  | _, _ => false
  end.
Definition dtname_eqb (a b : dtname) : bool := Nat.eqb (dtname_index a) (dtname_index b).
Definition dtype_eqb (a b : dtype) : bool :=
  match a, b with
  | DNamed x, DNamed y => dtname_eqb x y
  | DBit x, DBit y => x =? y
  | DBitArea x1 x2, DBitArea y1 y2 => (x1 =? y1) && (x2 =? y2)
  | _, _ => false
  end.
Definition constraint_eqb (a b : constraint) : bool :=
  match a, b with
  | CNone, CNone => true
  | CMinMax x1 x2, CMinMax y1 y2 => (x1 =? y1) && (x2 =? y2)
  | CEnum x, CEnum y => list_eqb Z.eqb x y
  | _, _ => false
  end.
Definition prmdef_eqb (a b : prmdef) : bool :=
  str_eqb (pd_name a) (pd_name b) && dtype_eqb (pd_type a) (pd_type b) && (pd_default a =? pd_default b)
  && constraint_eqb (pd_constraint a) (pd_constraint b)
  && option_eqb (list_eqb (fun x y => str_eqb (fst x) (fst y) && (snd x =? snd y))) (pd_text a) (pd_text b)
  && Bool.eqb (pd_changeable a) (pd_changeable b) && Bool.eqb (pd_visible a) (pd_visible b).
Definition userprm_eqb (a b : userprm) : bool :=
  (up_len a =? up_len b)
  && list_eqb (fun x y => (fst x =? fst y) && list_eqb Z.eqb (snd x) (snd y)) (up_const a) (up_const b)
  && list_eqb (fun x y => (fst x =? fst y) && prmdef_eqb (snd x) (snd y)) (up_ref a) (up_ref b).
Definition module_eqb (a b : module) : bool :=
  str_eqb (m_name a) (m_name b) && option_eqb str_eqb (m_info a) (m_info b)
  && list_eqb Z.eqb (m_config a) (m_config b) && option_eqb Z.eqb (m_ref a) (m_ref b)
  && userprm_eqb (m_prm a) (m_prm b).

(* ------------------------------------------------------------------------------------------ interpreter state *)

Record st : Type := mkSt {
  s_gsd : desc;
  s_texts : list (Z * list (str * Z));     (* prm_texts: BTreeMap<u16, Arc<BTreeMap<String, i64>>> *)
  s_defs : list (Z * prmdef);              (* user_prm_data_definitions: BTreeMap<u32, Arc<..>> *)
  s_legacy : option userprm;               (* legacy_prm *)
  s_modspan : bool;                        (* modular_station_span.is_some() *)
  s_maxspan : bool;                        (* max_modules_span.is_some() *)
  s_warn : Z }.                            (* warnings.len() *)

Definition st_init : st := mkSt desc_default [] [] (Some prm_default) false false 0.

Definition with_gsd (g : desc) (s : st) : st :=
  mkSt g (s_texts s) (s_defs s) (s_legacy s) (s_modspan s) (s_maxspan s) (s_warn s).
Definition with_texts (v : list (Z * list (str * Z))) (s : st) : st :=
  mkSt (s_gsd s) v (s_defs s) (s_legacy s) (s_modspan s) (s_maxspan s) (s_warn s).
Definition with_defs (v : list (Z * prmdef)) (s : st) : st :=
  mkSt (s_gsd s) (s_texts s) v (s_legacy s) (s_modspan s) (s_maxspan s) (s_warn s).
Definition with_legacy (v : option userprm) (s : st) : st :=
  mkSt (s_gsd s) (s_texts s) (s_defs s) v (s_modspan s) (s_maxspan s) (s_warn s).
Definition with_modspan (s : st) : st :=
  mkSt (s_gsd s) (s_texts s) (s_defs s) (s_legacy s) true (s_maxspan s) (s_warn s).
Definition with_maxspan (s : st) : st :=
  mkSt (s_gsd s) (s_texts s) (s_defs s) (s_legacy s) (s_modspan s) true (s_warn s).
Definition with_warn (v : Z) (s : st) : st :=
  mkSt (s_gsd s) (s_texts s) (s_defs s) (s_legacy s) (s_modspan s) (s_maxspan s) v.

(* ------------------------------------------------------------------------------------------ prm_text *)

(* the `for value_pairs in content` loop of Rule::prm_text *)
Fixpoint prm_text_values (acc : list (str * Z)) (l : list tree) : pr (list (str * Z)) :=
  match l with
  | [] => POk acc
  | vp :: r =>
      match root vp with
      | R_prm_text_value =>
          let+ (n, r1) := next_unwrap (kids vp) in
          let+ number := parse_signed n in
          let+ (s, r2) := next_unwrap r1 in
          let+ value := parse_string s in
          match r2 with
          | [] => prm_text_values (smap_insert value number acc) r
          | _ :: _ => PPanic SiteAssert
          end
      | _ => PPanic SiteAssert
      end
  end.

Definition do_prm_text (s : st) (cs : list tree) : pr st :=
  let+ (idp, content) := next_unwrap cs in
  let+ id := parse_number u16_max idp in
  let+ values := prm_text_values [] content in
  POk (with_texts (zmap_insert id values (s_texts s)) s).

(* ------------------------------------------------------------------------------------------ ext_user_prm_data *)

Definition data_type_of (p : tree) : pr dtype :=
  match root p with
  | R_prm_data_type_name =>
      let+ (dt, _) := next_unwrap (kids p) in
      match root dt with
      | R_identifier =>
          match assoc_str (to_lower (text dt)) dtype_table with
          | Some n => POk (DNamed n)
          | None => PErr                                   (* repaired: was panic!("unknown data type") *)
          end
      | R_bit =>
          let+ (n, _) := next_unwrap (kids dt) in
          let+ b := parse_number u8_max n in
          POk (DBit b)
      | R_bit_area =>
          let+ (n1, r1) := next_unwrap (kids dt) in
          let+ first := parse_number u8_max n1 in
          let+ (n2, _) := next_unwrap r1 in
          let+ last := parse_number u8_max n2 in
          POk (DBitArea first last)
      | _ => PPanic SiteUnreachable
      end
  | _ => PPanic SiteAssert                                  (* assert_eq!(rule, prm_data_type_name) *)
  end.

Record defacc : Type := mkAcc {
  a_constraint : constraint; a_text : option (list (str * Z)); a_changeable : bool; a_visible : bool }.

(* the `for rule in content` loop of Rule::ext_user_prm_data *)
Fixpoint def_options (texts : list (Z * list (str * Z))) (a : defacc) (l : list tree) : pr defacc :=
  match l with
  | [] => POk a
  | p :: r =>
      match root p with
      | R_prm_data_value_range =>
          let+ (n1, r1) := next_unwrap (kids p) in
          let+ lo := parse_signed n1 in
          let+ (n2, _) := next_unwrap r1 in
          let+ hi := parse_signed n2 in
          def_options texts (mkAcc (CMinMax lo hi) (a_text a) (a_changeable a) (a_visible a)) r
      | R_prm_data_value_set =>
          let+ vs := map_pr parse_signed (kids p) in
          def_options texts (mkAcc (CEnum vs) (a_text a) (a_changeable a) (a_visible a)) r
      | R_prm_text_ref =>
          let+ (n, _) := next_unwrap (kids p) in
          let+ id := parse_number u16_max n in
          match zmap_get id texts with
          | Some t => def_options texts (mkAcc (a_constraint a) (Some t) (a_changeable a) (a_visible a)) r
          | None => PErr
          end
      | R_prm_data_changeable =>
          let+ (n, _) := next_unwrap (kids p) in
          let+ b := parse_bool n in
          def_options texts (mkAcc (a_constraint a) (a_text a) b (a_visible a)) r
      | R_prm_data_visible =>
          let+ (n, _) := next_unwrap (kids p) in
          let+ b := parse_bool n in
          def_options texts (mkAcc (a_constraint a) (a_text a) (a_changeable a) b) r
      | _ => PPanic SiteUnreachable
      end
  end.

Definition do_ext_user_prm_data (s : st) (cs : list tree) : pr st :=
  let+ (idp, r1) := next_unwrap cs in
  let+ id := parse_number u32_max idp in
  let+ (np, r2) := next_unwrap r1 in
  let+ name := parse_string np in
  let+ (tp, r3) := next_unwrap r2 in
  let+ ty := data_type_of tp in
  let+ (dp, r4) := next_unwrap r3 in
  let+ dflt := parse_signed dp in
  let+ a := def_options (s_texts s) (mkAcc CNone None true true) r4 in
  POk (with_defs (zmap_insert id (mkDef name ty dflt (a_constraint a) (a_text a) (a_changeable a) (a_visible a))
                              (s_defs s)) s).

(* ------------------------------------------------------------------------------------------ unit_diag_area *)

Fixpoint area_values (acc : list (Z * str)) (l : list tree) : pr (list (Z * str)) :=
  match l with
  | [] => POk acc
  | vp :: r =>
      match root vp with
      | R_unit_diag_area_value =>
          let+ (n, r1) := next_unwrap (kids vp) in
          let+ number := parse_number u16_max n in
          let+ (s, r2) := next_unwrap r1 in
          let+ value := parse_string s in
          match r2 with
          | [] => area_values (zmap_insert number value acc) r
          | _ :: _ => PPanic SiteAssert
          end
      | _ => PPanic SiteAssert
      end
  end.

Definition do_unit_diag_area (s : st) (cs : list tree) : pr st :=
  let+ (p1, r1) := next_unwrap cs in
  let+ first := parse_number u16_max p1 in
  let+ (p2, r2) := next_unwrap r1 in
  let+ last := parse_number u16_max p2 in
  let+ values := area_values [] r2 in
  POk (with_gsd (set_areas (d_areas (s_gsd s) ++ [mkArea first last values]) (s_gsd s)) s).

(* ------------------------------------------------------------------------------------------ module *)

Definition key_ext_module_prm_data_len : str :=
  [101; 120; 116; 95; 109; 111; 100; 117; 108; 101; 95; 112; 114; 109; 95; 100; 97; 116; 97; 95; 108; 101; 110].
Definition key_ext_user_prm_data_ref : str :=
  [101; 120; 116; 95; 117; 115; 101; 114; 95; 112; 114; 109; 95; 100; 97; 116; 97; 95; 114; 101; 102].
Definition key_ext_user_prm_data_const : str :=
  [101; 120; 116; 95; 117; 115; 101; 114; 95; 112; 114; 109; 95; 100; 97; 116; 97; 95; 99; 111; 110; 115; 116].
Definition key_info_text : str := [105; 110; 102; 111; 95; 116; 101; 120; 116].

Record modacc : Type := mkModAcc { ma_info : option str; ma_ref : option Z; ma_prm : userprm }.

Definition module_setting (defs : list (Z * prmdef)) (a : modacc) (cs : list tree) : pr modacc :=
  let+ (kp, r1) := next_unwrap cs in
  let key := to_lower (text kp) in
  let+ (vp, pairs) := next_unwrap r1 in
  let prm := ma_prm a in
  if str_eqb key key_ext_module_prm_data_len then
    let+ len := parse_number u8_max vp in
    POk (mkModAcc (ma_info a) (ma_ref a) (mkPrm len (up_const prm) (up_ref prm)))
  else if str_eqb key key_ext_user_prm_data_ref then
    let+ offset := parse_number u32_max vp in
    let+ (ip, _) := next_indexed pairs in
    let+ data_id := parse_number u32_max ip in
    match zmap_get data_id defs with
    | Some d => POk (mkModAcc (ma_info a) (ma_ref a) (mkPrm (up_len prm) (up_const prm) (up_ref prm ++ [(offset, d)])))
    | None => PErr                                          (* repaired: was expect("TODO") *)
    end
  else if str_eqb key key_ext_user_prm_data_const then
    let+ offset := parse_number u32_max vp in
    let+ (lp, _) := next_indexed pairs in
    let+ values := parse_number_list u8_max lp in
    POk (mkModAcc (ma_info a) (ma_ref a) (mkPrm (up_len prm) (up_const prm ++ [(offset, values)]) (up_ref prm)))
  else if str_eqb key key_info_text then
    let+ t := parse_string vp in
    POk (mkModAcc (Some t) (ma_ref a) prm)
  else POk a.

(* the `for rule in content` loop of Rule::module *)
Fixpoint module_items (defs : list (Z * prmdef)) (a : modacc) (l : list tree) : pr modacc :=
  match l with
  | [] => POk a
  | p :: r =>
      match root p with
      | R_module_reference =>
          let+ (n, _) := next_unwrap (kids p) in
          let+ v := parse_number u32_max n in
          module_items defs (mkModAcc (ma_info a) (Some v) (ma_prm a)) r
      | R_setting =>
          let+ a' := module_setting defs a (kids p) in
          module_items defs a' r
      | R_data_area => module_items defs a r
      | _ => PPanic SiteUnreachable
      end
  end.

Definition do_module (s : st) (cs : list tree) : pr st :=
  let+ (np, r1) := next_unwrap cs in
  let+ name := parse_string np in
  let+ (cp, r2) := next_unwrap r1 in
  let+ config := parse_number_list u8_max cp in
  let+ a := module_items (s_defs s) (mkModAcc None None prm_default) r2 in
  POk (with_gsd (set_modules (d_modules (s_gsd s) ++ [mkModule name (ma_info a) config (ma_ref a) (ma_prm a)])
                             (s_gsd s)) s).

(* ------------------------------------------------------------------------------------------ slot_definition *)

(* the `find_module` closure: index of the first module with that reference *)
Fixpoint find_module_from (i : nat) (ms : list module) (reference : Z) : option nat :=
  match ms with
  | [] => None
  | m :: r =>
      match m_ref m with
      | Some x => if x =? reference then Some i else find_module_from (S i) r reference
      | None => find_module_from (S i) r reference
      end
  end.
Definition find_module (ms : list module) (reference : Z) : option nat := find_module_from 0 ms reference.

(* looks the references up in order; every miss pushes one warning *)
Fixpoint find_all (ms : list module) (refs : list Z) (warn : Z) : list nat * Z :=
  match refs with
  | [] => ([], warn)
  | x :: r =>
      match find_module ms x with
      | Some i => let (l, w) := find_all ms r warn in (i :: l, w)
      | None => find_all ms r (warn + 1)
      end
  end.

(* first..=last over u16 *)
Fixpoint range_from (n : nat) (x : Z) : list Z :=
  match n with
  | O => []
  | S n' => x :: range_from n' (x + 1)
  end.
Definition range_incl (first last : Z) : list Z := range_from (Z.to_nat (last - first + 1)) first.

(* the slot_value_set loop: parse and look up one by one (an error aborts, the warnings so far are lost with it) *)
Fixpoint slot_set (ms : list module) (l : list tree) (warn : Z) : pr (list nat * Z) :=
  match l with
  | [] => POk ([], warn)
  | p :: r =>
      let+ x := parse_number u16_max p in
      match find_module ms x with
      | Some i => let+ (lw) := slot_set ms r warn in POk (i :: fst lw, snd lw)
      | None => slot_set ms r (warn + 1)
      end
  end.

Definition module_at (ms : list module) (i : nat) : option module := nth_error ms i.

Definition contains_module (ms : list module) (allowed : list nat) (dflt : nat) : bool :=
  match module_at ms dflt with
  | Some d => existsb (fun i => match module_at ms i with Some m => module_eqb m d | None => false end) allowed
  | None => false
  end.

Definition do_slot (s : st) (cs : list tree) : pr st :=
  let ms := d_modules (s_gsd s) in
  let+ (p1, r1) := next_unwrap cs in
  let+ number := parse_number u8_max p1 in
  let+ (p2, r2) := next_unwrap r1 in
  let+ name := parse_string p2 in
  let+ (p3, r3) := next_unwrap r2 in
  let+ default_ref := parse_number u16_max p3 in
  let+ (vp, _) := next_unwrap r3 in
  let+ (aw) :=
    match root vp with
    | R_slot_value_range =>
        let+ (n1, q1) := next_unwrap (kids vp) in
        let+ first := parse_number u16_max n1 in
        let+ (n2, _) := next_unwrap q1 in
        let+ last := parse_number u16_max n2 in
        POk (find_all ms (range_incl first last) (s_warn s))
    | R_slot_value_set => slot_set ms (kids vp) (s_warn s)
    | _ => PPanic SiteUnreachable
    end in
  let allowed := fst aw in
  let warn := snd aw in
  match find_module ms default_ref with
  | None => PErr
  | Some dflt =>
      let warn' := if contains_module ms allowed dflt then warn else warn + 1 in
      POk (with_warn warn' (with_gsd (set_slots (d_slots (s_gsd s) ++ [mkSlot name number dflt allowed]) (s_gsd s)) s))
  end.

Fixpoint do_slots (s : st) (l : list tree) : pr st :=
  match l with
  | [] => POk s
  | p :: r =>
      match root p with
      | R_slot => let+ s' := do_slot s (kids p) in do_slots s' r
      | _ => PPanic SiteUnreachable
      end
  end.

(* ------------------------------------------------------------------------------------------ top-level setting *)

(* gsd.unit_diag.bits.entry(bit).or_default().text = text / .help = Some(text) *)
Definition bit_set_text (bit : Z) (t : str) (m : list (Z * diagbit)) : list (Z * diagbit) :=
  match zmap_get bit m with
  | Some e => zmap_insert bit (mkDiagBit t (db_help e)) m
  | None => zmap_insert bit (mkDiagBit t None) m
  end.
Definition bit_set_help (bit : Z) (t : str) (m : list (Z * diagbit)) : list (Z * diagbit) :=
  match zmap_get bit m with
  | Some e => zmap_insert bit (mkDiagBit (db_text e) (Some t)) m
  | None => zmap_insert bit (mkDiagBit [] (Some t)) m
  end.

Definition Zlength' {A} (l : list A) : Z := Z.of_nat (length l).

(* prm.data_const.iter().map(|(offset, values)| offset + values.len()).max().unwrap_or(0) *)
Definition current_max_length (p : userprm) : Z :=
  fold_left (fun acc ov => Z.max acc (fst ov + Zlength' (snd ov))) (up_const p) 0.

Definition do_special (sp : special) (s : st) (vp : tree) (pairs : list tree) : pr st :=
  let g := s_gsd s in
  match sp with
  | SP_modular_station =>
      let+ b := parse_bool vp in
      POk (with_gsd (set_flag BF_modular_station b g) (with_modspan s))
  | SP_max_module =>
      let+ v := parse_number (nfield_max NF_max_modules) vp in
      POk (with_gsd (set_num NF_max_modules v g) (with_maxspan s))
  | SP_ext_user_prm_data_ref =>
      let+ offset := parse_number u32_max vp in
      let+ (ip, _) := next_indexed pairs in
      let+ data_id := parse_number u32_max ip in
      match zmap_get data_id (s_defs s) with
      | Some d =>
          let p := d_prm g in
          POk (with_legacy None (with_gsd (set_prm (mkPrm (up_len p) (up_const p) (up_ref p ++ [(offset, d)])) g) s))
      | None => PErr                                        (* repaired: was expect("TODO") *)
      end
  | SP_ext_user_prm_data_const =>
      let+ offset := parse_number u32_max vp in
      let+ (lp, _) := next_indexed pairs in
      let+ values := parse_number_list u8_max lp in
      let p := d_prm g in
      POk (with_legacy None (with_gsd (set_prm (mkPrm (up_len p) (up_const p ++ [(offset, values)]) (up_ref p)) g) s))
  | SP_max_user_prm_data_len => POk (with_legacy None s)
  | SP_user_prm_data_len =>
      match s_legacy s with
      | Some prm =>
          let+ len := parse_number u8_max vp in
          if len <? current_max_length prm then PErr
          else POk (with_legacy (Some (mkPrm len (up_const prm) (up_ref prm))) s)
      | None => POk s
      end
  | SP_user_prm_data =>
      match s_legacy s with
      | Some prm =>
          let+ values := parse_number_list u8_max vp in
          if negb (up_len prm =? 0) && (up_len prm <? Zlength' values) then PErr
          else POk (with_legacy (Some (mkPrm (up_len prm) (up_const prm ++ [(0, values)]) (up_ref prm))) s)
      | None => POk s
      end
  | SP_unit_diag_bit =>
      let+ bit := parse_number u32_max vp in
      let+ (tp, _) := next_indexed pairs in
      let+ t := parse_string tp in
      POk (with_gsd (set_bits (bit_set_text bit t (d_bits g)) g) s)
  | SP_unit_diag_bit_help =>
      let+ bit := parse_number u32_max vp in
      let+ (tp, _) := next_indexed pairs in
      let+ t := parse_string tp in
      POk (with_gsd (set_bits (bit_set_help bit t (d_bits g)) g) s)
  | SP_unit_diag_not_bit =>
      let+ bit := parse_number u32_max vp in
      let+ (tp, _) := next_indexed pairs in
      let+ t := parse_string tp in
      POk (with_gsd (set_notbits (bit_set_text bit t (d_notbits g)) g) s)
  | SP_unit_diag_not_bit_help =>
      let+ bit := parse_number u32_max vp in
      let+ (tp, _) := next_indexed pairs in
      let+ t := parse_string tp in
      POk (with_gsd (set_notbits (bit_set_help bit t (d_notbits g)) g) s)
  end.

Definition do_action (a : action) (s : st) (vp : tree) (pairs : list tree) : pr st :=
  let g := s_gsd s in
  match a with
  | ANum f => let+ v := parse_number (nfield_max f) vp in POk (with_gsd (set_num f v g) s)
  | AStr f => let+ v := parse_string vp in POk (with_gsd (set_str f v g) s)
  | ABool f => let+ v := parse_bool vp in POk (with_gsd (set_flag f v g) s)
  | ASpeed mask => let+ v := parse_bool vp in
                   POk (if v then with_gsd (set_speeds (Z.lor (d_speeds g) mask) g) s else s)
  | ASpecial sp => do_special sp s vp pairs
  end.

Definition do_setting (s : st) (cs : list tree) : pr st :=
  let+ (kp, r1) := next_unwrap cs in
  let key := to_lower (text kp) in
  let+ (vp, pairs) := next_unwrap r1 in
  match assoc_str key setting_table with
  | Some a => do_action a s vp pairs
  | None => POk s
  end.

(* ------------------------------------------------------------------------------------------ the statement loop *)

Definition do_statement (s : st) (p : tree) : pr st :=
  match root p with
  | R_prm_text => do_prm_text s (kids p)
  | R_ext_user_prm_data => do_ext_user_prm_data s (kids p)
  | R_unit_diag_area => do_unit_diag_area s (kids p)
  | R_module => do_module s (kids p)
  | R_slot_definition => do_slots s (kids p)
  | R_setting => do_setting s (kids p)
  | _ => POk s
  end.

Fixpoint do_statements (s : st) (l : list tree) : pr st :=
  match l with
  | [] => POk s
  | p :: r => let+ s' := do_statement s p in do_statements s' r
  end.

(* the code after the loop: legacy parameter data, Max_Module default, compact stations *)
Definition post (s : st) : pr (desc * Z) :=
  let g := match s_legacy s with Some prm => set_prm prm (s_gsd s) | None => s_gsd s end in
  let g := if s_maxspan s then g else set_num NF_max_modules 1 g in
  if d_flag g BF_modular_station then POk (g, s_warn s)
  else
    let+ w1 :=
      if negb (d_num g NF_max_modules =? 1) then
        (* max_modules_span.or(modular_station_span).unwrap() *)
        if s_maxspan s || s_modspan s then POk (s_warn s + 1) else PPanic SiteUnwrap
      else POk (s_warn s) in
    let w2 := if negb (Nat.eqb (length (d_modules g)) 1) then w1 + 1 else w1 in
    POk (set_num NF_max_modules 1 g, w2).

(* parse_inner after pest: result = (description, number of warnings) *)
Definition interp (t : tree) : pr (desc * Z) :=
  let+ s := do_statements st_init (kids t) in
  post s.

(* the no-panic predicate of the theorems: the result is a description or the parser's error value *)
Definition no_panic {A} (r : pr A) : Prop :=
  match r with
  | PPanic _ => False
  | _ => True
  end.
