(* Executable oracles for C09 / C10: the boolean predicates the property theorems are
   stated with.  They are extracted and run on the implementation's outputs. *)
From PB Require Export Telegram.

(* -------------------------------------------------------------------------- C09 *)

(* the PROFIBUS frame format fixes the delimiter values; the generated constants must be these *)
Definition std_delimiters_ok : bool :=
  (SD1 =? 16) && (SD2 =? 104) && (SD3 =? 162) && (SD4 =? 220) && (ED =? 22) && (SC =? 229).

(* which inputs the property quantifies over (what the real code accepts) *)
Definition c09_domainb (h : header) (pdu : bytes) : bool :=
  wf_headerb h && all_bytesb pdu && Nat.leb (length_byte h (length pdu)) 249.

(* FC byte b decoded by the implementation to fc, re-encoded to b'. *)
Definition c09_fc_ok (b : Z) (r : option (fcode * Z)) : bool :=
  match r, fc_from_byte b with
  | None, None => true
  | Some (fc, b'), Some fc' =>
      fcode_eqb fc fc' && (b' =? fc_to_byte fc) &&
      ((b' =? b) || ((b' =? b - 128) && (Z.land b 64 =? 0)))   (* reserved bit 7 of a response is ignored *)
  | _, _ => false
  end.

Definition c09_enc_ok (h : header) (pdu rest : bytes)
           (wire : bytes) (sent : nat) (exp : option Z) (tlen : nat) (dec : option dres) : bool :=
  std_delimiters_ok && bytes_eqb wire (frame_spec h pdu) &&
  Nat.eqb sent (length wire) && Nat.eqb tlen sent &&
  opt_eqb exp (tx_expects_reply h) &&
  match dec with
  | Some (Accept t m) => telegram_eqb t (TData h pdu) && Nat.eqb m sent
  | _ => false
  end.

Definition c09_tok_ok (da sa : Z) (wire : bytes) (sent : nat) (exp : option Z) (tlen : nat)
           (dec : option dres) : bool :=
  std_delimiters_ok && bytes_eqb wire [SD4; da; sa] && Nat.eqb sent 3 && Nat.eqb tlen 3 && opt_eqb exp None &&
  match dec with
  | Some (Accept t m) => telegram_eqb t (TToken da sa) && Nat.eqb m 3
  | _ => false
  end.

Definition c09_sc_ok (wire : bytes) (sent : nat) (exp : option Z) (tlen : nat)
           (dec : option dres) : bool :=
  std_delimiters_ok && bytes_eqb wire [SC] && Nat.eqb sent 1 && Nat.eqb tlen 1 && opt_eqb exp None &&
  match dec with
  | Some (Accept t m) => telegram_eqb t TShortConf && Nat.eqb m 1
  | _ => false
  end.

(* -------------------------------------------------------------------------- C10 *)

(* announced total length of the frame that starts `l` (0: no frame can start like this) *)
Definition need (l : bytes) : nat :=
  match l with
  | [] => 1%nat
  | b0 :: _ =>
      if b0 =? SC then 1%nat
      else if b0 =? SD4 then 3%nat
      else if b0 =? SD1 then 6%nat
      else if b0 =? SD3 then 14%nat
      else if b0 =? SD2 then
        if Nat.ltb (length l) 6 then 6%nat else (Z.to_nat (nth 1 l 0%Z) + 6)%nat
      else 0%nat
  end.

(* the frame layout with the raw function code byte (the decoder ignores reserved bits) *)
Definition frame_raw (h : header) (fcbyte : Z) (pdu : bytes) : bytes :=
  let body :=
    [ h_da h + (match h_dsap h with Some _ => 128 | None => 0 end);
      h_sa h + (match h_ssap h with Some _ => 128 | None => 0 end);
      fcbyte ]
    ++ (match h_dsap h with Some d => [d] | None => [] end)
    ++ (match h_ssap h with Some s => [s] | None => [] end)
    ++ pdu in
  let lb := length body in
  (* the class is decided by the first delimiter of the input, the length must match it *)
  (if Nat.eqb lb 3 then [SD1] else if Nat.eqb lb 11 then [SD3] else [SD2; Z.of_nat lb; Z.of_nat lb; SD2])
  ++ body ++ [sum8 body; ED].

(* SD2 frames may legally carry 3 or 11 bytes too (LE = 3 / 11 with SD2 is accepted by the
   decoder and is a well-formed variable-length frame). *)
Definition frame_raw_sd2 (h : header) (fcbyte : Z) (pdu : bytes) : bytes :=
  let body :=
    [ h_da h + (match h_dsap h with Some _ => 128 | None => 0 end);
      h_sa h + (match h_ssap h with Some _ => 128 | None => 0 end);
      fcbyte ]
    ++ (match h_dsap h with Some d => [d] | None => [] end)
    ++ (match h_ssap h with Some s => [s] | None => [] end)
    ++ pdu in
  [SD2; Z.of_nat (length body); Z.of_nat (length body); SD2] ++ body ++ [sum8 body; ED].

Definition accept_ok (l : bytes) (t : telegram) (n : nat) : bool :=
  Nat.leb n (length l) &&
  match t with
  | TShortConf => Nat.eqb n 1 && bytes_eqb (firstn 1 l) [SC]
  | TToken da sa => Nat.eqb n 3 && bytes_eqb (firstn 3 l) [SD4; da; sa]
  | TData h pdu =>
      wf_headerb h && all_bytesb pdu &&
      let sd2 := nth 0 l 0 =? SD2 in
      let fcbyte := nth (if sd2 then 6 else 3)%nat l 0 in
      match fc_from_byte fcbyte with
      | Some fc => fcode_eqb fc (h_fc h)
      | None => false
      end &&
      bytes_eqb (firstn n l) (if sd2 then frame_raw_sd2 h fcbyte pdu else frame_raw h fcbyte pdu)
  end.

Definition c10_dec_ok (l : bytes) (r : option dres) : bool :=
  match r with
  | None => false                       (* panic *)
  | Some NeedMore => Nat.ltb (length l) (need l)
  | Some Reject => true
  | Some (Accept t n) => accept_ok l t n && Nat.eqb n (need l)
  end.

Definition is_delim (b : Z) : bool := (b =? SD1) || (b =? SD2) || (b =? SD3) || (b =? SD4) || (b =? SC).

Definition subst (l : bytes) (pos : nat) (v : Z) : bytes := firstn pos l ++ v :: skipn (S pos) l.

(* orig: a valid data frame or SC; the decoder's verdict r on subst orig pos v (v <> orig[pos]) *)
Definition c10_mut_ok (orig : bytes) (pos : nat) (v : Z) (r : option dres) : bool :=
  match r with
  | None => false
  | Some (Accept t n) =>
      (Nat.eqb pos 0 && is_delim v) ||
      match decode orig with
      | Ok (Accept t0 _) => telegram_eqb t t0
      | _ => false
      end
  | Some _ => true
  end.

(* Hamming distance of two bytes; the five frame-start bytes (used to state C10_single_bit) *)
Definition bit_positions : list Z := [0; 1; 2; 3; 4; 5; 6; 7].
Definition delims : list Z := [SD1; SD2; SD3; SD4; SC].
Definition popcount8 (b : Z) : nat := length (filter (Z.testbit b) bit_positions).
Definition hamming (a b : Z) : nat := popcount8 (Z.lxor a b).
