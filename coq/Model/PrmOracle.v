(* Specification side of property C20 (no proofs here):
     - which values a data type admits (`in_type_range`), which bits a field occupies (`in_field`)
       and what they must hold (`field_bit`: big endian, two's complement = Z.testbit of the value),
     - `spec_write`: the block with exactly the field's bits replaced,
     - `overlay`: constants laid down, then every referenced default written with `spec_write`,
     - `spec_expect`: whether a set_prm / set_prm_from_text call has to be accepted,
     - the boolean oracles the driver runs on the implementation's outputs,
     - the known class F9 (`known_write`, `known_new`): a BitArea field written into a byte that
       has a bit set outside the area.
   Nothing in this file looks at how the crate computes bytes (no shifts, masks, be_bytes). *)
From PB Require Import Common PrmTables Prm.

(* sizes as the GSD specification has them; Proofs/C20Proofs.v shows dt_size = spec_size *)
Definition spec_size (dt : prm_dtype) : nat :=
  match dt with
  | DtUnsigned8 | DtSigned8 | DtBit _ | DtBitArea _ _ => 1%nat
  | DtUnsigned16 | DtSigned16 => 2%nat
  | DtUnsigned32 | DtSigned32 => 4%nat
  end.

Definition zrange (lo hi v : Z) : bool := (lo <=? v) && (v <=? hi).

(* values of the data type; a Bit / BitArea that does not lie inside one byte admits none *)
Definition in_type_range (dt : prm_dtype) (v : Z) : bool :=
  match dt with
  | DtUnsigned8 => zrange 0 255 v
  | DtUnsigned16 => zrange 0 65535 v
  | DtUnsigned32 => zrange 0 4294967295 v
  | DtSigned8 => zrange (-128) 127 v
  | DtSigned16 => zrange (-32768) 32767 v
  | DtSigned32 => zrange (-2147483648) 2147483647 v
  | DtBit b => zrange 0 7 b && zrange 0 1 v
  | DtBitArea f l => (0 <=? f) && (f <=? l) && (l <=? 7) && (0 <=? v) && (v <? 2 ^ (l - f + 1))
  end.

(* bit k (0 = least significant) of block byte i belongs to the field (off, dt) *)
Definition in_field (off : nat) (dt : prm_dtype) (i : nat) (k : Z) : bool :=
  match dt with
  | DtBit b => Nat.eqb i off && (k =? b)
  | DtBitArea f l => Nat.eqb i off && ((f <=? k) && (k <=? l))
  | _ => Nat.leb off i && Nat.ltb i (off + spec_size dt)
  end.

(* what that bit holds when the field has value v: big endian over the bytes, two's complement
   (Z.testbit of a negative number is its infinite two's complement expansion) *)
Definition field_bit (off : nat) (dt : prm_dtype) (v : Z) (i : nat) (k : Z) : bool :=
  match dt with
  | DtBit b => Z.testbit v (k - b)
  | DtBitArea f _ => Z.testbit v (k - f)
  | _ => Z.testbit v (8 * Z.of_nat (off + spec_size dt - 1 - i) + k)
  end.

Definition byte_of_bits (f : Z -> bool) : Z :=
  b2z (f 0) + 2 * b2z (f 1) + 4 * b2z (f 2) + 8 * b2z (f 3) +
  16 * b2z (f 4) + 32 * b2z (f 5) + 64 * b2z (f 6) + 128 * b2z (f 7).

Definition spec_byte (off : nat) (dt : prm_dtype) (v : Z) (i : nat) (x : Z) : Z :=
  byte_of_bits (fun k => if in_field off dt i k then field_bit off dt v i k else Z.testbit x k).

Fixpoint mapi_from (i : nat) (g : nat -> Z -> Z) (l : bytes) : bytes :=
  match l with
  | [] => []
  | x :: r => g i x :: mapi_from (S i) g r
  end.

(* the block with exactly the bits of field (off, dt) set to value v *)
Definition spec_write (off : nat) (dt : prm_dtype) (v : Z) (p : bytes) : bytes :=
  mapi_from 0 (spec_byte off dt v) p.

(* ------------------------------------------------------------------ overlay = what new() must build *)

Definition lay_consts (cs : list (nat * bytes)) (p : bytes) : bytes :=
  fold_left (fun p c => splice (grow p (fst c + length (snd c))) (fst c) (snd c)) cs p.

(* None: a default value lies outside its data type -> new() has to return Err *)
Fixpoint overlay_refs (rs : list (nat * prm_def)) (p : bytes) : option bytes :=
  match rs with
  | [] => Some p
  | (off, d) :: rs' =>
      if in_type_range (d_type d) (d_default d)
      then overlay_refs rs' (spec_write off (d_type d) (d_default d) (grow p (off + spec_size (d_type d))))
      else None
  end.

Definition overlay (d : desc) : option bytes := overlay_refs (refs d) (lay_consts (consts d) []).

(* ------------------------------------------------------------------ known class F9 *)

Definition bit_positions : list Z := [0; 1; 2; 3; 4; 5; 6; 7].

(* byte x has a bit set outside the area f..l *)
Definition outside_bits (f l x : Z) : bool :=
  existsb (fun k => negb ((f <=? k) && (k <=? l)) && Z.testbit x k) bit_positions.

(* the write of field (off, dt) into block p belongs to the known class *)
Definition known_write (off : nat) (dt : prm_dtype) (p : bytes) : bool :=
  match dt with
  | DtBitArea f l => outside_bits f l (nth off p 0)
  | _ => false
  end.

(* new(): some default write along the overlay belongs to the known class *)
Fixpoint known_refs (rs : list (nat * prm_def)) (p : bytes) : bool :=
  match rs with
  | [] => false
  | (off, d) :: rs' =>
      let p1 := grow p (off + spec_size (d_type d)) in
      known_write off (d_type d) p1 ||
      (if in_type_range (d_type d) (d_default d)
       then known_refs rs' (spec_write off (d_type d) (d_default d) p1)
       else false)
  end.

Definition known_new (d : desc) : bool := known_refs (refs d) (lay_consts (consts d) []).

(* ------------------------------------------------------------------ which calls must be accepted *)

Inductive expect : Type :=
| ExpAccept (off : nat) (dt : prm_dtype) (v : Z)
| ExpReject.

Definition expect_value (off : nat) (def : prm_def) (v : Z) : expect :=
  if constraint_valid (d_constraint def) v && in_type_range (d_type def) v
  then ExpAccept off (d_type def) v else ExpReject.

Definition spec_expect (d : desc) (o : op) : expect :=
  match o with
  | OpSet n v =>
      match find_ref (refs d) n with
      | None => ExpReject
      | Some (off, def) => expect_value off def v
      end
  | OpText n t =>
      match find_ref (refs d) n with
      | None => ExpReject
      | Some (off, def) =>
          match d_texts def with
          | None => ExpReject
          | Some texts =>
              match assoc texts t with
              | None => ExpReject
              | Some v => expect_value off def v
              end
          end
      end
  end.

(* ------------------------------------------------------------------ oracles (run on the crate's outputs) *)

Definition opt_bytes_eqb (a b : option bytes) : bool :=
  match a, b with
  | None, None => true
  | Some x, Some y => bytes_eqb x y
  | _, _ => false
  end.

(* new(): r = None for a panic, Some None for Err, Some (Some block) for Ok *)
Definition c20_new_ok (d : desc) (r : option (option bytes)) : bool :=
  match r with
  | None => false
  | Some r' => opt_bytes_eqb r' (overlay d)
  end.

(* one call on block p: accepted = None for a panic, Some true for Ok, Some false for Err; p' = as_bytes() afterwards *)
Definition c20_step_ok (d : desc) (p : bytes) (o : op) (accepted : option bool) (p' : bytes) : bool :=
  match accepted with
  | None => false
  | Some acc =>
      match spec_expect d o with
      | ExpAccept off dt v => acc && bytes_eqb p' (spec_write off dt v p)
      | ExpReject => negb acc && bytes_eqb p' p
      end
  end.

(* the call belongs to the known class *)
Definition c20_step_known (d : desc) (p : bytes) (o : op) : bool :=
  match spec_expect d o with
  | ExpAccept off dt v => known_write off dt p
  | ExpReject => false
  end.

(* what still has to hold inside the known class: accepted, the field's own bits hold the value and
   every other byte of the block is unchanged (only the rest of that one byte is excused) *)
Definition same_except (off : nat) (p p' : bytes) : bool :=
  Nat.eqb (length p) (length p') &&
  bytes_eqb (firstn off p') (firstn off p) && bytes_eqb (skipn (S off) p') (skipn (S off) p).

Definition c20_step_known_ok (d : desc) (p : bytes) (o : op) (accepted : option bool) (p' : bytes) : bool :=
  match accepted, spec_expect d o with
  | Some true, ExpAccept off dt v =>
      same_except off p p' &&
      forallb (fun k => negb (in_field off dt off k) || Bool.eqb (Z.testbit (nth off p' 0) k) (field_bit off dt v off k))
              bit_positions
  | _, _ => false
  end.

(* well-formedness of inputs: bytes are bytes *)
Definition wf_consts (cs : list (nat * bytes)) : bool := forallb (fun c => all_bytesb (snd c)) cs.

(* every referenced field lies inside the block *)
Definition covers (rs : list (nat * prm_def)) (p : bytes) : bool :=
  forallb (fun r => Nat.leb (fst r + dt_size (d_type (snd r))) (length p)) rs.

(* bit positions are u8 in the crate *)
Definition dt_u8 (dt : prm_dtype) : bool :=
  match dt with
  | DtBit b => is_byteb b
  | DtBitArea f l => is_byteb f && is_byteb l
  | _ => true
  end.

Definition wf_refs (rs : list (nat * prm_def)) : bool := forallb (fun r => dt_u8 (d_type (snd r))) rs.

Definition wf_desc (d : desc) : bool := wf_consts (consts d) && wf_refs (refs d).

(* the per-call oracle along a whole call sequence (results as `run` returns them) *)
Definition accepted_of (r : set_res) : bool := match r with SOk => true | SErr _ => false end.

Fixpoint c20_trace_ok (d : desc) (p : bytes) (ops : list op) (l : list (set_res * bytes)) : bool :=
  match ops, l with
  | [], [] => true
  | o :: ops', (r, p') :: l' =>
      (c20_step_known d p o || c20_step_ok d p o (Some (accepted_of r)) p') && c20_trace_ok d p' ops' l'
  | _, _ => false
  end.
