(* C18 oracles: boolean predicates over abstract transcripts (`list (apoll P)`).  The C18
   theorems are stated with these predicates about the model's transcripts; the check runs
   them on the implementation's transcripts.  No proofs here. *)
From PB Require Export ScanBase LiveList Scan.

(* The address space of the sweep as the PROPERTY states it: 0..125, wrapping. *)
Definition addr_okb (a : Z) : bool := (0 <=? a) && (a <=? 125).
Definition next_addr (a : Z) : Z := if a <? 125 then a + 1 else 0.
Definition sweep_len : nat := 126.          (* addresses per sweep *)
Definition sweep_polls : nat := 252.        (* polls per sweep: probe + advance *)

(* the addresses of n consecutive probes starting at c *)
Definition sweep_from (c : Z) (n : nat) : list Z := map (fun i => (c + Z.of_nat i) mod 126) (seq 0 n).

Section Oracles.
  Variable P : Type.
  Variable peqb : P -> P -> bool.

  (* ---------------------------------------------------------------- C18_cursor *)
  (* `c` = address the next probe must go to, `dn` = the probe of `c` is completed and the
     next poll only advances.  Probes stay in 0..125, +1 per completed probe, 125 wraps to 0. *)
  Fixpoint cursor_walk (c : Z) (dn : bool) (tr : list (apoll P)) : bool :=
    match tr with
    | [] => true
    | p :: r =>
        match ap_da p, dn with
        | Some a, false => (a =? c) && addr_okb a && cursor_walk c true r
        | None, true => cursor_walk (next_addr c) false r
        | _, _ => false
        end
    end.

  Definition probed (tr : list (apoll P)) : list Z :=
    flat_map (fun p => opt_list (ap_da p)) tr.

  (* ---------------------------------------------------------------- C18_alternate *)
  (* every event is about the probed address and is justified by what was observed:
     Up/Re by a valid reply with the same payload, Down by a time-out.  `lenient` (live list):
     an Up for the probed address is also accepted on any other reply - such a reply marks the
     station (O1), and whether that is announced, and with which payload, is not the property's
     business (the code does not announce it). *)
  Definition ev_matchb (lenient : bool) (p : apoll P) (e : aev P) : bool :=
    match ap_da p with
    | None => false
    | Some da =>
        match e, ap_cls p with
        | AUp a q, CValid q' => (a =? da) && peqb q q'
        | AUp a _, COther => lenient && (a =? da)
        | ARe a q, CValid q' => (a =? da) && peqb q q'
        | ADown a, CTimeout => a =? da
        | _, _ => false
        end
    end.
  Definition evs_matchb (lenient : bool) (tr : list (apoll P)) : bool :=
    forallb (fun p => forallb (ev_matchb lenient p) (ap_evs p)) tr.

  (* membership as told by the events alone: Up only for an unknown address, Down and Re
     only for a known one *)
  Definition alt_ev (known : option Z) (e : aev P) : option Z :=
    match known with
    | None => None
    | Some k =>
        match e with
        | AUp a _ => if Z.testbit k a then None else Some (Z.setbit k a)
        | ARe a _ => if Z.testbit k a then Some k else None
        | ADown a => if Z.testbit k a then Some (Z.clearbit k a) else None
        end
    end.

  Definition has_up (a : Z) (evs : list (aev P)) : bool :=
    existsb (fun e => match e with AUp b _ => b =? a | _ => false end) evs.

  (* `silent` = true: observation O1 built in (a reply that is not of the expected kind marks
     the probed address; the mark may come without an event - or with an Up event, in which
     case the event does the marking).  After every poll the membership told by the events
     must equal the application's station list: one event per change, no change without event. *)
  Fixpoint alt_walk (silent : bool) (known : Z) (tr : list (apoll P)) : option Z :=
    match tr with
    | [] => Some known
    | p :: r =>
        let k0 := (match ap_da p, ap_cls p with
                   | Some da, COther =>
                       if silent && negb (Z.testbit known da) && negb (has_up da (ap_evs p))
                       then Z.setbit known da else known
                   | _, _ => known
                   end) in
        match fold_left alt_ev (ap_evs p) (Some k0) with
        | None => None
        | Some k => if k =? ap_bits p then alt_walk silent k r else None
        end
    end.

  (* no unannounced marking: no poll in which an other reply made an unknown address known
     without an Up event.  On such transcripts strict alternation (alt_walk false) is due. *)
  Fixpoint no_silent (prev : Z) (tr : list (apoll P)) : bool :=
    match tr with
    | [] => true
    | p :: r =>
        (match ap_da p, ap_cls p with
         | Some da, COther =>
             Z.testbit prev da || has_up da (ap_evs p) || negb (Z.testbit (ap_bits p) da)
         | _, _ => true
         end) && no_silent (ap_bits p) r
    end.

  Definition no_other (tr : list (apoll P)) : bool :=
    forallb (fun p => match ap_cls p with COther => false | _ => true end) tr.

  (* per address view: kinds of the events concerning address a, and strict alternation *)
  Inductive akind : Set := KUp | KRe | KDown.
  Definition ev_kinds (a : Z) (e : aev P) : list akind :=
    match e with
    | AUp b _ => if b =? a then [KUp] else []
    | ARe b _ => if b =? a then [KRe] else []
    | ADown b => if b =? a then [KDown] else []
    end.
  Definition kinds_of (a : Z) (tr : list (apoll P)) : list akind :=
    flat_map (fun p => flat_map (ev_kinds a) (ap_evs p)) tr.
  Fixpoint alt_from (b : bool) (l : list akind) : option bool :=
    match l with
    | [] => Some b
    | KUp :: r => if b then None else alt_from true r
    | KRe :: r => if b then alt_from true r else None
    | KDown :: r => if b then alt_from false r else None
    end.

  (* ---------------------------------------------------------------- C18_converges *)
  (* window w is explained by the fixed responder set m: every probe of a member got a
     valid reply, every probe of a non-member timed out (nothing lost, nothing else) *)
  Definition consistent (m : Z -> bool) (w : list (apoll P)) : bool :=
    forallb (fun p =>
      match ap_da p, ap_cls p with
      | None, _ => true
      | Some a, CValid _ => m a
      | Some a, CTimeout => negb (m a)
      | Some _, _ => false
      end) w.
  (* ... and every valid reply of address a carried the payload pay a *)
  Definition pay_consistent (pay : Z -> option P) (w : list (apoll P)) : bool :=
    forallb (fun p =>
      match ap_da p, ap_cls p with
      | Some a, CValid q => match pay a with Some q' => peqb q q' | None => false end
      | _, _ => true
      end) w.

  Definition upd {A} (f : Z -> A) (a : Z) (v : A) : Z -> A := fun x => if x =? a then v else f x.

  (* who answered (and with what) in a window: the last observation per address *)
  Fixpoint window_set (m : Z) (w : list (apoll P)) : Z :=
    match w with
    | [] => m
    | p :: r =>
        window_set (match ap_da p, ap_cls p with
                    | Some a, CValid _ => Z.setbit m a
                    | Some a, _ => Z.clearbit m a
                    | None, _ => m
                    end) r
    end.
  Fixpoint window_pay (f : Z -> option P) (w : list (apoll P)) : Z -> option P :=
    match w with
    | [] => f
    | p :: r =>
        window_pay (match ap_da p, ap_cls p with
                    | Some a, CValid q => upd f a (Some q)
                    | Some a, _ => upd f a None
                    | None, _ => f
                    end) r
    end.

  (* what the application told about each address through its events *)
  Definition track_ev (k : Z -> option P) (e : aev P) : Z -> option P :=
    match e with
    | AUp a q => upd k a (Some q)
    | ARe a q => upd k a (Some q)
    | ADown a => upd k a None
    end.
  Definition track (k : Z -> option P) (tr : list (apoll P)) : Z -> option P :=
    fold_left (fun k p => fold_left track_ev (ap_evs p) k) tr k.

  Definition opt_peqb (a b : option P) : bool :=
    match a, b with
    | Some x, Some y => peqb x y
    | None, None => true
    | _, _ => false
    end.

  Definition last_bits (d : Z) (w : list (apoll P)) : Z :=
    match rev w with p :: _ => ap_bits p | [] => d end.

  (* The convergence oracle for a window of polls w (with the transcript `pre` before it):
     if the window is at least one sweep long and is explained by a fixed population, then
     the station list after it is exactly that population; with `payloads` also the last
     payload reported for every address is the population's.  Returns None when the window
     is not stable (nothing to check). *)
  Definition converge_check (payloads : bool) (pre w : list (apoll P)) : option bool :=
    let m := window_set 0 w in
    let pay := window_pay (fun _ => None) w in
    if Nat.leb sweep_polls (length w) && consistent (Z.testbit m) w && pay_consistent pay w then
      Some ((last_bits 0 w =? m) &&
            (if payloads then
               forallb (fun a => opt_peqb (track (fun _ => None) (pre ++ w) a)
                                          (if Z.testbit m a then pay a else None))
                       (addr_list sweep_len)
             else true))
    else None.

  (* all windows of `n` polls that end at a multiple of sweep_polls; counts (stable, failed) *)
  Fixpoint converge_scan (payloads : bool) (n : nat) (fuel : nat) (pre rest : list (apoll P))
           (acc : nat * nat) : nat * nat :=
    match fuel with
    | O => acc
    | S fuel' =>
        if Nat.ltb (length rest) n then acc else
        let w := firstn n rest in
        let acc' := (match converge_check payloads pre w with
                     | None => acc
                     | Some true => (S (fst acc), snd acc)
                     | Some false => (S (fst acc), S (snd acc))
                     end) in
        converge_scan payloads n fuel' (pre ++ firstn sweep_polls rest) (skipn sweep_polls rest) acc'
    end.
End Oracles.

Arguments cursor_walk {P}.
Arguments probed {P}.
Arguments evs_matchb {P}.
Arguments alt_walk {P}.
Arguments no_other {P}.
Arguments no_silent {P}.
Arguments has_up {P}.
Arguments kinds_of {P}.
Arguments ev_kinds {P}.
Arguments consistent {P}.
Arguments pay_consistent {P}.
Arguments window_set {P}.
Arguments window_pay {P}.
Arguments track {P}.
Arguments converge_check {P}.
Arguments converge_scan {P}.
Arguments last_bits {P}.
Arguments opt_peqb {P}.

Definition resp_state_eqb (a b : resp_state) : bool := resp_state_to_byte a =? resp_state_to_byte b.
Definition sc_pay_eqb (a b : Z * option Z) : bool := (fst a =? fst b) && opt_eqb (snd a) (snd b).
