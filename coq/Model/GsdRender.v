(* C19, fidelity half - the `key = number | string` settings fragment at tree level.

   What a file SAYS: a number is a sequence of written digits (decimal, or hexadecimal after 0x with either letter
   case, leading zeros allowed), a string is its content, possibly cut by line continuation markers
   (back slash + LF or CR LF), a key is any spelling that lower-cases to the parser's key.  `settings_tree` is the
   pair tree pest delivers for a file that consists of such settings (white space, comments, line ends and the
   text before the marker do not appear in the tree, apart from the text of `any_text` and `start`, which the
   interpreter ignores).  The driver checks on every generated settings-only file that the REAL pair tree is
   `settings_tree` of its decoded items (`decode_settings`), so the theorem applies to those real trees. *)
From PB Require Import Common GsdGrammar GsdTables GsdInterp.

(* ---- written numbers *)
Inductive wnum : Type :=
| WDec (ds : list Z)                  (* decimal digits 0..9, most significant first *)
| WHex (ds : list (Z * bool)).        (* hexadecimal digits 0..15 with the letter case used *)

Definition dec_char (d : Z) : Z := 48 + d.
Definition hex_char (dc : Z * bool) : Z :=
  if fst dc <? 10 then 48 + fst dc else if snd dc then 55 + fst dc else 87 + fst dc.

Definition wnum_text (n : wnum) : str :=
  match n with
  | WDec ds => map dec_char ds
  | WHex ds => 48 :: 120 :: map hex_char ds
  end.
Definition wnum_value (n : wnum) : Z :=
  match n with
  | WDec ds => fold_left (fun a d => a * 10 + d) ds 0
  | WHex ds => fold_left (fun a dc => a * 16 + fst dc) ds 0
  end.
Definition wnum_rule (n : wnum) : rule :=
  match n with WDec _ => R_dec_number | WHex _ => R_hex_number end.
Definition wnum_okb (n : wnum) : bool :=
  match n with
  | WDec ds => negb (Nat.eqb (length ds) 0) && forallb (fun d => (0 <=? d) && (d <=? 9)) ds
  | WHex ds => negb (Nat.eqb (length ds) 0) && forallb (fun dc => (0 <=? fst dc) && (fst dc <=? 15)) ds
  end.

(* ---- written strings: segments separated by continuation markers (true = back slash CR LF, false = back slash LF) *)
Record wstr : Type := mkWstr { ws_first : str; ws_rest : list (bool * str) }.

Definition marker (crlf : bool) : str := if crlf then [92; 13; 10] else [92; 10].
Definition wstr_inner (w : wstr) : str :=
  ws_first w ++ flat_map (fun ms => marker (fst ms) ++ snd ms) (ws_rest w).
Definition wstr_text (w : wstr) : str := 34 :: wstr_inner w ++ [34].
Definition wstr_value (w : wstr) : str := ws_first w ++ flat_map (fun ms => snd ms) (ws_rest w).
(* the proved fragment: no back slash (and, as in every string_literal pair, no quotation mark) in the content *)
Definition seg_okb (s : str) : bool := forallb (fun c => negb (c =? 92) && negb (c =? 34)) s.
Definition wstr_okb (w : wstr) : bool := seg_okb (ws_first w) && forallb (fun ms => seg_okb (snd ms)) (ws_rest w).

(* ---- settings *)
Inductive wvalue : Type := WNum (n : wnum) | WStr (s : wstr).
Record witem : Type := mkItem { wi_keytext : str; wi_value : wvalue }.

Definition value_node (v : wvalue) : tree :=
  match v with
  | WNum n => Node (wnum_rule n) (wnum_text n) []
  | WStr s => Node R_string_literal (wstr_text s) []
  end.
Definition setting_node (it : witem) : tree :=
  Node R_setting [] [Node R_identifier (wi_keytext it) []; value_node (wi_value it)].
Definition settings_tree (pre marker_text : str) (items : list witem) : tree :=
  Node R_gsd [] (Node R_any_text pre [] :: Node R_start marker_text [] :: map setting_node items ++ [Node R_EOI [] []]).

(* the action the parser attaches to the key (generated table of the `setting` match) *)
Definition item_action (it : witem) : option action := assoc_str (to_lower (wi_keytext it)) setting_table.

(* which scalar field an item writes (speed flags are or-ed together: no overwriting) *)
Inductive target : Type := TNum (f : nfield) | TStr (f : sfield) | TFlag (f : bfield).
Definition item_target (it : witem) : list target :=
  match item_action it with
  | Some (ANum f) => [TNum f]
  | Some (AStr f) => [TStr f]
  | Some (ABool f) => [TFlag f]
  | _ => []
  end.
Definition targets (items : list witem) : list target := flat_map item_target items.

Definition target_eqb (a b : target) : bool :=
  match a, b with
  | TNum f, TNum g => nfield_eqb f g
  | TStr f, TStr g => sfield_eqb f g
  | TFlag f, TFlag g => bfield_eqb f g
  | _, _ => false
  end.
Fixpoint nodupb (l : list target) : bool :=
  match l with
  | [] => true
  | a :: r => negb (existsb (target_eqb a) r) && nodupb r
  end.

(* the item is in the proved fragment: known non-special key with a value of the right kind and within the field's
   type, or a key the parser does not know *)
Definition item_okb (it : witem) : bool :=
  match item_action it, wi_value it with
  | Some (ANum f), WNum n => wnum_okb n && (wnum_value n <=? nfield_max f)
  | Some (AStr _), WStr s => wstr_okb s
  | Some (ABool _), WNum n => wnum_okb n && (wnum_value n <=? u32_max)
  | Some (ASpeed _), WNum n => wnum_okb n && (wnum_value n <=? u32_max)
  | None, _ => true                                  (* unknown key: the setting is ignored *)
  | _, _ => false
  end.
Definition settings_okb (items : list witem) : bool := forallb item_okb items && nodupb (targets items).

(* what the file says about the description *)
Definition says (d : desc) (it : witem) : Prop :=
  match item_action it, wi_value it with
  | Some (ANum f), WNum n => d_num d f = wnum_value n
  | Some (AStr f), WStr s => d_str d f = wstr_value s
  | Some (ABool f), WNum n => d_flag d f = negb (wnum_value n =? 0)
  | _, _ => True
  end.
Definition said_speeds (items : list witem) : Z :=
  fold_left (fun acc it =>
               match item_action it, wi_value it with
               | Some (ASpeed m), WNum n => if wnum_value n =? 0 then acc else Z.lor acc m
               | _, _ => acc
               end) items 0.

(* ---- decoding a real pair tree into items (driver: is the real tree in the image of settings_tree?) *)
Definition decode_dec (s : str) : wnum := WDec (map (fun c => c - 48) s).
Definition decode_hex_char (c : Z) : Z * bool :=
  if c <=? 57 then (c - 48, false) else if c <=? 70 then (c - 55, true) else (c - 87, false).
Definition decode_hex (s : str) : wnum := WHex (map decode_hex_char (skipn 2 s)).

(* split the inner text of a string literal at the continuation markers *)
Fixpoint split_conts (s : str) : wstr :=
  match s with
  | [] => mkWstr [] []
  | c :: r =>
      match r with
      | c1 :: r1 =>
          if (c =? 92) && (c1 =? 10) then
            let w := split_conts r1 in mkWstr [] ((false, ws_first w) :: ws_rest w)
          else
            match r1 with
            | c2 :: r2 =>
                if (c =? 92) && (c1 =? 13) && (c2 =? 10) then
                  let w := split_conts r2 in mkWstr [] ((true, ws_first w) :: ws_rest w)
                else let w := split_conts r in mkWstr (c :: ws_first w) (ws_rest w)
            | [] => let w := split_conts r in mkWstr (c :: ws_first w) (ws_rest w)
            end
      | [] => mkWstr [c] []
      end
  end.

Definition decode_value (t : tree) : option wvalue :=
  match root t with
  | R_dec_number => Some (WNum (decode_dec (text t)))
  | R_hex_number => Some (WNum (decode_hex (text t)))
  | R_string_literal => Some (WStr (split_conts (drop_first_last (text t))))
  | _ => None
  end.
Definition decode_item (t : tree) : option witem :=
  match t with
  | Node R_setting _ [k; v] =>
      match decode_value v with
      | Some w => Some (mkItem (text k) w)
      | None => None
      end
  | _ => None
  end.
Fixpoint decode_items (l : list tree) : option (list witem) :=
  match l with
  | [] => Some []
  | [Node R_EOI _ _] => Some []
  | t :: r =>
      match decode_item t, decode_items r with
      | Some it, Some its => Some (it :: its)
      | _, _ => None
      end
  end.

Fixpoint tree_eqb (a b : tree) : bool :=
  match a, b with
  | Node ra ta ca, Node rb tb cb =>
      rule_eqb ra rb && str_eqb ta tb &&
      (fix all (x y : list tree) : bool :=
         match x, y with
         | [], [] => true
         | p :: x', q :: y' => tree_eqb p q && all x' y'
         | _, _ => false
         end) ca cb
  end.

(* Some items: the tree IS settings_tree of these items (checked by re-rendering) and they meet the
   hypotheses of the round-trip theorem *)
Definition decode_settings (t : tree) : option (list witem) :=
  match t with
  | Node R_gsd _ (Node R_any_text pre _ :: Node R_start mk _ :: rest) =>
      match decode_items rest with
      | Some items => if tree_eqb (settings_tree pre mk items) t && settings_okb items then Some items else None
      | None => None
      end
  | _ => None
  end.
