(* C19, fidelity half - the `key = number | string` settings fragment at tree level.

   What a file SAYS: a number is a sequence of written digits (decimal, or hexadecimal after 0x with either letter
   case, leading zeros allowed), a string is its content, possibly cut by line continuation markers
   (back slash + LF or CR LF), a key is any spelling that lower-cases to the parser's key.  `settings_tree` is the
   pair tree pest delivers for a file that consists of such settings (white space, comments, line ends and the
   text before the marker do not appear in the tree, apart from the text of `any_text` and `start`, which the
   interpreter ignores).  The driver checks on every generated settings-only file that the REAL pair tree is
   `settings_tree` of its decoded items (`decode_settings`), so the theorem applies to those real trees. *)
From PB Require Import Common GsdGrammar GsdTables GsdInterp.

(* ---- written numbers *)
Inductive wnum : Type :=
| WDec (ds : list Z)                  (* decimal digits 0..9, most significant first *)
| WHex (ds : list (Z * bool)).        (* hexadecimal digits 0..15 with the letter case used *)

Definition dec_char (d : Z) : Z := 48 + d.
Definition hex_char (dc : Z * bool) : Z :=
  if fst dc <? 10 then 48 + fst dc else if snd dc then 55 + fst dc else 87 + fst dc.

Definition wnum_text (n : wnum) : str :=
  match n with
  | WDec ds => map dec_char ds
  | WHex ds => 48 :: 120 :: map hex_char ds
  end.
Definition wnum_value (n : wnum) : Z :=
  match n with
  | WDec ds => fold_left (fun a d => a * 10 + d) ds 0
  | WHex ds => fold_left (fun a dc => a * 16 + fst dc) ds 0
  end.
Definition wnum_rule (n : wnum) : rule :=
  match n with WDec _ => R_dec_number | WHex _ => R_hex_number end.
Definition wnum_okb (n : wnum) : bool :=
  match n with
  | WDec ds => negb (Nat.eqb (length ds) 0) && forallb (fun d => (0 <=? d) && (d <=? 9)) ds
  | WHex ds => negb (Nat.eqb (length ds) 0) && forallb (fun dc => (0 <=? fst dc) && (fst dc <=? 15)) ds
  end.

(* ---- written strings: segments separated by continuation markers (true = back slash CR LF, false = back slash LF) *)
Record wstr : Type := mkWstr { ws_first : str; ws_rest : list (bool * str) }.

Definition marker (crlf : bool) : str := if crlf then [92; 13; 10] else [92; 10].
Definition wstr_inner (w : wstr) : str :=
  ws_first w ++ flat_map (fun ms => marker (fst ms) ++ snd ms) (ws_rest w).
Definition wstr_text (w : wstr) : str := 34 :: wstr_inner w ++ [34].
Definition wstr_value (w : wstr) : str := ws_first w ++ flat_map (fun ms => snd ms) (ws_rest w).
(* the proved fragment: the CONTENT has no back slash directly before LF or CR (such a pair would itself be read
   as - part of - a continuation marker).  Any other back slash is fine, wherever the markers cut the string. *)
Definition bs_before_nl (c : Z) (r : str) : bool :=
  (c =? 92) && match r with c1 :: _ => (c1 =? 10) || (c1 =? 13) | [] => false end.
Fixpoint cleanb (s : str) : bool :=
  match s with
  | [] => true
  | c :: r => negb (bs_before_nl c r) && cleanb r
  end.
Definition wstr_okb (w : wstr) : bool := cleanb (wstr_value w).

(* ---- settings *)
Inductive wvalue : Type := WNum (n : wnum) | WStr (s : wstr).
Record witem : Type := mkItem { wi_keytext : str; wi_value : wvalue }.

Definition value_node (v : wvalue) : tree :=
  match v with
  | WNum n => Node (wnum_rule n) (wnum_text n) []
  | WStr s => Node R_string_literal (wstr_text s) []
  end.
Definition setting_node (it : witem) : tree :=
  Node R_setting [] [Node R_identifier (wi_keytext it) []; value_node (wi_value it)].
Definition settings_tree (pre marker_text : str) (items : list witem) : tree :=
  Node R_gsd [] (Node R_any_text pre [] :: Node R_start marker_text [] :: map setting_node items ++ [Node R_EOI [] []]).

(* the action the parser attaches to the key (generated table of the `setting` match) *)
Definition item_action (it : witem) : option action := assoc_str (to_lower (wi_keytext it)) setting_table.

(* which scalar field an item writes (speed flags are or-ed together: no overwriting) *)
Inductive target : Type := TNum (f : nfield) | TStr (f : sfield) | TFlag (f : bfield).
Definition item_target (it : witem) : list target :=
  match item_action it with
  | Some (ANum f) => [TNum f]
  | Some (AStr f) => [TStr f]
  | Some (ABool f) => [TFlag f]
  | _ => []
  end.
Definition targets (items : list witem) : list target := flat_map item_target items.

Definition target_eqb (a b : target) : bool :=
  match a, b with
  | TNum f, TNum g => nfield_eqb f g
  | TStr f, TStr g => sfield_eqb f g
  | TFlag f, TFlag g => bfield_eqb f g
  | _, _ => false
  end.
Fixpoint nodupb (l : list target) : bool :=
  match l with
  | [] => true
  | a :: r => negb (existsb (target_eqb a) r) && nodupb r
  end.

(* the item is in the proved fragment: known non-special key with a value of the right kind and within the field's
   type, or a key the parser does not know *)
Definition item_okb (it : witem) : bool :=
  match item_action it, wi_value it with
  | Some (ANum f), WNum n => wnum_okb n && (wnum_value n <=? nfield_max f)
  | Some (AStr _), WStr s => wstr_okb s
  | Some (ABool _), WNum n => wnum_okb n && (wnum_value n <=? u32_max)
  | Some (ASpeed _), WNum n => wnum_okb n && (wnum_value n <=? u32_max)
  | None, _ => true                                  (* unknown key: the setting is ignored *)
  | _, _ => false
  end.
Definition settings_okb (items : list witem) : bool := forallb item_okb items && nodupb (targets items).

(* what the file says about the description *)
Definition says (d : desc) (it : witem) : Prop :=
  match item_action it, wi_value it with
  | Some (ANum f), WNum n => d_num d f = wnum_value n
  | Some (AStr f), WStr s => d_str d f = wstr_value s
  | Some (ABool f), WNum n => d_flag d f = negb (wnum_value n =? 0)
  | _, _ => True
  end.
Definition said_speeds (items : list witem) : Z :=
  fold_left (fun acc it =>
               match item_action it, wi_value it with
               | Some (ASpeed m), WNum n => if wnum_value n =? 0 then acc else Z.lor acc m
               | _, _ => acc
               end) items 0.

(* ---- decoding a real pair tree into items (driver: is the real tree in the image of settings_tree?) *)
Definition decode_dec (s : str) : wnum := WDec (map (fun c => c - 48) s).
Definition decode_hex_char (c : Z) : Z * bool :=
  if c <=? 57 then (c - 48, false) else if c <=? 70 then (c - 55, true) else (c - 87, false).
Definition decode_hex (s : str) : wnum := WHex (map decode_hex_char (skipn 2 s)).

(* split the inner text of a string literal at the continuation markers *)
Fixpoint split_conts (s : str) : wstr :=
  match s with
  | [] => mkWstr [] []
  | c :: r =>
      match r with
      | c1 :: r1 =>
          if (c =? 92) && (c1 =? 10) then
            let w := split_conts r1 in mkWstr [] ((false, ws_first w) :: ws_rest w)
          else
            match r1 with
            | c2 :: r2 =>
                if (c =? 92) && (c1 =? 13) && (c2 =? 10) then
                  let w := split_conts r2 in mkWstr [] ((true, ws_first w) :: ws_rest w)
                else let w := split_conts r in mkWstr (c :: ws_first w) (ws_rest w)
            | [] => let w := split_conts r in mkWstr (c :: ws_first w) (ws_rest w)
            end
      | [] => mkWstr [c] []
      end
  end.

Definition decode_value (t : tree) : option wvalue :=
  match root t with
  | R_dec_number => Some (WNum (decode_dec (text t)))
  | R_hex_number => Some (WNum (decode_hex (text t)))
  | R_string_literal => Some (WStr (split_conts (drop_first_last (text t))))
  | _ => None
  end.
Definition decode_item (t : tree) : option witem :=
  match t with
  | Node R_setting _ [k; v] =>
      match decode_value v with
      | Some w => Some (mkItem (text k) w)
      | None => None
      end
  | _ => None
  end.
Fixpoint decode_items (l : list tree) : option (list witem) :=
  match l with
  | [] => Some []
  | [Node R_EOI _ _] => Some []
  | t :: r =>
      match decode_item t, decode_items r with
      | Some it, Some its => Some (it :: its)
      | _, _ => None
      end
  end.

Fixpoint tree_eqb (a b : tree) : bool :=
  match a, b with
  | Node ra ta ca, Node rb tb cb =>
      rule_eqb ra rb && str_eqb ta tb &&
      (fix all (x y : list tree) : bool :=
         match x, y with
         | [], [] => true
         | p :: x', q :: y' => tree_eqb p q && all x' y'
         | _, _ => false
         end) ca cb
  end.

(* Some items: the tree IS settings_tree of these items (checked by re-rendering) and they meet the
   hypotheses of the round-trip theorem *)
Definition decode_settings (t : tree) : option (list witem) :=
  match t with
  | Node R_gsd _ (Node R_any_text pre _ :: Node R_start mk _ :: rest) =>
      match decode_items rest with
      | Some items => if tree_eqb (settings_tree pre mk items) t && settings_okb items then Some items else None
      | None => None
      end
  | _ => None
  end.

(* ========================================================================================== whole files

   The written form of EVERY statement kind, its pair tree, and what it says (`apply_stmt`: the effect of the
   written values on the parser state - no text, no tree walk, no number parsing).  `file_tree` is the pair tree of
   a file made of such statements in any order; Proofs/C19File.v shows that the interpretation of `file_tree`
   is `post` of the fold of `apply_stmt`, and derives the closed forms per fragment.  The driver decodes the REAL
   pest tree of every rendered file (`decode_file`), re-renders it with `file_tree` and compares. *)

Definition wnum_node (n : wnum) : tree := Node (wnum_rule n) (wnum_text n) [].
Definition wstr_node (s : wstr) : tree := Node R_string_literal (wstr_text s) [].

(* signed numbers: a minus sign only before decimal digits *)
Record wsnum : Type := mkWs { ws_neg : bool; ws_abs : wnum }.
Definition wsnum_text (n : wsnum) : str := if ws_neg n then 45 :: wnum_text (ws_abs n) else wnum_text (ws_abs n).
Definition wsnum_value (n : wsnum) : Z := if ws_neg n then - wnum_value (ws_abs n) else wnum_value (ws_abs n).
Definition wsnum_node (n : wsnum) : tree := Node (wnum_rule (ws_abs n)) (wsnum_text n) [].
Definition wsnum_okb (n : wsnum) : bool :=
  wnum_okb (ws_abs n) &&
  (if ws_neg n then match ws_abs n with WDec _ => wnum_value (ws_abs n) <=? - i64_min | WHex _ => false end
   else wnum_value (ws_abs n) <=? i64_max).

Definition num_okb (max : Z) (n : wnum) : bool := wnum_okb n && (wnum_value n <=? max).
Definition nums_okb (max : Z) (l : list wnum) : bool := forallb (num_okb max) l.
Definition truth (n : wnum) : bool := negb (wnum_value n =? 0).

(* ---- settings in general: key, optional (index), value of any kind *)
Inductive wval : Type :=
| VNum (n : wnum)
| VStr (s : wstr)
| VList (l : list wnum)        (* a number_list pair *)
| VRaw (t : tree).             (* anything else (family identifier, ...): only for ignored keys *)
Definition val_node (v : wval) : tree :=
  match v with
  | VNum n => wnum_node n
  | VStr s => wstr_node s
  | VList l => Node R_number_list [] (map wnum_node l)
  | VRaw t => t
  end.
Record wset : Type := mkSet { se_key : str; se_idx : option wnum; se_val : wval }.
Definition set_node (x : wset) : tree :=
  Node R_setting [] (Node R_identifier (se_key x) [] ::
                     match se_idx x with Some n => [wnum_node n; val_node (se_val x)] | None => [val_node (se_val x)] end).

(* a list of bytes: one number or a number list *)
Definition as_numlist (v : wval) : option (list wnum) :=
  match v with VNum n => Some [n] | VList l => Some l | _ => None end.

Definition set_action (x : wset) : option action := assoc_str (to_lower (se_key x)) setting_table.

Definition push_ref (p : userprm) (off : Z) (d : prmdef) : userprm := mkPrm (up_len p) (up_const p) (up_ref p ++ [(off, d)]).
Definition push_const (p : userprm) (off : Z) (v : list Z) : userprm := mkPrm (up_len p) (up_const p ++ [(off, v)]) (up_ref p).

(* what a top-level setting says (outside the fragment: nothing) *)
Definition apply_set (s : st) (x : wset) : st :=
  let g := s_gsd s in
  match set_action x, se_idx x, se_val x with
  | Some (ANum f), None, VNum n => with_gsd (set_num f (wnum_value n) g) s
  | Some (AStr f), None, VStr w => with_gsd (set_str f (wstr_value w) g) s
  | Some (ABool f), None, VNum n => with_gsd (set_flag f (truth n) g) s
  | Some (ASpeed m), None, VNum n => if truth n then with_gsd (set_speeds (Z.lor (d_speeds g) m) g) s else s
  | Some (ASpecial SP_modular_station), None, VNum n => with_gsd (set_flag BF_modular_station (truth n) g) (with_modspan s)
  | Some (ASpecial SP_max_module), None, VNum n => with_gsd (set_num NF_max_modules (wnum_value n) g) (with_maxspan s)
  | Some (ASpecial SP_ext_user_prm_data_ref), Some off, VNum id =>
      match zmap_get (wnum_value id) (s_defs s) with
      | Some d => with_legacy None (with_gsd (set_prm (push_ref (d_prm g) (wnum_value off) d) g) s)
      | None => s
      end
  | Some (ASpecial SP_ext_user_prm_data_const), Some off, v =>
      match as_numlist v with
      | Some l => with_legacy None (with_gsd (set_prm (push_const (d_prm g) (wnum_value off) (map wnum_value l)) g) s)
      | None => s
      end
  | Some (ASpecial SP_max_user_prm_data_len), _, _ => with_legacy None s
  | Some (ASpecial SP_user_prm_data_len), None, VNum n =>
      match s_legacy s with
      | Some prm => with_legacy (Some (mkPrm (wnum_value n) (up_const prm) (up_ref prm))) s
      | None => s
      end
  | Some (ASpecial SP_user_prm_data), None, v =>
      match s_legacy s, as_numlist v with
      | Some prm, Some l => with_legacy (Some (push_const prm 0 (map wnum_value l))) s
      | _, _ => s
      end
  | Some (ASpecial SP_unit_diag_bit), Some b, VStr w =>
      with_gsd (set_bits (bit_set_text (wnum_value b) (wstr_value w) (d_bits g)) g) s
  | Some (ASpecial SP_unit_diag_bit_help), Some b, VStr w =>
      with_gsd (set_bits (bit_set_help (wnum_value b) (wstr_value w) (d_bits g)) g) s
  | Some (ASpecial SP_unit_diag_not_bit), Some b, VStr w =>
      with_gsd (set_notbits (bit_set_text (wnum_value b) (wstr_value w) (d_notbits g)) g) s
  | Some (ASpecial SP_unit_diag_not_bit_help), Some b, VStr w =>
      with_gsd (set_notbits (bit_set_help (wnum_value b) (wstr_value w) (d_notbits g)) g) s
  | _, _, _ => s
  end.

(* the setting is well formed for its key (right shape, values within the types, references defined) *)
Definition set_okb (s : st) (x : wset) : bool :=
  match set_action x, se_idx x, se_val x with
  | None, None, _ => true
  | None, Some i, _ => true
  | Some (ANum f), None, VNum n => num_okb (nfield_max f) n
  | Some (AStr _), None, VStr w => wstr_okb w
  | Some (ABool _), None, VNum n => num_okb u32_max n
  | Some (ASpeed _), None, VNum n => num_okb u32_max n
  | Some (ASpecial SP_modular_station), None, VNum n => num_okb u32_max n
  | Some (ASpecial SP_max_module), None, VNum n => num_okb (nfield_max NF_max_modules) n
  | Some (ASpecial SP_ext_user_prm_data_ref), Some off, VNum id =>
      num_okb u32_max off && num_okb u32_max id &&
      match zmap_get (wnum_value id) (s_defs s) with Some _ => true | None => false end
  | Some (ASpecial SP_ext_user_prm_data_const), Some off, v =>
      num_okb u32_max off && match as_numlist v with Some l => nums_okb u8_max l | None => false end
  | Some (ASpecial SP_max_user_prm_data_len), _, _ => true
  | Some (ASpecial SP_user_prm_data_len), None, VNum n =>
      match s_legacy s with
      | Some prm => num_okb u8_max n && negb (wnum_value n <? current_max_length prm)
      | None => true
      end
  | Some (ASpecial SP_user_prm_data), None, v =>
      match s_legacy s with
      | Some prm =>
          match as_numlist v with
          | Some l => nums_okb u8_max l && negb (negb (up_len prm =? 0) && (up_len prm <? Zlength' l))
          | None => false
          end
      | None => true
      end
  | Some (ASpecial SP_unit_diag_bit), Some b, VStr w
  | Some (ASpecial SP_unit_diag_bit_help), Some b, VStr w
  | Some (ASpecial SP_unit_diag_not_bit), Some b, VStr w
  | Some (ASpecial SP_unit_diag_not_bit_help), Some b, VStr w => num_okb u32_max b && wstr_okb w
  | _, _, _ => false
  end.

(* ---- PrmText *)
Record wtentry : Type := mkTe { te_num : wsnum; te_str : wstr }.
Definition tentry_node (e : wtentry) : tree := Node R_prm_text_value [] [wsnum_node (te_num e); wstr_node (te_str e)].
Definition table_add (acc : list (str * Z)) (e : wtentry) : list (str * Z) :=
  smap_insert (wstr_value (te_str e)) (wsnum_value (te_num e)) acc.
Definition table_of (es : list wtentry) : list (str * Z) := fold_left table_add es [].
Definition tentry_okb (e : wtentry) : bool := wsnum_okb (te_num e) && wstr_okb (te_str e).

(* ---- ExtUserPrmData *)
Inductive wtype : Type := WTNamed (txt : str) | WTBit (n : wnum) | WTBitArea (a b : wnum).
Definition wtype_node (t : wtype) : tree :=
  Node R_prm_data_type_name []
    [match t with
     | WTNamed txt => Node R_identifier txt []
     | WTBit n => Node R_bit [] [wnum_node n]
     | WTBitArea a b => Node R_bit_area [] [wnum_node a; wnum_node b]
     end].
Definition wtype_den (t : wtype) : option dtype :=
  match t with
  | WTNamed txt => match assoc_str (to_lower txt) dtype_table with Some n => Some (DNamed n) | None => None end
  | WTBit n => Some (DBit (wnum_value n))
  | WTBitArea a b => Some (DBitArea (wnum_value a) (wnum_value b))
  end.
Definition wtype_okb (t : wtype) : bool :=
  match t with
  | WTNamed txt => match assoc_str (to_lower txt) dtype_table with Some _ => true | None => false end
  | WTBit n => num_okb u8_max n
  | WTBitArea a b => num_okb u8_max a && num_okb u8_max b
  end.

Inductive wconstr : Type := WCNone | WCRange (a b : wsnum) | WCSet (l : list wsnum).
Definition wconstr_nodes (c : wconstr) : list tree :=
  match c with
  | WCNone => []
  | WCRange a b => [Node R_prm_data_value_range [] [wsnum_node a; wsnum_node b]]
  | WCSet l => [Node R_prm_data_value_set [] (map wsnum_node l)]
  end.
Definition wconstr_den (c : wconstr) : constraint :=
  match c with
  | WCNone => CNone
  | WCRange a b => CMinMax (wsnum_value a) (wsnum_value b)
  | WCSet l => CEnum (map wsnum_value l)
  end.
Definition wconstr_okb (c : wconstr) : bool :=
  match c with
  | WCNone => true
  | WCRange a b => wsnum_okb a && wsnum_okb b
  | WCSet l => forallb wsnum_okb l
  end.

Record wdef : Type := mkWdef {
  wd_id : wnum; wd_name : wstr; wd_type : wtype; wd_default : wsnum; wd_constr : wconstr;
  wd_tref : option wnum; wd_chg : option wnum; wd_vis : option wnum }.
Definition opt_node (r : rule) (o : option wnum) : list tree :=
  match o with Some n => [Node r [] [wnum_node n]] | None => [] end.
Definition wdef_node (d : wdef) : tree :=
  Node R_ext_user_prm_data []
    (wnum_node (wd_id d) :: wstr_node (wd_name d) :: wtype_node (wd_type d) :: wsnum_node (wd_default d) ::
     wconstr_nodes (wd_constr d) ++ opt_node R_prm_text_ref (wd_tref d) ++
     opt_node R_prm_data_changeable (wd_chg d) ++ opt_node R_prm_data_visible (wd_vis d)).
Definition opt_truth (o : option wnum) : bool := match o with Some n => truth n | None => true end.
Definition opt_okb (max : Z) (o : option wnum) : bool := match o with Some n => num_okb max n | None => true end.
(* the definition the block says, given the parameter texts defined so far *)
Definition wdef_den (texts : list (Z * list (str * Z))) (d : wdef) : prmdef :=
  mkDef (wstr_value (wd_name d))
        (match wtype_den (wd_type d) with Some t => t | None => DBit 0 end)
        (wsnum_value (wd_default d)) (wconstr_den (wd_constr d))
        (match wd_tref d with Some r => zmap_get (wnum_value r) texts | None => None end)
        (opt_truth (wd_chg d)) (opt_truth (wd_vis d)).
Definition wdef_okb (texts : list (Z * list (str * Z))) (d : wdef) : bool :=
  num_okb u32_max (wd_id d) && wstr_okb (wd_name d) && wtype_okb (wd_type d) && wsnum_okb (wd_default d) &&
  wconstr_okb (wd_constr d) &&
  match wd_tref d with
  | Some r => num_okb u16_max r && match zmap_get (wnum_value r) texts with Some _ => true | None => false end
  | None => true
  end && opt_okb u32_max (wd_chg d) && opt_okb u32_max (wd_vis d).

(* ---- Unit_Diag_Area *)
Definition avalue_node (e : wnum * wstr) : tree := Node R_unit_diag_area_value [] [wnum_node (fst e); wstr_node (snd e)].
Definition avalues_of (es : list (wnum * wstr)) : list (Z * str) :=
  fold_left (fun acc e => zmap_insert (wnum_value (fst e)) (wstr_value (snd e)) acc) es [].

(* ---- Module *)
Inductive wmitem : Type :=
| MSet (x : wset)
| MRef (n : wnum)                 (* the module reference number *)
| MArea (txt : str) (ks : list tree).   (* Data_Area_Beg .. Data_Area_End: ignored (txt: pair text when empty) *)
Definition mitem_node (i : wmitem) : tree :=
  match i with
  | MSet x => set_node x
  | MRef n => Node R_module_reference [] [wnum_node n]
  | MArea txt ks => Node R_data_area txt ks
  end.
Record wmodule : Type := mkWmod { wm_name : wstr; wm_cfg : list wnum; wm_items : list wmitem }.
Definition wmodule_node (m : wmodule) : tree :=
  Node R_module [] (wstr_node (wm_name m) :: Node R_number_list [] (map wnum_node (wm_cfg m)) :: map mitem_node (wm_items m)).

Inductive mkey : Type := MK_len | MK_ref | MK_const | MK_info | MK_other.
Definition mset_key (x : wset) : mkey :=
  let k := to_lower (se_key x) in
  if str_eqb k key_ext_module_prm_data_len then MK_len
  else if str_eqb k key_ext_user_prm_data_ref then MK_ref
  else if str_eqb k key_ext_user_prm_data_const then MK_const
  else if str_eqb k key_info_text then MK_info
  else MK_other.

Definition apply_mitem (defs : list (Z * prmdef)) (a : modacc) (i : wmitem) : modacc :=
  match i with
  | MRef n => mkModAcc (ma_info a) (Some (wnum_value n)) (ma_prm a)
  | MArea _ _ => a
  | MSet x =>
      let p := ma_prm a in
      match mset_key x, se_idx x, se_val x with
      | MK_len, None, VNum n => mkModAcc (ma_info a) (ma_ref a) (mkPrm (wnum_value n) (up_const p) (up_ref p))
      | MK_ref, Some off, VNum id =>
          match zmap_get (wnum_value id) defs with
          | Some d => mkModAcc (ma_info a) (ma_ref a) (push_ref p (wnum_value off) d)
          | None => a
          end
      | MK_const, Some off, v =>
          match as_numlist v with
          | Some l => mkModAcc (ma_info a) (ma_ref a) (push_const p (wnum_value off) (map wnum_value l))
          | None => a
          end
      | MK_info, None, VStr w => mkModAcc (Some (wstr_value w)) (ma_ref a) p
      | _, _, _ => a
      end
  end.
Definition mitem_okb (defs : list (Z * prmdef)) (i : wmitem) : bool :=
  match i with
  | MRef n => num_okb u32_max n
  | MArea _ _ => true
  | MSet x =>
      match mset_key x, se_idx x, se_val x with
      | MK_other, _, _ => true
      | MK_len, None, VNum n => num_okb u8_max n
      | MK_ref, Some off, VNum id =>
          num_okb u32_max off && num_okb u32_max id &&
          match zmap_get (wnum_value id) defs with Some _ => true | None => false end
      | MK_const, Some off, v =>
          num_okb u32_max off && match as_numlist v with Some l => nums_okb u8_max l | None => false end
      | MK_info, None, VStr w => wstr_okb w
      | _, _, _ => false
      end
  end.
Definition wmodule_den (defs : list (Z * prmdef)) (m : wmodule) : module :=
  let a := fold_left (apply_mitem defs) (wm_items m) (mkModAcc None None prm_default) in
  mkModule (wstr_value (wm_name m)) (ma_info a) (map wnum_value (wm_cfg m)) (ma_ref a) (ma_prm a).
Definition wmodule_okb (defs : list (Z * prmdef)) (m : wmodule) : bool :=
  wstr_okb (wm_name m) && nums_okb u8_max (wm_cfg m) && forallb (mitem_okb defs) (wm_items m).

(* ---- SlotDefinition *)
Inductive wspec : Type := SRange (a b : wnum) | SSet (l : list wnum).
Record wslot : Type := mkWslot { wl_num : wnum; wl_name : wstr; wl_default : wnum; wl_spec : wspec }.
Definition wspec_node (sp : wspec) : tree :=
  match sp with
  | SRange a b => Node R_slot_value_range [] [wnum_node a; wnum_node b]
  | SSet l => Node R_slot_value_set [] (map wnum_node l)
  end.
Definition wslot_node (sl : wslot) : tree :=
  Node R_slot [] [wnum_node (wl_num sl); wstr_node (wl_name sl); wnum_node (wl_default sl); wspec_node (wl_spec sl)].
(* the references a slot allows, in the order the parser looks them up *)
Definition wspec_refs (sp : wspec) : list Z :=
  match sp with
  | SRange a b => range_incl (wnum_value a) (wnum_value b)
  | SSet l => map wnum_value l
  end.
Definition apply_slot (s : st) (sl : wslot) : st :=
  let ms := d_modules (s_gsd s) in
  let aw := find_all ms (wspec_refs (wl_spec sl)) (s_warn s) in
  match find_module ms (wnum_value (wl_default sl)) with
  | Some dflt =>
      let warn := if contains_module ms (fst aw) dflt then snd aw else snd aw + 1 in
      with_warn warn (with_gsd (set_slots (d_slots (s_gsd s) ++
        [mkSlot (wstr_value (wl_name sl)) (wnum_value (wl_num sl)) dflt (fst aw)]) (s_gsd s)) s)
  | None => s
  end.
Definition wspec_okb (sp : wspec) : bool :=
  match sp with
  | SRange a b => num_okb u16_max a && num_okb u16_max b
  | SSet l => nums_okb u16_max l
  end.
Definition wslot_okb (s : st) (sl : wslot) : bool :=
  num_okb u8_max (wl_num sl) && wstr_okb (wl_name sl) && num_okb u16_max (wl_default sl) && wspec_okb (wl_spec sl) &&
  match find_module (d_modules (s_gsd s)) (wnum_value (wl_default sl)) with Some _ => true | None => false end.
Fixpoint slots_okb (s : st) (l : list wslot) : bool :=
  match l with
  | [] => true
  | sl :: r => wslot_okb s sl && slots_okb (apply_slot s sl) r
  end.

(* ---- statements *)
Inductive wstmt : Type :=
| WSetS (x : wset)
| WText (id : wnum) (es : list wtentry)
| WDef (d : wdef)
| WArea (first last : wnum) (es : list (wnum * wstr))
| WModule (m : wmodule)
| WSlots (txt : str) (l : list wslot)      (* txt: the pair text of an empty block *)
| WIgnored (t : tree).            (* UnitDiagType, Physical_Interface, ... blocks *)

Definition ignored_rule (r : rule) : bool :=
  match r with
  | R_prm_text | R_ext_user_prm_data | R_unit_diag_area | R_module | R_slot_definition | R_setting => false
  | _ => true
  end.

Definition stmt_node (x : wstmt) : tree :=
  match x with
  | WSetS x => set_node x
  | WText id es => Node R_prm_text [] (wnum_node id :: map tentry_node es)
  | WDef d => wdef_node d
  | WArea a b es => Node R_unit_diag_area [] (wnum_node a :: wnum_node b :: map avalue_node es)
  | WModule m => wmodule_node m
  | WSlots txt l => Node R_slot_definition txt (map wslot_node l)
  | WIgnored t => t
  end.

Definition apply_stmt (s : st) (x : wstmt) : st :=
  match x with
  | WSetS x => apply_set s x
  | WText id es => with_texts (zmap_insert (wnum_value id) (table_of es) (s_texts s)) s
  | WDef d => with_defs (zmap_insert (wnum_value (wd_id d)) (wdef_den (s_texts s) d) (s_defs s)) s
  | WArea a b es =>
      with_gsd (set_areas (d_areas (s_gsd s) ++ [mkArea (wnum_value a) (wnum_value b) (avalues_of es)]) (s_gsd s)) s
  | WModule m => with_gsd (set_modules (d_modules (s_gsd s) ++ [wmodule_den (s_defs s) m]) (s_gsd s)) s
  | WSlots _ l => fold_left apply_slot l s
  | WIgnored _ => s
  end.

Definition stmt_okb (s : st) (x : wstmt) : bool :=
  match x with
  | WSetS x => set_okb s x
  | WText id es => num_okb u16_max id && forallb tentry_okb es
  | WDef d => wdef_okb (s_texts s) d
  | WArea a b es => num_okb u16_max a && num_okb u16_max b && forallb (fun e => num_okb u16_max (fst e) && wstr_okb (snd e)) es
  | WModule m => wmodule_okb (s_defs s) m
  | WSlots _ l => slots_okb s l
  | WIgnored t => ignored_rule (root t)
  end.

Fixpoint stmts_okb (s : st) (l : list wstmt) : bool :=
  match l with
  | [] => true
  | x :: r => stmt_okb s x && stmts_okb (apply_stmt s x) r
  end.

Definition file_tree (pre marker_text : str) (stmts : list wstmt) : tree :=
  Node R_gsd [] (Node R_any_text pre [] :: Node R_start marker_text [] :: map stmt_node stmts ++ [Node R_EOI [] []]).

Definition file_okb (stmts : list wstmt) : bool := stmts_okb st_init stmts.
(* what the file says: the description and the number of warnings *)
Definition file_says (stmts : list wstmt) : pr (desc * Z) := post (fold_left apply_stmt stmts st_init).

(* ------------------------------------------------------------------------------------------ decoding real pair trees
   (driver only; whatever these functions return is re-rendered with file_tree and compared with the real tree) *)

Definition obind {A B} (o : option A) (f : A -> option B) : option B := match o with Some a => f a | None => None end.
Notation "'let?' x ':=' o 'in' k" := (obind o (fun x => k)) (at level 200, x pattern, o at level 100, k at level 200, right associativity).

Definition decode_num (t : tree) : option wnum :=
  match root t with
  | R_dec_number => Some (decode_dec (text t))
  | R_hex_number => Some (decode_hex (text t))
  | _ => None
  end.
Definition decode_snum (t : tree) : option wsnum :=
  match root t with
  | R_dec_number =>
      match text t with
      | c :: r => if c =? 45 then Some (mkWs true (decode_dec r)) else Some (mkWs false (decode_dec (text t)))
      | [] => Some (mkWs false (decode_dec []))
      end
  | R_hex_number => Some (mkWs false (decode_hex (text t)))
  | _ => None
  end.
Definition decode_str (t : tree) : option wstr :=
  match root t with
  | R_string_literal => Some (split_conts (drop_first_last (text t)))
  | _ => None
  end.
Fixpoint decode_all {A} (f : tree -> option A) (l : list tree) : option (list A) :=
  match l with
  | [] => Some []
  | t :: r => let? a := f t in let? b := decode_all f r in Some (a :: b)
  end.
Definition decode_val (t : tree) : wval :=
  match root t with
  | R_dec_number | R_hex_number => match decode_num t with Some n => VNum n | None => VRaw t end
  | R_string_literal => match decode_str t with Some s => VStr s | None => VRaw t end
  | R_number_list => match decode_all decode_num (kids t) with Some l => VList l | None => VRaw t end
  | _ => VRaw t
  end.
Definition decode_set (t : tree) : option wset :=
  match kids t with
  | [k; v] => Some (mkSet (text k) None (decode_val v))
  | [k; i; v] => let? n := decode_num i in Some (mkSet (text k) (Some n) (decode_val v))
  | _ => None
  end.
Definition decode_tentry (t : tree) : option wtentry :=
  match kids t with
  | [n; s] => let? a := decode_snum n in let? b := decode_str s in Some (mkTe a b)
  | _ => None
  end.
Definition decode_avalue (t : tree) : option (wnum * wstr) :=
  match kids t with
  | [n; s] => let? a := decode_num n in let? b := decode_str s in Some (a, b)
  | _ => None
  end.
Definition decode_type (t : tree) : option wtype :=
  match kids t with
  | [x] =>
      match root x, kids x with
      | R_identifier, _ => Some (WTNamed (text x))
      | R_bit, [n] => let? a := decode_num n in Some (WTBit a)
      | R_bit_area, [n; m] => let? a := decode_num n in let? b := decode_num m in Some (WTBitArea a b)
      | _, _ => None
      end
  | _ => None
  end.
Definition take_constr (l : list tree) : option (wconstr * list tree) :=
  match l with
  | t :: r =>
      match root t, kids t with
      | R_prm_data_value_range, [a; b] => let? x := decode_snum a in let? y := decode_snum b in Some (WCRange x y, r)
      | R_prm_data_value_set, ks => let? xs := decode_all decode_snum ks in Some (WCSet xs, r)
      | _, _ => Some (WCNone, l)
      end
  | [] => Some (WCNone, [])
  end.
Definition take_opt (rl : rule) (l : list tree) : option (option wnum * list tree) :=
  match l with
  | t :: r =>
      if rule_eqb (root t) rl then
        match kids t with [n] => let? a := decode_num n in Some (Some a, r) | _ => None end
      else Some (None, l)
  | [] => Some (None, [])
  end.
Definition decode_def (t : tree) : option wdef :=
  match kids t with
  | i :: n :: ty :: d :: r =>
      let? id := decode_num i in let? name := decode_str n in let? wt := decode_type ty in let? dflt := decode_snum d in
      let? (c, r1) := take_constr r in
      let? (tr, r2) := take_opt R_prm_text_ref r1 in
      let? (ch, r3) := take_opt R_prm_data_changeable r2 in
      let? (vi, r4) := take_opt R_prm_data_visible r3 in
      match r4 with [] => Some (mkWdef id name wt dflt c tr ch vi) | _ => None end
  | _ => None
  end.
Definition decode_mitem (t : tree) : option wmitem :=
  match root t with
  | R_setting => let? x := decode_set t in Some (MSet x)
  | R_module_reference => match kids t with [n] => let? a := decode_num n in Some (MRef a) | _ => None end
  | R_data_area => Some (MArea (text t) (kids t))
  | _ => None
  end.
Definition decode_module (t : tree) : option wmodule :=
  match kids t with
  | n :: c :: r =>
      let? name := decode_str n in
      let? cfg := decode_all decode_num (kids c) in
      let? items := decode_all decode_mitem r in
      Some (mkWmod name cfg items)
  | _ => None
  end.
Definition decode_slot (t : tree) : option wslot :=
  match kids t with
  | [n; s; d; sp] =>
      let? num := decode_num n in let? name := decode_str s in let? dflt := decode_num d in
      let? spec :=
        match root sp, kids sp with
        | R_slot_value_range, [a; b] => let? x := decode_num a in let? y := decode_num b in Some (SRange x y)
        | R_slot_value_set, ks => let? xs := decode_all decode_num ks in Some (SSet xs)
        | _, _ => None
        end in
      Some (mkWslot num name dflt spec)
  | _ => None
  end.
Definition decode_stmt (t : tree) : option wstmt :=
  match root t with
  | R_setting => let? x := decode_set t in Some (WSetS x)
  | R_prm_text =>
      match kids t with
      | i :: es => let? id := decode_num i in let? l := decode_all decode_tentry es in Some (WText id l)
      | [] => None
      end
  | R_ext_user_prm_data => let? d := decode_def t in Some (WDef d)
  | R_unit_diag_area =>
      match kids t with
      | a :: b :: es =>
          let? x := decode_num a in let? y := decode_num b in let? l := decode_all decode_avalue es in Some (WArea x y l)
      | _ => None
      end
  | R_module => let? m := decode_module t in Some (WModule m)
  | R_slot_definition => let? l := decode_all decode_slot (kids t) in Some (WSlots (text t) l)
  | _ => Some (WIgnored t)
  end.
Fixpoint decode_stmts (l : list tree) : option (list wstmt) :=
  match l with
  | [] => Some []
  | [Node R_EOI _ _] => Some []
  | t :: r => let? x := decode_stmt t in let? xs := decode_stmts r in Some (x :: xs)
  end.

(* Some stmts: the tree IS file_tree of these statements (checked by re-rendering) *)
Definition decode_file (t : tree) : option (list wstmt) :=
  match t with
  | Node R_gsd _ (Node R_any_text pre _ :: Node R_start mk _ :: rest) =>
      let? stmts := decode_stmts rest in
      if tree_eqb (file_tree pre mk stmts) t then Some stmts else None
  | _ => None
  end.

(* ========================================================================================== closed forms per fragment
   (what the description must contain, read off the statements of the file; used by the C19_roundtrip_<fragment> theorems) *)

(* ---- the result of the code after the statement loop, as a formula *)
Definition final_desc (s : st) : desc :=
  let g := match s_legacy s with Some prm => set_prm prm (s_gsd s) | None => s_gsd s end in
  let g := if s_maxspan s then g else set_num NF_max_modules 1 g in
  if d_flag g BF_modular_station then g else set_num NF_max_modules 1 g.

(* ---- top-level settings of a file *)
Definition sets_of (stmts : list wstmt) : list wset :=
  flat_map (fun x => match x with WSetS s => [s] | _ => [] end) stmts.

(* the scalar field a setting writes (Modular_Station and Max_Module included; speed flags are or-ed) *)
Definition set_target (x : wset) : list target :=
  match set_action x with
  | Some (ANum f) => [TNum f]
  | Some (AStr f) => [TStr f]
  | Some (ABool f) => [TFlag f]
  | Some (ASpecial SP_modular_station) => [TFlag BF_modular_station]
  | Some (ASpecial SP_max_module) => [TNum NF_max_modules]
  | _ => []
  end.
Definition set_targets (l : list wset) : list target := flat_map set_target l.

(* what a scalar setting says about the final description *)
Definition set_says (d : desc) (x : wset) : Prop :=
  match set_action x, se_val x with
  | Some (ANum f), VNum n => d_num d f = wnum_value n
  | Some (AStr f), VStr w => d_str d f = wstr_value w
  | Some (ABool f), VNum n => d_flag d f = truth n
  | Some (ASpecial SP_modular_station), VNum n => d_flag d BF_modular_station = truth n
  | Some (ASpecial SP_max_module), VNum n =>
      d_num d NF_max_modules = if d_flag d BF_modular_station then wnum_value n else 1   (* a compact station has one module *)
  | _, _ => True
  end.
Definition speeds_said (l : list wset) : Z :=
  fold_left (fun acc x =>
               match set_action x, se_val x with
               | Some (ASpeed m), VNum n => if truth n then Z.lor acc m else acc
               | _, _ => acc
               end) l 0.

(* ---- parameter texts and definitions of a file, in file order (looked up with zmap_get = first match) *)
Definition texts_of (stmts : list wstmt) : list (Z * list (str * Z)) :=
  flat_map (fun x => match x with WText id es => [(wnum_value id, table_of es)] | _ => [] end) stmts.
Definition defs_with (texts : list (Z * list (str * Z))) (stmts : list wstmt) : list (Z * prmdef) :=
  flat_map (fun x => match x with WDef d => [(wnum_value (wd_id d), wdef_den texts d)] | _ => [] end) stmts.
Definition defs_of (stmts : list wstmt) : list (Z * prmdef) := defs_with (texts_of stmts) stmts.

Fixpoint nodupz (l : list Z) : bool :=
  match l with
  | [] => true
  | a :: r => negb (existsb (Z.eqb a) r) && nodupz r
  end.
(* every PrmText id and every ExtUserPrmData id is defined once *)
Definition ids_unique (stmts : list wstmt) : bool :=
  nodupz (map fst (texts_of stmts)) && nodupz (map fst (defs_of stmts)).

(* ---- station-level user parameter data *)
Inductive prmline : Type :=
| PLRef (off id : Z) | PLConst (off : Z) (v : list Z) | PLMax | PLLen (n : Z) | PLData (v : list Z).
Definition set_prmline (x : wset) : list prmline :=
  match set_action x, se_idx x, se_val x with
  | Some (ASpecial SP_ext_user_prm_data_ref), Some off, VNum id => [PLRef (wnum_value off) (wnum_value id)]
  | Some (ASpecial SP_ext_user_prm_data_const), Some off, v =>
      match as_numlist v with Some l => [PLConst (wnum_value off) (map wnum_value l)] | None => [] end
  | Some (ASpecial SP_max_user_prm_data_len), _, _ => [PLMax]
  | Some (ASpecial SP_user_prm_data_len), None, VNum n => [PLLen (wnum_value n)]
  | Some (ASpecial SP_user_prm_data), None, v =>
      match as_numlist v with Some l => [PLData (map wnum_value l)] | None => [] end
  | _, _, _ => []
  end.
Definition prmlines_of (stmts : list wstmt) : list prmline := flat_map set_prmline (sets_of stmts).
Definition is_ext (p : prmline) : bool := match p with PLRef _ _ | PLConst _ _ | PLMax => true | _ => false end.
(* Ext_ style: the references (resolved in defs) and constants in file order; length 0 *)
Definition ext_prm (defs : list (Z * prmdef)) (l : list prmline) : userprm :=
  fold_left (fun p x =>
               match x with
               | PLRef off id => match zmap_get id defs with Some d => push_ref p off d | None => p end
               | PLConst off v => push_const p off v
               | _ => p
               end) l prm_default.
(* legacy style: the last User_Prm_Data_Len and every User_Prm_Data line *)
Definition legacy_prm (l : list prmline) : userprm :=
  fold_left (fun p x =>
               match x with
               | PLLen n => mkPrm n (up_const p) (up_ref p)
               | PLData v => push_const p 0 v
               | _ => p
               end) l prm_default.
Definition prm_said (defs : list (Z * prmdef)) (l : list prmline) : userprm :=
  if existsb is_ext l then ext_prm defs l else legacy_prm l.

(* ---- modules and slots *)
Definition modules_of (stmts : list wstmt) : list wmodule :=
  flat_map (fun x => match x with WModule m => [m] | _ => [] end) stmts.
Definition slots_of (stmts : list wstmt) : list wslot :=
  flat_map (fun x => match x with WSlots _ l => l | _ => [] end) stmts.
Definition is_module (x : wstmt) : bool := match x with WModule _ => true | _ => false end.
(* no Module block after a SlotDefinition block *)
Fixpoint modules_first (l : list wstmt) : bool :=
  match l with
  | [] => true
  | WSlots _ _ :: r => negb (existsb is_module r) && modules_first r
  | _ :: r => modules_first r
  end.
(* what a slot says, given all modules of the file: the first module with the default reference, and the
   modules found for the allowed references in the order they are written / enumerated *)
Definition slot_den (ms : list module) (sl : wslot) : option slot :=
  match find_module ms (wnum_value (wl_default sl)) with
  | Some dflt => Some (mkSlot (wstr_value (wl_name sl)) (wnum_value (wl_num sl)) dflt
                              (fst (find_all ms (wspec_refs (wl_spec sl)) 0)))
  | None => None
  end.
