(* C16 oracle: what the receive helpers must show to the caller for a fault-free telegram
   stream, computed from the FRAME LENGTHS only (no decoder involved), and the boolean checks
   that are run on the implementation's outputs.  The theorems of Properties/C16.v are stated
   with these functions.  No proofs here. *)
From PB Require Export PhyRx.

(* which telegrams the property quantifies over: what the encoder accepts *)
Definition valid_telegram (t : telegram) : Prop :=
  match t with
  | TData h pdu => wf_header h /\ (length_byte h (length pdu) <= 249)%nat /\ all_bytes pdu
  | TToken da sa => is_byte da /\ is_byte sa
  | TShortConf => True
  end.

Definition valid_telegramb (t : telegram) : bool :=
  match t with
  | TData h pdu => wf_headerb h && Nat.leb (length_byte h (length pdu)) 249 && all_bytesb pdu
  | TToken da sa => is_byteb da && is_byteb sa
  | TShortConf => true
  end.

Definition frame_len (t : telegram) : nat := length (encode t).

(* The whole frames among the first n bytes of stream ts, greedily: deliveries with their
   is_last flag (true iff the frame ends exactly at byte n), the telegrams not yet complete,
   and the number of bytes of the incomplete tail. *)
Fixpoint take_frames (ts : list telegram) (n : nat) : rlog * list telegram * nat :=
  match ts with
  | [] => ([], [], n)
  | t :: ts' =>
      let l := frame_len t in
      if Nat.leb l n then
        let '(d, rem, r) := take_frames ts' (n - l) in
        ((t, Nat.eqb l n) :: d, rem, r)
      else ([], ts, n)
  end.

(* the same for a single receive_telegram call: at most the first frame *)
Definition take_one (ts : list telegram) (n : nat) : rlog * list telegram * nat :=
  match ts with
  | [] => ([], [], n)
  | t :: ts' => if Nat.leb (frame_len t) n then ([(t, false)], ts', (n - frame_len t)%nat) else ([], ts, n)
  end.

(* value returned by receive_all_telegrams: the callback result of the delivery flagged last *)
Definition ret_all (d : rlog) : option telegram :=
  match last (map Some d) None with
  | Some (t, true) => Some t
  | _ => None
  end.
Definition ret_one (d : rlog) : option telegram :=
  match d with (t, _) :: _ => Some t | [] => None end.

(* the callback invocations one receive_all_telegrams call must make for deliveries d, for an
   arbitrary callback f over a caller state: every delivery in order, stopping at the one flagged
   last, whose result is returned *)
Fixpoint feed {St R} (f : St -> telegram -> bool -> res (St * R)) (s : St) (d : rlog) : res (St * option R) :=
  match d with
  | [] => Ok (s, None)
  | (t, l) :: d' =>
      let* x := f s t l in
      let '(s', r) := x in
      if l : bool then Ok (s', Some r) else feed f s' d'
  end.

(* an observation of one poll: deliveries, returned value, poll_pending_received_bytes *)
Record obs : Set := mkObs { ob_deliv : rlog; ob_ret : option telegram; ob_pending : nat }.

Definition obs_of (o : poll_out) : obs := mkObs (po_deliv o) (po_ret o) (length (po_rest o)).

Definition opt_telegram_eqb (a b : option telegram) : bool :=
  match a, b with
  | None, None => true
  | Some x, Some y => telegram_eqb x y
  | _, _ => false
  end.

Fixpoint rlog_eqb (a b : rlog) : bool :=
  match a, b with
  | [], [] => true
  | (t, l) :: a', (t', l') :: b' => telegram_eqb t t' && Bool.eqb l l' && rlog_eqb a' b'
  | _, _ => false
  end.

Definition obs_eqb (a b : obs) : bool :=
  rlog_eqb (ob_deliv a) (ob_deliv b) && opt_telegram_eqb (ob_ret a) (ob_ret b) &&
  Nat.eqb (ob_pending a) (ob_pending b).

(* expected observation of one poll: `pend` bytes of the stream ts were still buffered, c more
   arrive.  Returns the observation, the telegrams still outstanding, the bytes still buffered. *)
Definition spec_poll (all : bool) (ts : list telegram) (pend c : nat) : obs * list telegram * nat :=
  let '(d, rem, r) := if all then take_frames ts (pend + c) else take_one ts (pend + c) in
  (mkObs d (if all then ret_all d else ret_one d) r, rem, r).

(* expected observations for chunk lengths cs *)
Fixpoint spec_polls (all : bool) (ts : list telegram) (pend : nat) (cs : list nat) : list obs :=
  match cs with
  | [] => []
  | c :: cs' =>
      let '(o, rem, r) := spec_poll all ts pend c in
      o :: spec_polls all rem r cs'
  end.

Fixpoint obs_list_eqb (a b : list obs) : bool :=
  match a, b with
  | [], [] => true
  | x :: a', y :: b' => obs_eqb x y && obs_list_eqb a' b'
  | _, _ => false
  end.

(* (i)+(ii)+(iii): every poll shows exactly the frames completed so far, with the right flags,
   returned value and pending count *)
Definition c16_clean_ok (all : bool) (ts : list telegram) (cs : list nat) (outs : list obs) : bool :=
  obs_list_eqb outs (spec_polls all ts 0 cs).

(* ------------------------------------------------------------------ whole cases (harness PHY)
   A case is a list of episodes; each brings a number of chunks.  Clean episodes carry valid
   telegrams; garbage episodes carry bytes that are not a telegram sequence (`must` = the
   generator built them such that the decoder must have discarded them by the end of the
   episode when the buffer was empty at its start: non-delimiter bytes, or a complete frame
   with a wrong checksum / end byte). *)
Inductive episode : Set :=
| EpClean (ts : list telegram) (cs : list nat)
| EpGarbage (must : bool) (cs : list nat).

Definition last_pending_zero (synced : bool) (outs : list obs) : bool :=
  match last (map Some outs) None with
  | Some o => Nat.eqb (ob_pending o) 0
  | None => synced
  end.

(* (iv): whenever the receive buffer is empty at the start of a clean episode (whatever
   happened before), that episode must be received exactly. *)
Fixpoint c16_case_ok (all : bool) (eps : list episode) (synced : bool) (outs : list obs) : bool :=
  match eps with
  | [] => match outs with [] => true | _ => false end
  | EpClean ts cs :: eps' =>
      let here := firstn (length cs) outs in
      Nat.eqb (length here) (length cs) &&
      (if synced then c16_clean_ok all ts cs here else true) &&
      c16_case_ok all eps' (last_pending_zero synced here) (skipn (length cs) outs)
  | EpGarbage must cs :: eps' =>
      let here := firstn (length cs) outs in
      Nat.eqb (length here) (length cs) &&
      (if must && synced then last_pending_zero synced here else true) &&
      c16_case_ok all eps' (last_pending_zero synced here) (skipn (length cs) outs)
  end.

(* number of clean episodes that were checked after a garbage episode (non-vacuity counter) *)
Fixpoint c16_resyncs (eps : list episode) (synced seen_garbage : bool) (outs : list obs) : nat :=
  match eps with
  | [] => 0%nat
  | EpClean ts cs :: eps' =>
      let here := firstn (length cs) outs in
      ((if synced && seen_garbage then 1 else 0) +
       c16_resyncs eps' (last_pending_zero synced here) seen_garbage (skipn (length cs) outs))%nat
  | EpGarbage _ cs :: eps' =>
      let here := firstn (length cs) outs in
      c16_resyncs eps' (last_pending_zero synced here) true (skipn (length cs) outs)
  end.

(* ------------------------------------------------------------------ simulator cases
   The chunk sizes are implicit in the timing, so the oracle uses conservation instead:
   sent telegrams queue up; every poll delivers a prefix of the queue; delivered bytes plus
   pending bytes never shrink, never exceed what was sent, and the pending bytes are always
   fewer than the next frame (receive_all) resp. the head frame is delivered as soon as it is
   complete (receive_telegram).  A `flush` poll is late enough (by construction of the case)
   that everything sent has arrived. *)
Inductive sim_ev : Set :=
| EvSent (t : telegram)
| EvGarbage (must : bool)
| EvNop                            (* a transmit call that sent nothing, or the second piece of a telegram already
                                      queued by EvSent: no effect on what the receiver must be shown *)
| EvPoll (flush : bool) (o : obs).

Definition bytes_of (ts : list telegram) : nat := fold_right (fun t a => (frame_len t + a)%nat) 0%nat ts.

Fixpoint prefix_tel (d : rlog) (q : list telegram) : option (list telegram) :=
  match d, q with
  | [], _ => Some q
  | (t, _) :: d', t' :: q' => if telegram_eqb t t' then prefix_tel d' q' else None
  | _ :: _, [] => None
  end.

Fixpoint flags_ok (d : rlog) (last_flag : bool) : bool :=
  match d with
  | [] => true
  | [(_, l)] => Bool.eqb l last_flag
  | (_, l) :: d' => negb l && flags_ok d' last_flag
  end.

Record sim_mon : Set := mkMon {
  m_synced : bool; m_must : bool; m_queue : list telegram; m_held : nat; m_checked : nat }.

Definition sim_poll_ok (all : bool) (m : sim_mon) (flush : bool) (o : obs) : option sim_mon :=
  if m_synced m then
    match prefix_tel (ob_deliv o) (m_queue m) with
    | None => None
    | Some rem =>
        let delivered := (bytes_of (m_queue m) - bytes_of rem)%nat in
        let v := (delivered + ob_pending o)%nat in
        let next_ok :=
          match rem with
          | [] => Nat.eqb (ob_pending o) 0
          | t :: _ => if all then Nat.ltb (ob_pending o) (frame_len t)
                      else match ob_deliv o with [] => Nat.ltb (ob_pending o) (frame_len t) | _ => true end
          end in
        if Nat.leb (m_held m) v && Nat.leb v (bytes_of (m_queue m)) && next_ok &&
           (if all then flags_ok (ob_deliv o) (Nat.eqb (ob_pending o) 0) && opt_telegram_eqb (ob_ret o) (ret_all (ob_deliv o))
            else Nat.leb (length (ob_deliv o)) 1 && opt_telegram_eqb (ob_ret o) (ret_one (ob_deliv o))) &&
           (if flush then Nat.eqb v (bytes_of (m_queue m)) else true)
        then Some (mkMon true false rem (ob_pending o) (m_checked m + length (ob_deliv o)))
        else None
    end
  else if flush then
    if Nat.eqb (ob_pending o) 0 then Some (mkMon true false [] 0 (m_checked m))
    else if m_must m then None else Some m
  else Some m.

Fixpoint c16_sim_walk (all : bool) (m : sim_mon) (evs : list sim_ev) : option sim_mon :=
  match evs with
  | [] => Some m
  | EvSent t :: evs' =>
      c16_sim_walk all (if m_synced m then mkMon true false (m_queue m ++ [t]) (m_held m) (m_checked m) else m) evs'
  | EvGarbage must :: evs' =>
      c16_sim_walk all (mkMon false (m_must m || must) [] 0 (m_checked m)) evs'
  | EvNop :: evs' => c16_sim_walk all m evs'
  | EvPoll flush o :: evs' =>
      match sim_poll_ok all m flush o with
      | Some m' => c16_sim_walk all m' evs'
      | None => None
      end
  end.

Definition sim_mon_init : sim_mon := mkMon true false [] 0 0.

(* ------------------------------------------------------------------ vocabulary of the C16 theorems *)

Definition is_nil {A} (l : list A) : bool := match l with [] => true | _ => false end.

Definition short (ts : list telegram) (buf : bytes) : Prop :=
  match ts with [] => buf = [] | t :: _ => (length buf < frame_len t)%nat end.

Definition delivered (outs : list poll_out) : list telegram := map fst (concat (map po_deliv outs)).

Definition final_buffer (buf : bytes) (outs : list poll_out) : bytes := last (map po_rest outs) buf.

(* after every poll: what was delivered so far followed by what is still buffered is exactly
   what has arrived (nothing dropped, nothing duplicated), and what is buffered is shorter than
   the next outstanding frame (so no complete telegram was left behind) *)
Fixpoint history_ok (ts : list telegram) (buf : bytes) (cs : list bytes) (outs : list poll_out) : Prop :=
  match cs, outs with
  | [], [] => True
  | c :: cs', o :: outs' =>
      exists rem,
        ts = map fst (po_deliv o) ++ rem /\
        buf ++ c = stream (map fst (po_deliv o)) ++ po_rest o /\
        short rem (po_rest o) /\
        history_ok rem (po_rest o) cs' outs'
  | _, _ => False
  end.

Definition phy_coherent {P} (ops : phy_ops P) : Prop :=
  forall p buf n, phy_view ops p = Ok buf -> (n <= length buf)%nat ->
                  phy_view ops (phy_drop ops p n) = Ok (skipn n buf).

Definition no_overflow (bus : simbus) (c : captured) (t : Z) : Prop :=
  t - c_ts c <= 9223372036854775807 /\ (t - c_ts c) * baud_to_rate (sb_baud bus) <= 18446744073709551615.
