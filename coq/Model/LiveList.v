(* Model of src/fdl/live_list.rs: `LiveList` and its `FdlApplication` impl.  No proofs. *)
From PB Require Export ScanBase.

(* StationEvent; StationDescription { address, state } inlined *)
Inductive ll_event : Set :=
| LlDiscovered (a : Z) (st : resp_state)
| LlLost (a : Z).

Record ll : Set := mkLl {
  ll_stations : Z;                     (* bitvec::BitArr!(for 128), bit i = station i *)
  ll_cursor : Z;                       (* u8 *)
  ll_pending : option ll_event;
  ll_done : bool }.                    (* current_address_done *)

(* LiveList::new *)
Definition ll_new : ll := mkLl 0 LL_FIRST None false.

(* iter_stations(): iter_ones().map(|a| u8::try_from(a).unwrap()); indices are < 128 *)
Definition ll_iter_stations (s : ll) : res (list Z) :=
  let l := bs_ones LL_BITS (ll_stations s) in
  if forallb (fun a => a <? 256) l then Ok l else Panic SiteTryFrom.

(* take_last_event *)
Definition ll_take (s : ll) : ll * option ll_event :=
  (mkLl (ll_stations s) (ll_cursor s) None (ll_done s), ll_pending s).

Definition ll_request (ts address : Z) : header :=
  mkHeader address ts None None (FcRequest FcbInactive RqFdlStatus).

(* transmit_telegram(now, fdl, tx, high_prio_only): `now` and `high_prio_only` are ignored,
   of `fdl` only parameters().address = ts is read.  The station's own address is probed
   like any other (DESIGN O5). *)
Definition ll_transmit (ts : Z) (s : ll) : res (ll * option txout) :=
  let address := ll_cursor s in
  if ll_done s then
    (* cursor is a u8: `+= 1` is guarded by `< 125`, no overflow *)
    Ok (mkLl (ll_stations s)
             (if ll_cursor s <? LL_LAST then ll_cursor s + 1 else LL_FIRST)
             (ll_pending s) false, None)
  else
    let* t := send_request (ll_request ts address) in
    Ok (s, Some t).

(* the `if let Telegram::Data(DataTelegram { h: DataTelegramHeader { fc: Response { state, .. } } })` *)
Definition ll_reply_state (t : telegram) : option resp_state :=
  match t with
  | TData h _ => match h_fc h with FcResponse st _ => Some st | FcRequest _ _ => None end
  | _ => None
  end.

(* receive_reply(now, fdl, addr, telegram) *)
Definition ll_receive (s : ll) (addr : Z) (t : telegram) : res ll :=
  match bs_get LL_BITS (ll_stations s) addr with
  | None => Panic SiteUnwrap                       (* stations.get(addr).unwrap() *)
  | Some known =>
      if negb known then
        let* st' := bs_set LL_BITS (ll_stations s) addr true in
        Ok (mkLl st' (ll_cursor s)
                 (match ll_reply_state t with
                  | Some state => Some (LlDiscovered addr state)
                  | None => None              (* marked, but no event: DESIGN O1 *)
                  end) true)
      else Ok (mkLl (ll_stations s) (ll_cursor s) None true)
  end.

(* handle_timeout(now, fdl, addr) *)
Definition ll_timeout (s : ll) (addr : Z) : res ll :=
  match bs_get LL_BITS (ll_stations s) addr with
  | None => Panic SiteUnwrap
  | Some known =>
      if known then
        let* st' := bs_set LL_BITS (ll_stations s) addr false in
        Ok (mkLl st' (ll_cursor s) (Some (LlLost addr)) true)
      else Ok (mkLl (ll_stations s) (ll_cursor s) (ll_pending s) true)
  end.

Definition ll_poll := poll ll_transmit ll_receive ll_timeout ll_take ll_stations.
Definition ll_run := run ll_transmit ll_receive ll_timeout ll_take ll_stations.

(* abstraction for the C18 oracles: a valid answer to an FDL status request is a response
   telegram (DESIGN 4.0, C18); payload = the reported station state *)
Definition ll_classify (t : telegram) : cls resp_state :=
  match ll_reply_state t with Some st => CValid st | None => COther end.

Definition ll_abs_ev (e : ll_event) : aev resp_state :=
  match e with
  | LlDiscovered a st => AUp a st
  | LlLost a => ADown a
  end.

Definition ll_abs := abs_poll ll_classify ll_abs_ev.
