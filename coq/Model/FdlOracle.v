(* Executable monitors for the station-local parts of C01 C05 C06 C11 C12 C13 C15.
   They run on the IMPLEMENTATION's transcript (harness/src/fdl.rs): per poll the inputs
   (now, busy flag, receive buffer) and the outputs (transmission, consumed bytes, application
   callbacks) plus the public view after the poll (connectivity, is_in_ring, NS, PS, LAS,
   and the name of the private state through the verif hook).  A monitor keeps its own notion of
   bus activity from the inputs only; it never looks at the station's private timers.

   `monitor params napps events` returns the list of violated rules (empty = all rules held).
   No proofs in this file. *)
From PB Require Export Fdl.

Inductive api_call : Set := ApiNew | ApiOnline | ApiOffline | ApiPassive.

(* what the implementation shows after an event *)
Record view : Set := mkView {
  v_conn : conn_state; v_in_ring : bool; v_kind : state_kind;
  v_ns : Z; v_ps : Z; v_las_valid : bool; v_active : list Z;
  v_gap_due : bool;  (* GAP cursor of the station is in its polling phase (GapState::DoPoll), through the hook *)
  v_scan_await : bool  (* ClaimToken with step ScanAwaitResponse, through the hook *) }.

Record pstep : Set := mkPStep {
  s_now : Z; s_busy : bool; s_rx : bytes;
  s_tx : option bytes; s_consumed : nat; s_calls : list call; s_view : view }.

Inductive event : Set :=
| EApi (a : api_call) (v : view)
| EPoll (s : pstep)
| EPanic          (* the previous call panicked *)
| ETimeout.       (* the previous call did not return *)

Inductive rule : Set :=
(* C01 *)
| R01_tx_while_busy | R01_sync_pause | R01_who_may_transmit | R01_check_pass_before_slot | R01_claim_before_timeout
(* C05 *)
| R05_panic | R05_timeout
(* C06 *)
| R06_no_claim_after_timeout
(* C11 *)
| R11_accept_while_listening | R11_accept_without_token | R11_accept_from_stranger
| R11_retry_too_early | R11_too_many_retries | R11_removed_too_early | R11_heard_but_supervising
| R11_supervision_never_ends | R11_offer_changes_ring_view
(* C12 *)
| R12_gap_poll_outside_gap | R12_two_gap_polls_per_visit | R12_reply_without_request | R12_reply_untruthful
| R12_reply_from_wrong_state
| R12_found_not_successor | R12_found_not_next_token | R12_successor_changed_without_ready_reply | R12_sweep_bound
| R12_post_claim_scan_incomplete | R12_gap_wait_never_ends
(* C13 *)
| R13_low_prio_after_hold_time | R13_second_cycle_after_hold_time | R13_high_prio_inside_hold_time
(* C15 *)
| R15_transmit_without_token | R15_transmit_while_outstanding | R15_round_robin | R15_reply_not_requested
| R15_reply_invalid | R15_timeout_not_requested | R15_await_without_request
| R15_asked_after_all_declined | R15_not_passed_after_all_declined | R15_passed_before_all_declined
| R15_cycle_after_hold_time | R15_no_reply_no_timeout
(* C06 (appended) *)
| R06_no_backoff.

Inductive pid : Set := PC01 | PC05 | PC06 | PC11 | PC12 | PC13 | PC15.
Definition rule_prop (r : rule) : pid :=
  match r with
  | R01_tx_while_busy | R01_sync_pause | R01_who_may_transmit | R01_check_pass_before_slot | R01_claim_before_timeout => PC01
  | R05_panic | R05_timeout => PC05
  | R06_no_claim_after_timeout => PC06
  | R11_accept_while_listening | R11_accept_without_token | R11_accept_from_stranger
  | R11_retry_too_early | R11_too_many_retries | R11_removed_too_early | R11_heard_but_supervising
  | R11_supervision_never_ends | R11_offer_changes_ring_view => PC11
  | R12_gap_poll_outside_gap | R12_two_gap_polls_per_visit | R12_reply_without_request | R12_reply_untruthful
  | R12_reply_from_wrong_state
  | R12_found_not_successor | R12_found_not_next_token | R12_successor_changed_without_ready_reply | R12_sweep_bound
  | R12_post_claim_scan_incomplete | R12_gap_wait_never_ends => PC12
  | R13_low_prio_after_hold_time | R13_second_cycle_after_hold_time | R13_high_prio_inside_hold_time => PC13
  | R15_transmit_without_token | R15_transmit_while_outstanding | R15_round_robin | R15_reply_not_requested
  | R15_reply_invalid | R15_timeout_not_requested | R15_await_without_request
  | R15_asked_after_all_declined | R15_not_passed_after_all_declined | R15_passed_before_all_declined
  | R15_cycle_after_hold_time | R15_no_reply_no_timeout => PC15
  | R06_no_backoff => PC06
  end.

(* ------------------------------------------------------------------------------------------ *)

Record mon : Set := mkMon {
  m_view : view;                    (* view after the previous event *)
  m_left : nat;                     (* bytes left in the receive buffer after the previous poll *)
  m_lba : option Z;                 (* latest bus activity visible to the station: RX growth, own TX end *)
  m_quiet : option Z;               (* C06: since when the station has certainly seen nothing at all *)
  m_cand : option Z;                (* C11: stranger whose first token offer is pending *)
  m_pass : option (Z * nat);        (* C11: successor and number of transmissions of the current token pass *)
  m_gap_polls : nat;                (* C12: GAP polls since the start of the visit / the last token transmission *)
  m_req : option Z;                 (* C12: requester of the status request that awaits its reply *)
  m_out : option (nat * Z);         (* C15: outstanding request (application, address) *)
  m_turn : option (nat * bool);     (* C15: last transmit call (application, declined) *)
  m_prev_tt : Z;                    (* C13: token time of the previous visit *)
  m_tt : Z;                         (* C13: token time of the current visit *)
  m_rounds : nat;                   (* C13: polls of this visit in which applications were asked *)
  m_start : option Z                (* time of the first poll in which the station was online *)
}.

Definition mon_reset (v : view) (left : nat) : mon :=
  mkMon v left None None None None 0 None None None 0 0 0 None.

(* constants of the PROPERTY texts (not the regenerated ones of the code) *)
Definition prop_sync_bits : Z := 33.        (* C01: synchronisation pause *)
Definition prop_bits_per_byte : Z := 11.    (* one UART character *)
Definition prop_gap_reserve_extra_bits : Z := 100.   (* C13_hold_rule: reserve Tslot + 100 bit when a GAP poll is due *)

Definition kind_in (k : state_kind) (l : list state_kind) : bool := existsb (state_kind_eqb k) l.

(* the telegrams `receive_all_telegrams` delivers from a buffer, with their is_last flag *)
Definition delivered (rx : bytes) : list (telegram * bool) :=
  match receive_all (fun (acc : list (telegram * bool)) t l => Ok (acc ++ [(t, l)], tt))
                    (receive_all_fuel rx) [] rx with
  | Ok (acc, _, _) => acc
  | _ => []
  end.

Definition last_delivered (rx : bytes) : option telegram :=
  match rev (delivered rx) with
  | (t, true) :: _ => Some t
  | _ => None
  end.

Definition is_claim_token (ts : Z) (w : bytes) : bool := bytes_eqb w (encode_token ts ts).

Definition decode_one (w : bytes) : option telegram :=
  match decode w with
  | Ok (Accept t n) => if Nat.eqb n (length w) then Some t else None
  | _ => None
  end.

Definition app_sent (calls : list call) : bool :=
  existsb (fun c => match c with CallTransmit _ _ (Some _) => true | _ => false end) calls.

Definition zmax_opt (o : option Z) (x : Z) : Z := match o with Some l => Z.max l x | None => x end.
Definition mem_z (a : Z) (l : list Z) : bool := existsb (Z.eqb a) l.

Definition check (b : bool) (r : rule) : list rule := if b then [] else [r].

(* ---- C15 / C13: the application callbacks of one poll, in order ---- *)
Definition mon_call (p : params) (napps : nat) (k0 : state_kind) (now : Z) (rounds0 : nat)
           (acc : mon * list rule) (c : call) : mon * list rule :=
  let (m, errs) := acc in
  match c with
  | CallTransmit i hp r =>
      let e1 := check (kind_in k0 [KUseToken; KAwaitDataResponse]) R15_transmit_without_token in
      let e2 := check (match m_out m with None => true | Some _ => false end) R15_transmit_while_outstanding in
      let expected := match m_turn m with
                      | None => 0%nat
                      | Some (j, declined) => if declined then Nat.modulo (j + 1) napps else j
                      end in
      let e3 : list rule := [] in   (* round robin: see mon_poll2 (the acceptor of theorem C15_round_robin) *)
      let e4 := if hp then check (Nat.eqb rounds0 0) R13_second_cycle_after_hold_time ++
                           check (Nat.eqb rounds0 0) R15_cycle_after_hold_time
                else check (now <? m_prev_tt m + token_rotation_time p) R13_low_prio_after_hold_time in
      let out := match r with Some (_, Some a) => Some (i, a) | _ => m_out m end in
      let declined := match r with None => true | Some _ => false end in
      (mkMon (m_view m) (m_left m) (m_lba m) (m_quiet m) (m_cand m) (m_pass m) (m_gap_polls m) (m_req m)
             out (Some (i, declined)) (m_prev_tt m) (m_tt m) (m_rounds m) (m_start m),
       errs ++ e1 ++ e2 ++ e3 ++ e4)
  | CallReceiveReply i a t =>
      let e1 := check (match m_out m with Some (j, b) => Nat.eqb i j && (a =? b) | None => false end) R15_reply_not_requested in
      let valid := match t with
                   | TShortConf => true
                   | TData h _ => (h_sa h =? a) && (h_da h =? p_address p) &&
                                  match h_fc h with FcResponse _ _ => true | _ => false end
                   | TToken _ _ => false
                   end in
      let e2 := check valid R15_reply_invalid in
      (mkMon (m_view m) (m_left m) (m_lba m) (m_quiet m) (m_cand m) (m_pass m) (m_gap_polls m) (m_req m)
             None (m_turn m) (m_prev_tt m) (m_tt m) (m_rounds m) (m_start m),
       errs ++ e1 ++ e2)
  | CallHandleTimeout i a =>
      let e1 := check (match m_out m with Some (j, b) => Nat.eqb i j && (a =? b) | None => false end) R15_timeout_not_requested in
      (mkMon (m_view m) (m_left m) (m_lba m) (m_quiet m) (m_cand m) (m_pass m) (m_gap_polls m) (m_req m)
             None (m_turn m) (m_prev_tt m) (m_tt m) (m_rounds m) (m_start m),
       errs ++ e1)
  end.

(* ---- one poll ---- *)
Definition mon_poll (p : params) (napps : nat) (m : mon) (s : pstep) : mon * list rule :=
  let ts := p_address p in
  let now := s_now s in
  let pre := m_view m in
  let post := s_view s in
  let k0 := v_kind pre in
  let k1 := v_kind post in
  let grew := Nat.ltb (m_left m) (length (s_rx s)) in
  (* RX growth, or the own transmission still seen in progress (tx_busy), is bus activity - for a station
     that is online: an offline station's poll returns at once, it observes nothing (O9) *)
  let pre_online := match v_conn pre with ConnOffline => false | _ => true end in
  let lba := if (grew || s_busy s) && pre_online then Some (zmax_opt (m_lba m) now) else m_lba m in
  let sync := p_bits_to_time p prop_sync_bits in
  let slot := slot_time p in
  let silent_for (d : Z) : bool := match lba with Some l => l + d <? now | None => true end in
  let txt := match s_tx s with Some w => decode_one w | None => None end in
  (* only needed (and only computed) when the station consumed something in this poll *)
  let tels := if Nat.eqb (s_consumed s) 0 then [] else delivered (s_rx s) in
  let heard := (negb (Nat.eqb (s_consumed s) 0)) && match tels with _ :: _ => true | [] => false end in
  let lastt := if Nat.eqb (s_consumed s) 0 then None else last_delivered (s_rx s) in
  (* ------------------------------------------------ C01 *)
  let e01 :=
    match s_tx s with
    | None => []
    | Some w =>
        check (negb (s_busy s)) R01_tx_while_busy ++
        check (silent_for sync) R01_sync_pause ++
        (if kind_in k0 [KUseToken; KClaimToken; KAwaitDataResponse; KAwaitStatusResponse; KPassToken] then []
         else if state_kind_eqb k0 KCheckTokenPass then check (silent_for slot) R01_check_pass_before_slot
         else if kind_in k0 [KListenToken; KActiveIdle; KOffline] then
           (* Offline: the poll that takes the station online may claim at once when the station re-created
              itself after an address collision and kept the instant of that poll as its silence reference
              (O9, m_start below); a status reply is never sent in that poll *)
           match txt with
           | Some (TData h _) =>
               check (match h_fc h with FcResponse _ _ => (h_sa h =? ts) && negb (state_kind_eqb k0 KOffline) | _ => false end)
                     R01_who_may_transmit
           | _ =>
               check (is_claim_token ts w) R01_who_may_transmit ++
               check (match m_start m with
                      | Some t0 => token_lost_timeout p <=? now - zmax_opt lba t0
                      | None => false
                      end) R01_claim_before_timeout
           end
         else [R01_who_may_transmit])
    end in
  (* ------------------------------------------------ C06 *)
  let e06 :=
    if kind_in k0 [KListenToken; KActiveIdle] && negb (s_busy s) &&
       match s_rx s with [] => true | _ => false end &&
       match m_quiet m with Some q => token_lost_timeout p <=? now - q | None => false end
    then check (match s_tx s with Some w => is_claim_token ts w | None => false end) R06_no_claim_after_timeout
    else [] in
  let tx_end := match s_tx s with
                | Some w => Some (now + bits_to_time (p_baud p) (prop_bits_per_byte * Zlen w))
                | None => None
                end in
  let online := match v_conn post with ConnOffline => false | _ => true end in
  (* the instant the silence time-out is measured from at the earliest: the first poll in which the station
     was online - or, for a station that goes offline by itself in this poll (it re-creates itself after the
     second address collision while listening; the code may keep `now` as last_bus_activity, O9), this poll;
     kept while it stays offline (`A off` resets it) *)
  let start := if online then match m_start m with Some t => Some t | None => Some now end
               else if pre_online then Some now else m_start m in
  let quiet := if negb online then None else
               match tx_end with
               | Some e => Some (zmax_opt (m_quiet m) e)
               | None => if s_busy s || match s_rx s with [] => false | _ => true end
                         then Some (zmax_opt (m_quiet m) now)
                         else match m_quiet m with Some q => Some q | None => Some now end
               end in
  (* ------------------------------------------------ C11 *)
  let accepted := state_kind_eqb k1 KUseToken && kind_in k0 [KActiveIdle; KCheckTokenPass] &&
                  match s_tx s with None => true | Some _ => false end in
  let cand0 := if state_kind_eqb k0 KActiveIdle then m_cand m else None in
  let e11a :=
    (if state_kind_eqb k0 KListenToken
     then check (kind_in k1 [KListenToken; KActiveIdle; KClaimToken; KOffline]) R11_accept_while_listening else []) ++
    (if accepted then
       match lastt with
       | Some (TToken da sa) =>
           check ((da =? ts) && negb (sa =? ts)) R11_accept_without_token ++
           (match tels with
            | [_] => check ((sa =? v_ps pre) || opt_eqb cand0 (Some sa)) R11_accept_from_stranger
            | _ => []
            end)
       | _ => [R11_accept_without_token]
       end
     else []) in
  (* a token offer addressed to this station that is NOT accepted in this poll (the station stays idle: the
     first offer of a stranger) is only remembered as pending: the ring view - LAS, NS, PS - stays as it was
     (C11_accept_iff, second conjunct; witness_token_pass runs only when a token is accepted or passes by) *)
  let e11c :=
    if state_kind_eqb k1 KActiveIdle && kind_in k0 [KActiveIdle; KCheckTokenPass] &&
       match s_tx s with None => true | Some _ => false end
    then match lastt, tels with
         | Some (TToken da sa), [_] =>
             if (da =? ts) && negb (sa =? ts)
             then check ((v_ns post =? v_ns pre) && (v_ps post =? v_ps pre) &&
                         Bool.eqb (v_las_valid post) (v_las_valid pre) && bytes_eqb (v_active post) (v_active pre))
                        R11_offer_changes_ring_view
             else []
         | _, _ => []
         end
    else [] in
  let cand :=
    if state_kind_eqb k1 KActiveIdle then
      if kind_in k0 [KActiveIdle; KCheckTokenPass] then
        match lastt with
        | Some (TToken da sa) => if (da =? ts) && negb (sa =? ts) then Some sa else cand0
        | _ => cand0
        end
      else None
    else None in
  let token_tx := match txt with Some (TToken da sa) => Some (da, sa) | _ => None end in
  let e11b :=
    match token_tx with
    | Some (da, sa) =>
        if (sa =? ts) && negb (da =? ts) && state_kind_eqb k0 KCheckTokenPass then
          match m_pass m with
          | Some (da', n) =>
              if da' =? da then
                check (silent_for slot) R11_retry_too_early ++ check (Nat.ltb n 3) R11_too_many_retries
              else (* the successor changed: it must have been removed after three silent attempts *)
                if Nat.eqb (s_consumed s) 0 && mem_z da' (v_active pre) && negb (mem_z da' (v_active post))
                then check (Nat.eqb n 3 && silent_for slot) R11_removed_too_early else []
          | None => []
          end
        else []
    | None => []
    end ++
    (if state_kind_eqb k0 KCheckTokenPass && heard
     then check (kind_in k1 [KActiveIdle; KUseToken; KListenToken] &&
                 match s_tx s with None => true | Some _ => false end) R11_heard_but_supervising
     else []) in
  let pass :=
    match token_tx with
    | Some (da, sa) =>
        if (sa =? ts) && negb (da =? ts) then
          match m_pass m with
          | Some (da', n) => if (da' =? da) && state_kind_eqb k0 KCheckTokenPass then Some (da, S n) else Some (da, 1%nat)
          | None => Some (da, 1%nat)
          end
        else None
    | None => if kind_in k1 [KCheckTokenPass; KPassToken] then m_pass m else None
    end in
  (* ------------------------------------------------ C12 *)
  (* F20 repair: a visit ends in the poll that finds nothing (more) to send - do_use_token goes on to
     do_pass_token in the same poll.  A station that is its own successor passes the token to itself in
     that poll (token TS -> TS out of a token-use state) and is in UseToken again: its next visit. *)
  let self_pass := kind_in k0 [KUseToken; KAwaitDataResponse] &&
                   match token_tx with Some (da, sa) => (da =? ts) && (sa =? ts) | None => false end in
  let new_visit := state_kind_eqb k1 KUseToken && (negb (kind_in k0 [KUseToken; KAwaitDataResponse]) || self_pass) in
  let gap_poll :=
    match txt with
    | Some (TData h _) =>
        if is_fdl_status_request h && (h_sa h =? ts) && negb (app_sent (s_calls s)) then Some (h_da h) else None
    | _ => None
    end in
  let e12a :=
    match gap_poll with
    | Some da =>
        check (in_gapb ts (v_ns pre) da && (da <? p_hsa p) && negb (da =? ts)) R12_gap_poll_outside_gap ++
        (if state_kind_eqb k0 KClaimToken then [] else check (Nat.eqb (m_gap_polls m) 0) R12_two_gap_polls_per_visit)
    | None => []
    end in
  let gap_polls :=
    match token_tx with
    | Some _ => 0%nat
    | None => if new_visit then 0%nat
              else match gap_poll with
                   | Some _ => if state_kind_eqb k0 KClaimToken then m_gap_polls m else S (m_gap_polls m)
                   | None => m_gap_polls m
                   end
    end in
  let e12b :=
    match txt with
    | Some (TData h _) =>
        match h_fc h with
        | FcResponse st status =>
            if h_sa h =? ts then
              check (opt_eqb (m_req m) (Some (h_da h))) R12_reply_without_request ++
              (if state_kind_eqb k0 KActiveIdle then
                 check ((resp_state_to_byte st =? resp_state_to_byte RsMasterInRing) &&
                        (resp_status_to_byte status =? resp_status_to_byte StOk)) R12_reply_untruthful
               else if state_kind_eqb k0 KListenToken then
                 let ready := v_las_valid pre && (h_da h =? v_ps pre) in
                 check ((resp_state_to_byte st =?
                         resp_state_to_byte (if ready then RsMasterWithoutToken else RsMasterNotReady)) &&
                        (resp_status_to_byte status =? resp_status_to_byte StOk)) R12_reply_untruthful
               else [R12_reply_from_wrong_state])
            else []
        | _ => []
        end
    | _ => []
    end in
  let req :=
    if negb (kind_in k1 [KListenToken; KActiveIdle]) then None else
    match s_tx s with
    | Some _ => None
    | None =>
        if kind_in k0 [KListenToken; KActiveIdle; KCheckTokenPass; KOffline] then
          match lastt with
          | Some (TData h _) =>
              if is_fdl_status_request h && (h_da h =? ts) &&
                 negb (state_kind_eqb k0 KListenToken && (h_sa h =? ts))
              then Some (h_sa h) else m_req m
          | Some _ => m_req m
          | None => m_req m
          end
        else None
    end in
  (* ------------------------------------------------ C15 / C13 *)
  let m1 := mkMon pre (m_left m) lba quiet cand pass gap_polls req (m_out m) (m_turn m)
                  (m_prev_tt m) (m_tt m) (m_rounds m) start in
  let '(m2, ecalls) := fold_left (mon_call p napps k0 now (m_rounds m)) (s_calls s) (m1, []) in
  let asked := match s_calls s with [] => false | _ => existsb (fun c => match c with CallTransmit _ _ _ => true | _ => false end) (s_calls s) end in
  let e15 := if state_kind_eqb k1 KAwaitDataResponse
             then check (match m_out m2 with Some _ => true | None => false end) R15_await_without_request else [] in
  let out := if state_kind_eqb k1 KAwaitDataResponse then m_out m2 else None in
  let rounds := if asked then S (m_rounds m) else m_rounds m in
  let lba' := match tx_end with Some e => Some (zmax_opt lba e) | None => lba end in
  let left := (length (s_rx s) - s_consumed s)%nat in
  let m3 :=
    if new_visit
    then mkMon post left lba' quiet cand pass gap_polls req out (m_turn m2) (m_tt m) now 0 start
    else if state_kind_eqb k1 KOffline
    then (* the station re-created itself in this poll (second address collision while listening): as after
            `A off` its last_token_time is 0 again, the hold-time bookkeeping of C13 starts again *)
         mkMon post left lba' quiet cand pass gap_polls req out (m_turn m2) 0 0 0%nat start
    else mkMon post left lba' quiet cand pass gap_polls req out (m_turn m2) (m_prev_tt m) (m_tt m) rounds start in
  (m3, e01 ++ e06 ++ e11a ++ e11c ++ e11b ++ e12a ++ e12b ++ ecalls ++ e15).

(* ------------------------------------------------------------------------------------------ *)
(* Second group of monitors (state `mon2`): C12 found-becomes-successor and sweep bound, C13 with the
   exact end of the hold time.  They read the first group's state `mon` of BEFORE the poll. *)

Record mon2 : Set := mkMon2 {
  g_wait : option Z;      (* address of the GAP request whose reply is awaited *)
  g_expect : option Z;    (* found successor: must be the destination of the next token transmission *)
  g_visit : nat;          (* completed token visits (first token transmission of each pass) *)
  g_last : list nat;      (* per address 0..125: visit count at its last GAP request / window restart *)
  h_end : Z;              (* C13: end of the hold time of the current visit *)
  g_scan : option (list Z);   (* C12: after a claim, the GAP addresses the post-claim scan still has to poll *)
  r_turn : nat;           (* C15: whose turn it is (next_application) *)
  r_decl : nat;           (* C15: applications that have declined in this visit *)
  l_ref : option Z;       (* liveness: latest instant at which the station can have seen anything happen
                             (RX growth, tx busy, own transmission end, consumption of received data) *)
  l_txend : option Z;     (* liveness: predicted end of the station's last transmission *)
  l_spur : bool           (* liveness: a telegram was consumed with bytes left behind - the station counts
                             them as new at its next poll that looks at the receive buffer *)
}.

Definition addr_count : nat := 126.
Definition mon2_reset : mon2 := mkMon2 None None 0 (repeat 0%nat addr_count) 0 None 0 0 None None false.

Fixpoint set_nth_nat (l : list nat) (i : nat) (v : nat) : list nat :=
  match l, i with
  | [], _ => []
  | _ :: t, O => v :: t
  | x :: t, S j => x :: set_nth_nat t j v
  end.

(* the addresses of the own GAP: strictly between TS and NS cyclically, below HSA *)
Definition gap_addrs (p : params) (ns : Z) : list Z :=
  filter (fun a => in_gapb (p_address p) ns a && (a <? p_hsa p))
         (map Z.of_nat (seq 0 addr_count)).

Definition is_ready_master (st : resp_state) : bool :=
  (resp_state_to_byte st =? resp_state_to_byte RsMasterWithoutToken) ||
  (resp_state_to_byte st =? resp_state_to_byte RsMasterInRing).

Definition mon_poll2 (p : params) (napps : nat) (m : mon) (g : mon2) (s : pstep) : mon2 * list rule :=
  let ts := p_address p in
  let now := s_now s in
  let pre := m_view m in
  let post := s_view s in
  let k0 := v_kind pre in
  let k1 := v_kind post in
  let txt := match s_tx s with Some w => decode_one w | None => None end in
  let gap_poll :=
    match txt with
    | Some (TData h _) =>
        if is_fdl_status_request h && (h_sa h =? ts) && negb (app_sent (s_calls s)) then Some (h_da h) else None
    | _ => None
    end in
  let token_tx := match txt with Some (TToken da sa) => if sa =? ts then Some da else None | _ => None end in
  (* ---- C12: a polled station that reports to be a ready master becomes the successor ---- *)
  let first := match decode (s_rx s) with
               | Ok (Accept t n) => if Nat.eqb n (s_consumed s) then Some t else None
               | _ => None
               end in
  let awaiting := kind_in k0 [KAwaitStatusResponse; KClaimToken] in
  let ready_reply :=
    awaiting &&
    match g_wait g, first with
    | Some a, Some (TData h _) =>
        match h_fc h with
        | FcResponse st status =>
            (h_sa h =? a) && (h_da h =? ts) && (resp_status_to_byte status =? resp_status_to_byte StOk) &&
            is_ready_master st
        | _ => false
        end
    | _, _ => false
    end in
  let e_found :=
    if ready_reply
    then check (match g_wait g with Some a => v_ns post =? a | None => true end) R12_found_not_successor
    else if awaiting then check (v_ns post =? v_ns pre) R12_successor_changed_without_ready_reply
    else [] in
  let e_tok := match token_tx, g_expect g with
               | Some da, Some a => check (da =? a) R12_found_not_next_token
               | _, _ => []
               end in
  let expect :=
    match token_tx with
    | Some _ => None
    | None => if kind_in k1 [KActiveIdle; KListenToken; KOffline] then None
              else if ready_reply then g_wait g else g_expect g
    end in
  let wait := match gap_poll with
              | Some da => Some da
              | None => if kind_in k1 [KAwaitStatusResponse; KClaimToken] then g_wait g else None
              end in
  (* ---- C12: sweep bound ---- *)
  (* the token transmission that ends a visit: from PassToken / AwaitStatusResponse, or (F20 repair) in the
     last poll of the token-use states *)
  let visit_tx := match token_tx with
                  | Some _ => kind_in k0 [KPassToken; KAwaitStatusResponse; KUseToken; KAwaitDataResponse]
                  | None => false
                  end in
  let claim_tx := match token_tx with Some da => (da =? ts) && kind_in k0 [KListenToken; KActiveIdle; KClaimToken] | None => false end in
  let restart := negb (v_ns post =? v_ns pre) || claim_tx || kind_in k1 [KListenToken; KOffline] in
  let last1 := match gap_poll with
               | Some da => if (0 <=? da) && (da <? 126) then set_nth_nat (g_last g) (Z.to_nat da) (g_visit g) else g_last g
               | None => g_last g
               end in
  let last2 := if restart then repeat (g_visit g) addr_count else last1 in
  let visit := if visit_tx then S (g_visit g) else g_visit g in
  let e_sweep :=
    if visit_tx && negb restart
    then (let gap := gap_addrs p (v_ns post) in
          let bound := (length gap + Z.to_nat (p_gap_wait p) + 2)%nat in
          check (forallb (fun a => Nat.leb (visit - nth (Z.to_nat a) last2 0%nat) bound) gap) R12_sweep_bound)
    else [] in
  (* ---- C13: exact end of the hold time ---- *)
  let e13 := flat_map (fun c => match c with
                                | CallTransmit _ hp _ =>
                                    if hp then check (h_end g <=? now) R13_high_prio_inside_hold_time
                                    else check (now <? h_end g) R13_low_prio_after_hold_time
                                | _ => []
                                end) (s_calls s) in
  let self_pass := kind_in k0 [KUseToken; KAwaitDataResponse] &&
                   match token_tx with Some da => da =? ts | None => false end in
  let new_visit := state_kind_eqb k1 KUseToken && (negb (kind_in k0 [KUseToken; KAwaitDataResponse]) || self_pass) in
  let hend := if new_visit
              then m_tt m + token_rotation_time p -
                   (if v_gap_due post then p_bits_to_time p (p_slot_bits p + prop_gap_reserve_extra_bits) else 0)
              else h_end g in
  (* ---- C12: the whole GAP at once right after claiming a new token ---- *)
  let in_list (a : Z) (l : list Z) := existsb (Z.eqb a) l in
  let scan1 := if claim_tx then Some (gap_addrs p (v_ns post))
               else match g_scan g, gap_poll with
                    | Some l, Some da => Some (filter (fun a => negb (a =? da)) l)
                    | sc, _ => sc
                    end in
  let scan_ends := state_kind_eqb k0 KClaimToken && negb (state_kind_eqb k1 KClaimToken) in
  let e_scan :=
    if scan_ends && state_kind_eqb k1 KPassToken then
      match scan1 with
      | Some l => (let gap := gap_addrs p (v_ns post) in
                   check (negb (existsb (fun a => in_list a gap) l)) R12_post_claim_scan_incomplete)
      | None => []
      end
    else [] in
  let scan := if scan_ends then None
              else if kind_in k1 [KClaimToken; KListenToken; KActiveIdle] then scan1 else None in
  (* ---- C15: the acceptor of theorem C15_round_robin (rpre / rpost of Proofs/C15Proofs.v) ---- *)
  let in_vis (k : state_kind) := kind_in k [KUseToken; KAwaitDataResponse] in
  let rr := fold_left
    (fun (acc : nat * nat * list rule) c =>
       let '(turn, decl, errs) := acc in
       match c with
       | CallTransmit i hp r =>
           let e := check (Nat.eqb i turn && Nat.ltb i napps) R15_round_robin ++
                    check (Nat.ltb decl napps) R15_asked_after_all_declined in
           match r with
           | None => (Nat.modulo (i + 1) napps, S decl, errs ++ e)
           | Some _ => (turn, decl, errs ++ e)
           end
       | CallReceiveReply i _ _ | CallHandleTimeout i _ =>
           (turn, decl, errs ++ check (Nat.eqb i turn) R15_round_robin)
       end) (s_calls s) (r_turn g, r_decl g, []) in
  let '(turn1, decl1, e_rr) := rr in
  (* the visit has ended in this poll (C15Proofs: pass_kind, or the next visit of a station that is its own
     successor): the station is passing the token - PassToken (synchronisation pause), AwaitStatusResponse
     (GAP request sent), CheckTokenPass (token sent) - or has passed it to itself *)
  let passed := kind_in k1 [KPassToken; KAwaitStatusResponse; KCheckTokenPass] || self_pass in
  let e_end :=
    if in_vis k0 then
      (if Nat.ltb 0 napps && Nat.eqb decl1 napps
       then check passed R15_not_passed_after_all_declined else []) ++
      (if passed
       then check (Nat.eqb decl1 napps || (h_end g <=? now)) R15_passed_before_all_declined else [])
    else [] in
  let turn2 := if state_kind_eqb k1 KOffline then 0%nat else turn1 in
  let decl2 := if in_vis k1 then (if in_vis k0 && negb self_pass then decl1 else 0%nat) else 0%nat in
  (* ---- liveness of the waiting states (C12 GAP waits, C11 supervision, C15 reply wait) ----
     While the bus brings nothing new, the wait must end at the first poll later than one slot time
     after the last instant at which the station can have seen anything happen. *)
  let grew := Nat.ltb (m_left m) (length (s_rx s)) in
  let tx_end := match s_tx s with
                | Some w => Some (now + bits_to_time (p_baud p) (prop_bits_per_byte * Zlen w))
                | None => None
                end in
  let ongoing := match l_txend g with Some e => now <=? e | None => false end in
  let looks := negb (s_busy s) && negb ongoing in          (* the poll gets as far as the receive buffer *)
  let spur_now := l_spur g && looks && match s_rx s with [] => false | _ => true end in
  let consumed := negb (Nat.eqb (s_consumed s) 0) in
  let quiet := looks && negb grew && negb spur_now in
  let waiting_c12 := state_kind_eqb k0 KAwaitStatusResponse || (state_kind_eqb k0 KClaimToken && v_scan_await pre) in
  let acted := consumed || negb (state_kind_eqb k1 k0) ||
               match s_tx s with Some _ => true | None => false end ||
               match s_calls s with [] => false | _ => true end ||
               (state_kind_eqb k0 KClaimToken && negb (v_scan_await post)) in
  let expired := match l_ref g with Some r => r + slot_time p <? now | None => false end in
  let e_live :=
    if quiet && expired && negb acted then
      (if waiting_c12 then [R12_gap_wait_never_ends] else []) ++
      (if state_kind_eqb k0 KCheckTokenPass then [R11_supervision_never_ends] else []) ++
      (if state_kind_eqb k0 KAwaitDataResponse then [R15_no_reply_no_timeout] else [])
    else [] in
  let happened := grew || s_busy s || consumed || spur_now in
  let ref1 := if happened then Some (zmax_opt (l_ref g) now)
              else match l_ref g with Some r => Some r | None => Some now end in
  let ref2 := match tx_end with Some e => Some (zmax_opt ref1 e) | None => ref1 end in
  let txend := match tx_end with Some e => Some e | None => l_txend g end in
  let spur := if consumed then Nat.ltb (s_consumed s) (length (s_rx s))
              else if looks then false else (l_spur g || grew) in   (* growth during a poll that does not look is seen later *)
  (* ---- C06_backoff (theorem of Properties/C06.v, same hypotheses): while waiting for an answer - of
     a data request, of a GAP poll, of a GAP poll of the post-claim scan - the first complete telegram
     in the buffer that is not this answer makes the station give up the token: the poll ends in
     ActiveIdle, nothing transmitted, no application called, exactly that telegram consumed.
     "Not the answer": for a data request to addr anything but SC or a response from addr to TS; for a
     GAP poll of a anything but a response from a to TS (so every token, SC, request, foreign
     response).  The poll must look at the buffer: PHY not busy, later than the predicted end of the
     own transmission. *)
  let e_backoff :=
    if looks then
      match decode (s_rx s) with
      | Ok (Accept t n) =>
          let gap_reply (a : Z) := match t with
                                   | TData h _ => match h_fc h with
                                                  | FcResponse _ _ => (h_sa h =? a) && (h_da h =? ts)
                                                  | _ => false
                                                  end
                                   | _ => false
                                   end in
          let unexpected :=
            if state_kind_eqb k0 KAwaitDataResponse then
              match m_out m with
              | Some (_, addr) => negb (match t with TShortConf => true | TToken _ _ => false | _ => gap_reply addr end)
              | None => false
              end
            else if waiting_c12 then
              match g_wait g with Some a => negb (gap_reply a) | None => false end
            else false in
          if unexpected
          then check (state_kind_eqb k1 KActiveIdle &&
                      match s_tx s with None => true | Some _ => false end &&
                      match s_calls s with [] => true | _ => false end &&
                      Nat.eqb (s_consumed s) n) R06_no_backoff
          else []
      | _ => []
      end
    else [] in
  (mkMon2 wait expect visit last2 hend scan turn2 decl2 ref2 txend spur,
   e_found ++ e_tok ++ e_sweep ++ e13 ++ e_scan ++ e_rr ++ e_end ++ e_live ++ e_backoff).

(* ---- whole transcript ---- *)
(* accumulator: monitor state, the API call that was the previous event (if any), violations *)
Definition mon_event (p : params) (napps : nat) (acc : option (mon * mon2) * option api_call * list rule) (e : event)
  : option (mon * mon2) * option api_call * list rule :=
  let '(om, last_api, _) := acc in
  let errs : list rule := [] in
  match e with
  | EApi a v =>
      let left := match om with Some (m, _) => m_left m | None => 0%nat end in
      match a, om with
      | ApiNew, _ | ApiOffline, _ | _, None => (Some (mon_reset v left, mon2_reset), Some a, errs)
      | ApiPassive, Some mg => (Some mg, Some a, errs)
      | ApiOnline, Some (m, g) =>
          (Some (mkMon v (m_left m) (m_lba m) (m_quiet m) (m_cand m) (m_pass m) (m_gap_polls m) (m_req m)
                       (m_out m) (m_turn m) (m_prev_tt m) (m_tt m) (m_rounds m) (m_start m), g), Some a, errs)
      end
  | EPoll s =>
      match om with
      | Some (m, g) =>
          let (m', e') := mon_poll p napps m s in
          let (g', e2) := mon_poll2 p napps m g s in
          (Some (m', g'), None, errs ++ e' ++ e2)
      | None => (om, None, errs)
      end
  | EPanic =>
      (* `set_passive` is documented as not implemented (todo!()) and the constructor asserts the
         consistency of its parameters: a panic of those two calls is outside C05 (DESIGN 4.0) *)
      let excused := match last_api with Some ApiPassive | Some ApiNew => true | _ => false end in
      (om, last_api, if excused then errs else errs ++ [R05_panic])
  | ETimeout => (om, last_api, errs ++ [R05_timeout])
  end.

(* The properties quantify over the parameters the builder can produce; other parameter sets are
   only compared with the model, not monitored. *)
Fixpoint monitor_from (p : params) (napps : nat) (i : nat) (om : option (mon * mon2)) (last_api : option api_call)
         (events : list event) : list (nat * rule) :=
  match events with
  | [] => []
  | e :: tl =>
      let '(om', last_api', errs) := mon_event p napps (om, last_api, []) e in
      map (fun r => (i, r)) errs ++ monitor_from p napps (S i) om' last_api' tl
  end.

(* violated rules with the index of the event at which they were violated *)
Definition monitor (p : params) (napps : nat) (events : list event) : list (nat * rule) :=
  if builder_validb p then monitor_from p napps 0 None None events else [].
