(* Shared by Model/LiveList.v and Model/Scan.v: the station bit array, the environment's
   reaction to a request, and the driver that calls an application's three callbacks in
   the order the FDL layer guarantees (C15_contract):

       ( transmit -> None
       | transmit -> Some(request awaiting a reply from da) ; (receive_reply da t | handle_timeout da) )*

   One element of that language is a *poll*.  `take_last_event()` is called after every
   callback.  No proofs here. *)
From PB Require Export Common Telegram ScanTables.

(* ---------------------------------------------------------------- bitvec::BitArr!(for n) *)

(* BitSlice::get(i) : Option<bool>  (None when i >= n) *)
Definition bs_get (n s i : Z) : option bool :=
  if (0 <=? i) && (i <? n) then Some (Z.testbit s i) else None.

(* BitSlice::set(i, v): panics when i >= n *)
Definition bs_set (n s i : Z) (v : bool) : res Z :=
  if (0 <=? i) && (i <? n) then Ok (if v then Z.setbit s i else Z.clearbit s i)
  else Panic SiteIndex.

Definition addr_list (n : nat) : list Z := map Z.of_nat (seq 0 n).

(* iter_ones() *)
Definition bs_ones (n : Z) (s : Z) : list Z := filter (Z.testbit s) (addr_list (Z.to_nat n)).

(* ---------------------------------------------------------------- requests and reactions *)

(* TelegramTxResponse together with what was written to the transmit buffer *)
Record txout : Set := mkTx { tx_h : header; tx_wire : bytes; tx_exp : option Z }.

(* TelegramTx::send_data_telegram(header, 0, |_| ()) into the 256 byte transmit buffer *)
Definition send_request (h : header) : res txout :=
  let* w := encode_data h [] in
  Ok (mkTx h w (tx_expects_reply h)).

Inductive reaction : Set :=
| RTimeout                   (* handle_timeout(da) *)
| RReply (t : telegram).     (* receive_reply(da, t) *)

(* ---------------------------------------------------------------- driving an application *)

Section Run.
  Variables St Ev : Type.
  Variable tx : Z -> St -> res (St * option txout).       (* transmit_telegram, own address first *)
  Variable rx : St -> Z -> telegram -> res St.            (* receive_reply *)
  Variable tmo : St -> Z -> res St.                       (* handle_timeout *)
  Variable take : St -> St * option Ev.                   (* take_last_event *)
  Variable bits : St -> Z.                                (* the station bit array *)

  (* what is observed of one poll *)
  Record pollobs : Type := mkObs {
    po_req : option txout;          (* the request transmitted, if any *)
    po_react : option reaction;     (* what the environment did *)
    po_ev_tx : option Ev;           (* event taken after transmit_telegram *)
    po_ev_re : option Ev;           (* event taken after receive_reply / handle_timeout *)
    po_bits : Z }.                  (* stations after the poll *)

  Definition poll (ts : Z) (s : St) (e : Z -> reaction) : res (St * pollobs) :=
    let* (s1, r) := tx ts s in
    let (s2, ev1) := take s1 in
    match r with
    | None => Ok (s2, mkObs None None ev1 None (bits s2))
    | Some t =>
        match tx_exp t with
        | None => Ok (s2, mkObs (Some t) None ev1 None (bits s2))
        | Some da =>
            let re := e da in
            let* s3 := (match re with RTimeout => tmo s2 da | RReply tg => rx s2 da tg end) in
            let (s4, ev2) := take s3 in
            Ok (s4, mkObs (Some t) (Some re) ev1 ev2 (bits s4))
        end
    end.

  (* a history: for every poll, the environment's reaction as a function of the address
     the application chose to probe *)
  Fixpoint run (ts : Z) (s : St) (h : list (Z -> reaction)) : res (St * list pollobs) :=
    match h with
    | [] => Ok (s, [])
    | e :: h' =>
        let* (s1, o) := poll ts s e in
        let* (s2, tr) := run ts s1 h' in
        Ok (s2, o :: tr)
    end.
End Run.

Arguments mkObs {Ev}.
Arguments po_req {Ev}.
Arguments po_react {Ev}.
Arguments po_ev_tx {Ev}.
Arguments po_ev_re {Ev}.
Arguments po_bits {Ev}.
Arguments poll {St Ev}.
Arguments run {St Ev}.

(* ---------------------------------------------------------------- abstract transcript *)

(* How an application classifies what happened to its probe; P is the payload it reports. *)
Inductive cls (P : Type) : Type :=
| CNone                (* nothing was probed *)
| CTimeout
| CValid (p : P)       (* a reply of the expected kind *)
| COther.              (* any other reply *)
Arguments CNone {P}.
Arguments CTimeout {P}.
Arguments CValid {P} p.
Arguments COther {P}.

Inductive aev (P : Type) : Type :=
| AUp (a : Z) (p : P)      (* Discovered / PeripheralFound *)
| ARe (a : Z) (p : P)      (* PeripheralRequery *)
| ADown (a : Z).           (* Lost / PeripheralLost *)
Arguments AUp {P} a p.
Arguments ARe {P} a p.
Arguments ADown {P} a.

Record apoll (P : Type) : Type := mkAp {
  ap_da : option Z;
  ap_cls : cls P;
  ap_evs : list (aev P);
  ap_bits : Z }.
Arguments mkAp {P}.
Arguments ap_da {P}.
Arguments ap_cls {P}.
Arguments ap_evs {P}.
Arguments ap_bits {P}.

Definition opt_list {A} (o : option A) : list A := match o with Some x => [x] | None => [] end.

Section Abstract.
  Variables Ev P : Type.
  Variable classify : telegram -> cls P.      (* class of a delivered reply *)
  Variable abs_ev : Ev -> aev P.

  Definition abs_react (r : option reaction) : cls P :=
    match r with
    | None => CNone
    | Some RTimeout => CTimeout
    | Some (RReply t) => classify t
    end.

  Definition abs_poll (o : pollobs Ev) : apoll P :=
    mkAp (match po_req o with Some t => Some (h_da (tx_h t)) | None => None end)
         (abs_react (po_react o))
         (map abs_ev (opt_list (po_ev_tx o) ++ opt_list (po_ev_re o)))
         (po_bits o).
End Abstract.
Arguments abs_react {P}.
Arguments abs_poll {Ev P}.
