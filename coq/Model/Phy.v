(* Model of the generic helpers of src/phy/mod.rs over an abstract byte PHY:
   receive_telegram, receive_all_telegrams, poll_pending_received_bytes, transmit_telegram.
   The PHY's receive buffer is a byte list; `receive_data(now, f)` shows the whole buffer to `f`
   and drops the number of bytes `f` returns from its front.  No proofs here. *)
From PB Require Export Common Telegram.

(* receive_telegram: one decode attempt.
   Returns (remaining buffer, Some (f telegram) if one was delivered). *)
Definition receive_telegram {R} (f : telegram -> R) (buf : bytes) : res (bytes * option R) :=
  let* d := decode buf in
  match d with
  | Reject => Ok ([], None)                       (* discard all received data on error *)
  | Accept t n => Ok (skipn n buf, Some (f t))
  | NeedMore => Ok (buf, None)                    (* do not drop anything yet *)
  end.

(* receive_all_telegrams: the loop calls f(telegram, is_last) for every decodable telegram in the
   buffer; the FnMut closure is modelled by threading a state S.  The callback may itself fail
   (res).  Returns (callback state, remaining buffer, result of the call that had is_last = true).
   Fuel: one unit per loop iteration. *)
Fixpoint receive_all {S R} (f : S -> telegram -> bool -> res (S * R)) (fuel : nat) (s : S) (buf : bytes)
  : res (S * bytes * option R) :=
  match fuel with
  | O => OutOfFuel
  | S fuel' =>
      let* d := decode buf in
      match d with
      | Reject => Ok (s, [], None)
      | NeedMore => Ok (s, buf, None)
      | Accept t n =>
          let is_last := Nat.eqb n (length buf) in
          let* (s', r) := f s t is_last in
          if is_last then Ok (s', skipn n buf, Some r)
          else receive_all f fuel' s' (skipn n buf)
      end
  end.

Definition receive_all_fuel (buf : bytes) : nat := S (length buf).

(* poll_pending_received_bytes *)
Definition pending_bytes (buf : bytes) : nat := length buf.

(* transmit_telegram: the closure gets a TelegramTx over the PHY's transmit buffer (size given by
   the PHY implementation) and may schedule one telegram. What goes on the wire is the first
   bytes_sent bytes of the buffer.  Modelled by the telegram constructors of Telegram.v:
   encode_data_in / encode_token / encode_sc. *)
Inductive tx_request : Set :=
| TxData (h : header) (pdu : bytes)
| TxToken (da sa : Z)
| TxShortConf.

Definition transmit (size : nat) (rq : tx_request) : res (bytes * option Z) :=
  match rq with
  | TxData h pdu => let* w := encode_data_in size h pdu in Ok (w, tx_expects_reply h)
  | TxToken da sa => if Nat.ltb size 3 then Panic SiteIndex else Ok (encode_token da sa, None)
  | TxShortConf => if Nat.ltb size 1 then Panic SiteIndex else Ok (encode_sc, None)
  end.
