(* Model of the generic helpers of src/phy/mod.rs over an abstract byte PHY:
   receive_telegram, receive_all_telegrams, poll_pending_received_bytes, transmit_telegram.
   The PHY's receive buffer is a byte list; `receive_data(now, f)` shows the whole buffer to `f`
   and drops the number of bytes `f` returns from its front.  No proofs here. *)
From PB Require Export Common Telegram.

(* receive_telegram: one decode attempt.
   Returns (remaining buffer, Some (f telegram) if one was delivered). *)
Definition receive_telegram {R} (f : telegram -> R) (buf : bytes) : res (bytes * option R) :=
  let* d := decode buf in
  match d with
  | Reject => Ok ([], None)                       (* discard all received data on error *)
  | Accept t n => Ok (skipn n buf, Some (f t))
  | NeedMore => Ok (buf, None)                    (* do not drop anything yet *)
  end.

(* receive_all_telegrams: the loop calls f(telegram, is_last) for every decodable telegram in the
   buffer; the FnMut closure is modelled by threading a state S.  The callback may itself fail
   (res).  Returns (callback state, remaining buffer, result of the call that had is_last = true).
   Fuel: one unit per loop iteration. *)
Fixpoint receive_all {S R} (f : S -> telegram -> bool -> res (S * R)) (fuel : nat) (s : S) (buf : bytes)
  : res (S * bytes * option R) :=
  match fuel with
  | O => OutOfFuel
  | S fuel' =>
      let* d := decode buf in
      match d with
      | Reject => Ok (s, [], None)
      | NeedMore => Ok (s, buf, None)
      | Accept t n =>
          let is_last := Nat.eqb n (length buf) in
          let* (s', r) := f s t is_last in
          if is_last then Ok (s', skipn n buf, Some r)
          else receive_all f fuel' s' (skipn n buf)
      end
  end.

Definition receive_all_fuel (buf : bytes) : nat := S (length buf).

(* poll_pending_received_bytes *)
Definition pending_bytes (buf : bytes) : nat := length buf.

(* transmit_telegram: the closure gets a TelegramTx over the PHY's transmit buffer (size given by
   the PHY implementation) and may schedule one telegram. What goes on the wire is the first
   bytes_sent bytes of the buffer.  Modelled by the telegram constructors of Telegram.v:
   encode_data_in / encode_token / encode_sc. *)
Inductive tx_request : Set :=
| TxData (h : header) (pdu : bytes)
| TxToken (da sa : Z)
| TxShortConf.

Definition transmit (size : nat) (rq : tx_request) : res (bytes * option Z) :=
  match rq with
  | TxData h pdu => let* w := encode_data_in size h pdu in Ok (w, tx_expects_reply h)
  | TxToken da sa => if Nat.ltb size 3 then Panic SiteIndex else Ok (encode_token da sa, None)
  | TxShortConf => if Nat.ltb size 1 then Panic SiteIndex else Ok (encode_sc, None)
  end.

(* ------------------------------------------------------------------------------------------
   The same helpers over an abstract PHY (trait ProfibusPhy), as the code is written:
   every loop iteration of receive_all_telegrams is one `receive_data(now, closure)` call of
   the PHY implementation.  A PHY implementation is given by
     phy_view p   : what `receive_data` shows to the closure (may panic, e.g. SimulatorPhy
                    panics while it is transmitting),
     phy_drop p n : the PHY after the closure asked to drop n bytes.
   Both PHY implementations under test (SimulatorPhy, the harness PHY) assert
   `drop <= pending.len()`; that assertion is the SiteAssert below. *)
Record phy_ops (P : Type) : Type := mkPhyOps {
  phy_view : P -> res bytes;
  phy_drop : P -> nat -> P }.
Arguments mkPhyOps {P} _ _.
Arguments phy_view {P} _ _.
Arguments phy_drop {P} _ _ _.

(* receive_data(now, f): f returns (drop, result) *)
Definition receive_data_phy {P R} (ops : phy_ops P) (p : P) (f : bytes -> res (nat * R)) : res (P * R) :=
  let* buf := phy_view ops p in
  let* (n, r) := f buf in
  if Nat.ltb (length buf) n then Panic SiteAssert else Ok (phy_drop ops p n, r).

Definition receive_telegram_phy {P R} (ops : phy_ops P) (f : telegram -> R) (p : P) : res (P * option R) :=
  receive_data_phy ops p (fun buffer =>
    let* d := decode buffer in
    match d with
    | Reject => Ok (length buffer, None)
    | Accept t n => Ok (n, Some (f t))
    | NeedMore => Ok (0%nat, None)
    end).

Fixpoint receive_all_phy {P S R} (ops : phy_ops P) (f : S -> telegram -> bool -> res (S * R))
         (fuel : nat) (s : S) (p : P) : res (S * P * option R) :=
  match fuel with
  | O => OutOfFuel
  | S fuel' =>
      let* (p', x) := receive_data_phy ops p (fun buffer =>
        let* d := decode buffer in
        match d with
        | Reject => Ok (length buffer, (true, s, None))
        | Accept t n =>
            let is_last := Nat.eqb n (length buffer) in
            let* (s', r) := f s t is_last in
            Ok (n, (is_last, s', Some r))
        | NeedMore => Ok (0%nat, (true, s, None))
        end) in
      let '(is_last, s', r) := x in
      if is_last : bool then Ok (s', p', r) else receive_all_phy ops f fuel' s' p'
  end.

Definition pending_bytes_phy {P} (ops : phy_ops P) (p : P) : res (P * nat) :=
  receive_data_phy ops p (fun buf => Ok (0%nat, length buf)).

(* The harness PHY: the receive buffer is a byte vector, nothing else. *)
Definition buf_phy : phy_ops bytes := mkPhyOps (fun b => Ok b) (fun b n => skipn n b).
