(* Model of src/lib.rs (Baudrate conversions), src/fdl/parameters.rs (Parameters, derived times,
   watchdog factor search) and the arithmetic of src/time.rs that the stack uses.
   Time: Instant = Z microseconds (i64), Duration = Z microseconds (u64, >= 0).  No proofs here. *)
From PB Require Export Common Tables.

Record params : Set := mkParams {
  p_address : Z;
  p_baud : baudrate;
  p_slot_bits : Z;
  p_ttr_bits : Z;           (* token_rotation_bits *)
  p_gap_wait : Z;           (* gap_wait_rotations *)
  p_hsa : Z;                (* highest_station_address *)
  p_max_retry : Z;          (* max_retry_limit *)
  p_min_tsdr_bits : Z;
  p_watchdog : option (Z * Z)
}.

Definition default_params : params :=
  mkParams default_address default_baudrate default_slot_bits default_token_rotation_bits
           default_gap_wait_rotations default_highest_station_address default_max_retry_limit
           default_min_tsdr_bits None.

(* Baudrate::bits_to_time: Duration::from_micros(bits * 1000000 / rate) *)
Definition bits_to_time (b : baudrate) (bits : Z) : Z := bits * 1000000 / baud_to_rate b.
(* Baudrate::time_to_bits *)
Definition time_to_bits (b : baudrate) (micros : Z) : Z := micros * baud_to_rate b / 1000000.

Definition p_bits_to_time (p : params) (bits : Z) : Z := bits_to_time (p_baud p) bits.
Definition slot_time (p : params) : Z := p_bits_to_time p (p_slot_bits p).
Definition min_tsdr_time (p : params) : Z := p_bits_to_time p (p_min_tsdr_bits p).
Definition token_lost_timeout (p : params) : Z :=
  p_bits_to_time p (p_slot_bits p * (token_lost_base + token_lost_per_addr * p_address p)).
Definition token_rotation_time (p : params) : Z := p_bits_to_time p (p_ttr_bits p).
Definition watchdog_timeout (p : params) : option Z :=
  match p_watchdog p with Some (f1, f2) => Some (f1 * f2 * 10 * 1000) | None => None end.

(* watchdog_factors(dur): None for zero; Some(Err) when too big; search f1 = 1..255 *)
Fixpoint wd_search (timeout_10ms : Z) (f1 : Z) (fuel : nat) : option (Z * Z) :=
  match fuel with
  | O => None
  | S fuel' =>
      let f2 := (timeout_10ms + f1 - 1) / f1 in      (* u32::div_ceil *)
      if f2 <? 256 then Some (f1, f2) else wd_search timeout_10ms (f1 + 1) fuel'
  end.
(* result: None = Duration::ZERO, Some None = Err(()), Some (Some (f1,f2)) *)
Definition watchdog_factors (dur_micros : Z) : option (option (Z * Z)) :=
  if dur_micros =? 0 then None else
  let timeout_10ms := dur_micros / 1000 / 10 in
  if 4294967295 <? timeout_10ms then Some None        (* try_into::<u32>() fails *)
  else Some (wd_search timeout_10ms 1 255).

(* what the builder can produce (bounds regenerated from its assertions) *)
Definition builder_valid (p : params) : Prop :=
  0 <= p_address p <= builder_max_address /\
  min_slot_bits (p_baud p) <= p_slot_bits p < 65536 /\
  builder_min_ttr <= p_ttr_bits p <= builder_max_ttr /\
  builder_min_gap <= p_gap_wait p <= builder_max_gap /\
  p_address p < p_hsa p <= builder_max_hsa /\
  builder_min_retry <= p_max_retry p <= builder_max_retry /\
  builder_min_tsdr <= p_min_tsdr_bits p < 256.

Definition builder_validb (p : params) : bool :=
  (0 <=? p_address p) && (p_address p <=? builder_max_address) &&
  (min_slot_bits (p_baud p) <=? p_slot_bits p) && (p_slot_bits p <? 65536) &&
  (builder_min_ttr <=? p_ttr_bits p) && (p_ttr_bits p <=? builder_max_ttr) &&
  (builder_min_gap <=? p_gap_wait p) && (p_gap_wait p <=? builder_max_gap) &&
  (p_address p <? p_hsa p) && (p_hsa p <=? builder_max_hsa) &&
  (builder_min_retry <=? p_max_retry p) && (p_max_retry p <=? builder_max_retry) &&
  (builder_min_tsdr <=? p_min_tsdr_bits p) && (p_min_tsdr_bits p <? 256).
