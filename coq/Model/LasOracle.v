(* Declarative vocabulary of property C02 (data-structure half) and the boolean oracles that the
   correspondence check runs on the implementation's outputs.  No proofs here. *)
From PB Require Export Common TokenRing.

(* ---------------------------------------------------------------- membership view of the LAS *)

Definition activeb (las : list bool) (a : Z) : bool := (0 <=? a) && nth (Z.to_nat a) las false.
(* station a is in the LAS *)
Definition active (las : list bool) (a : Z) : Prop := activeb las a = true.

(* the GAP cleared by a witnessed pass sa -> da: [sa, da) cyclically (everything when sa = da) *)
Definition in_gap (sa da x : Z) : Prop :=
  if sa <? da then sa <= x < da else (sa <= x \/ x < da).
Definition in_gapb (sa da x : Z) : bool :=
  if sa <? da then (sa <=? x) && (x <? da) else (sa <=? x) || (x <? da).

(* the addresses strictly between sa and da on the way of the token *)
Definition strictly_between (sa da x : Z) : Prop :=
  if sa <? da then sa < x < da else (sa < x \/ x < da).
Definition strictly_betweenb (sa da x : Z) : bool :=
  if sa <? da then (sa <? x) && (x <? da) else (sa <? x) || (x <? da).

(* a pass sa -> da is consistent with the LAS: both ends are members, nobody in between *)
Definition verifies (las : list bool) (sa da : Z) : Prop :=
  active las sa /\ active las da /\ forall x, active las x -> ~ strictly_between sa da x.

(* ---------------------------------------------------------------- rings and rotations *)

Fixpoint sortedb (l : list Z) : bool :=
  match l with
  | [] => true
  | a :: t => match t with [] => true | b :: _ => (a <? b) && sortedb t end
  end.

(* a ring: non-empty, strictly increasing, addresses 0..125 *)
Definition ringb (R : list Z) : bool :=
  match R with [] => false | _ => true end
  && sortedb R && forallb (fun a => (0 <=? a) && (a <=? 125)) R.
Definition is_ring (R : list Z) : Prop := ringb R = true.

(* the token passes a -> l1 -> l2 ... -> last *)
Fixpoint chain (a : Z) (l : list Z) (last : Z) : list (Z * Z) :=
  match l with
  | [] => [(a, last)]
  | b :: t => (a, b) :: chain b t last
  end.

(* one full rotation of the token in ring order, starting after the wrap-around:
   r0 -> r1, r1 -> r2, ..., r(n-1) -> r0 *)
Definition rotation (R : list Z) : list (Z * Z) :=
  match R with
  | [] => []
  | r0 :: t => chain r0 t r0
  end.

(* passes that witness_token_pass ignores while Uninitialized: bad address, or not a wrap-around *)
Definition is_wrapb (p : Z * Z) : bool :=
  let '(sa, da) := p in (sa <=? 125) && (da <=? 125) && (da <=? sa).
Definition bad_addrb (p : Z * Z) : bool :=
  let '(sa, da) := p in (125 <? sa) || (125 <? da).

(* ---------------------------------------------------------------- cyclic neighbours *)

(* n is the cyclic successor of ts among the stations S: the smallest member above ts, or, when
   there is none, the smallest member at all; ts itself when S is empty. *)
Definition cyc_next (S : list Z) (ts n : Z) : Prop :=
  match S with
  | [] => n = ts
  | _ => In n S /\
         ((ts < n /\ forall a, In a S -> ts < a -> n <= a) \/
          ((forall a, In a S -> a <= ts) /\ forall a, In a S -> n <= a))
  end.

(* p is the cyclic predecessor of ts among S: the largest member below ts, or the largest member *)
Definition cyc_prev (S : list Z) (ts p : Z) : Prop :=
  match S with
  | [] => p = ts
  | _ => In p S /\
         ((p < ts /\ forall a, In a S -> a < ts -> a <= p) \/
          ((forall a, In a S -> ts <= a) /\ forall a, In a S -> a <= p))
  end.

(* The same, as minimisation of the cyclic distance on the 128-position address circle
   (ts itself is the farthest station from ts in both directions). *)
Definition dist_up (ts a : Z) : Z := (a - ts - 1) mod 128.
Definition dist_down (ts a : Z) : Z := (ts - a - 1) mod 128.

Definition cyc_nextb (S : list Z) (ts n : Z) : bool :=
  match S with
  | [] => n =? ts
  | _ => existsb (Z.eqb n) S &&
         ((ts <? n) && forallb (fun a => negb (ts <? a) || (n <=? a)) S
          || forallb (fun a => a <=? ts) S && forallb (fun a => n <=? a) S)
  end.
Definition cyc_prevb (S : list Z) (ts p : Z) : bool :=
  match S with
  | [] => p =? ts
  | _ => existsb (Z.eqb p) S &&
         ((p <? ts) && forallb (fun a => negb (a <? ts) || (a <=? p)) S
          || forallb (fun a => ts <=? a) S && forallb (fun a => a <=? p) S)
  end.

(* ---------------------------------------------------------------- list views *)

Fixpoint insert_sorted (b : Z) (l : list Z) : list Z :=
  match l with
  | [] => [b]
  | a :: t => if b <? a then b :: l else if b =? a then l else a :: insert_sorted b t
  end.

(* the LAS (as address list) after a witnessed pass sa -> da in state Valid / Discovery *)
Definition las_after_pass (S : list Z) (sa da : Z) : list Z :=
  insert_sorted sa (filter (fun x => negb (in_gapb sa da x)) S).

Fixpoint list_eqb (a b : list Z) : bool :=
  match a, b with
  | [], [] => true
  | x :: a', y :: b' => (x =? y) && list_eqb a' b'
  | _, _ => false
  end.

Definition state_eqb (a b : las_state) : bool :=
  match a, b with
  | LasUninitialized, LasUninitialized | LasDiscovery, LasDiscovery
  | LasVerification, LasVerification | LasValid, LasValid => true
  | _, _ => false
  end.
Definition ostate_eqb (a b : option las_state) : bool :=
  match a, b with
  | Some x, Some y => state_eqb x y
  | None, None => true
  | _, _ => false
  end.
Definition obs_eqb (a b : obs) : bool :=
  ostate_eqb (o_state a) (o_state b) && Bool.eqb (o_ready a) (o_ready b) &&
  (o_ns a =? o_ns b) && (o_ps a =? o_ps b) && list_eqb (o_las a) (o_las b).

(* ---------------------------------------------------------------- oracles on observations *)

(* C02_ns_ps_invariant / C02_next_previous_spec: NS and PS are the cyclic neighbours of TS in the LAS.
   Not judged while the station is still Uninitialized: C02 speaks about the LAS from discovery on
   (C02_las_discovery holds for EVERY LAS / NS / PS content at the start of discovery), so what an
   implementation keeps in the LAS before discovery starts is its own business. *)
Definition c02_nsps_ok (ts : Z) (o : obs) : bool :=
  match o_state o with
  | Some LasUninitialized => true
  | _ => cyc_nextb (o_las o) ts (o_ns o) && cyc_prevb (o_las o) ts (o_ps o)
  end.

Definition verifiesb (S : list Z) (sa da : Z) : bool :=
  existsb (Z.eqb sa) S && existsb (Z.eqb da) S &&
  forallb (fun x => negb (strictly_betweenb sa da x)) S.

(* One step of the implementation, judged by the declarative statements:
   bad addresses are ignored; ready_for_ring <-> Valid; in Valid a pass updates the LAS to
   las_after_pass and stays Valid; a verifying pass in Valid changes nothing; in Verification the
   LAS only changes when the state falls back to Discovery;
   set_next_station(a) is "enter a, then witness ts -> a"; remove_station(a) removes exactly a.
   While the station is Uninitialized (discovery has not started) only the state machine is judged
   (a wrap-around starts Discovery, bad addresses and other passes leave it Uninitialized, claim
   makes it Valid, N / R keep it): the LAS content and NS / PS before discovery are not constrained
   by C02 - discovery rebuilds the LAS from a full rotation whatever it held (C02_las_discovery
   quantifies over every initial LAS content). *)
Definition c02_step_ok (ts : Z) (o : obs) (op : op) (o' : obs) : bool :=
  match o_state o, o_state o' with
  | Some s, Some s' =>
      Bool.eqb (o_ready o') (state_eqb s' LasValid) &&
      match s with
      | LasUninitialized =>
          match op with
          | OpW sa da =>
              if bad_addrb (sa, da) then state_eqb s' LasUninitialized
              else state_eqb s' (if da <=? sa then LasDiscovery else LasUninitialized)
          | OpC => state_eqb s' LasValid
          | OpN _ | OpR _ => state_eqb s' LasUninitialized
          end
      | _ =>
      match op with
      | OpW sa da =>
          if bad_addrb (sa, da) then obs_eqb o o'
          else match s with
               | LasValid =>
                   state_eqb s' LasValid && list_eqb (o_las o') (las_after_pass (o_las o) sa da) &&
                   (negb (verifiesb (o_las o) sa da) || list_eqb (o_las o') (o_las o))
               | LasDiscovery =>
                   list_eqb (o_las o') (las_after_pass (o_las o) sa da) &&
                   state_eqb s' (if da <=? sa then LasVerification else LasDiscovery)
               | LasVerification =>
                   if verifiesb (o_las o) sa da
                   then list_eqb (o_las o') (o_las o) &&
                        state_eqb s' (if da <=? sa then LasValid else LasVerification)
                   else state_eqb s' LasDiscovery &&
                        list_eqb (o_las o') (las_after_pass (o_las o) sa da)
               | LasUninitialized => true
               end
      | OpC => state_eqb s' LasValid && list_eqb (o_las o') (o_las o)
      | OpN a => state_eqb s' s &&
                 list_eqb (o_las o') (las_after_pass (insert_sorted a (o_las o)) ts a)
      | OpR a => state_eqb s' s &&
                 list_eqb (o_las o') (filter (fun x => negb (x =? a)) (o_las o))
      end
      end
  | _, _ => true
  end.

(* C02_las_two_identical as a monitor over the observed trace: `m` is the LAS frozen when
   Verification was entered from Discovery by a wrap-around pass.  ready may only become true through
   a witnessed pass when such a frozen LAS exists, every pass since then was ignored or verified
   against it, and the LAS still equals it. *)
Definition mon_step (m : option (list Z)) (o : obs) (op : op) (o' : obs) : option (option (list Z)) :=
  match op with
  | OpW sa da =>
      match o_state o, o_state o' with
      | Some LasDiscovery, Some LasVerification =>
          if is_wrapb (sa, da) then Some (Some (o_las o')) else None
      | Some LasVerification, Some LasVerification =>
          match m with
          | Some L => if list_eqb (o_las o') L && (bad_addrb (sa, da) || verifiesb L sa da && negb (da <=? sa))
                      then Some m else None
          | None => Some None   (* Verification not entered under observation *)
          end
      | Some LasVerification, Some LasValid =>
          match m with
          | Some L => if list_eqb (o_las o') L && verifiesb L sa da && is_wrapb (sa, da)
                      then Some None else None
          | None => Some None
          end
      | Some LasUninitialized, Some LasValid | Some LasDiscovery, Some LasValid => None
      | _, _ => Some None
      end
  | _ => Some None
  end.

Fixpoint c02_monitor (m : option (list Z)) (o : obs) (tr : list (op * obs)) : bool :=
  match tr with
  | [] => true
  | (op, o') :: t =>
      match mon_step m o op o' with
      | Some m' => c02_monitor m' o' t
      | None => false
      end
  end.

(* no claim_token / set_next_station / remove_station and a listening start *)
Definition only_witness (ops : list op) : bool :=
  forallb (fun o => match o with OpW _ _ => true | _ => false end) ops.

(* C02_las_discovery: the shape of the case (k ignored passes, one wrap-around, two rotations of R)
   and the verdict on the final observation. *)
Definition passes_of (ops : list op) : list (Z * Z) :=
  flat_map (fun o => match o with OpW sa da => [(sa, da)] | _ => [] end) ops.

Fixpoint pairs_eqb (a b : list (Z * Z)) : bool :=
  match a, b with
  | [], [] => true
  | (x, y) :: a', (u, v) :: b' => (x =? u) && (y =? v) && pairs_eqb a' b'
  | _, _ => false
  end.

Definition c02_disc_shape (R : list Z) (k : nat) (ops : list op) : bool :=
  let ps := passes_of ops in
  only_witness ops && ringb R &&
  forallb (fun p => negb (is_wrapb p)) (firstn k ps) &&
  match skipn k ps with
  | d :: rest => is_wrapb d && pairs_eqb rest (rotation R ++ rotation R)
  | [] => false
  end.

Definition c02_discovery_ok (R : list Z) (ts : Z) (o : obs) : bool :=
  ostate_eqb (o_state o) (Some LasValid) && o_ready o && list_eqb (o_las o) R &&
  cyc_nextb R ts (o_ns o) && cyc_prevb R ts (o_ps o).

(* C02_no_panic: own address and all N / R arguments below 128 *)
Definition c02_nopanic_dom (ts : Z) (ops : list op) : bool :=
  (0 <=? ts) && (ts <? 128) &&
  forallb (fun o => match o with
                    | OpW sa da => (0 <=? sa) && (sa <? 256) && (0 <=? da) && (da <? 256)
                    | OpC => true
                    | OpN a | OpR a => (0 <=? a) && (a <? 128)
                    end) ops.
