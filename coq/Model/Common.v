(* Common conventions of every model file: byte lists over Z, the result type with
   panic sites and fuel exhaustion, and list access helpers mirroring Rust slice
   indexing (an out-of-bounds index is a panic site, never a default value). *)
From Coq Require Export ZArith List Bool Lia.
Export ListNotations.
Open Scope Z_scope.

Definition bytes := list Z.
Definition is_byte (b : Z) : Prop := 0 <= b < 256.
Definition is_byteb (b : Z) : bool := (0 <=? b) && (b <? 256).
Definition all_bytes (l : bytes) : Prop := Forall is_byte l.
Definition all_bytesb (l : bytes) : bool := forallb is_byteb l.

(* Panic sites of the modelled code. Named after what panics, not after line numbers. *)
Inductive site : Set :=
| SiteIndex          (* slice index / range out of bounds *)
| SiteAssertLen      (* assert!(length_byte <= 249) in DataTelegramHeader::serialize *)
| SiteTryFrom        (* u8::try_from(..).unwrap() *)
| SiteArith          (* arithmetic overflow/underflow in a debug build *)
| SiteUnwrap         (* Option/Result unwrap/expect on None/Err *)
| SiteAssert         (* assert!/debug_assert! *)
| SiteUnreachable    (* unreachable!/todo!/panic! *)
| SiteFcbCycle.      (* FrameCountBit::cycle on Inactive *)

Inductive res (A : Type) : Type :=
| Ok (a : A)
| Panic (s : site)
| OutOfFuel.
Arguments Ok {A} a.
Arguments Panic {A} s.
Arguments OutOfFuel {A}.

Definition bind {A B} (r : res A) (f : A -> res B) : res B :=
  match r with
  | Ok a => f a
  | Panic s => Panic s
  | OutOfFuel => OutOfFuel
  end.
Notation "'let*' x ':=' r 'in' k" := (bind r (fun x => k))
  (at level 200, x pattern, r at level 100, k at level 200, right associativity).

Definition is_ok {A} (r : res A) : bool := match r with Ok _ => true | _ => false end.
Definition is_panic {A} (r : res A) : bool := match r with Panic _ => true | _ => false end.

(* buffer[i] *)
Definition get (l : bytes) (i : nat) : res Z :=
  match nth_error l i with
  | Some b => Ok b
  | None => Panic SiteIndex
  end.

(* &buffer[i..] *)
Definition slice_from (l : bytes) (i : nat) : res bytes :=
  if Nat.leb i (length l) then Ok (skipn i l) else Panic SiteIndex.

(* &buffer[..n] *)
Definition slice_to (l : bytes) (n : nat) : res bytes :=
  if Nat.leb n (length l) then Ok (firstn n l) else Panic SiteIndex.

(* wrapping byte sum: iter().copied().fold(0, u8::wrapping_add) *)
Definition sum8 (l : bytes) : Z := fold_left (fun acc b => (acc + b) mod 256) l 0.

Definition Zlen (l : bytes) : Z := Z.of_nat (length l).

Definition b2z (b : bool) : Z := if b then 1 else 0.

Definition opt_eqb (a b : option Z) : bool :=
  match a, b with
  | None, None => true
  | Some x, Some y => x =? y
  | _, _ => false
  end.

Fixpoint bytes_eqb (a b : bytes) : bool :=
  match a, b with
  | [], [] => true
  | x :: a', y :: b' => (x =? y) && bytes_eqb a' b'
  | _, _ => false
  end.
