(* The PROFIBUS baud rates by name: the bit rate a `Baudrate` variant stands for is fixed by the
   standard (its name says it).  Hand-written on purpose - NOT regenerated - so that a changed number in
   `Baudrate::to_rate` (src/lib.rs, regenerated into Tables.baud_to_rate) is noticed.  No proofs here. *)
From PB Require Export Common Tables.

Definition std_rate (b : baudrate) : Z :=
  match b with
  | B9600 => 9600 | B19200 => 19200 | B31250 => 31250 | B45450 => 45450 | B93750 => 93750
  | B187500 => 187500 | B500000 => 500000 | B1500000 => 1500000 | B3000000 => 3000000
  | B6000000 => 6000000 | B12000000 => 12000000
  end.

(* every rate the code uses is the standard one (run as an oracle on every fdl / bus case) *)
Definition rates_standard_ok : bool := forallb (fun b => baud_to_rate b =? std_rate b) all_baudrates.

(* Which FDL request kinds are answered (acknowledged or replied to) is fixed by the standard as well:
   SDA and SRD services, the multicast SRD, and the FDL status / ident / LSAP status requests are answered;
   SDN (send data with no acknowledge) and the clock / time-event broadcasts are not.  Hand-written by name. *)
Definition std_expects_reply (r : req_type) : bool :=
  match r with
  | RqSdnLow | RqSdnHigh | RqClockValue | RqTimeEvent => false
  | RqSdaLow | RqSdaHigh | RqSrdLow | RqSrdHigh | RqMulticastSrd | RqFdlStatus | RqIdent | RqLsapStatus => true
  end.

Definition expects_reply_standard_ok : bool :=
  forallb (fun r => Bool.eqb (req_expects_reply r) (std_expects_reply r)) all_req_types.
