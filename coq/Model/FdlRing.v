(* Ring-view monitor for C11 (separate file so that Model/FdlOracle.v stays untouched).
   C11: "... repeats the pass at most twice if nothing is heard, then removes the silent successor from
   its ring view and passes to the NEXT station (or keeps the token if alone) ...".
   FdlOracle.v checks WHEN the successor may be removed (R11_removed_too_early) but not WHERE the token
   goes afterwards (seeded change R5-C11-1: remove_station computes the new successor without the
   wrap-around, so with ring view {2,7,15} station 7 drops the silent 15 and then passes 7->7 instead
   of 7->2).  Rule, over the implementation's transcript, stateless apart from the previous view:
     in a poll that starts in CheckTokenPass (the station supervises its pass to NS = the successor of
     the previous view), consumes nothing, and transmits a token telegram of its own whose destination
     is NOT that successor, the destination must be the cyclic successor of the station in the previous
     list of active stations without the silent successor (the station itself when nobody is left).
   No proofs in this file. *)
From PB Require Export FdlOracle.

Inductive rrule : Set := P11_removal_passes_to_next.
Definition rrule_prop (r : rrule) : pid := match r with P11_removal_passes_to_next => PC11 end.

Definition remove_z (a : Z) (l : list Z) : list Z := filter (fun b => negb (b =? a)) l.

(* the destination expected after the removal of the silent successor *)
Definition next_after_removal (ts : Z) (pre : view) : Z := next_of (remove_z (v_ns pre) (v_active pre)) ts.

Definition ring_poll (ts : Z) (pre : view) (s : pstep) : list rrule :=
  if state_kind_eqb (v_kind pre) KCheckTokenPass && Nat.eqb (s_consumed s) 0 then
    match s_tx s with
    | Some w =>
        match decode_one w with
        | Some (TToken da sa) =>
            if (sa =? ts) && negb (da =? v_ns pre)
            then if da =? next_after_removal ts pre then [] else [P11_removal_passes_to_next]
            else []
        | _ => []
        end
    | None => []
    end
  else [].

Fixpoint rmonitor_from (ts : Z) (i : nat) (ov : option view) (events : list event) : list (nat * rrule) :=
  match events with
  | [] => []
  | e :: tl =>
      match e with
      | EApi _ v => rmonitor_from ts (S i) (Some v) tl
      | EPoll s =>
          match ov with
          | Some pre => map (fun r => (i, r)) (ring_poll ts pre s) ++ rmonitor_from ts (S i) (Some (s_view s)) tl
          | None => rmonitor_from ts (S i) (Some (s_view s)) tl
          end
      | EPanic | ETimeout => rmonitor_from ts (S i) ov tl
      end
  end.

(* only for parameters the builder can produce (as FdlOracle.monitor) *)
Definition rmonitor (p : params) (events : list event) : list (nat * rrule) :=
  if builder_validb p then rmonitor_from (p_address p) 0 None events else [].
