(* Glue between the FDL active station model (Model/Fdl.v) and the models of the three applications
   of the crate: `app_ops` records (= `impl FdlApplication for ...`) for
     - the DP master      (src/dp/master.rs,     Model/DpMaster.v),
     - the live list      (src/fdl/live_list.rs, Model/LiveList.v),
     - the DP scanner     (src/dp/scan.rs,       Model/Scan.v),
     - the unit application `()` (src/fdl/mod.rs),
   and their sum `any_app`, so that one application list (`poll_multi(now, phy, &mut [&mut dyn
   FdlApplication])`) can hold any mixture of them.

   What the station hands to an application (active.rs: app_transmit_telegram / do_await_data_response):
     transmit_telegram(now, &fdl, TelegramTx::new(buffer), high_prio_only)  with `buffer` the transmit
       buffer of the PHY (256 bytes, Telegram.tx_buffer_size, as for the station's own telegrams); the
       applications read `fdl.parameters()` only (the DP master all of them, live list and scanner the
       address);
     receive_reply(now, &fdl, addr, telegram);  handle_timeout(now, &fdl, addr).
   `now` is used by the DP master's transmit_telegram only (global control interval).
   No proofs here. *)
From PB Require Import Common Telegram Params Fdl DpMaster ScanBase LiveList Scan.

(* ------------------------------------------------------------------ DP master *)

Definition dp_app_ops : app_ops dpm :=
  mkAppOps dpm
    (fun m now p hp => dp_transmit p tx_buffer_size m now hp)
    (fun m now p addr t => dp_receive_reply m addr t)
    (fun m now p addr => dp_handle_timeout m addr).

(* ------------------------------------------------------------------ live list, scanner *)

(* TelegramTxResponse of ScanBase (header, wire bytes, expects_reply) as the station sees it *)
Definition sb_result (o : option ScanBase.txout) : option (bytes * option Z) :=
  match o with Some t => Some (tx_wire t, tx_exp t) | None => None end.

Definition ll_app_ops : app_ops ll :=
  mkAppOps ll
    (fun s now p hp => let* (s', o) := ll_transmit (p_address p) s in Ok (s', sb_result o))
    (fun s now p addr t => ll_receive s addr t)
    (fun s now p addr => ll_timeout s addr).

Definition sc_app_ops : app_ops scanner :=
  mkAppOps scanner
    (fun s now p hp => let* (s', o) := sc_transmit (p_address p) s in Ok (s', sb_result o))
    (fun s now p addr t => sc_receive s addr t)
    (fun s now p addr => sc_timeout s addr).

(* ------------------------------------------------------------------ &mut [&mut dyn FdlApplication] *)

Inductive any_app : Set :=
| AppUnit
| AppDp (m : dpm)
| AppLl (s : ll)
| AppSc (s : scanner).

Definition any_app_ops : app_ops any_app :=
  mkAppOps any_app
    (fun a now p hp =>
       match a with
       | AppUnit => Ok (AppUnit, None)
       | AppDp m => let* (m', r) := a_tx dp_app_ops m now p hp in Ok (AppDp m', r)
       | AppLl s => let* (s', r) := a_tx ll_app_ops s now p hp in Ok (AppLl s', r)
       | AppSc s => let* (s', r) := a_tx sc_app_ops s now p hp in Ok (AppSc s', r)
       end)
    (fun a now p addr t =>
       match a with
       | AppUnit => Ok AppUnit
       | AppDp m => let* m' := a_rx dp_app_ops m now p addr t in Ok (AppDp m')
       | AppLl s => let* s' := a_rx ll_app_ops s now p addr t in Ok (AppLl s')
       | AppSc s => let* s' := a_rx sc_app_ops s now p addr t in Ok (AppSc s')
       end)
    (fun a now p addr =>
       match a with
       | AppUnit => Ok AppUnit
       | AppDp m => let* m' := a_to dp_app_ops m now p addr in Ok (AppDp m')
       | AppLl s => let* s' := a_to ll_app_ops s now p addr in Ok (AppLl s')
       | AppSc s => let* s' := a_to sc_app_ops s now p addr in Ok (AppSc s')
       end).
