(* Promptness monitor for C01 (separate file so that Model/FdlOracle.v stays untouched):
   the synchronisation pause is the CONSTANT 33 bit times.  Every transmission of the station is gated
   by it and by nothing else once the station has something to send; the other stations rely on that
   (hand-over and reply-in-slot races of the form 2P + 44 bit <= Tslot).  So, over the
   implementation's transcript: whenever the station is in a state whose next step is gated only by
   the synchronisation pause -
     PassToken;  ClaimToken outside ScanAwaitResponse;  UseToken;
     ListenToken / ActiveIdle with a status request waiting for its reply
   - and the bus brings nothing new, then at the first poll later than 33 bit after the last instant at
   which the station can have seen anything happen (RX growth, tx busy, end of its own transmission,
   consumption of received data - the same reference instant as the liveness rules of FdlOracle.v) the
   station must act: transmit, ask an application, or change state.  A station that waits
   3 * min_tsdr bit instead (seeded bug R4-C01-2) is rejected for every min_tsdr > 11.
   Input: the events of FdlOracle plus, per event, whether the private state holds a pending status
   request (through the hook fingerprint).  No proofs in this file. *)
From PB Require Export FdlOracle.

Inductive prule : Set := P01_sync_pause_exceeded.
Definition prule_prop (r : prule) : pid := match r with P01_sync_pause_exceeded => PC01 end.

Record pmon : Set := mkPmon {
  q_view : view; q_pending : bool;   (* view / pending status request after the previous event *)
  q_left : nat;                      (* bytes left in the receive buffer after the previous poll *)
  q_ref : option Z;                  (* reference instant, see above *)
  q_txend : option Z;                (* predicted end of the station's last transmission *)
  q_spur : bool                      (* bytes the station will count as new at its next look at the buffer *)
}.

Definition pmon_reset (v : view) (pending : bool) (left : nat) : pmon := mkPmon v pending left None None false.

Definition pmon_poll (p : params) (q : pmon) (s : pstep) (pending_post : bool) : pmon * list prule :=
  let now := s_now s in
  let pre := q_view q in
  let post := s_view s in
  let k0 := v_kind pre in
  let k1 := v_kind post in
  let grew := Nat.ltb (q_left q) (length (s_rx s)) in
  let tx_end := match s_tx s with
                | Some w => Some (now + bits_to_time (p_baud p) (prop_bits_per_byte * Zlen w))
                | None => None
                end in
  let ongoing := match q_txend q with Some e => now <=? e | None => false end in
  let looks := negb (s_busy s) && negb ongoing in
  let spur_now := q_spur q && looks && match s_rx s with [] => false | _ => true end in
  let consumed := negb (Nat.eqb (s_consumed s) 0) in
  let quiet := looks && negb grew && negb spur_now in
  let gated :=
    state_kind_eqb k0 KPassToken || state_kind_eqb k0 KUseToken ||
    (state_kind_eqb k0 KClaimToken && negb (v_scan_await pre)) ||
    (kind_in k0 [KListenToken; KActiveIdle] && q_pending q) in
  let acted := consumed || negb (state_kind_eqb k1 k0) ||
               match s_tx s with Some _ => true | None => false end ||
               match s_calls s with [] => false | _ => true end ||
               negb (Bool.eqb (v_gap_due pre) (v_gap_due post)) in   (* post-claim scan of an empty GAP ends: a step without transmission *)
  let over := match q_ref q with Some r => r + p_bits_to_time p prop_sync_bits <? now | None => false end in
  let errs := if gated && quiet && over && negb acted then [P01_sync_pause_exceeded] else [] in
  let happened := grew || s_busy s || consumed || spur_now in
  let ref1 := if happened then Some (zmax_opt (q_ref q) now)
              else match q_ref q with Some r => Some r | None => Some now end in
  let ref2 := match tx_end with Some e => Some (zmax_opt ref1 e) | None => ref1 end in
  let txend := match tx_end with Some e => Some e | None => q_txend q end in
  let spur := if consumed then Nat.ltb (s_consumed s) (length (s_rx s))
              else if looks then false else (q_spur q || grew) in
  (mkPmon post pending_post (length (s_rx s) - s_consumed s) ref2 txend spur, errs).

Fixpoint pmonitor_from (p : params) (i : nat) (oq : option pmon) (events : list (event * bool)) : list (nat * prule) :=
  match events with
  | [] => []
  | (e, pending) :: tl =>
      match e with
      | EApi a v =>
          let left := match oq with Some q => q_left q | None => 0%nat end in
          let q' := match a, oq with
                    | ApiOnline, Some q => mkPmon v pending (q_left q) (q_ref q) (q_txend q) (q_spur q)
                    | ApiPassive, Some q => q
                    | _, _ => pmon_reset v pending left
                    end in
          pmonitor_from p (S i) (Some q') tl
      | EPoll s =>
          match oq with
          | Some q => let (q', errs) := pmon_poll p q s pending in
                      map (fun r => (i, r)) errs ++ pmonitor_from p (S i) (Some q') tl
          | None => pmonitor_from p (S i) oq tl
          end
      | EPanic | ETimeout => pmonitor_from p (S i) oq tl
      end
  end.

(* only for parameters the builder can produce (as FdlOracle.monitor) *)
Definition pmonitor (p : params) (events : list (event * bool)) : list (nat * prule) :=
  if builder_validb p then pmonitor_from p 0 None events else [].
