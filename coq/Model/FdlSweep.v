(* Sweep-order and restart monitor for C12 (separate file so that Model/FdlOracle.v stays untouched).
   C12: "... one per token visit ..., SWEEPING the GAP and then pausing for the configured number of
   rotations, so that every GAP address is polled within a bounded number of token visits" - quantified
   over "successors changing during a sweep (discovered by the poll itself, removed, or learnt ...)" -
   and "... reporting 'not ready' until it has seen two identical token rotations ...".
   FdlOracle.v's R12_sweep_bound restarts its clocks whenever the successor changes (the GAP is another
   one then), so a sweep that is thrown back to TS+1 by every removal of the successor is not reported
   (seeded change R5-C12-2: do_check_token_pass resets the GAP cursor after remove_station; with a hung
   master in the GAP the addresses behind it are never polled).  And no rule looked at the ring view
   after set_offline (seeded change R5-C12-1: set_offline keeps the TokenRing, the station answers
   'ready' after offline/online without having seen any token).  Two rules over the implementation's
   transcript:
   P12_sweep_order   while the station's GAP cursor stays in its polling phase (v_gap_due, through the
                     hook) - no claim of the token, no re-creation of the station in between - two
                     consecutive GAP polls of the station go to consecutive addresses (a, then a+1, or
                     0 after HSA-1): a sweep only moves forward, whatever happens to the successor.
   P12_offline_forgets_ring   the view right after set_offline() (and after new) is that of a fresh
                     station: list of active stations not valid and = {TS}, NS = PS = TS; so 'ready' is
                     only reported after two identical rotations seen since the station went online.
   No proofs in this file. *)
From PB Require Export FdlOracle.

Inductive srule : Set := P12_sweep_order | P12_offline_forgets_ring.
Definition srule_prop (r : srule) : pid := PC12.

Definition gap_succ (hsa a : Z) : Z := if a =? hsa - 1 then 0 else a + 1.

(* the station's own GAP poll of this step (as FdlOracle.mon_poll2) *)
Definition own_gap_poll (ts : Z) (s : pstep) : option Z :=
  match s_tx s with
  | Some w =>
      match decode_one w with
      | Some (TData h _) =>
          if is_fdl_status_request h && (h_sa h =? ts) && negb (app_sent (s_calls s)) then Some (h_da h) else None
      | _ => None
      end
  | None => None
  end.

(* a token telegram of the station to itself from a state without the token: the claim of a lost token,
   which makes the GAP cursor start over (as FdlOracle.mon_poll2's claim_tx) *)
Definition claim_tx (ts : Z) (k0 : state_kind) (s : pstep) : bool :=
  kind_in k0 [KListenToken; KActiveIdle; KClaimToken] &&
  match s_tx s with
  | Some w => match decode_one w with Some (TToken da sa) => (sa =? ts) && (da =? ts) | _ => false end
  | None => false
  end.

Definition fresh_view (ts : Z) (v : view) : bool :=
  negb (v_las_valid v) && (v_ns v =? ts) && (v_ps v =? ts) &&
  match v_active v with [a] => a =? ts | _ => false end.

(* monitor state: the address of the last GAP poll of the current uninterrupted polling phase, and the state
   kind after the previous event *)
Definition sweep_poll (p : params) (k0 : state_kind) (last : option Z) (s : pstep) : option Z * list srule :=
  let ts := p_address p in
  match own_gap_poll ts s with
  | Some a =>
      (if v_gap_due (s_view s) then Some a else None,
       match last with
       | Some a0 => if a =? gap_succ (p_hsa p) a0 then [] else [P12_sweep_order]
       | None => []
       end)
  | None =>
      (* a poll that ends Offline: the station re-created itself (address collision while listening), cursor back to TS *)
      (if v_gap_due (s_view s) && negb (claim_tx ts k0 s) && negb (state_kind_eqb (v_kind (s_view s)) KOffline)
       then last else None, [])
  end.

Fixpoint smonitor_from (p : params) (i : nat) (k0 : state_kind) (last : option Z) (events : list event) : list (nat * srule) :=
  match events with
  | [] => []
  | e :: tl =>
      match e with
      | EApi a v =>
          let errs := match a, tl with
                      | (ApiOffline | ApiNew), EPanic :: _ => []
                      | (ApiOffline | ApiNew), _ => if fresh_view (p_address p) v then [] else [P12_offline_forgets_ring]
                      | _, _ => []
                      end in
          let last' := match a with ApiOffline | ApiNew => None | _ => last end in
          map (fun r => (i, r)) errs ++ smonitor_from p (S i) (v_kind v) last' tl
      | EPoll s =>
          let (last', errs) := sweep_poll p k0 last s in
          map (fun r => (i, r)) errs ++ smonitor_from p (S i) (v_kind (s_view s)) last' tl
      | EPanic | ETimeout => smonitor_from p (S i) k0 last tl
      end
  end.

(* only for parameters the builder can produce (as FdlOracle.monitor) *)
Definition smonitor (p : params) (events : list event) : list (nat * srule) :=
  if builder_validb p then smonitor_from p 0 KOffline None events else [].
