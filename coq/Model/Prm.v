(* Model of the user-parameter block builder of gsd-parser/src/lib.rs (property C20):
   UserPrmDataType::{size, write_value_to_slice}, PrmValueConstraint::assert_valid,
   UserPrmDataDefinition::{get_value_from_text, write_constrained_value_to_slice},
   UserPrmData::get_prm, PrmBuilder::{new, set_prm, set_prm_from_text, as_bytes}.

   The data type enum, its `size` table and the integer conversion of every integer arm of
   `write_value_to_slice` come from Generated/PrmTables.v (gen/tr_prm.py).

   Conventions: values are i64 (Z), bit positions u8 (Z, 0..255), offsets usize (nat), the block
   `prm: Vec<u8>` is `bytes`.  Parameter names and text keys are strings in the crate; the model uses
   numeric ids (the harness maps id k to the strings "p<k>" / "t<k>").  `&mut [u8]` arguments are
   state-passing: `write_value` returns the slice after the call also when the call returns Err.
   No proofs in this file. *)
From PB Require Import Common PrmTables.

(* ------------------------------------------------------------------ description structs *)

Inductive vconstraint : Type :=
| CMinMax (lo hi : Z)
| CEnum (vs : list Z)
| CUnconstrained.

(* UserPrmDataDefinition (changeable / visible play no role in the builder) *)
Record prm_def : Type := mkDef {
  d_name : Z;
  d_type : prm_dtype;
  d_default : Z;
  d_constraint : vconstraint;
  d_texts : option (list (Z * Z))      (* text_ref: BTreeMap<String, i64>, keys unique *)
}.

(* UserPrmData (the `length` field is not read by the builder) *)
Record desc : Type := mkDesc {
  consts : list (nat * bytes);         (* data_const: (offset, bytes) *)
  refs : list (nat * prm_def)          (* data_ref: (offset, definition) *)
}.

(* ------------------------------------------------------------------ write_value_to_slice *)

(* iN/uN::to_be_bytes of a value in range of the type: n bytes, big endian, two's complement *)
Fixpoint be_bytes (n : nat) (v : Z) : bytes :=
  match n with
  | O => []
  | S k => (v / 2 ^ (8 * Z.of_nat k)) mod 256 :: be_bytes k v
  end.

(* s[0] = (s[0] & !(1 << b)) | (value << b)   on u8 *)
Definition bit_byte (b v x : Z) : Z :=
  Z.lor (Z.land x (Z.lxor 255 (Z.shiftl 1 b))) (Z.shiftl v b).

(* s[0] = value << first   on u8 (bits shifted out are dropped) *)
Definition bitarea_byte (f v : Z) : Z := Z.shiftl v f mod 256.

(* Returns (true, slice') for Ok(()), (false, slice') for Err(PrmValueRangeError). *)
Definition write_value (dt : prm_dtype) (v : Z) (s : bytes) : res (bool * bytes) :=
  match dt_int dt with
  | Some (n, lo, hi) =>
      (* s[..n].copy_from_slice(&T::try_from(value)?.to_be_bytes()): the receiver s[..n] is
         evaluated first (index panic), then the conversion (Err), then the copy. *)
      if Nat.ltb (length s) n then Panic SiteIndex
      else if (lo <=? v) && (v <=? hi) then Ok (true, be_bytes n v ++ skipn n s)
      else Ok (false, s)
  | None =>
      match dt with
      | DtBit b =>
          (* if b > 7 || (value != 0 && value != 1) { return Err } ; assert!(..) *)
          if (7 <? b) || negb ((v =? 0) || (v =? 1)) then Ok (false, s)
          else match s with
               | [] => Panic SiteIndex
               | x :: r => Ok (true, bit_byte b v x :: r)
               end
      | DtBitArea f l =>
          (* if first > last || last > 7 { return Err } *)
          if (l <? f) || (7 <? l) then Ok (false, s)
          (* let bit_size = last - first + 1; if value < 0 || value >= 2i64.pow(bit_size) { return Err } *)
          else if (v <? 0) || (2 ^ (l - f + 1) <=? v) then Ok (false, s)
          (* u8::try_from(value)? *)
          else if 255 <? v then Ok (false, s)
          else match s with
               | [] => Panic SiteIndex
               | _ :: r => Ok (true, bitarea_byte f v :: r)
               end
      | _ => Panic SiteUnreachable   (* every integer variant has a dt_int entry *)
      end
  end.

(* ------------------------------------------------------------------ constraints, lookups *)

(* PrmValueConstraint::assert_valid(value).is_ok() *)
Definition constraint_valid (c : vconstraint) (v : Z) : bool :=
  match c with
  | CMinMax lo hi => negb ((v <? lo) || (hi <? v))
  | CEnum vs => existsb (Z.eqb v) vs
  | CUnconstrained => true
  end.

(* UserPrmData::get_prm: first reference whose definition has the name *)
Fixpoint find_ref (rs : list (nat * prm_def)) (name : Z) : option (nat * prm_def) :=
  match rs with
  | [] => None
  | (off, d) :: rs' => if d_name d =? name then Some (off, d) else find_ref rs' name
  end.

(* BTreeMap::get *)
Fixpoint assoc (l : list (Z * Z)) (k : Z) : option Z :=
  match l with
  | [] => None
  | (k', v) :: l' => if k' =? k then Some v else assoc l' k
  end.

(* ------------------------------------------------------------------ the block *)

(* update_prm_data_len(offset, size): push 0x00 until len >= offset + size *)
Definition grow (p : bytes) (n : nat) : bytes := p ++ repeat 0 (n - length p).

(* p[off .. off + |data|] = data *)
Definition splice (p : bytes) (off : nat) (data : bytes) : bytes :=
  firstn off p ++ data ++ skipn (off + length data) p.

(* write_const_prm_data *)
Fixpoint write_consts (cs : list (nat * bytes)) (p : bytes) : res bytes :=
  match cs with
  | [] => Ok p
  | (off, data) :: cs' =>
      let p1 := grow p (off + length data) in
      (* self.prm[*offset..(offset + data_const.len())] *)
      if Nat.leb (off + length data) (length p1) then write_consts cs' (splice p1 off data)
      else Panic SiteIndex
  end.

(* dt.write_value_to_slice(v, &mut prm[off..]) seen from the block *)
Definition write_in (p : bytes) (off : nat) (dt : prm_dtype) (v : Z) : res (bool * bytes) :=
  let* s := slice_from p off in
  let* (ok, s') := write_value dt v s in
  Ok (ok, firstn off p ++ s').

(* write_default_prm_data: None = Err(PrmValueRangeError) (the `?`) *)
Fixpoint write_defaults (rs : list (nat * prm_def)) (p : bytes) : res (option bytes) :=
  match rs with
  | [] => Ok (Some p)
  | (off, d) :: rs' =>
      let p1 := grow p (off + dt_size (d_type d)) in
      let* (ok, p2) := write_in p1 off (d_type d) (d_default d) in
      if ok then write_defaults rs' p2 else Ok None
  end.

(* PrmBuilder::new(desc).map(|b| b.as_bytes()) *)
Definition prm_new (d : desc) : res (option bytes) :=
  let* p := write_consts (consts d) [] in
  write_defaults (refs d) p.

(* ------------------------------------------------------------------ set_prm / set_prm_from_text *)

Inductive set_err : Set := ENotFound | EWithoutTexts | ETextNotFound | EConstraint | ERange.
Inductive set_res : Set := SOk | SErr (e : set_err).

(* data_ref.write_constrained_value_to_slice(&mut self.prm[offset..], value): the slice is taken
   by the caller first, then the constraint check, then the write. *)
Definition write_constrained (def : prm_def) (p : bytes) (off : nat) (v : Z) : res (set_res * bytes) :=
  let* s := slice_from p off in
  if negb (constraint_valid (d_constraint def) v) then Ok (SErr EConstraint, p)
  else
    let* (ok, s') := write_value (d_type def) v s in
    Ok (if ok then SOk else SErr ERange, firstn off p ++ s').

Definition set_prm (d : desc) (p : bytes) (name v : Z) : res (set_res * bytes) :=
  match find_ref (refs d) name with
  | None => Ok (SErr ENotFound, p)
  | Some (off, def) => write_constrained def p off v
  end.

Definition set_prm_from_text (d : desc) (p : bytes) (name text : Z) : res (set_res * bytes) :=
  match find_ref (refs d) name with
  | None => Ok (SErr ENotFound, p)
  | Some (off, def) =>
      match d_texts def with
      | None => Ok (SErr EWithoutTexts, p)
      | Some texts =>
          match assoc texts text with
          | None => Ok (SErr ETextNotFound, p)
          | Some v => write_constrained def p off v
          end
      end
  end.

(* as_bytes() is the block itself. *)
Definition as_bytes (p : bytes) : bytes := p.

(* ------------------------------------------------------------------ call sequences *)

Inductive op : Type :=
| OpSet (name v : Z)
| OpText (name text : Z).

Definition step (d : desc) (p : bytes) (o : op) : res (set_res * bytes) :=
  match o with
  | OpSet n v => set_prm d p n v
  | OpText n t => set_prm_from_text d p n t
  end.

(* results and blocks after every call; stops at the first panic *)
Fixpoint run (d : desc) (p : bytes) (ops : list op) : res (list (set_res * bytes)) :=
  match ops with
  | [] => Ok []
  | o :: ops' =>
      let* (r, p') := step d p o in
      let* rest := run d p' ops' in
      Ok ((r, p') :: rest)
  end.
