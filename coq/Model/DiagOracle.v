(* Specification side of C17: what "decoded correctly", "stored only if it fits" and "the blocks
   tile the buffer" mean, as executable predicates.  The theorems of Properties/C17.v are stated
   with these; the boolean versions are extracted and run on the implementation's outputs. *)
From PB Require Export Diag.
From PB Require Import Common Consts DiagTables.

(* ------------------------------------------------------------------ header *)

(* the 16-bit status word on the wire: bytes 0 and 1, little endian *)
Definition wire_flags (pdu : bytes) : Z := nth 0 pdu 0 + 256 * nth 1 pdu 0.

(* bit 10 (bit 2 of byte 1) is the always-one marker the code clears on purpose (DESIGN 4.0) *)
Definition cleared_bit : Z := 10.

Definition flags_faithfulb (pdu : bytes) (flags : Z) : bool :=
  (0 <=? flags) && (flags <? 65536) &&
  forallb (fun i => if Z.of_nat i =? cleared_bit then negb (Z.testbit flags (Z.of_nat i))
                    else Bool.eqb (Z.testbit flags (Z.of_nat i)) (Z.testbit (wire_flags pdu) (Z.of_nat i)))
          (seq 0 16).

(* the implementation reported `r` (None: reply rejected) for the PDU *)
Definition c17_header_ok (pdu : bytes) (r : option diag_info) : bool :=
  match r with
  | None => Nat.ltb (length pdu) 6
  | Some d =>
      Nat.leb 6 (length pdu) &&
      flags_faithfulb pdu (d_flags d) &&
      (d_ident d =? 256 * nth 4 pdu 0 + nth 5 pdu 0) &&
      opt_eqb (d_master d) (if nth 3 pdu 0 =? 255 then None else Some (nth 3 pdu 0))
  end.

(* ------------------------------------------------------------------ buffer *)

Definition opt_bytes_eqb (a b : option bytes) : bool :=
  match a, b with
  | None, None => true
  | Some x, Some y => bytes_eqb x y
  | _, _ => false
  end.

(* capacity `cap` (0 = no buffer), visible content before `prev`, string offered `ext`;
   the implementation returned `ok` and shows `now` afterwards *)
Definition c17_fill_ok (cap : nat) (prev : option bytes) (ext : bytes) (ok : bool) (now : option bytes) : bool :=
  Bool.eqb ok (Nat.ltb 0 cap && Nat.leb (length ext) cap) &&
  (if ok then opt_bytes_eqb now (Some ext) else opt_bytes_eqb now prev) &&
  (match now with None => Nat.eqb cap 0 | Some r => Nat.ltb 0 cap && Nat.leb (length r) cap end).

(* ------------------------------------------------------------------ blocks *)

(* The block that starts a byte string: its announced length, if it is well formed and complete.
   Header byte: bits 7..6 = type (00 device, 01 identifier, 10 channel, 11 reserved), bits 5..0 =
   length including the header (device, identifier) resp. module number (channel, always 3 bytes). *)
Definition announced (rem : bytes) : option nat :=
  match rem with
  | [] => None
  | h :: _ =>
      let ty := h / 64 in
      if ty =? 2 then (if Nat.leb 3 (length rem) then Some 3%nat else None)
      else if (ty =? 0) || (ty =? 1) then
        let n := Z.to_nat (h mod 64) in
        if Nat.eqb n 0 then None else if Nat.leb n (length rem) then Some n else None
      else None
  end.

(* The specification tables of the third byte of a channel-related block (hand written from the
   DP-V0 coding, NOT generated from the source: the generated tables are proved equal to them).
   bits 7..5: 001 bit, 010 2 bits, 011 4 bits, 100 byte, 101 word, 110 2 words, 000/111 no type;
   bits 4..0: 1 short circuit, 2 undervoltage, 3 overvoltage, 4 overload, 5 overtemperature,
   6 line break, 7 upper limit exceeded, 8 lower limit exceeded, 9 error, 16..31 manufacturer
   specific, others reserved. *)
Definition dtype_spec (t : Z) : chan_dtype :=
  if t =? 1 then DtBit else if t =? 2 then DtBit2 else if t =? 3 then DtBit4
  else if t =? 4 then DtByte else if t =? 5 then DtWord else if t =? 6 then DtDWord
  else DtInvalid.

Definition error_spec (e : Z) : chan_error :=
  if e =? 1 then CeShortCircuit else if e =? 2 then CeUnderVoltage else if e =? 3 then CeOverVoltage
  else if e =? 4 then CeOverLoad else if e =? 5 then CeOverTemperature else if e =? 6 then CeLineBreak
  else if e =? 7 then CeUpperLimitOvershoot else if e =? 8 then CeLowerLimitUndershoot
  else if e =? 9 then CeError
  else if (16 <=? e) && (e <=? 31) then CeVendor e
  else CeReserved e.

Definition chan_spec (h b1 b2 : Z) : chan_diag :=
  mkChan (h mod 64) (b1 mod 64) (Z.testbit b1 6) (Z.testbit b1 7)
         (dtype_spec (b2 / 32)) (error_spec (b2 mod 32)).

(* Channel-related diagnosis, third byte: bits 7..5 = channel data type (the enum discriminant is the
   code, 000 and 111 have no type), bits 4..0 = error (1..9 named, 16..31 vendor specific, the rest
   reserved; the number is kept). *)
Definition dtype_as_specified (t : Z) (d : chan_dtype) : Prop :=
  if (1 <=? t) && (t <=? 6) then chan_dtype_disc d = t else d = DtInvalid.

Definition error_as_specified (e : Z) (x : chan_error) : Prop :=
  chan_error_to_byte2 x = e /\
  (if (1 <=? e) && (e <=? 9) then chan_error_disc x = Some e
   else if 16 <=? e then x = CeVendor e else x = CeReserved e).

(* decoding of exactly the bytes of one block *)
Definition decode_block (w : bytes) : option block :=
  match w with
  | [] => None
  | h :: tl =>
      let ty := h / 64 in
      if ty =? 0 then Some (BDevice tl)
      else if ty =? 1 then Some (BIdent tl)
      else if ty =? 2 then
        match tl with
        | [b1; b2] => Some (BChannel (chan_spec h b1 b2))
        | _ => None
        end
      else None
  end.

(* `bs` is THE decomposition of raw from offset off: consecutive blocks, each starting where the
   previous one ended, each well formed, complete and of its announced length, decoded from exactly
   its bytes; after the last one the buffer ends or a malformed / truncated block starts. *)
Fixpoint tiles (raw : bytes) (off : nat) (bs : list lblock) : Prop :=
  match bs with
  | [] => announced (skipn off raw) = None
  | b :: bs' =>
      l_off b = off /\
      announced (skipn off raw) = Some (l_len b) /\
      (1 <= l_len b)%nat /\ (off + l_len b <= length raw)%nat /\
      decode_block (firstn (l_len b) (skipn off raw)) = Some (l_blk b) /\
      tiles raw (off + l_len b) bs'
  end.

(* boolean equality of blocks *)
Definition chan_error_eqb (a b : chan_error) : bool :=
  match a, b with
  | CeReserved x, CeReserved y => x =? y
  | CeVendor x, CeVendor y => x =? y
  | _, _ =>
      match chan_error_disc a, chan_error_disc b with
      | Some x, Some y => x =? y
      | _, _ => false
      end
  end.

Definition chan_dtype_eqb (a b : chan_dtype) : bool := chan_dtype_disc a =? chan_dtype_disc b.

Definition chan_eqb (a b : chan_diag) : bool :=
  (c_module a =? c_module b) && (c_channel a =? c_channel b) &&
  Bool.eqb (c_input a) (c_input b) && Bool.eqb (c_output a) (c_output b) &&
  chan_dtype_eqb (c_dtype a) (c_dtype b) && chan_error_eqb (c_error a) (c_error b).

Definition block_eqb (a b : block) : bool :=
  match a, b with
  | BIdent x, BIdent y => bytes_eqb x y
  | BDevice x, BDevice y => bytes_eqb x y
  | BChannel x, BChannel y => chan_eqb x y
  | _, _ => false
  end.

(* the oracle run on the implementation's block list (the offsets are recomputed here) *)
Fixpoint tilesb (raw : bytes) (off : nat) (bs : list block) : bool :=
  match bs with
  | [] => match announced (skipn off raw) with None => true | Some _ => false end
  | b :: bs' =>
      match announced (skipn off raw) with
      | None => false
      | Some n =>
          match decode_block (firstn n (skipn off raw)) with
          | Some b' => block_eqb b b' && tilesb raw (off + n) bs'
          | None => false
          end
      end
  end.

Definition c17_tiles_ok (raw : bytes) (bs : list block) : bool := tilesb raw 0 bs.

(* an identifier block's set-bit list as reported by the implementation *)
Definition c17_ones_ok (d : bytes) (ones : list nat) : bool :=
  Nat.eqb (length ones) (length (ident_ones d)) &&
  forallb (fun p => Nat.eqb (fst p) (snd p)) (combine ones (ident_ones d)).

(* ------------------------------------------------------------------ a reply through the DP path *)

Definition diag_eqb (a b : option diag_info) : bool :=
  match a, b with
  | None, None => true
  | Some x, Some y => (d_flags x =? d_flags y) && (d_ident x =? d_ident y) && opt_eqb (d_master x) (d_master y)
  | _, _ => false
  end.

(* which replies count as an answer to Slave_Diag: data telegram, SAPs 60 -> 62, at least 6 bytes *)
Definition reply_accepted (r : reply) : bool :=
  match r with
  | RShortConf => false
  | RData dsap ssap pdu => opt_eqb dsap SAP_MASTER_MS0 && opt_eqb ssap SAP_SLAVE_DIAGNOSIS && Nat.leb 6 (length pdu)
  end.

(* what raw_diag_buffer() shows *)
Definition ext_visible (e : ext_diag) : option bytes :=
  if ext_available e then Some (firstn (e_len e) (e_buf e)) else None.

(* capacity, (diagnostics, visible ext) before, the reply, (diagnostics, visible ext) after *)
Definition c17_reply_ok (cap : nat) (prev_diag : option diag_info) (prev_raw : option bytes)
           (r : reply) (now_diag : option diag_info) (now_raw : option bytes) : bool :=
  match r with
  | RData _ _ pdu =>
      if reply_accepted r then
        match now_diag with Some _ => true | None => false end &&
        c17_header_ok pdu now_diag &&
        (* "stored only if they fit": a string that does not fit (or no buffer) is never stored.
           EXT_DIAG (bit 3 of byte 0) set: stored iff a buffer exists and the string fits.
           EXT_DIAG clear: the property text does not say whether trailing bytes are recorded, so both
           outcomes are accepted - unchanged (what the code does; the model theorems pin that down), or,
           when the reply carries ext bytes and they fit, stored. *)
        (let fits := Nat.ltb 0 cap && Nat.leb (length pdu - 6) cap in
         if Z.testbit (nth 0 pdu 0) 3
         then (if fits then opt_bytes_eqb now_raw (Some (skipn 6 pdu)) else opt_bytes_eqb now_raw prev_raw)
         else opt_bytes_eqb now_raw prev_raw ||
              (Nat.ltb 6 (length pdu) && fits && opt_bytes_eqb now_raw (Some (skipn 6 pdu))))
      else diag_eqb now_diag prev_diag && opt_bytes_eqb now_raw prev_raw
  | RShortConf => diag_eqb now_diag prev_diag && opt_bytes_eqb now_raw prev_raw
  end.

(* the scanner reports (ident, master address) for a Slave_Diag reply with the right SAPs *)
Definition c17_scan_ok (pdu : bytes) (r : option (Z * option Z)) : bool :=
  match r with
  | None => Nat.ltb (length pdu) 6
  | Some (ident, master) =>
      Nat.leb 6 (length pdu) &&
      (ident =? 256 * nth 4 pdu 0 + nth 5 pdu 0) &&
      opt_eqb master (if nth 3 pdu 0 =? 255 then None else Some (nth 3 pdu 0))
  end.

(* ------------------------------------------------------------------ vocabulary of the theorems *)

(* invariant of the container: the valid length is inside the buffer; its bytes are bytes *)
Definition ext_wf (e : ext_diag) : Prop := (e_len e <= length (e_buf e))%nat.
Definition ext_ok (e : ext_diag) : Prop := ext_wf e /\ all_bytes (e_buf e).

Definition reply_bytes (r : reply) : Prop :=
  match r with RData _ _ pdu => all_bytes pdu | RShortConf => True end.

(* a yielded block in terms of the buffer bytes at its offset *)
Definition block_explicit (raw : bytes) (b : lblock) : Prop :=
  let h := nth (l_off b) raw 0 in
  match l_blk b with
  | BDevice d => h / 64 = 0 /\ l_len b = Z.to_nat (h mod 64) /\ d = firstn (l_len b - 1) (skipn (S (l_off b)) raw)
  | BIdent d => h / 64 = 1 /\ l_len b = Z.to_nat (h mod 64) /\ d = firstn (l_len b - 1) (skipn (S (l_off b)) raw)
  | BChannel c => h / 64 = 2 /\ l_len b = 3%nat /\
                  c = chan_spec h (nth (l_off b + 1) raw 0) (nth (l_off b + 2) raw 0)
  end.
