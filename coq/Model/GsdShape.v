(* C19 - which pair trees can pest produce for a grammar?  (executable part; proofs in Proofs/C19Proofs.v)

   For every rule the sequence of INNER pairs of a pair of that rule is a word of a regular language over
   rule names, computed from the grammar value `GsdGrammar.grammar` by `child_rx`:
     - terminals (strings, case-insensitive strings, character ranges, ANY, NEWLINE, SOI, ASCII_x) and the
       predicates (negative and positive lookahead) produce no pairs,
     - EOI produces one pair of rule EOI,
     - a call of a normal / atomic / compound-atomic rule produces exactly one pair of that rule,
     - a call of a silent rule (modifier _) is replaced by the language of its body,
     - a pair of an atomic rule (modifier @) has no inner pairs,
     - the implicit WHITESPACE / COMMENT skipping contributes nothing because both rules are silent
       (`implicit_silent`, checked by computation in the proofs).
   `shapeb` checks a whole tree against these languages with Brzozowski derivatives; the correspondence
   driver runs it on every pair tree that the real pest parser produced. *)
From PB Require Import Common GsdGrammar GsdInterp.

Inductive rx : Type :=
| RNone                      (* the empty language *)
| REps
| RSym (r : rule)
| RSeq (a b : rx)
| RAlt (a b : rx)
| RStar (a : rx).

(* smart constructors (only used to keep the computed expressions small) *)
Definition rseq (a b : rx) : rx :=
  match a, b with
  | RNone, _ => RNone
  | _, RNone => RNone
  | REps, _ => b
  | _, REps => a
  | _, _ => RSeq a b
  end.
Definition ralt (a b : rx) : rx :=
  match a, b with
  | RNone, _ => b
  | _, RNone => a
  | _, _ => RAlt a b
  end.
Definition rstar (a : rx) : rx :=
  match a with
  | RNone => REps
  | REps => REps
  | _ => RStar a
  end.

Fixpoint lookup_rule (r : rule) (g : list (rule * modifier * expr)) : option (modifier * expr) :=
  match g with
  | [] => None
  | (r', m, e) :: rest => if rule_eqb r r' then Some (m, e) else lookup_rule r rest
  end.

(* language of the inner pairs produced by an expression; silent rules are inlined (fuel: nesting depth) *)
Fixpoint rx_of (g : list (rule * modifier * expr)) (fuel : nat) : expr -> rx :=
  fix go (e : expr) : rx :=
    match e with
    | EStr _ | EInsens _ | ERange _ _ => REps
    | EBuiltin B_EOI => RSym R_EOI
    | EBuiltin _ => REps
    | ERule r =>
        match lookup_rule r g with
        | Some (MSilent, body) =>
            match fuel with
            | S f => rx_of g f body
            | O => RNone
            end
        | _ => RSym r
        end
    | ESeq a b => rseq (go a) (go b)
    | EChoice a b => ralt (go a) (go b)
    | EOpt a => ralt (go a) REps
    | ERep a => rstar (go a)
    | ERepPlus a => rseq (go a) (rstar (go a))
    | EPos _ | ENeg _ => REps
    end.

Definition child_rx_in (g : list (rule * modifier * expr)) (r : rule) : rx :=
  match lookup_rule r g with
  | Some (MAtomic, _) => REps
  | Some (_, body) => rx_of g (length g) body
  | None => REps                                   (* EOI *)
  end.

Definition child_rx (r : rule) : rx := child_rx_in grammar r.

(* the implicit skipping rules are silent (or absent), so they never show up as pairs *)
Definition implicit_silent (g : list (rule * modifier * expr)) : bool :=
  match lookup_rule R_WHITESPACE g with Some (MSilent, _) | None => true | _ => false end &&
  match lookup_rule R_COMMENT g with Some (MSilent, _) | None => true | _ => false end.

(* ------------------------------------------------------------------------------------------ matching *)

Fixpoint nullable (re : rx) : bool :=
  match re with
  | RNone => false
  | REps => true
  | RSym _ => false
  | RSeq a b => nullable a && nullable b
  | RAlt a b => nullable a || nullable b
  | RStar _ => true
  end.

Fixpoint deriv (x : rule) (re : rx) : rx :=
  match re with
  | RNone | REps => RNone
  | RSym r => if rule_eqb x r then REps else RNone
  | RSeq a b => if nullable a then ralt (rseq (deriv x a) b) (deriv x b) else rseq (deriv x a) b
  | RAlt a b => ralt (deriv x a) (deriv x b)
  | RStar a => rseq (deriv x a) (RStar a)
  end.

Fixpoint rmatch (re : rx) (w : list rule) : bool :=
  match w with
  | [] => nullable re
  | x :: w' => rmatch (deriv x re) w'
  end.

Fixpoint shapeb (t : tree) : bool :=
  match t with
  | Node r _ cs =>
      rmatch (child_rx r) (map root cs) &&
      (fix all (l : list tree) : bool := match l with [] => true | c :: l' => shapeb c && all l' end) cs
  end.

(* the set of rules that can occur in a word of the language *)
Fixpoint syms (re : rx) : list rule :=
  match re with
  | RNone | REps => []
  | RSym r => [r]
  | RSeq a b | RAlt a b => syms a ++ syms b
  | RStar a => syms a
  end.

(* size of a tree (statistics of the driver) *)
Fixpoint tree_size (t : tree) : nat :=
  match t with
  | Node _ _ cs => S ((fix sum (l : list tree) : nat := match l with [] => O | c :: l' => (tree_size c + sum l')%nat end) cs)
  end.

(* ------------------------------------------------------------------------------------------ the shape predicate *)

(* `Shape t`: every pair of t has inner pairs that form a word of the language computed from the grammar
   for its rule, recursively.  (`shapeb` is its decision procedure: Proofs/C19Proofs.v shapeb_sound.) *)
Inductive Shape : tree -> Prop :=
| Shape_node : forall r txt cs, Kids (child_rx r) cs -> Shape (Node r txt cs)
with Kids : rx -> list tree -> Prop :=
| K_eps : Kids REps []
| K_sym : forall r c, root c = r -> Shape c -> Kids (RSym r) [c]
| K_seq : forall a b l1 l2, Kids a l1 -> Kids b l2 -> Kids (RSeq a b) (l1 ++ l2)
| K_altl : forall a b l, Kids a l -> Kids (RAlt a b) l
| K_altr : forall a b l, Kids b l -> Kids (RAlt a b) l
| K_star0 : forall a, Kids (RStar a) []
| K_star1 : forall a l1 l2, Kids a l1 -> Kids (RStar a) l2 -> Kids (RStar a) (l1 ++ l2).
