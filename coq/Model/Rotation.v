(* Abstract token rotation: the N stations of a stable ring are visited round-robin; visit v
   (v = 0, 1, 2, ...) is station (v mod N), the token arrives there at time t v and leaves
   after hold time h v plus hand-over cost o v:  t (v+1) = t v + h v + o v.
   No proofs here. *)
From Coq Require Export ZArith Lia.
Open Scope Z_scope.

Record rotation_trace : Type := mkTrace {
  rt_n : nat;              (* number of stations in the ring, >= 1 *)
  rt_t : nat -> Z;         (* arrival time of the token at visit v *)
  rt_h : nat -> Z;         (* time the token is held at visit v *)
  rt_o : nat -> Z          (* hand-over cost after visit v (token telegram, idle times, retries) *)
}.

(* the trace is a run of a ring: times add up, nothing is negative *)
Definition trace_wf (r : rotation_trace) : Prop :=
  (1 <= rt_n r)%nat /\
  forall v, rt_t r (S v) = rt_t r v + rt_h r v + rt_o r v /\ 0 <= rt_h r v /\ 0 <= rt_o r v.

(* Every station obeys the hold rule (C13_hold_rule is the per-station theorem that the code
   does): from its second visit on, it holds the token for at most the part of the target
   rotation time TTR that is left since its previous receipt, plus one message cycle of at
   most C (it may always perform one); hand-over costs at most O. *)
Definition obeys_hold_rule (r : rotation_trace) (TTR C O : Z) : Prop :=
  forall v, (rt_n r <= v)%nat ->
    rt_h r v <= Z.max 0 (TTR - (rt_t r v - rt_t r (v - rt_n r))) + C /\ rt_o r v <= O.
